import Cuke.Lemmas.SchedInv
import Cuke.Lemmas.Brackets
/-!
  C03 over whole runs of the scheduler LTS: the bracket LEDGER as an invariant of `accept`.
  `hist s` = everything sent so far followed by everything still owed (`expect`). For every log replayed without
  a class-B disagreement: per feature (rule), #Started = #Finished + [still open in the bookkeeping] over
  `hist` — so once `finish_all_rules_and_features` has run and nothing is owed any more, every Started
  feature / rule has exactly as many Finished as Started in the stream that was actually sent.
-/
namespace Cuke.SchedBr
open Cuke List Cuke.BrL Cuke.SchedL Cuke.SchedInv

set_option linter.unusedSimpArgs false
set_option linter.unusedVariables false

def GoodB (s : SState) : Bool := s.dis.all (fun d => d.cls != .B)

theorem goodB_note (s : SState) (cls : DClass) (m : String) (h : GoodB (s.note cls m) = true) :
    GoodB s = true ∧ cls ≠ .B := by
  simp only [GoodB, SState.note, all_append, Bool.and_eq_true, all_cons, all_nil, Bool.and_true] at h ⊢
  exact ⟨h.1, by simpa using h.2⟩

theorem goodB_of_prefix (s s' : SState) (h : s.dis <+: s'.dis) (hg : GoodB s' = true) : GoodB s = true := by
  obtain ⟨t, ht⟩ := h
  simp only [GoodB, ← ht, all_append, Bool.and_eq_true] at hg
  exact hg.1

theorem goodB_step_mono (c : SCfg) (s : SState) (l : Label) (hg : GoodB (stepL c s l) = true) : GoodB s = true :=
  goodB_of_prefix s _ (dis_prefix c s l) hg

/-- the events an expectation list still owes -/
def expEvents : List Exp → List Ev
  | [] => []
  | .one e :: rest => e :: expEvents rest
  | .anyOf es :: rest => es ++ expEvents rest

theorem expEvents_append (a b : List Exp) : expEvents (a ++ b) = expEvents a ++ expEvents b := by
  induction a with
  | nil => rfl
  | cons x a ih => cases x <;> simp [expEvents, ih]

theorem expEvents_map_one (l : List Ev) : expEvents (l.map Exp.one) = l := by
  induction l with
  | nil => rfl
  | cons x l ih => simp [expEvents, ih]

theorem expEvents_empty (l : List Exp) (h : expEmpty l = true) : expEvents l = [] := by
  induction l with
  | nil => rfl
  | cons x l ih =>
    simp only [expEmpty, all_cons, Bool.and_eq_true] at h
    cases x with
    | one e => simp at h
    | anyOf es =>
      cases es with
      | nil => simpa [expEvents] using ih (by simpa [expEmpty] using h.2)
      | cons a as => simp at h

/-- everything sent, then everything owed -/
def hist (s : SState) : List Ev := s.out ++ expEvents s.expect

def isBr : Ev → Bool
  | .featStarted _ => true
  | .featFinished _ => true
  | .ruleStarted _ _ => true
  | .ruleFinished _ _ => true
  | _ => false

/-- same number of every bracket event -/
def SameBr (a b : List Ev) : Prop := ∀ e, isBr e = true → cnt e a = cnt e b

theorem sameBr_refl (a : List Ev) : SameBr a a := fun _ _ => rfl

theorem sameBr_of_perm (a b : List Ev) (h : a ~ b) : SameBr a b := fun e _ => by
  simp only [cnt]; exact h.count_eq e

theorem featLedger_congr (b : Brackets) (evs evs' : List Ev) (h : SameBr evs evs') (hl : FeatLedger b evs) :
    FeatLedger b evs' := by
  refine ⟨hl.1, fun f => ?_⟩
  rw [← h (.featStarted f) rfl, ← h (.featFinished f) rfl]
  exact hl.2 f

theorem ruleLedger_congr (b : Brackets) (evs evs' : List Ev) (h : SameBr evs evs') (hl : RuleLedger b evs) :
    RuleLedger b evs' := by
  refine ⟨hl.1, fun f r => ?_⟩
  rw [← h (.ruleStarted f r) rfl, ← h (.ruleFinished f r) rfl]
  exact hl.2 f r

def BInv (s : SState) : Prop := FeatLedger s.br (hist s) ∧ RuleLedger s.br (hist s)

theorem binv_congr (s s' : SState) (hb : s'.br = s.br) (h : SameBr (hist s) (hist s')) (hi : BInv s) : BInv s' := by
  unfold BInv
  rw [hb]
  exact ⟨featLedger_congr _ _ _ h hi.1, ruleLedger_congr _ _ _ h hi.2⟩

/-- consuming an expected event removes exactly one occurrence of it from what is owed -/
theorem takeExp_perm (e : Ev) (l rest : List Exp) (h : takeExp e l = some rest) : expEvents l ~ e :: expEvents rest := by
  induction l generalizing rest with
  | nil => simp [takeExp] at h
  | cons x l ih =>
    cases x with
    | one y =>
      simp only [takeExp] at h
      split at h
      · rename_i hy
        have : y = e := by simpa using hy
        subst this
        simp only [Option.some.injEq] at h
        subst h
        exact Perm.refl _
      · cases h
    | anyOf es =>
      cases es with
      | nil =>
        simp only [takeExp] at h
        simpa [expEvents] using ih rest h
      | cons a as =>
        simp only [takeExp] at h
        split at h
        · rename_i hc
          simp only [Option.some.injEq] at h
          subst h
          have hm : e ∈ a :: as := by simpa using hc
          simp only [expEvents]
          have := perm_cons_erase hm
          exact (this.append_right _).trans (by simp)
        · cases h

theorem cnt_nonbr_single (e x : Ev) (he : isBr e = true) (hx : isBr x = false) : cnt e [x] = 0 := by
  apply cnt_zero_of_not_mem
  intro hm
  have : e = x := by simpa using hm
  subst this
  rw [he] at hx; cases hx

/-- appending an event that is not a bracket event changes no bracket count -/
theorem sameBr_insert_nonbr (a b : List Ev) (x : Ev) (hx : isBr x = false) : SameBr (a ++ b) (a ++ [x] ++ b) := by
  intro e he
  simp only [cnt_append, cnt_nonbr_single e x he hx, Nat.add_zero]

/-! ## labels that touch neither the stream, nor what is owed, nor the bookkeeping -/

def Same3 (s s' : SState) : Prop := s'.out = s.out ∧ s'.expect = s.expect ∧ s'.br = s.br

theorem binv_same3 (s s' : SState) (h : Same3 s s') (hi : BInv s) : BInv s' := by
  obtain ⟨h1, h2, h3⟩ := h
  unfold BInv hist
  rw [h1, h2, h3]; exact hi

syntax "same3_simp" : tactic
macro_rules
  | `(tactic| same3_simp) => `(tactic|
      (simp only [stepL]
       repeat' split
       all_goals (first
         | exact ⟨rfl, rfl, rfl⟩
         | (refine ⟨?_, ?_, ?_⟩ <;> simp [SState.note, SState.inPhase, SState.followQueues] <;> (repeat' split) <;> simp [SState.note]))))

theorem s3_other (c : SCfg) (s : SState) : Same3 s (stepL c s .other) := by same3_simp
theorem s3_verdict (c : SCfg) (s : SState) (b : Bool) (x y z : Nat) : Same3 s (stepL c s (.verdict b x y z)) := by same3_simp
theorem s3_poll (c : SCfg) (s : SState) : Same3 s (stepL c s .poll) := by same3_simp
theorem s3_rx (c : SCfg) (s : SState) (e : Ev) : Same3 s (stepL c s (.rx e)) := by same3_simp
theorem s3_cbIn (c : SCfg) (s : SState) (a b t : Nat) : Same3 s (stepL c s (.cbIn a b t)) := by same3_simp
theorem s3_cbOut (c : SCfg) (s : SState) (a b t : Nat) : Same3 s (stepL c s (.cbOut a b t)) := by same3_simp
theorem s3_env (c : SCfg) (s : SState) : Same3 s (stepL c s .envMove) := by same3_simp
theorem s3_pPend (c : SCfg) (s : SState) : Same3 s (stepL c s .pPend) := by same3_simp
theorem s3_pWake (c : SCfg) (s : SState) : Same3 s (stepL c s .pWake) := by same3_simp
theorem s3_pOk (c : SCfg) (s : SState) (f : Nat) : Same3 s (stepL c s (.pOk f)) := by same3_simp
theorem s3_pFinish (c : SCfg) (s : SState) : Same3 s (stepL c s .pFinish) := by same3_simp
theorem s3_ins (c : SCfg) (s : SState) (t : Nat) (a b : List QE) : Same3 s (stepL c s (.ins t a b)) := by same3_simp
theorem s3_get1 (c : SCfg) (s : SState) (t : Nat) (ask : Option Nat) (ns nc : Nat) : Same3 s (stepL c s (.get1 t ask ns nc)) := by same3_simp
theorem s3_idleYield (c : SCfg) (s : SState) : Same3 s (stepL c s .idleYield) := by same3_simp
theorem s3_idleSlept (c : SCfg) (s : SState) : Same3 s (stepL c s .idleSlept) := by same3_simp
theorem s3_idleContinue (c : SCfg) (s : SState) : Same3 s (stepL c s .idleContinue) := by same3_simp
theorem s3_cons (c : SCfg) (s : SState) (b : Bool) : Same3 s (stepL c s (.cons b)) := by same3_simp
theorem s3_endA (c : SCfg) (s : SState) (id : Nat) (f r : Bool) (t : Nat) : Same3 s (stepL c s (.endA id f r t)) := by same3_simp
theorem s3_brk (c : SCfg) (s : SState) : Same3 s (stepL c s .brk) := by same3_simp
theorem s3_exit (c : SCfg) (s : SState) : Same3 s (stepL c s .exit) := by same3_simp

/-! ## the labels that do -/

theorem sameBr_append_nonbr (a : List Ev) (x : Ev) (hx : isBr x = false) : SameBr a (a ++ [x]) := by
  intro e he
  simp only [cnt_append, cnt_nonbr_single e x he hx, Nat.add_zero]

theorem ced_fields (s : SState) (x : String) (hg : GoodB (s.checkExpectDone x) = true) :
    (s.checkExpectDone x).out = s.out ∧ (s.checkExpectDone x).br = s.br ∧
    expEvents (s.checkExpectDone x).expect = expEvents s.expect ∧ GoodB s = true := by
  unfold SState.checkExpectDone at hg ⊢
  split
  · rename_i he
    simp only [he, if_true] at hg
    exact ⟨rfl, rfl, by simp [expEvents, expEvents_empty s.expect he], hg⟩
  · rename_i he
    simp only [he, Bool.false_eq_true, if_false] at hg
    exact absurd rfl (goodB_note _ _ _ hg).2

theorem inPhase_fields (s : SState) (ok what) :
    (s.inPhase ok what).out = s.out ∧ (s.inPhase ok what).br = s.br ∧ (s.inPhase ok what).expect = s.expect := by
  unfold SState.inPhase; split <;> simp [SState.note]

theorem goodB_inPhase (s : SState) (ok what) (h : GoodB (s.inPhase ok what) = true) : GoodB s = true :=
  goodB_of_prefix s _ (inPhase_prefix s ok what) h

theorem hist_pos (s : SState) : hist ({ s with pos := s.pos + 1 } : SState) = hist s := rfl

/-- owing one more non-bracket event changes no bracket count -/
theorem binv_owe_nonbr (s s' : SState) (x : Ev) (hx : isBr x = false) (ho : s'.out = s.out) (hb : s'.br = s.br)
    (he : s'.expect = s.expect ++ [.one x]) (hi : BInv s) : BInv s' := by
  apply binv_congr s s' hb _ hi
  unfold hist
  rw [ho, he, expEvents_append]
  simp only [expEvents, ← append_assoc]
  exact sameBr_append_nonbr _ x hx

theorem hookTake_binv (c : SCfg) (s : SState) (hi : BInv s) : BInv (stepL c s .hookTake) := by
  have hf := inPhase_fields ({ s with pos := s.pos + 1 } : SState) [.init] "panic hook taken"
  exact binv_owe_nonbr s _ .started rfl (by simp [stepL, hf.1]) (by simp [stepL, hf.2.1]) (by simp [stepL, hf.2.2]) hi

theorem pErr_binv (c : SCfg) (s : SState) (hi : BInv s) : BInv (stepL c s .pErr) := by
  refine binv_owe_nonbr s _ (.parseErr s.nextPE) rfl ?_ ?_ ?_ hi
  · simp only [stepL]; split <;> simp [SState.note]
  · simp only [stepL]; split <;> simp [SState.note]
  · simp only [stepL]; split <;> simp [SState.note]

theorem pEnd_binv (c : SCfg) (s : SState) (hi : BInv s) : BInv (stepL c s .pEnd) :=
  binv_owe_nonbr s _ (.parsingFinished s.cFeatures s.cRules s.cScenarios s.cSteps s.cErrors) rfl rfl rfl rfl hi

/-- an event is sent -/
theorem tx_binv (c : SCfg) (s : SState) (e : Ev) (hi : BInv s) (hg : GoodB (stepL c s (.tx e)) = true) :
    BInv (stepL c s (.tx e)) := by
  have scen_case : ∀ (k : ScenKey) (ret : Option Retries) (se : ScenEv), BInv (stepL c s (.tx (.scen k ret se))) := by
    intro k ret se
    refine binv_congr s _ ?_ ?_ hi
    · simp only [stepL]; split <;> simp [SState.note]
    · have : hist (stepL c s (.tx (.scen k ret se))) = s.out ++ [.scen k ret se] ++ expEvents s.expect := by
        simp only [stepL, hist]; split <;> simp [SState.note]
      rw [this]
      exact sameBr_insert_nonbr s.out (expEvents s.expect) _ rfl
  -- every other event goes through `takeExp`
  have other_case : ∀ (e : Ev) (cls : DClass) (msg : String), (∀ k r x, e ≠ .scen k r x) →
      (isBr e = true → cls = .B) →
      ∀ s', s' = (match takeExp e s.expect with
        | some rest => ({ ({ s with pos := s.pos + 1 } : SState) with out := s.out ++ [e], expect := rest } : SState)
        | none => (({ ({ s with pos := s.pos + 1 } : SState) with out := s.out ++ [e] } : SState).note cls msg)) →
      GoodB s' = true → BInv s' := by
    intro e cls msg _ hcls s' hs' hg'
    cases ht : takeExp e s.expect with
    | some rest =>
      rw [ht] at hs'
      simp only at hs'
      subst hs'
      refine binv_congr s _ ?_ ?_ hi
      · rfl
      have hp := takeExp_perm e s.expect rest ht
      apply sameBr_of_perm
      simp only [hist]
      have : s.out ++ [e] ++ expEvents rest = s.out ++ (e :: expEvents rest) := by simp
      rw [this]
      exact Perm.append_left _ hp
    | none =>
      rw [ht] at hs'
      simp only at hs'
      subst hs'
      have hne := (goodB_note _ _ _ hg').2
      have hnb : isBr e = false := by
        cases hb : isBr e with
        | false => rfl
        | true => exact absurd (hcls hb) hne
      refine binv_congr s _ (by simp [SState.note]) ?_ hi
      have : hist ((({ ({ s with pos := s.pos + 1 } : SState) with out := s.out ++ [e] } : SState).note cls msg)) =
          s.out ++ [e] ++ expEvents s.expect := by simp [hist, SState.note]
      rw [this]
      exact sameBr_insert_nonbr s.out (expEvents s.expect) e hnb
  cases e with
  | scen k ret se => exact scen_case k ret se
  | started => exact other_case .started .I _ (by intro k r x h; cases h) (by intro h; cases h) _ rfl hg
  | parsingFinished a b d f g => exact other_case (.parsingFinished a b d f g) .I _ (by intro k r x h; cases h) (by intro h; cases h) _ rfl hg
  | parseErr i => exact other_case (.parseErr i) .I _ (by intro k r x h; cases h) (by intro h; cases h) _ rfl hg
  | finished => exact other_case .finished .I _ (by intro k r x h; cases h) (by intro h; cases h) _ rfl hg
  | featStarted f => exact other_case (.featStarted f) .B _ (by intro k r x h; cases h) (fun _ => rfl) _ rfl hg
  | featFinished f => exact other_case (.featFinished f) .B _ (by intro k r x h; cases h) (fun _ => rfl) _ rfl hg
  | ruleStarted f r => exact other_case (.ruleStarted f r) .B _ (by intro k r x h; cases h) (fun _ => rfl) _ rfl hg
  | ruleFinished f r => exact other_case (.ruleFinished f r) .B _ (by intro k r x h; cases h) (fun _ => rfl) _ rfl hg

/-- a state that differs only in fields the ledger does not read, with `expect` owing the same events -/
theorem binv_same_owed (s s' : SState) (ho : s'.out = s.out) (hb : s'.br = s.br)
    (he : expEvents s'.expect = expEvents s.expect) (hi : BInv s) : BInv s' := by
  refine binv_congr s s' hb ?_ hi
  unfold hist
  rw [ho, he]
  exact sameBr_refl _

theorem chk_fields3 (s : SState) (b : Bool) (cls : DClass) (m : String) :
    (chk s b cls m).out = s.out ∧ (chk s b cls m).br = s.br ∧ (chk s b cls m).expect = s.expect := by
  unfold chk; split <;> simp [SState.note]

theorem chk_prefix' (s : SState) (b : Bool) (cls : DClass) (m : String) : s.dis <+: (chk s b cls m).dis := by
  unfold chk; split
  · exact List.prefix_refl _
  · exact note_prefix s cls m

theorem disp_binv (c : SCfg) (s : SState) (n : Nat) (sl : Slots) (hi : BInv s) (hg : GoodB (stepL c s (.disp n sl)) = true) :
    BInv (stepL c s (.disp n sl)) := by
  rw [disp_eq] at hg ⊢
  have g5 : GoodB (disp5 s n sl) = true := hg
  have g4 : GoodB (disp4 s n) = true := goodB_of_prefix _ _ (chk_prefix' _ _ _ _) g5
  have g3 : GoodB (disp3 s) = true := goodB_of_prefix _ _ (chk_prefix' _ _ _ _) g4
  have g1 : GoodB (disp1 s) = true := g3
  obtain ⟨c1, c2, c3, _⟩ := ced_fields _ "at dispatch" g1
  have hf := inPhase_fields ({ s with pos := s.pos + 1 } : SState) [.afterGet2] "dispatch"
  have f4 := chk_fields3 (disp3 s) (n == (disp3 s).batch.length) .K s!"dispatched {n}, batch {(disp3 s).batch.length}"
  have f5 := chk_fields3 (disp4 s n) (sl == (disp4 s n).slots.onDispatch (disp4 s n).batch.length) .K
    s!"slots after dispatch {repr sl}, model {repr ((disp4 s n).slots.onDispatch (disp4 s n).batch.length)}"
  apply binv_same_owed s _ _ _ _ hi
  · show (disp5 s n sl).out = s.out
    rw [disp5, f5.1, disp4, f4.1]; show (disp1 s).out = s.out; rw [disp1, c1, hf.1]
  · show (disp5 s n sl).br = s.br
    rw [disp5, f5.2.1, disp4, f4.2.1]; show (disp1 s).br = s.br; rw [disp1, c2, hf.2.1]
  · show expEvents (disp5 s n sl).expect = expEvents s.expect
    rw [disp5, f5.2.2, disp4, f4.2.2]; show expEvents (disp1 s).expect = expEvents s.expect; rw [disp1, c3, hf.2.2]

def hookRestore1 (s : SState) : SState :=
  (({ s with pos := s.pos + 1 } : SState).inPhase [.exiting] "panic hook restored").checkExpectDone "before the hook is restored"
def hookRestore2 (s : SState) : SState :=
  if (hookRestore1 s).hookTaken then hookRestore1 s else (hookRestore1 s).note .I "hook restored without being taken"

theorem hookRestore_eq (c : SCfg) (s : SState) : stepL c s .hookRestore = { hookRestore2 s with hookTaken := false } := rfl

theorem hookRestore_binv (c : SCfg) (s : SState) (hi : BInv s) (hg : GoodB (stepL c s .hookRestore) = true) :
    BInv (stepL c s .hookRestore) ∧ (stepL c s .hookRestore).expect = [] := by
  rw [hookRestore_eq] at hg ⊢
  have g2 : GoodB (hookRestore2 s) = true := hg
  have g1 : GoodB (hookRestore1 s) = true := by
    unfold hookRestore2 at g2
    split at g2
    · exact g2
    · exact (goodB_note _ _ _ g2).1
  obtain ⟨c1, c2, c3, _⟩ := ced_fields _ "before the hook is restored" g1
  have hf := inPhase_fields ({ s with pos := s.pos + 1 } : SState) [.exiting] "panic hook restored"
  have h2 : (hookRestore2 s).out = (hookRestore1 s).out ∧ (hookRestore2 s).br = (hookRestore1 s).br ∧
      (hookRestore2 s).expect = (hookRestore1 s).expect := by
    unfold hookRestore2; split <;> simp [SState.note]
  have hempty : (hookRestore1 s).expect = [] := by
    unfold hookRestore1 SState.checkExpectDone
    split <;> simp [SState.note]
  refine ⟨binv_same_owed s _ ?_ ?_ ?_ hi, ?_⟩
  · show (hookRestore2 s).out = s.out
    rw [h2.1, hookRestore1, c1, hf.1]
  · show (hookRestore2 s).br = s.br
    rw [h2.2.1, hookRestore1, c2, hf.2.1]
  · show expEvents (hookRestore2 s).expect = expEvents s.expect
    rw [h2.2.2, hookRestore1, c3, hf.2.2]
  · show (hookRestore2 s).expect = []
    rw [h2.2.2, hempty]

/-! ### a drained completion notification -/

def notif1 (s : SState) : SState := ({ s with pos := s.pos + 1 } : SState).inPhase [.draining] "notification drained"

def notifA (s1 : SState) (id : Nat) (failed retried : Bool) (nid : Nat) (f r : Bool) : SState :=
  if nid == id && f == failed && r == retried && !s1.tripDue then s1
  else s1.note .B s!"notification {id} {failed} {retried} drained, model expected {nid} {f} {r} (trip due before it: {s1.tripDue})"

def notifC (s1 : SState) (id : Nat) (failed retried : Bool) (nid : Nat) (f r : Bool) (rest : List (Nat × ScenKey × Bool × Bool)) : SState :=
  { (notifA s1 id failed retried nid f r).checkExpectDone "before a notification" with notifs := rest }

def notifD (c : SCfg) (sC : SState) (k : ScenKey) (retried : Bool) : SState :=
  match scenarioFinished sC.br k retried (c.nRule k.feat (k.rule.getD 0)) (c.nFeat k.feat) with
  | none => sC.note .B s!"model: no bracket entry for {repr k} (the implementation would panic)"
  | some (br, evs) => { sC with br := br, expect := sC.expect ++ evs.map Exp.one }

def notifR (c : SCfg) (s : SState) (id : Nat) (failed retried : Bool) : SState :=
  match (notif1 s).notifs with
  | [] => (notif1 s).note .B s!"notification {id} drained but none pending"
  | (nid, k, f, r) :: rest =>
    { notifD c (notifC (notif1 s) id failed retried nid f r rest) k retried with
      tripDue := tripFailFast c.failFast failed retried }

theorem notif_eq (c : SCfg) (s : SState) (id : Nat) (failed retried : Bool) :
    stepL c s (.notif id failed retried) = notifR c s id failed retried := rfl

theorem notif_binv (c : SCfg) (s : SState) (id : Nat) (failed retried : Bool) (hi : BInv s)
    (hg : GoodB (stepL c s (.notif id failed retried)) = true) : BInv (stepL c s (.notif id failed retried)) := by
  rw [notif_eq] at hg ⊢
  have hf := inPhase_fields ({ s with pos := s.pos + 1 } : SState) [.draining] "notification drained"
  have hi1 : BInv (notif1 s) := binv_same_owed s _ hf.1 hf.2.1 (by rw [notif1, hf.2.2]) hi
  unfold notifR at hg ⊢
  split
  · rename_i hn
    simp only [hn] at hg
    exact absurd rfl (goodB_note _ _ _ hg).2
  · rename_i nid k f r rest hn
    simp only [hn] at hg
    have gD : GoodB (notifD c (notifC (notif1 s) id failed retried nid f r rest) k retried) = true := hg
    -- the bookkeeping had an entry (otherwise class B)
    cases hs : scenarioFinished (notifC (notif1 s) id failed retried nid f r rest).br k retried
        (c.nRule k.feat (k.rule.getD 0)) (c.nFeat k.feat) with
    | none =>
      unfold notifD at gD
      simp only [hs] at gD
      exact absurd rfl (goodB_note _ _ _ gD).2
    | some res =>
      obtain ⟨br', evs'⟩ := res
      have eD : notifD c (notifC (notif1 s) id failed retried nid f r rest) k retried =
          ({ (notifC (notif1 s) id failed retried nid f r rest) with
              br := br', expect := (notifC (notif1 s) id failed retried nid f r rest).expect ++ evs'.map Exp.one } : SState) := by
        unfold notifD; simp only [hs]
      rw [eD] at gD
      have gC : GoodB ((notifA (notif1 s) id failed retried nid f r).checkExpectDone "before a notification") = true := gD
      obtain ⟨c1, c2, c3, gA⟩ := ced_fields _ "before a notification" gC
      have eA : notifA (notif1 s) id failed retried nid f r = notif1 s := by
        unfold notifA at gA ⊢
        split
        · rfl
        · rename_i hc
          simp only [hc, Bool.false_eq_true, if_false] at gA
          exact absurd rfl (goodB_note _ _ _ gA).2
      rw [eA] at c1 c2 c3
      have hbr : (notifC (notif1 s) id failed retried nid f r rest).br = (notif1 s).br := by
        show ((notifA (notif1 s) id failed retried nid f r).checkExpectDone "before a notification").br = _
        rw [eA]; exact c2
      rw [hbr] at hs
      obtain ⟨l1, l2⟩ := scenarioFinished_ledgers (notif1 s).br br' k retried _ _ (hist (notif1 s)) evs' hi1.1 hi1.2 hs
      have hhist : hist ({ notifD c (notifC (notif1 s) id failed retried nid f r rest) k retried with
          tripDue := tripFailFast c.failFast failed retried } : SState) = hist (notif1 s) ++ evs' := by
        rw [eD]
        show (notifC (notif1 s) id failed retried nid f r rest).out ++
          expEvents ((notifC (notif1 s) id failed retried nid f r rest).expect ++ evs'.map Exp.one) = _
        rw [expEvents_append, expEvents_map_one]
        show ((notifA (notif1 s) id failed retried nid f r).checkExpectDone "before a notification").out ++
          (expEvents ((notifA (notif1 s) id failed retried nid f r).checkExpectDone "before a notification").expect ++ evs') = _
        rw [eA, c1, c3, hist, append_assoc]
      unfold BInv
      rw [hhist]
      have hbr' : ({ notifD c (notifC (notif1 s) id failed retried nid f r rest) k retried with
          tripDue := tripFailFast c.failFast failed retried } : SState).br = br' := by rw [eD]
      rw [hbr']
      exact ⟨l1, l2⟩

/-! ### `features.get` returned: the batch's first-seen features / rules get their Started -/

theorem get2e_fields3 (s : SState) (slots : Slots) (running : Nat) (hg : GoodB (get2e s slots running) = true) :
    (get2e s slots running).out = s.out ∧ (get2e s slots running).br = s.br ∧
    expEvents (get2e s slots running).expect = expEvents s.expect := by
  have gd : GoodB (get2d s slots) = true := by
    unfold get2e at hg; split at hg
    · exact hg
    · exact (goodB_note _ _ _ hg).1
  have gc : GoodB (get2c s) = true := by
    unfold get2d at gd; split at gd
    · exact gd
    · exact (goodB_note _ _ _ (show GoodB ((get2c s).note .K s!"slots {repr slots}, model {repr (get2c s).slots}") = true from gd)).1
  have ha : (get2a s).out = s.out ∧ (get2a s).br = s.br ∧ (get2a s).expect = s.expect := by
    simp only [get2a, SState.inPhase]
    repeat' split
    all_goals simp [SState.note]
  obtain ⟨c1, c2, c3, _⟩ := ced_fields ({ get2a s with phase := .afterGet2 } : SState) "at loop top" gc
  have hc : (get2c s).out = s.out ∧ (get2c s).br = s.br ∧ expEvents (get2c s).expect = expEvents s.expect := by
    refine ⟨?_, ?_, ?_⟩
    · show (({ get2a s with phase := .afterGet2 } : SState).checkExpectDone "at loop top").out = _
      rw [c1]; exact ha.1
    · show (({ get2a s with phase := .afterGet2 } : SState).checkExpectDone "at loop top").br = _
      rw [c2]; exact ha.2.1
    · show expEvents (({ get2a s with phase := .afterGet2 } : SState).checkExpectDone "at loop top").expect = _
      rw [c3]; show expEvents (get2a s).expect = _; rw [ha.2.2]
  have hd : (get2d s slots).out = (get2c s).out ∧ (get2d s slots).br = (get2c s).br ∧ (get2d s slots).expect = (get2c s).expect := by
    unfold get2d; split <;> simp [SState.note]
  have he : (get2e s slots running).out = (get2d s slots).out ∧ (get2e s slots running).br = (get2d s slots).br ∧
      (get2e s slots running).expect = (get2d s slots).expect := by
    unfold get2e; split <;> simp [SState.note]
  exact ⟨by rw [he.1, hd.1, hc.1], by rw [he.2.1, hd.2.1, hc.2.1], by rw [he.2.2, hd.2.2, hc.2.2]⟩

theorem get2_binv (c : SCfg) (s : SState) (t2 : Nat) (slots : Slots) (got : List Nat) (sleep : Bool) (running : Nat)
    (hi : BInv s) (hg : GoodB (stepL c s (.get2 t2 slots got sleep running)) = true) :
    BInv (stepL c s (.get2 t2 slots got sleep running)) := by
  rw [get2_eq] at hg ⊢
  have g5 : GoodB (get2e s slots running) = true := by
    apply goodB_of_prefix _ _ _ hg
    unfold get2R
    simp only
    split
    · split
      · exact List.prefix_refl _
      · exact note_prefix _ _ _
    · exact note_prefix _ _ _
  obtain ⟨f1, f2, f3⟩ := get2e_fields3 s slots running g5
  have hi5 : BInv (get2e s slots running) := binv_same_owed s _ f1 f2 f3 hi
  -- whatever batch is taken, `start_scenarios` keeps the ledgers
  have key : ∀ (s6 : SState) (batch : List Entry) (q : Queues), BInv s6 →
      BInv ({ s6 with q := q, batch := batch, lastGet1 := none, br := (startScenarios s6.br batch).1, expect := s6.expect ++ (startScenarios s6.br batch).2.map Exp.one } : SState) := by
    intro s6 batch q h6
    obtain ⟨l1, l2⟩ := startScenarios_ledgers s6.br batch (hist s6) h6.1 h6.2
    unfold BInv
    have hh : hist ({ s6 with q := q, batch := batch, lastGet1 := none, br := (startScenarios s6.br batch).1, expect := s6.expect ++ (startScenarios s6.br batch).2.map Exp.one } : SState) =
        hist s6 ++ (startScenarios s6.br batch).2 := by
      simp only [hist, expEvents_append, expEvents_map_one, append_assoc]
    rw [hh]
    exact ⟨l1, l2⟩
  have hnote : ∀ (m : String), BInv ((get2e s slots running).note .Q m) := fun m =>
    binv_same_owed (get2e s slots running) _ rfl rfl rfl hi5
  unfold get2R
  simp only
  split
  · split
    · exact key _ _ _ hi5
    · exact key _ _ _ (hnote _)
  · exact key _ _ _ (hnote _)

/-! ### the idle branch: at the end of the run everything still open is closed -/

def idle4 (c : SCfg) (s : SState) (fin sleep : Bool) : SState :=
  let s := ({ s with pos := s.pos + 1 } : SState).inPhase [.afterGet2] "idle branch"
  let s := { s with phase := if fin then .exiting else .idle1 }
  let s := if s.running.isEmpty && s.endedUnconsumed == 0 && s.batch.isEmpty then s
           else s.note .I "idle branch taken although something is running or runnable"
  let mfin := isFinished s.parserDone s.slots.isBrk s.q
  let s := if fin == mfin then s else s.note .I s!"is_finished = {fin}, model {mfin}"
  { s with idleSleep := sleep, idleSuspended := false, polledIdle := false }

def idleR (c : SCfg) (s : SState) (fin sleep : Bool) : SState :=
  if fin then
    { idle4 c s fin sleep with exiting := true, br := Brackets.empty, expect := (idle4 c s fin sleep).expect ++ [.anyOf (finishAll (idle4 c s fin sleep).br).1, .anyOf (finishAll (idle4 c s fin sleep).br).2, .one .finished] }
  else idle4 c s fin sleep

theorem idle_eq (c : SCfg) (s : SState) (fin sleep : Bool) : stepL c s (.idle fin sleep) = idleR c s fin sleep := by
  cases fin <;> rfl

theorem idle4_fields (c : SCfg) (s : SState) (fin sleep : Bool) :
    (idle4 c s fin sleep).out = s.out ∧ (idle4 c s fin sleep).br = s.br ∧ (idle4 c s fin sleep).expect = s.expect := by
  simp only [idle4, SState.inPhase]
  repeat' split
  all_goals simp [SState.note]

theorem idle_binv (c : SCfg) (s : SState) (fin sleep : Bool) (hi : BInv s) :
    BInv (stepL c s (.idle fin sleep)) ∧ (fin = true → (stepL c s (.idle fin sleep)).br = Brackets.empty) := by
  rw [idle_eq]
  obtain ⟨f1, f2, f3⟩ := idle4_fields c s fin sleep
  have hi4 : BInv (idle4 c s fin sleep) := binv_same_owed s _ f1 f2 (by rw [f3]) hi
  unfold idleR
  cases fin with
  | false => exact ⟨hi4, fun h => by cases h⟩
  | true =>
    simp only [if_true]
    refine ⟨?_, fun _ => by simp [Brackets.empty]⟩
    obtain ⟨b1, b2⟩ := finishAll_balances (idle4 c s true sleep).br (hist (idle4 c s true sleep)) hi4.1 hi4.2
    have hh : SameBr (hist (idle4 c s true sleep) ++ (finishAll (idle4 c s true sleep).br).1 ++ (finishAll (idle4 c s true sleep).br).2)
        (hist ({ idle4 c s true sleep with exiting := true, br := Brackets.empty, expect := (idle4 c s true sleep).expect ++ [.anyOf (finishAll (idle4 c s true sleep).br).1, .anyOf (finishAll (idle4 c s true sleep).br).2, .one .finished] } : SState)) := by
      have : hist ({ idle4 c s true sleep with exiting := true, br := Brackets.empty, expect := (idle4 c s true sleep).expect ++ [.anyOf (finishAll (idle4 c s true sleep).br).1, .anyOf (finishAll (idle4 c s true sleep).br).2, .one .finished] } : SState) =
          hist (idle4 c s true sleep) ++ (finishAll (idle4 c s true sleep).br).1 ++ (finishAll (idle4 c s true sleep).br).2 ++ [Ev.finished] := by
        simp only [hist, expEvents_append, expEvents, append_assoc, append_nil]
      rw [this]
      exact sameBr_append_nonbr _ .finished rfl
    unfold BInv
    refine ⟨featLedger_congr _ _ _ hh ⟨by simp [Brackets.empty, keysF], fun f => ⟨fun hm => by simp [Brackets.empty, keysF] at hm, fun _ => b1 f⟩⟩,
      ruleLedger_congr _ _ _ hh ⟨by simp [Brackets.empty, keysR], fun f r => ⟨fun hm => by simp [Brackets.empty, keysR] at hm, fun _ => b2 f r⟩⟩⟩

/-- **one label keeps the bracket ledger** -/
theorem step_binv (c : SCfg) (s : SState) (l : Label) (hi : BInv s) (hg : GoodB (stepL c s l) = true) : BInv (stepL c s l) := by
  cases l with
  | hookTake => exact hookTake_binv c s hi
  | hookRestore => exact (hookRestore_binv c s hi hg).1
  | exit => exact binv_same3 s _ (s3_exit c s) hi
  | tx e => exact tx_binv c s e hi hg
  | pOk f => exact binv_same3 s _ (s3_pOk c s f) hi
  | pErr => exact pErr_binv c s hi
  | pEnd => exact pEnd_binv c s hi
  | pPend => exact binv_same3 s _ (s3_pPend c s) hi
  | pWake => exact binv_same3 s _ (s3_pWake c s) hi
  | pFinish => exact binv_same3 s _ (s3_pFinish c s) hi
  | ins t a b => exact binv_same3 s _ (s3_ins c s t a b) hi
  | get1 t a ns nc => exact binv_same3 s _ (s3_get1 c s t a ns nc) hi
  | get2 t sl g b r => exact get2_binv c s t sl g b r hi hg
  | idle f sl => exact (idle_binv c s f sl hi).1
  | idleContinue => exact binv_same3 s _ (s3_idleContinue c s) hi
  | idleYield => exact binv_same3 s _ (s3_idleYield c s) hi
  | idleSlept => exact binv_same3 s _ (s3_idleSlept c s) hi
  | disp n sl => exact disp_binv c s n sl hi hg
  | cons b => exact binv_same3 s _ (s3_cons c s b) hi
  | notif id f r => exact notif_binv c s id f r hi hg
  | brk => exact binv_same3 s _ (s3_brk c s) hi
  | endA id f r t => exact binv_same3 s _ (s3_endA c s id f r t) hi
  | rx e => exact binv_same3 s _ (s3_rx c s e) hi
  | cbIn a b t => exact binv_same3 s _ (s3_cbIn c s a b t) hi
  | cbOut a b t => exact binv_same3 s _ (s3_cbOut c s a b t) hi
  | envMove => exact binv_same3 s _ (s3_env c s) hi
  | poll => exact binv_same3 s _ (s3_poll c s) hi
  | verdict b x y z => exact binv_same3 s _ (s3_verdict c s b x y z) hi
  | other => exact binv_same3 s _ (s3_other c s) hi

theorem foldl_binv (c : SCfg) (ls : List Label) (s : SState) (hi : BInv s) (hg : GoodB (ls.foldl (stepL c) s) = true) :
    BInv (ls.foldl (stepL c) s) := by
  induction ls generalizing s with
  | nil => exact hi
  | cons l rest ih =>
    simp only [foldl_cons] at hg ⊢
    have hmono : ∀ (ls : List Label) (s : SState), GoodB (ls.foldl (stepL c) s) = true → GoodB s = true := by
      intro ls
      induction ls with
      | nil => intro s h; exact h
      | cons l rest ih2 => intro s h; exact goodB_step_mono c s l (ih2 _ h)
    exact ih (stepL c s l) (step_binv c s l hi (hmono rest _ hg)) hg

theorem binv_init : BInv {} := by
  refine ⟨⟨by simp [keysF, Brackets.empty], fun f => ⟨fun h => by simp [keysF, Brackets.empty] at h, fun _ => rfl⟩⟩,
    ⟨by simp [keysR, Brackets.empty], fun f r => ⟨fun h => by simp [keysR, Brackets.empty] at h, fun _ => rfl⟩⟩⟩

end Cuke.SchedBr
