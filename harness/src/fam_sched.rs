//! C03–C08: whole runs of the REAL `runner::Basic` replayed through the scheduler LTS.

use std::collections::{BTreeMap, HashMap, VecDeque};
use std::time::Duration;

use crate::{common::*, fam_attempt::*, rr::*};

fn id_of(name: &str) -> String {
    name.rsplit('-').next().unwrap_or("0").to_owned()
}

fn ret_wire(r: &str) -> String {
    if r == "-" { "-".to_owned() } else { r.replace('/', " ") }
}

/// `A <feat> <rule|-> <scen> <ret> <kind...>` (probe form) -> wire event
fn ev_wire(rest: &str, pe_counter: &mut usize) -> String {
    let t: Vec<&str> = rest.split(' ').collect();
    match t[0] {
        "S" | "X" => t[0].to_owned(),
        "PF" => rest.to_owned(),
        "PE" => { let s = format!("PE {pe_counter}"); *pe_counter += 1; s }
        "F+" | "F-" => format!("{} {}", t[0], id_of(t[1])),
        "R+" | "R-" => format!("{} {} {}", t[0], id_of(t[1]), id_of(t[2])),
        "A" => {
            let rule = if t[2] == "-" { "-".to_owned() } else { id_of(t[2]) };
            let kind = &t[5..];
            let k = match kind[0] {
                "bg" => format!("bg {} {}", kind[1].parse::<usize>().unwrap() - RBG, fix_res(&kind[2..])),
                "step" => format!("step {} {}", kind[1].parse::<usize>().unwrap() - RST, fix_res(&kind[2..])),
                "log" => "log 0".to_owned(),
                "hk" => {
                    if kind[2] == "fail" { format!("hk {} fail 0", kind[1]) } else { kind.join(" ") }
                }
                _ => kind.join(" "),
            };
            format!("A {} {} {} {} {}", id_of(t[1]), rule, id_of(t[3]), ret_wire(t[4]), k)
        }
        _ => format!("?{rest}"),
    }
}

fn fix_res(k: &[&str]) -> String {
    // payloads are not part of the scheduler's view
    if k.first() == Some(&"fail") && k.get(1) == Some(&"pan") { "fail pan 0".to_owned() } else { k.join(" ") }
}

fn kv<'a>(rest: &'a str) -> HashMap<&'a str, &'a str> {
    rest.split(' ').filter_map(|t| t.split_once('=')).collect()
}

fn slots_wire(s: &str) -> String {
    match s {
        "none" => "none".to_owned(),
        "brk" => "brk".to_owned(),
        n => format!("n {n}"),
    }
}

fn qe_list(s: &str) -> String {
    let inner = s.trim_start_matches('[').trim_end_matches(']');
    let items: Vec<String> = inner
        .split(',')
        .filter(|x| !x.is_empty())
        .map(|e| {
            let p: Vec<&str> = e.split(':').collect();
            let after = if p[3] == "-" {
                "-".to_owned()
            } else {
                let (d, t0) = p[3].split_once('@').unwrap();
                format!("{d} {t0}")
            };
            format!("{} {} {} {}", p[0], id_of(p[1]), ret_wire(p[2]), after)
        })
        .collect();
    show_list(&items, |x| x.clone())
}

pub fn label_of(l: &str, pe_tx: &mut usize, pe_rx: &mut usize) -> String {
    if let Some(r) = l.strip_prefix("TX ") {
        return format!("tx {}", ev_wire(r, pe_tx));
    }
    if let Some(r) = l.strip_prefix("RX ") {
        // strip the payload id appended by the harness
        let toks: Vec<&str> = r.split(' ').collect();
        let r2 = if toks.len() > 6 && toks[0] == "A" && (toks[toks.len() - 2] == "pan" || (toks[5] == "hk" && toks[toks.len() - 2] == "fail")) {
            toks[..toks.len() - 1].join(" ")
        } else { r.to_owned() };
        return format!("rx {}", ev_wire(&r2, pe_rx));
    }
    if let Some(r) = l.strip_prefix("P ") {
        return match r.split(' ').next().unwrap() {
            "ok" => format!("pok {}", id_of(r.split(' ').nth(1).unwrap())),
            "err" => "perr".to_owned(),
            "end" => "pend".to_owned(),
            "pend" => "ppend".to_owned(),
            "wake" => "pwake".to_owned(),
            "finish" => "pfin".to_owned(),
            _ => "other".to_owned(),
        };
    }
    if let Some(r) = l.strip_prefix("INS ") {
        let m = kv(r);
        return format!("ins {} {} {}", m["t"], qe_list(m["serial"]), qe_list(m["conc"]));
    }
    if let Some(r) = l.strip_prefix("GET1 ") {
        let m = kv(r);
        return format!("get1 {} {} {} {}", m["t"], if m["ask"] == "none" { "-" } else { m["ask"] }, m["serial"], m["conc"]);
    }
    if let Some(r) = l.strip_prefix("GET2 ") {
        let m = kv(r);
        let got: Vec<String> = m["got"].trim_start_matches('[').trim_end_matches(']').split(',').filter(|x| !x.is_empty())
            .map(|e| e.split(':').next().unwrap().to_owned()).collect();
        return format!("get2 {} {} {} {} {}", m["t"], slots_wire(m["ask"]), show_list(&got, |x| x.clone()), b(m["sleep"] != "-"), m["running"]);
    }
    if l == "IDLE continue" { return "idlec".to_owned(); }
    if l == "IDLE yield" { return "idley".to_owned(); }
    if l == "IDLE slept" { return "idles".to_owned(); }
    if let Some(r) = l.strip_prefix("IDLE ") { let m = kv(r); return format!("idle {} {}", m["fin"], m["sleep"]); }
    if let Some(r) = l.strip_prefix("DISP ") { let m = kv(r); return format!("disp {} {}", m["n"], slots_wire(m["slots"])); }
    if let Some(r) = l.strip_prefix("CONS ") { let m = kv(r); return format!("cons {}", m["some"]); }
    if let Some(r) = l.strip_prefix("NOTIF ") { let m = kv(r); return format!("notif {} {} {}", m["id"], m["failed"], m["retried"]); }
    if l == "BRK" { return "brk".to_owned(); }
    if let Some(r) = l.strip_prefix("END ") { let m = kv(r); return format!("end {} {} {} {}", m["id"], m["failed"], m["retried"], m["t"]); }
    if l == "HOOK take" { return "hook1".to_owned(); }
    if l == "HOOK restore" { return "hook0".to_owned(); }
    if l == "EXIT" { return "exit".to_owned(); }
    if l == "POLL" { return "poll".to_owned(); }
    if let Some(r) = l.strip_prefix("VERDICT ") { return format!("verdict {r}"); }
    if let Some(r) = l.strip_prefix("CB ") {
        let t: Vec<&str> = r.split(' ').collect();
        let time = t.iter().find_map(|x| x.strip_prefix("t=")).unwrap_or("0");
        return match t[0] {
            "step" | "before" | "after" | "new" => format!("cbin {} {} {}", id_of(t[1]), t[2], time),
            "stepx" | "beforex" | "afterx" => format!("cbout {} {} {}", id_of(t[1]), t[2], time),
            _ => "other".to_owned(),
        };
    }
    if l.starts_with("GATE open") || l == "WAKE external" { return "env".to_owned(); }
    "other".to_owned()
}

pub fn show_cfg(g: &GenRun) -> String {
    let c = &g.cfg;
    let on = |x: Option<usize>| show_opt(x.as_ref(), |n| n.to_string());
    let od = |x: Option<Duration>| show_opt(x.as_ref(), |d| d.as_nanos().to_string());
    // duration oracle for every parenthesised substring of every tag
    let mut table: BTreeMap<String, Option<u128>> = BTreeMap::new();
    let mut add = |tags: &Vec<String>| {
        for t in tags {
            let idx: Vec<(usize, char)> = t.char_indices().collect();
            for (i, ch) in &idx {
                if *ch != '(' { continue; }
                for (j, d) in &idx {
                    if *d == ')' && j > i {
                        let sub = &t[i + 1..*j];
                        table.insert(sub.to_owned(), humantime::parse_duration(sub).ok().map(|d| d.as_nanos()));
                    }
                }
            }
        }
    };
    for f in &g.feats {
        add(&f.tags);
        for s in &f.scens { add(&s.tags); }
        for r in &f.rules { add(&r.tags); for s in &r.scens { add(&s.tags); } }
    }
    let tbl: Vec<(String, Option<u128>)> = table.into_iter().collect();
    let tl = |v: &Vec<String>| show_list(v, |t| hex(t));
    let sc = |s: &RScen| format!("{} {} {}", s.id, tl(&s.tags), s.steps.len());
    let feats = show_list(&g.feats, |f| {
        format!(
            "{} {} {} {}",
            f.id, tl(&f.tags), show_list(&f.scens, sc),
            show_list(&f.rules, |r| format!("{} {} {}", r.id, tl(&r.tags), show_list(&r.scens, sc)))
        )
    });
    // effective background length (feature background ++ rule background) per scenario
    let mut bgs: Vec<(usize, usize)> = vec![];
    for f in &g.feats {
        for s in &f.scens { bgs.push((s.id, f.bg.len())); }
        for r in &f.rules { for s in &r.scens { bgs.push((s.id, f.bg.len() + r.bg.len())); } }
    }
    format!(
        "{} {} {} {} {} {} {} {} {} {} {} {}",
        match c.builder_conc { None => "u".to_owned(), Some(None) => "none".to_owned(), Some(Some(n)) => format!("n {n}") },
        on(c.cli_conc), b(c.builder_ff), b(c.cli_ff), on(c.builder_retries), on(c.cli_retries),
        od(c.builder_after), od(c.cli_after), b(c.custom_which),
        show_list(&tbl, |(k, v)| format!("{} {}", hex(k), show_opt(v.as_ref(), |n| n.to_string()))),
        feats,
        show_list(&bgs, |(s, n)| format!("{s} {n}")),
    )
}

pub struct SchedGen {
    pub g: GenRun,
    pub parser: Vec<(usize, Result<usize, usize>)>, // (pendings, Ok(feat index) | Err(n))
    pub end_pendings: usize,
}

pub fn gen_sched(rng: &mut Rng, lazy: bool) -> SchedGen {
    let mut g = gen_run(rng, 7, false);
    // scheduler-relevant decorations
    let serial_tag = if rng.chance(1, 5) { g.cfg.custom_which = true; "xserial" } else { "serial" };
    // focus modes: make the rarer mechanisms meet each other
    // (6, lazy parsers only: a LATE feature holding a serial and a concurrent scenario arrives while a delayed retry of an
    //  earlier feature is still waiting for its deadline and other scenarios keep finishing — the waiting retry then
    //  sits BEHIND freshly inserted entries in its queue)
    // (7: every scenario is retried after ITS OWN delay — different deadlines wait in one queue, a later-inserted entry
    //  can become ready before an earlier one; 8: one batch of more than 64 attempts that all complete within one
    //  poll, under fail-fast, the first final failure late in the batch and more scenarios still queued; 9, lazy
    //  parsers only: the runner sits idle through more than a thousand consecutive polls in which the parser answers
    //  Pending, then the parser delivers its last feature and its end in one poll)
    // (10: a retry delay of more than a SECOND during which nothing else runs — `execute` is parked in its idle sleep —
    //  and a contained panic after the wake-up: the silent panic hook must still be installed then)
    let focus = if rng.chance(1, 150) { 10 } else if lazy && rng.chance(1, 5) { 6 } else if lazy && rng.chance(1, 40) { 9 } else if rng.chance(1, 10) { 7 }
        else if rng.chance(1, 40) { 8 } else { rng.below(6) }; // 0,1 = none, 2 = delayed retries, 3 = serial + delayed retries, 4 = serial, 5 = retries everywhere
    let p_serial = if focus == 3 || focus == 4 { 4 } else if focus == 6 || focus == 8 || focus == 10 { 0 } else { *rng.pick(&[0usize, 1, 3]) };
    let delay_ms = if focus == 6 { *rng.pick(&[40u64, 60, 90]) } else if focus == 2 || focus == 3 { *rng.pick(&[2u64, 5, 9]) } else { *rng.pick(&[0u64, 0, 0, 3, 8]) };
    let with_delay = focus == 2 || focus == 3 || focus == 7 || rng.chance(1, 4);
    if focus == 8 { big_batch(&mut g, rng); }
    if focus == 10 { long_delay(&mut g, rng); }
    if focus == 2 || focus == 3 || focus == 5 || focus == 7 {
        // every scenario has a retry budget and fails often
        for f in &mut g.feats {
            for s in f.scens.iter_mut().chain(f.rules.iter_mut().flat_map(|r| r.scens.iter_mut())) {
                if !s.tags.iter().any(|t| t.starts_with("retry")) { s.tags.push(format!("retry({})", rng.range(1, 2))); }
            }
        }
        for ((_, att), sc) in g.scripts.iter_mut() {
            if *att == 0 && rng.chance(1, 2) { sc.after = Some(Pan::Str(1)); }
            if *att == 1 && rng.chance(1, 4) { sc.before = Some(Pan::Lit(0)); }
        }
    }
    for f in &mut g.feats {
        if rng.chance(p_serial, 20) { f.tags.push(serial_tag.to_owned()); }
        let mut deco = |s: &mut RScen, rng: &mut Rng| {
            if rng.chance(p_serial, 8) { s.tags.push(serial_tag.to_owned()); }
            if with_delay {
                for t in &mut s.tags {
                    if t.starts_with("retry(") && focus == 7 { *t = format!("{t}.after({}ms)", *rng.pick(&[2u64, 9, 21, 38])); }
                    else if t.starts_with("retry(") && (focus == 2 || focus == 3 || rng.chance(1, 2)) { *t = format!("{t}.after({delay_ms}ms)"); }
                }
            }
        };
        for s in &mut f.scens { deco(s, rng); }
        for r in &mut f.rules {
            if rng.chance(p_serial, 20) { r.tags.push(serial_tag.to_owned()); }
            for s in &mut r.scens { deco(s, rng); }
        }
    }
    if focus == 6 && g.feats.len() >= 2 {
        // the first feature: every scenario fails its first attempt and waits `delay_ms` for its retry
        let names: Vec<String> = g.feats[0].scens.iter().chain(g.feats[0].rules.iter().flat_map(|r| r.scens.iter()))
            .map(|s| format!("s-{}", s.id)).collect();
        let f0 = &mut g.feats[0];
        for s in f0.scens.iter_mut().chain(f0.rules.iter_mut().flat_map(|r| r.scens.iter_mut())) {
            s.tags.retain(|t| !t.starts_with("retry"));
            s.tags.push(format!("retry(1).after({delay_ms}ms)"));
        }
        for ((name, att), sc) in g.scripts.iter_mut() {
            if *att == 0 && names.contains(name) { sc.after = Some(Pan::Str(1)); }
        }
        // the last feature: one serial scenario next to concurrent ones
        let last = g.feats.len() - 1;
        let fl = &mut g.feats[last];
        if let Some(s) = fl.scens.iter_mut().chain(fl.rules.iter_mut().flat_map(|r| r.scens.iter_mut())).next() {
            s.tags.push(serial_tag.to_owned());
        }
    }
    // a third of the runs are built and driven through the `Cucumber` builder (its delegating methods + `run`)
    g.cfg.via_cucumber = rng.chance(1, 3);
    // a third of the runs are polled by a STRICT executor (fresh waker per poll, re-poll only when it was woken)
    g.cfg.strict_wakers = rng.chance(1, 3);
    // limits: builder / CLI
    g.cfg.builder_conc = match rng.below(5) { 0 => None, 1 => Some(None), _ => Some(Some(rng.range(1, 3))) };
    g.cfg.cli_conc = rng.chance(1, 4).then(|| rng.range(1, 3));
    match rng.below(6) { 0 => g.cfg.builder_ff = true, 1 => g.cfg.cli_ff = true, _ => {} }
    if focus == 7 {
        // room for several attempts at once, time passing while gates open (so that deadlines expire mid-run)
        g.cfg.builder_conc = Some(Some(rng.range(2, 4)));
        g.cfg.cli_conc = None;
        g.cfg.gate_delay_us = *rng.pick(&[800u64, 2500, 6000]);
    }
    if focus == 8 {
        let n = g.feats[0].scens.len();
        // more than 64 slots, fewer than scenarios: something is still queued when the batch completes
        match rng.below(3) {
            0 => { g.cfg.builder_conc = Some(Some(rng.range(66, n - 3))); g.cfg.cli_conc = None; }
            1 => { g.cfg.builder_conc = Some(Some(2)); g.cfg.cli_conc = Some(rng.range(66, n - 3)); }
            _ => { g.cfg.builder_conc = None; g.cfg.cli_conc = Some(rng.range(66, n - 3)); }
        }
        g.cfg.builder_ff = rng.chance(1, 2);
        g.cfg.cli_ff = !g.cfg.builder_ff || rng.chance(1, 3);
    }
    if rng.chance(1, 6) { g.cfg.builder_retries = Some(rng.range(1, 2)); }
    if rng.chance(1, 8) { g.cfg.cli_retries = Some(rng.range(1, 2)); }
    if rng.chance(1, 10) { g.cfg.cli_after = Some(Duration::from_millis(delay_ms)); }
    if with_delay && rng.chance(1, 2) { g.cfg.gate_delay_us = delay_ms * 1000 + 500; }
    // scripts must cover attempts created by CLI/builder retries too
    let extra: Vec<((String, usize), AttScript)> = g.scripts.iter()
        .filter(|((_, a), _)| *a == 0)
        .flat_map(|((s, _), sc)| (1..=3).map(move |a| ((s.clone(), a), sc.clone())))
        .collect();
    for (k, v) in extra { g.scripts.entry(k).or_insert(v); }
    // parser script: how many times each item answers `Pending` first; "slow" parsers stay pending
    // while scenarios start, fail and finish
    let slow = lazy && rng.chance(1, 3);
    let pend = |rng: &mut Rng| if !lazy { 0 } else if slow { rng.range(2, 9) } else { rng.below(3) };
    if slow && rng.chance(1, 2) {
        // an early final failure while the parser is still busy (fail-fast paths)
        if rng.chance(1, 2) { g.cfg.builder_ff = true; }
        if let Some(((_, _), sc)) = g.scripts.iter_mut().find(|((s, a), _)| *a == 0 && g.info.get(&s.trim_start_matches("s-").parse::<usize>().unwrap_or(0)).is_some_and(|i| i.2.is_none())) {
            sc.before = Some(Pan::Str(0));
            sc.after = Some(Pan::Lit(1));
            sc.init = Init::Err(1);
            sc.gates = 0;
        }
    }
    let mut parser: Vec<(usize, Result<usize, usize>)> = vec![];
    let mut nerr = 0;
    for i in 0..g.feats.len() {
        if rng.chance(1, 8) { parser.push((pend(rng), Err(nerr))); nerr += 1; }
        parser.push((if i == 0 && (slow || focus == 6) { 0 } else if focus == 6 { rng.range(3, 12) } else { pend(rng) }, Ok(i)));
    }
    if rng.chance(1, 8) { parser.push((pend(rng), Err(nerr))); }
    let mut end_pendings = pend(rng);
    if focus == 9 {
        // the LAST feature arrives after more than a thousand fruitless polls, together with the end of the stream
        if let Some(last) = parser.iter_mut().rev().find(|(_, it)| it.is_ok()) { last.0 = rng.range(1030, 1100); }
        while parser.last().is_some_and(|(_, it)| it.is_err()) { parser.pop(); }
        end_pendings = 0;
        // everything delivered before completes at once, so the runner is idle during the whole wait
        for (_, sc) in g.scripts.iter_mut() { sc.gates = 0; }
        for f in &mut g.feats {
            for sc in f.scens.iter_mut().chain(f.rules.iter_mut().flat_map(|r| r.scens.iter_mut())) {
                sc.tags.retain(|t| !t.contains("after("));
            }
        }
        g.cfg.cli_after = None;
    }
    SchedGen { g, parser, end_pendings }
}

/// focus mode 10: one scenario, retried once after 1.1 s; its step panics in both attempts
fn long_delay(g: &mut GenRun, rng: &mut Rng) {
    let id = 2001usize;
    g.scripts.clear();
    g.info.clear();
    g.info.insert(id, (vec![], vec![Kind::Run], Some(1)));
    for att in 0..2 {
        let mut sp = HashMap::new();
        sp.insert((false, 0usize), if rng.chance(1, 2) { Pan::Str(4) } else { Pan::Lit(2) });
        g.scripts.insert((format!("s-{id}"), att), AttScript { init: Init::Ok, before: None, after: None, step_panics: sp, gates: 0 });
    }
    g.feats = vec![RFeat { id: 2000, tags: vec![], bg: vec![], scens: vec![RScen { id, tags: vec!["retry(1).after(1100ms)".to_owned()], steps: vec![Kind::Run] }], rules: vec![] }];
}

/// focus mode 8: ONE feature of 72–90 one-step scenarios that complete without waiting for a gate; all pass but one
/// late in the dispatch order (position > 64), which fails finally
fn big_batch(g: &mut GenRun, rng: &mut Rng) {
    let n = rng.range(72, 90);
    let bad = rng.range(65, n - 4);
    let base = 1000usize;
    let mut scens = vec![];
    g.scripts.clear();
    g.info.clear();
    for i in 0..n {
        let id = base + 1 + i;
        scens.push(RScen { id, tags: vec![], steps: vec![Kind::Run] });
        g.info.insert(id, (vec![], vec![Kind::Run], None));
        let mut sp = HashMap::new();
        if i == bad { sp.insert((false, 0usize), Pan::Str(3)); }
        g.scripts.insert((format!("s-{id}"), 0), AttScript { init: Init::Ok, before: None, after: None, step_panics: sp, gates: 0 });
    }
    g.feats = vec![RFeat { id: base, tags: vec![], bg: vec![], scens, rules: vec![] }];
}

pub fn run_sched(sg: &SchedGen, rng: &mut Rng) -> (RunOut, String) {
    let items: VecDeque<(usize, PItem)> = sg.parser.iter().map(|(p, it)| {
        (*p, match it { Ok(i) => PItem::Feat(build_feature(&sg.g.feats[*i])), Err(n) => PItem::Err(*n) })
    }).collect();
    let parser = ScriptedParser { items, end_pendings: sg.end_pendings };
    run_with_hook_probe(&sg.g.cfg, parser, sg.g.scripts.clone(), rng)
}

pub fn sched_request(sg: &SchedGen, log: &[String]) -> String {
    let (mut a, mut b2) = (0usize, 0usize);
    let labels: Vec<String> = log.iter().map(|l| label_of(l, &mut a, &mut b2)).collect();
    format!("sched.run {} {}", show_cfg(&sg.g), show_list(&labels, |x| x.clone()))
}

pub const CLEAN: &str = "- ; - ; - ; - ; - ; - ; - ; ok ; ok ; ok ; ok ; ok ; ok ; ok ; ok ; ok";

pub fn gen_sched_case(rng: &mut Rng, idx: usize) -> Case {
    sched_case(rng, idx, false)
}

/// lazy parser streams (items answer `Pending` 0..2 times before they are delivered)
pub fn gen_sched_lazy_case(rng: &mut Rng, idx: usize) -> Case {
    sched_case(rng, idx, true)
}

/// Directed run for finding F-C07: two concurrent scenarios are dispatched and block; the parser then
/// delivers a feature with a `@serial` scenario; when the first concurrent scenario completes, `get`
/// hands out the serial one while the second is still in flight.
fn directed_c07() -> SchedGen {
    let sc = |id: usize, tags: Vec<&str>| RScen { id, tags: tags.into_iter().map(str::to_owned).collect(), steps: vec![Kind::Run] };
    let f1 = RFeat { id: 1, tags: vec![], bg: vec![], scens: vec![sc(2, vec![]), sc(3, vec![])], rules: vec![] };
    let f4 = RFeat { id: 4, tags: vec![], bg: vec![], scens: vec![sc(5, vec!["serial"])], rules: vec![] };
    let mut scripts = HashMap::new();
    for id in [2usize, 3, 5] {
        scripts.insert((format!("s-{id}"), 0), AttScript { init: Init::Ok, before: None, after: None, step_panics: HashMap::new(), gates: 1 });
    }
    let mut info = BTreeMap::new();
    for id in [2usize, 3, 5] { info.insert(id, (vec![], vec![Kind::Run], None)); }
    let cfg = RunCfg { builder_conc: Some(Some(2)), env_script: vec![1, 0, 0, 0], ..RunCfg::default() };
    SchedGen {
        g: GenRun { feats: vec![f1, f4], cfg, scripts, info },
        parser: vec![(0, Ok(0)), (1, Ok(1))],
        end_pendings: 0,
    }
}

/// monitor-only runs with a custom `retry_options` closure (scenarios that START with `current != 0`): the
/// scheduler model resolves retry options from tags, so only the stream monitors (`framed`, `completeness`)
/// are compared for these runs — request name `sched.mon`
pub fn gen_sched_custom_case(rng: &mut Rng, idx: usize) -> Case {
    let _ = idx;
    let lazy = rng.chance(1, 3);
    let mut sg = gen_sched(rng, lazy);
    sg.g.cfg.custom_retry = true;
    // several such scenarios per feature, other features queued in between, room for them in one batch
    let p = *rng.pick(&[2usize, 4, 6]);
    for f in &mut sg.g.feats {
        for s in f.scens.iter_mut().chain(f.rules.iter_mut().flat_map(|r| r.scens.iter_mut())) {
            if rng.chance(p, 8) { s.tags.push((*rng.pick(&["cr1", "cr1", "cr2"])).to_owned()); }
        }
    }
    if rng.chance(2, 3) { sg.g.cfg.builder_conc = Some(Some(rng.range(3, 6))); sg.g.cfg.cli_conc = None; }
    sched_case_of(sg, rng, "sched.mon")
}

fn sched_case(rng: &mut Rng, idx: usize, lazy: bool) -> Case {
    let sg = if lazy && idx == 0 { directed_c07() } else { gen_sched(rng, lazy) };
    sched_case_of(sg, rng, "sched.run")
}

fn sched_case_of(sg: SchedGen, rng: &mut Rng, req_name: &str) -> Case {
    let (out, mon10) = run_sched(&sg, rng);
    let mut req = sched_request(&sg, &out.log).replacen("sched.run", req_name, 1);
    let nlabels = out.log.len();
    let has = |p: &str| out.log.iter().any(|l| l.starts_with(p));
    let class = format!(
        "{}{}{}{}{}{}",
        if has("P pend") { "lazy " } else { "" },
        if sg.g.cfg.builder_ff || sg.g.cfg.cli_ff { "ff " } else { "" },
        if has("BRK") { "brk " } else { "" },
        if out.log.iter().any(|l| l.starts_with("INS") && l.contains('@')) { "delay " } else { "" },
        if out.log.iter().any(|l| l.starts_with("GET2") && l.contains(":s")) { "serial " } else { "" },
        match nlabels { 0..=50 => "tiny", 51..=200 => "small", 201..=600 => "medium", _ => "large" },
    );
    let mut imp = if let Some(m) = &out.panicked { format!("!runner-panicked {}", hex(m)) }
        else if out.ended && !out.stuck { CLEAN.to_owned() } else { format!("!run-did-not-end polls={}", out.polls) };
    // C10 run level: nothing went through the process panic hook (counting hook, captured stderr) during the run,
    // the hook is back afterwards, the stream ended with run-Finished
    if out.panicked.is_none() && out.ended && !out.stuck {
        req.push('\n');
        req.push_str(&mon10);
        imp.push_str("\nok");
    }
    Case { req, imp, class, nontrivial: nlabels > 30 }
}
