//! Controlled execution of the REAL `runner::Basic`:
//! * the `Runner::run` stream is polled by hand on this thread with a flag waker;
//! * user code (World::new, hooks, steps) is scripted per (scenario, attempt), logs every
//!   call, and may block on *gates* that the harness opens one at a time (seeded PRNG),
//!   which is what decides the interleaving / completion order;
//! * the parser is a scripted stream (eager or lazy);
//! * the cfg-guarded probes of the crate write into the same log, in program order.

use std::{
    cell::RefCell,
    collections::HashMap,
    future::Future,
    pin::Pin,
    sync::{
        atomic::{AtomicBool, Ordering},
        Arc,
    },
    task::{Context, Poll, Wake, Waker},
    time::{Duration, Instant},
};

use cucumber::{
    event::{self, Cucumber},
    parser, runner, step, Event, Runner as _, World,
};
use futures::{future::LocalBoxFuture, FutureExt as _, Stream, StreamExt as _};
use gherkin::StepType;
use regex::Regex;

use crate::common::*;

// ---------------------------------------------------------------------------
// outcome scripts

#[derive(Clone, Copy, Debug, PartialEq, Eq)]
pub enum Pan {
    /// `panic!("{}", String)`
    Str(usize),
    /// `panic!("literal")` (&'static str payload)
    Lit(usize),
    /// `std::panic::panic_any(u32)`
    Any(usize),
}

impl Pan {
    pub fn id(self) -> usize {
        match self {
            Pan::Str(k) => 3 * k,
            Pan::Lit(k) => 3 * k + 1,
            Pan::Any(k) => 3 * k + 2,
        }
    }
    fn fire(self) -> ! {
        const LITS: [&str; 3] = ["lit0", "lit1", "lit2"];
        match self {
            Pan::Str(k) => panic!("{}", format!("P{k}")),
            Pan::Lit(k) => std::panic::panic_any(LITS[k % 3]),
            Pan::Any(k) => std::panic::panic_any(k as u32),
        }
    }
}

/// decodes a panic payload (`event::Info`) back into the payload id of the model
pub fn payload_id(info: &event::Info) -> usize {
    if let Some(s) = info.downcast_ref::<String>() {
        if let Some(k) = s.strip_prefix('P').and_then(|x| x.parse::<usize>().ok()) {
            return 3 * k;
        }
        for pre in ["failed to initialize World: E", "failed to initialize `World`: E"] {
            if let Some(k) = s.strip_prefix(pre).and_then(|x| x.parse::<usize>().ok()) {
                return 1000 + k;
            }
        }
        return 900_000;
    }
    if let Some(s) = info.downcast_ref::<&'static str>() {
        if let Some(k) = s.strip_prefix("lit").and_then(|x| x.parse::<usize>().ok()) {
            return 3 * k + 1;
        }
        return 900_001;
    }
    if let Some(k) = info.downcast_ref::<u32>() {
        return 3 * (*k as usize) + 2;
    }
    900_002
}

#[derive(Clone, Copy, Debug, PartialEq, Eq)]
pub enum Init {
    Ok,
    Err(usize),
    Panic(Pan),
}

#[derive(Clone, Debug)]
pub struct AttScript {
    pub init: Init,
    pub before: Option<Pan>,
    pub after: Option<Pan>,
    /// (is_background, index) -> panic
    pub step_panics: HashMap<(bool, usize), Pan>,
    /// number of gate waits inside each callback kind
    pub gates: usize,
}

// ---------------------------------------------------------------------------
// thread-local context

#[derive(Default)]
struct GateSt {
    open: bool,
    waker: Option<Waker>,
}

pub struct Ctx {
    pub log: Vec<String>,
    last_tx_scen: Option<String>,
    cur_attempt: HashMap<String, usize>,
    pub scripts: HashMap<(String, usize), AttScript>,
    next_wid: u64,
    gates: Vec<GateSt>,
    /// user code panics in the SYNCHRONOUS part of the call (before a future is returned) where it can
    eager: bool,
    /// the runner's stream is polled by `Cucumber::run`'s own loop: poll boundaries of the INNER stream are not visible
    via_cucumber: bool,
    /// callbacks of scenarios currently inside user code (for C06/C07 monitors)
    pub epoch: Instant,
}

thread_local! {
    pub static CTX: RefCell<Option<Ctx>> = const { RefCell::new(None) };
}

fn with<R>(f: impl FnOnce(&mut Ctx) -> R) -> R {
    CTX.with(|c| f(c.borrow_mut().as_mut().expect("rr context")))
}

fn log(s: String) {
    with(|c| c.log.push(s));
}

pub fn now_ns() -> u128 {
    with(|c| c.epoch.elapsed().as_nanos())
}

fn sink(line: &str) {
    // several probes pack two lines
    for l in line.split('\n') {
        with(|c| {
            if let Some(rest) = l.strip_prefix("TX A ") {
                // `A <feat> <rule|-> <scen> <ret> <kind..>`
                let t: Vec<&str> = rest.split(' ').collect();
                if t.len() >= 5 {
                    let scen = t[2].to_owned();
                    if t[4] == "st" {
                        let cur = t[3].split('/').next().and_then(|x| x.parse().ok()).unwrap_or(0);
                        c.cur_attempt.insert(scen.clone(), cur);
                    }
                    c.last_tx_scen = Some(scen);
                }
            }
            c.log.push(l.to_owned());
            // driven through `Cucumber::run`, the inner stream may be polled several times per poll of the future the
            // harness sees, so "the stream returned Pending after the idle wait" cannot be observed: grant it
            if c.via_cucumber && (l == "IDLE yield" || l == "IDLE slept") {
                c.log.push("POLL".to_owned());
            }
        });
    }
}

fn script_for(scen: &str, att: usize) -> AttScript {
    with(|c| {
        c.scripts.get(&(scen.to_owned(), att)).cloned().unwrap_or(AttScript {
            init: Init::Ok,
            before: None,
            after: None,
            step_panics: HashMap::new(),
            gates: 0,
        })
    })
}

/// A gate: pends until the harness opens it.
struct GateFut(usize);
impl Future for GateFut {
    type Output = ();
    fn poll(self: Pin<&mut Self>, cx: &mut Context<'_>) -> Poll<()> {
        with(|c| {
            let g = &mut c.gates[self.0];
            if g.open {
                Poll::Ready(())
            } else {
                g.waker = Some(cx.waker().clone());
                Poll::Pending
            }
        })
    }
}

async fn gates(n: usize) {
    for _ in 0..n {
        let id = with(|c| {
            c.gates.push(GateSt::default());
            c.gates.len() - 1
        });
        GateFut(id).await;
    }
}

// ---------------------------------------------------------------------------
// World and user code

#[derive(Debug)]
pub struct RW {
    pub id: u64,
    pub counter: usize,
    pub scen: String,
    pub att: usize,
}

impl World for RW {
    type Error = String;
    #[allow(clippy::manual_async_fn)]
    fn new() -> impl Future<Output = Result<Self, String>> {
        // eager mode: the whole body runs in the call itself; the returned future is ready
        let eager = with(|c| c.eager);
        let early = if eager { Some(Self::new_body()) } else { None };
        async move { if let Some(r) = early { r } else { Self::new_body() } }
    }
}

impl RW {
    fn new_body() -> Result<Self, String> {
        let (scen, att) = with(|c| {
            let s = c.last_tx_scen.clone().unwrap_or_default();
            let a = c.cur_attempt.get(&s).copied().unwrap_or(0);
            (s, a)
        });
        let sc = script_for(&scen, att);
        log(format!(
            "CB new {scen} {att} {}",
            match sc.init {
                Init::Ok => "ok".to_owned(),
                Init::Err(k) => format!("err {k}"),
                Init::Panic(p) => format!("panic {}", p.id()),
            }
        ));
        match sc.init {
            Init::Ok => {
                let id = with(|c| {
                    c.next_wid += 1;
                    c.next_wid
                });
                log(format!("CB newid {scen} {att} {id}"));
                Ok(Self { id, counter: 0, scen, att })
            }
            Init::Err(k) => Err(format!("E{k}")),
            Init::Panic(p) => p.fire(),
        }
    }
}

fn step_ident(st: &gherkin::Step) -> (bool, usize) {
    // text: "<kind> bg|st <idx>"
    let t: Vec<&str> = st.value.split(' ').collect();
    (t.get(1) == Some(&"bg"), t.get(2).and_then(|x| x.parse().ok()).unwrap_or(usize::MAX))
}

fn step_fn(w: &mut RW, ctx: step::Context) -> LocalBoxFuture<'_, ()> {
    if with(|c| c.eager) {
        let (bg, i) = step_ident(&ctx.step);
        let sc = script_for(&w.scen, w.att);
        if sc.gates == 0 {
            log(format!("CB step {} {} {} {} w={} seen={} t={}", w.scen, w.att, if bg { "bg" } else { "st" }, i, w.id, w.counter, now_ns()));
            w.counter += 1;
            log(format!("CB stepx {} {} {} {} t={}", w.scen, w.att, if bg { "bg" } else { "st" }, i, now_ns()));
            if let Some(p) = sc.step_panics.get(&(bg, i)) {
                p.fire();
            }
            return async {}.boxed_local();
        }
    }
    async move {
        let (bg, i) = step_ident(&ctx.step);
        let sc = script_for(&w.scen, w.att);
        log(format!("CB step {} {} {} {} w={} seen={} t={}", w.scen, w.att, if bg { "bg" } else { "st" }, i, w.id, w.counter, now_ns()));
        w.counter += 1;
        gates(sc.gates).await;
        log(format!("CB stepx {} {} {} {} t={}", w.scen, w.att, if bg { "bg" } else { "st" }, i, now_ns()));
        if let Some(p) = sc.step_panics.get(&(bg, i)) {
            p.fire();
        }
    }
    .boxed_local()
}

fn before_hook<'a>(
    _: &'a gherkin::Feature,
    _: Option<&'a gherkin::Rule>,
    s: &'a gherkin::Scenario,
    w: &'a mut RW,
) -> LocalBoxFuture<'a, ()> {
    if with(|c| c.eager) {
        let att = with(|c| c.cur_attempt.get(&s.name).copied().unwrap_or(0));
        let sc = script_for(&s.name, att);
        if sc.gates == 0 {
            log(format!("CB before {} {att} w={} seen={} wscen={} t={}", s.name, w.id, w.counter, w.scen, now_ns()));
            w.counter += 1;
            log(format!("CB beforex {} {att} t={}", s.name, now_ns()));
            if let Some(p) = sc.before {
                p.fire();
            }
            return async {}.boxed_local();
        }
    }
    async move {
        let att = with(|c| c.cur_attempt.get(&s.name).copied().unwrap_or(0));
        let sc = script_for(&s.name, att);
        log(format!("CB before {} {att} w={} seen={} wscen={} t={}", s.name, w.id, w.counter, w.scen, now_ns()));
        w.counter += 1;
        gates(sc.gates).await;
        log(format!("CB beforex {} {att} t={}", s.name, now_ns()));
        if let Some(p) = sc.before {
            p.fire();
        }
    }
    .boxed_local()
}

fn after_hook<'a>(
    _: &'a gherkin::Feature,
    _: Option<&'a gherkin::Rule>,
    s: &'a gherkin::Scenario,
    fin: &'a event::ScenarioFinished,
    w: Option<&'a mut RW>,
) -> LocalBoxFuture<'a, ()> {
    if with(|c| c.eager) {
        let att = with(|c| c.cur_attempt.get(&s.name).copied().unwrap_or(0));
        let sc = script_for(&s.name, att);
        if sc.gates == 0 {
            let reason = match fin {
                event::ScenarioFinished::BeforeHookFailed(_) => "bhf",
                event::ScenarioFinished::StepPassed => "pass",
                event::ScenarioFinished::StepSkipped => "skip",
                event::ScenarioFinished::StepFailed(..) => "fail",
            };
            log(format!(
                "CB after {} {att} {reason} w={} t={}",
                s.name,
                w.as_ref().map_or_else(|| "-".to_owned(), |w| format!("{}:{}", w.id, w.counter)),
                now_ns(),
            ));
            log(format!("CB afterx {} {att} t={}", s.name, now_ns()));
            if let Some(p) = sc.after {
                p.fire();
            }
            return async {}.boxed_local();
        }
    }
    async move {
        let att = with(|c| c.cur_attempt.get(&s.name).copied().unwrap_or(0));
        let sc = script_for(&s.name, att);
        let reason = match fin {
            event::ScenarioFinished::BeforeHookFailed(_) => "bhf",
            event::ScenarioFinished::StepPassed => "pass",
            event::ScenarioFinished::StepSkipped => "skip",
            event::ScenarioFinished::StepFailed(..) => "fail",
        };
        log(format!(
            "CB after {} {att} {reason} w={} t={}",
            s.name,
            w.as_ref().map_or_else(|| "-".to_owned(), |w| format!("{}:{}", w.id, w.counter)),
            now_ns(),
        ));
        gates(sc.gates).await;
        log(format!("CB afterx {} {att} t={}", s.name, now_ns()));
        if let Some(p) = sc.after {
            p.fire();
        }
    }
    .boxed_local()
}

// ---------------------------------------------------------------------------
// scripted parser stream

pub enum PItem {
    Feat(gherkin::Feature),
    Err(usize),
}

pub struct ScriptedParser {
    /// (number of Pending answers before the item, item)
    pub items: std::collections::VecDeque<(usize, PItem)>,
    pub end_pendings: usize,
}

thread_local! {
    static PARSER_WAKER: RefCell<Option<Waker>> = const { RefCell::new(None) };
}

impl Stream for ScriptedParser {
    type Item = parser::Result<gherkin::Feature>;
    fn poll_next(mut self: Pin<&mut Self>, cx: &mut Context<'_>) -> Poll<Option<Self::Item>> {
        let pend = match self.items.front_mut() {
            Some((n, _)) => n,
            None => &mut self.end_pendings,
        };
        if *pend > 0 {
            *pend -= 1;
            log("P pend".to_owned());
            PARSER_WAKER.with(|w| *w.borrow_mut() = Some(cx.waker().clone()));
            return Poll::Pending;
        }
        match self.items.pop_front() {
            None => Poll::Ready(None),
            Some((_, PItem::Feat(f))) => Poll::Ready(Some(Ok(f))),
            Some((_, PItem::Err(i))) => Poll::Ready(Some(Err(parser::Error::ExampleExpansion(Arc::new(
                cucumber::feature::ExpandExamplesError {
                    pos: gherkin::LineCol { line: i, col: 1 },
                    name: format!("e{i}"),
                    path: None,
                },
            ))))),
        }
    }
}

// ---------------------------------------------------------------------------
// run configuration

#[derive(Clone, Debug)]
pub struct RunCfg {
    pub has_before: bool,
    pub has_after: bool,
    pub builder_conc: Option<Option<usize>>, // None = leave default (64)
    pub cli_conc: Option<usize>,
    pub builder_ff: bool,
    pub cli_ff: bool,
    pub builder_retries: Option<usize>,
    pub builder_after: Option<Duration>,
    pub cli_retries: Option<usize>,
    pub cli_after: Option<Duration>,
    /// probability (x/8) that a blocked run opens the OLDEST waiting gate (else random)
    pub fifo_bias: usize,
    pub custom_which: bool,
    pub max_polls: usize,
    /// microseconds to let pass before opening a gate (0 = none); lets retry deadlines expire
    /// while other scenarios are still in flight
    pub gate_delay_us: u64,
    /// explicit environment moves taken (in order) before falling back to the PRNG:
    /// 0 = open the oldest waiting gate, 1 = wake the parser
    pub env_script: Vec<u8>,
    /// user callbacks without gates run (and panic) synchronously inside the call that is supposed to
    /// only BUILD the future; `World::new` panics before returning its future
    pub eager: bool,
    /// a custom `retry_options` closure (public builder API): scenarios tagged `cr1` / `cr2` START with
    /// `Retries { current: 1, left: 0 }` / `{ current: 2, left: 1 }` (e.g. 1-based attempt numbering); all others
    /// resolve as by default. Only used by the monitor-only family `sched.custom` (the scheduler MODEL resolves
    /// retry options from tags, so its acceptor classes are not compared there).
    pub custom_retry: bool,
    /// build and run the runner THROUGH the `Cucumber` builder (src/cucumber.rs: the delegating methods `steps`,
    /// `max_concurrent_scenarios`, `retries`, `retry_after`, `fail_fast`, `which_scenario`, `before`, `after`,
    /// `retry_options`, `with_cli`, and `run`'s event loop) instead of using `runner::Basic` directly
    pub via_cucumber: bool,
    /// a STRICT executor: every poll gets a fresh `Waker`, and when nothing made progress and the environment has
    /// nothing to move, the stream is polled again only after the waker of the LATEST poll was woken (what the `Future`
    /// contract promises); a wake-up sent to the waker of an earlier poll does not count
    pub strict_wakers: bool,
}

impl Default for RunCfg {
    fn default() -> Self {
        Self {
            has_before: false,
            has_after: false,
            builder_conc: None,
            cli_conc: None,
            builder_ff: false,
            cli_ff: false,
            builder_retries: None,
            builder_after: None,
            cli_retries: None,
            cli_after: None,
            fifo_bias: 0,
            custom_which: false,
            max_polls: 2_000_000,
            gate_delay_us: 0,
            eager: false,
            custom_retry: false,
            via_cucumber: false,
            strict_wakers: false,
            env_script: vec![],
        }
    }
}

struct FlagWaker(AtomicBool, std::thread::Thread);
impl Wake for FlagWaker {
    fn wake(self: Arc<Self>) {
        self.0.store(true, Ordering::SeqCst);
        self.1.unpark();
    }
}

pub struct RunOut {
    /// the runner itself panicked while being polled (message)
    pub panicked: Option<String>,
    pub log: Vec<String>,
    /// events received from the stream, abstracted by names
    pub ended: bool,
    pub polls: usize,
    pub stuck: bool,
}

fn describe_rx(ev: &parser::Result<Event<Cucumber<RW>>>) -> String {
    match ev {
        Err(_) => "RX PE".to_owned(),
        Ok(e) => {
            let mut s = format!("RX {}", cucumber::verif::describe(&**e));
            // append payload ids for failures (the probe's describe has no payloads)
            if let Cucumber::Feature(_, fe) = &**e {
                let sc = match fe {
                    event::Feature::Scenario(_, sc) => Some(sc),
                    event::Feature::Rule(_, event::Rule::Scenario(_, sc)) => Some(sc),
                    _ => None,
                };
                if let Some(sc) = sc {
                    match &sc.event {
                        event::Scenario::Hook(_, event::Hook::Failed(_, info)) => {
                            s.push_str(&format!(" {}", payload_id(info)));
                        }
                        event::Scenario::Step(_, event::Step::Failed(_, _, _, event::StepError::Panic(info)))
                        | event::Scenario::Background(_, event::Step::Failed(_, _, _, event::StepError::Panic(info))) => {
                            s.push_str(&format!(" {}", payload_id(info)));
                        }
                        _ => {}
                    }
                }
            }
            s
        }
    }
}

/// Runs the real runner to completion under the controlled scheduler.
pub fn run(
    cfg: &RunCfg,
    parser_script: ScriptedParser,
    scripts: HashMap<(String, usize), AttScript>,
    rng: &mut Rng,
) -> RunOut {
    CTX.with(|c| {
        *c.borrow_mut() = Some(Ctx {
            log: vec![],
            last_tx_scen: None,
            cur_attempt: HashMap::new(),
            scripts,
            next_wid: 0,
            gates: vec![],
            eager: cfg.eager,
            via_cucumber: cfg.via_cucumber,
            epoch: Instant::now(),
        });
    });
    cucumber::verif::set_sink(Some(Box::new(sink)));

    let coll = step::Collection::<RW>::new()
        .given(None, Regex::new("^run ").unwrap(), step_fn)
        .when(None, Regex::new("^run ").unwrap(), step_fn)
        .then(None, Regex::new("^run ").unwrap(), step_fn)
        .given(None, Regex::new("^amb ").unwrap(), step_fn)
        .given(None, Regex::new("^amb .*$").unwrap(), step_fn);

    if cfg.via_cucumber {
        let out = run_via_cucumber(cfg, parser_script, coll, rng);
        cucumber::verif::set_sink(None);
        let log = CTX.with(|c| c.borrow_mut().take().unwrap().log);
        return RunOut { log, ..out };
    }
    let mut b = runner::Basic::<RW>::default().steps(coll);
    if let Some(c) = cfg.builder_conc {
        b = b.max_concurrent_scenarios(c);
    }
    b = b.retries(cfg.builder_retries).retry_after(cfg.builder_after);
    if cfg.builder_ff {
        b = b.fail_fast();
    }
    if cfg.custom_retry {
        b = b.retry_options(|f, r, s, cli| {
            let mk = |current, left| runner::basic::RetryOptions { retries: cucumber::event::Retries { current, left }, after: None };
            if s.tags.iter().any(|t| t == "cr1") { Some(mk(1, 0)) }
            else if s.tags.iter().any(|t| t == "cr2") { Some(mk(2, 1)) }
            else { runner::basic::RetryOptions::parse_from_tags(f, r, s, cli) }
        });
    }
    let cli = runner::basic::Cli {
        concurrency: cfg.cli_conc,
        fail_fast: cfg.cli_ff,
        retry: cfg.cli_retries,
        retry_after: cfg.cli_after,
        retry_tag_filter: None,
    };
    let which = |f: &gherkin::Feature, r: Option<&gherkin::Rule>, s: &gherkin::Scenario| {
        let tagged = s.tags.iter().chain(r.iter().flat_map(|r| &r.tags)).chain(&f.tags).any(|t| t == "xserial");
        if tagged { runner::ScenarioType::Serial } else { runner::ScenarioType::Concurrent }
    };

    // the four hook combinations are four different types
    macro_rules! go {
        ($runner:expr) => {{
            let stream = $runner.run(parser_script, cli);
            drive(stream, cfg, rng)
        }};
    }
    let out = match (cfg.has_before, cfg.has_after, cfg.custom_which) {
        (false, false, false) => go!(b),
        (true, false, false) => go!(b.before(before_hook)),
        (false, true, false) => go!(b.after(after_hook)),
        (true, true, false) => go!(b.before(before_hook).after(after_hook)),
        (false, false, true) => go!(b.which_scenario(which)),
        (true, false, true) => go!(b.which_scenario(which).before(before_hook)),
        (false, true, true) => go!(b.which_scenario(which).after(after_hook)),
        (true, true, true) => go!(b.which_scenario(which).before(before_hook).after(after_hook)),
    };
    cucumber::verif::set_sink(None);
    let log = CTX.with(|c| c.borrow_mut().take().unwrap().log);
    RunOut { log, ..out }
}

/// the inner writer of the end-to-end verdict pipeline: `Summarize<Null>` is what `summarized()` builds
struct NullW;
impl cucumber::Writer<RW> for NullW {
    type Cli = cucumber::cli::Empty;
    async fn handle_event(&mut self, _: parser::Result<Event<Cucumber<RW>>>, _: &cucumber::cli::Empty) {}
}
impl<V: AsRef<str>> cucumber::writer::Arbitrary<RW, V> for NullW {
    async fn write(&mut self, _: V) {}
}
impl cucumber::writer::NonTransforming for NullW {}

fn drive<S>(stream: S, cfg: &RunCfg, rng: &mut Rng) -> RunOut
where
    S: Stream<Item = parser::Result<Event<Cucumber<RW>>>>,
{
    use cucumber::{writer::Stats as _, Writer as _, WriterExt as _};
    // every event the run delivers also goes through the REAL `Summarize` (C01 end to end)
    let mut summ = NullW.summarized();
    futures::pin_mut!(stream);
    let mut fw = Arc::new(FlagWaker(AtomicBool::new(false), std::thread::current()));
    let mut polls = 0usize;
    let mut ended = false;
    let mut stuck = false;
    let mut idle_since: Option<Instant> = None;
    let mut idle_rounds = 0usize;
    let mut panicked: Option<String> = None;
    let mut script = cfg.env_script.iter().copied();
    loop {
        polls += 1;
        if polls > cfg.max_polls {
            log("HARNESS poll-budget-exhausted".to_owned());
            stuck = true;
            break;
        }
        if cfg.strict_wakers {
            fw = Arc::new(FlagWaker(AtomicBool::new(false), std::thread::current()));
        }
        fw.0.store(false, Ordering::SeqCst);
        let waker = Waker::from(Arc::clone(&fw));
        let mut cx = Context::from_waker(&waker);
        // poll boundary (once per poll in which something was logged)
        with(|c| if c.log.last().is_some_and(|l| l != "POLL") { c.log.push("POLL".to_owned()); });
        let before = with(|c| c.log.len());
        let polled = std::panic::catch_unwind(std::panic::AssertUnwindSafe(|| stream.as_mut().poll_next(&mut cx)));
        let polled = match polled {
            Ok(p) => p,
            Err(payload) => {
                let msg = payload.downcast_ref::<String>().cloned()
                    .or_else(|| payload.downcast_ref::<&'static str>().map(|s| (*s).to_owned()))
                    .unwrap_or_else(|| "non-string payload".to_owned());
                log(format!("HARNESS runner-panicked {msg}"));
                panicked = Some(msg);
                break;
            }
        };
        match polled {
            Poll::Ready(Some(ev)) => {
                log(describe_rx(&ev));
                futures::executor::block_on(summ.handle_event(ev, &cucumber::cli::Empty));
                idle_since = None;
                continue;
            }
            Poll::Ready(None) => {
                ended = true;
                log(format!(
                    "VERDICT {} {} {} {}",
                    u8::from(summ.execution_has_failed()), summ.failed_steps(), summ.parsing_errors(), summ.hook_errors()
                ));
                break;
            }
            Poll::Pending => {
                // Progress = anything was logged during this poll (probe, callback).
                // (With the `tracing` feature the runner self-wakes on every poll while scenarios
                // run, so "woken" alone does not mean progress.)
                // Lines of an idle loop iteration (the runner polling an unfinished parser) are not
                // progress either: the environment has to move.
                let progressed = with(|c| {
                    c.log[before..].iter().any(|l| {
                        !(l.starts_with("GET1 ") || (l.starts_with("GET2 ") && l.contains("got=[]")) || l.starts_with("IDLE ") || l == "P pend")
                    })
                });
                if progressed {
                    idle_since = None;
                    continue;
                }
                // no progress: environment move
                let waiting: Vec<usize> = with(|c| {
                    c.gates.iter().enumerate().filter(|(_, g)| !g.open && g.waker.is_some()).map(|(i, _)| i).collect()
                });
                let parser_waiting = PARSER_WAKER.with(|w| w.borrow().is_some());
                let n_choices = waiting.len() + usize::from(parser_waiting);
                if n_choices > 0 {
                    idle_since = None;
                    let pick = match script.next() {
                        Some(0) if !waiting.is_empty() => 0,
                        Some(1) if parser_waiting => waiting.len(),
                        _ => if !waiting.is_empty() && rng.chance(cfg.fifo_bias, 8) { 0 } else { rng.below(n_choices) },
                    };
                    if pick < waiting.len() {
                        if cfg.gate_delay_us > 0 && rng.chance(1, 3) {
                            std::thread::sleep(Duration::from_micros(cfg.gate_delay_us));
                        }
                        let g = waiting[pick];
                        log(format!("GATE open {g}"));
                        let w = with(|c| {
                            c.gates[g].open = true;
                            c.gates[g].waker.take()
                        });
                        if let Some(w) = w {
                            w.wake();
                        }
                    } else {
                        log("P wake".to_owned());
                        if let Some(w) = PARSER_WAKER.with(|w| w.borrow_mut().take()) {
                            w.wake();
                        }
                    }
                    continue;
                }
                // nothing to open: a helper thread may be sleeping for a retry delay, or the runner
                // is in a yield chain; keep polling for a bounded wall time
                // (wall time alone is not evidence: the whole machine may have been frozen for seconds; the
                // run must also have gone through many idle rounds of its own)
                if idle_since.is_none() { idle_rounds = 0; }
                idle_rounds += 1;
                let since = *idle_since.get_or_insert_with(Instant::now);
                if since.elapsed() > Duration::from_millis(4000) && idle_rounds > 300 {
                    log("HARNESS stuck".to_owned());
                    stuck = true;
                    break;
                }
                if cfg.strict_wakers {
                    // poll again only when the waker of THIS poll was woken
                    let t0 = Instant::now();
                    while !fw.0.load(Ordering::SeqCst) && t0.elapsed() < Duration::from_millis(6000) {
                        std::thread::park_timeout(Duration::from_millis(5));
                    }
                    if !fw.0.load(Ordering::SeqCst) {
                        log("HARNESS stuck (the waker of the latest poll was never woken)".to_owned());
                        stuck = true;
                        break;
                    }
                } else if !fw.0.load(Ordering::SeqCst) {
                    std::thread::park_timeout(Duration::from_millis(5));
                }
            }
        }
    }
    RunOut { panicked, log: vec![], ended, polls, stuck }
}

// ---------------------------------------------------------------------------
// feature construction for runs

#[derive(Clone, Copy, Debug, PartialEq, Eq)]
pub enum Kind {
    Run,
    NoMatch,
    Amb,
}

impl Kind {
    fn word(self) -> &'static str {
        match self {
            Kind::Run => "run",
            Kind::NoMatch => "nomatch",
            Kind::Amb => "amb",
        }
    }
}

#[derive(Clone, Debug)]
pub struct RScen {
    pub id: usize,
    pub tags: Vec<String>,
    pub steps: Vec<Kind>,
}

#[derive(Clone, Debug)]
pub struct RRule {
    pub id: usize,
    pub tags: Vec<String>,
    pub bg: Vec<Kind>,
    pub scens: Vec<RScen>,
}

#[derive(Clone, Debug)]
pub struct RFeat {
    pub id: usize,
    pub tags: Vec<String>,
    pub bg: Vec<Kind>,
    pub scens: Vec<RScen>,
    pub rules: Vec<RRule>,
}

pub const RBG: usize = 100_000;
pub const RST: usize = 200_000;

pub fn build_feature(f: &RFeat) -> gherkin::Feature {
    let st = |k: Kind, bg: bool, i: usize| StepSpec {
        ty: if bg { StepType::Given } else { [StepType::Given, StepType::When, StepType::Then][i % 3] },
        value: format!("{} {} {}", k.word(), if bg { "bg" } else { "st" }, i),
    };
    // ambiguous definitions are registered under Given only
    let st2 = |k: Kind, bg: bool, i: usize| {
        let mut s = st(k, bg, i);
        if k == Kind::Amb {
            s.ty = StepType::Given;
        }
        s
    };
    let scen = |s: &RScen| ScenSpec {
        id: s.id,
        name: format!("s-{}", s.id),
        tags: s.tags.clone(),
        steps: s.steps.iter().enumerate().map(|(i, k)| st2(*k, false, i)).collect(),
        line: 10,
    };
    let nfbg = f.bg.len();
    let spec = FeatSpec {
        id: f.id,
        name: format!("f-{}", f.id),
        path: None,
        tags: f.tags.clone(),
        bg: f.bg.iter().enumerate().map(|(i, k)| st2(*k, true, i)).collect(),
        scens: f.scens.iter().map(scen).collect(),
        rules: f
            .rules
            .iter()
            .map(|r| RuleSpec {
                id: r.id,
                name: format!("r-{}", r.id),
                tags: r.tags.clone(),
                bg: r.bg.iter().enumerate().map(|(j, k)| st2(*k, true, nfbg + j)).collect(),
                scens: r.scens.iter().map(scen).collect(),
            })
            .collect(),
    };
    let mut g = mk_feat(&spec);
    // line numbers encode (background?, index) for the probe lines
    let fix = |steps: &mut Vec<gherkin::Step>, base: usize, off: usize| {
        for (i, s) in steps.iter_mut().enumerate() {
            s.position.line = base + off + i;
        }
    };
    if let Some(b) = g.background.as_mut() {
        fix(&mut b.steps, RBG, 0);
    }
    for s in &mut g.scenarios {
        fix(&mut s.steps, RST, 0);
    }
    for r in &mut g.rules {
        if let Some(b) = r.background.as_mut() {
            fix(&mut b.steps, RBG, nfbg);
        }
        for s in &mut r.scenarios {
            fix(&mut s.steps, RST, 0);
        }
    }
    g
}


// ---------------------------------------------------------------------------
// the same run, built and driven through the `Cucumber` builder

struct AsParser(ScriptedParser);
impl cucumber::Parser<()> for AsParser {
    type Cli = cucumber::cli::Empty;
    type Output = ScriptedParser;
    fn parse(self, _: (), _: cucumber::cli::Empty) -> ScriptedParser { self.0 }
}

type EvQueue = std::rc::Rc<RefCell<std::collections::VecDeque<parser::Result<Event<Cucumber<RW>>>>>>;

/// the writer end of the pipeline: hands every event to the harness' poll loop
struct QueueWriter(EvQueue);
impl cucumber::Writer<RW> for QueueWriter {
    type Cli = cucumber::cli::Empty;
    async fn handle_event(&mut self, ev: parser::Result<Event<Cucumber<RW>>>, _: &cucumber::cli::Empty) {
        self.0.borrow_mut().push_back(ev);
    }
}
impl cucumber::writer::Normalized for QueueWriter {}

/// `Cucumber::run` as a stream of the events its writer received
struct FutStream<F> { fut: Pin<Box<F>>, q: EvQueue, done: bool }
impl<F: std::future::Future> Stream for FutStream<F> {
    type Item = parser::Result<Event<Cucumber<RW>>>;
    fn poll_next(mut self: Pin<&mut Self>, cx: &mut Context<'_>) -> Poll<Option<Self::Item>> {
        if let Some(e) = self.q.borrow_mut().pop_front() { return Poll::Ready(Some(e)); }
        if self.done { return Poll::Ready(None); }
        let this = &mut *self;
        if this.fut.as_mut().poll(cx).is_ready() { this.done = true; }
        if let Some(e) = this.q.borrow_mut().pop_front() { return Poll::Ready(Some(e)); }
        if this.done { Poll::Ready(None) } else { Poll::Pending }
    }
}

fn run_via_cucumber(cfg: &RunCfg, parser_script: ScriptedParser, coll: step::Collection<RW>, rng: &mut Rng) -> RunOut {
    let q: EvQueue = std::rc::Rc::default();
    let mut cu = cucumber::Cucumber::<RW, _, (), _, _, cucumber::cli::Empty>::custom(
        AsParser(parser_script), runner::Basic::<RW>::default(), QueueWriter(std::rc::Rc::clone(&q)),
    ).steps(coll);
    if let Some(c) = cfg.builder_conc {
        cu = cu.max_concurrent_scenarios(c);
    }
    cu = cu.retries(cfg.builder_retries).retry_after(cfg.builder_after);
    if cfg.builder_ff {
        cu = cu.fail_fast();
    }
    if cfg.custom_retry {
        cu = cu.retry_options(|f, r, s, cli| {
            let mk = |current, left| runner::basic::RetryOptions { retries: cucumber::event::Retries { current, left }, after: None };
            if s.tags.iter().any(|t| t == "cr1") { Some(mk(1, 0)) }
            else if s.tags.iter().any(|t| t == "cr2") { Some(mk(2, 1)) }
            else { runner::basic::RetryOptions::parse_from_tags(f, r, s, cli) }
        });
    }
    let opts = cucumber::cli::Opts::<cucumber::cli::Empty, runner::basic::Cli, cucumber::cli::Empty, cucumber::cli::Empty> {
        re_filter: None,
        tags_filter: None,
        parser: cucumber::cli::Empty,
        runner: runner::basic::Cli {
            concurrency: cfg.cli_conc,
            fail_fast: cfg.cli_ff,
            retry: cfg.cli_retries,
            retry_after: cfg.cli_after,
            retry_tag_filter: None,
        },
        writer: cucumber::cli::Empty,
        custom: cucumber::cli::Empty,
    };
    let which = |f: &gherkin::Feature, r: Option<&gherkin::Rule>, s: &gherkin::Scenario| {
        let tagged = s.tags.iter().chain(r.iter().flat_map(|r| &r.tags)).chain(&f.tags).any(|t| t == "xserial");
        if tagged { runner::ScenarioType::Serial } else { runner::ScenarioType::Concurrent }
    };
    macro_rules! go {
        ($cu:expr) => {{
            let fut = $cu.with_cli(opts).run(());
            drive(FutStream { fut: Box::pin(fut), q: std::rc::Rc::clone(&q), done: false }, cfg, rng)
        }};
    }
    match (cfg.has_before, cfg.has_after, cfg.custom_which) {
        (false, false, false) => go!(cu),
        (true, false, false) => go!(cu.before(before_hook)),
        (false, true, false) => go!(cu.after(after_hook)),
        (true, true, false) => go!(cu.before(before_hook).after(after_hook)),
        (false, false, true) => go!(cu.which_scenario(which)),
        (true, false, true) => go!(cu.which_scenario(which).before(before_hook)),
        (false, true, true) => go!(cu.which_scenario(which).after(after_hook)),
        (true, true, true) => go!(cu.which_scenario(which).before(before_hook).after(after_hook)),
    }
}
