import Cuke.Model.Writers
/-!
# C13 — Writer combinators are transparent: fail_on_skipped, repeat, tee, or
Model: `Cuke.handle`, `Cuke.runW`, `Cuke.writeW`, `Cuke.statsOf` (Cuke/Model/Writers.lean).
All statements hold for every event stream (contract-abiding or not) and every inner pipeline `w`.
-/
namespace Cuke.C13
open Cuke List

/-- `runW` started from an arbitrary state (generalisation used by the inductions). -/
def runFrom (cat : Catalog) (w : W) (s : St w) (acc : List Out) (evs : List Ev) : St w × List Out :=
  evs.foldl (fun (a : St w × List Out) e => let r := handle cat w a.1 e; (r.1, a.2 ++ r.2)) (s, acc)

theorem runW_eq_runFrom (cat : Catalog) (w : W) (evs : List Ev) :
    runW cat w evs = runFrom cat w (St.init w) [] evs := rfl

theorem runFrom_cons (cat) (w : W) (s : St w) (acc) (e : Ev) (es : List Ev) :
    runFrom cat w s acc (e :: es) = runFrom cat w (handle cat w s e).1 (acc ++ (handle cat w s e).2) es := rfl

theorem runFrom_append (cat) (w : W) (s : St w) (acc) (es₁ es₂ : List Ev) :
    runFrom cat w s acc (es₁ ++ es₂) =
      runFrom cat w (runFrom cat w s acc es₁).1 (runFrom cat w s acc es₁).2 es₂ := by
  simp [runFrom, foldl_append]

theorem runFrom_acc (cat) (w : W) (s : St w) (acc) (es : List Ev) :
    runFrom cat w s acc es = ((runFrom cat w s [] es).1, acc ++ (runFrom cat w s [] es).2) := by
  induction es generalizing s acc with
  | nil => simp [runFrom]
  | cons e es ih =>
    rw [runFrom_cons, ih, runFrom_cons, ih (acc := [] ++ _)]
    simp [append_assoc]

/-! ## fail_on_skipped -/

/-- `fail_on_skipped` is a per-event map in front of the inner writer: the inner writer sees
    exactly `evs.map f`, in place, nothing added or dropped. -/
theorem fos_is_map (cat : Catalog) (p : FosPred) (w : W) (evs : List Ev) :
    runW cat (.fos p w) evs = runW cat w (evs.map (fosMap (p.eval cat))) := by
  simp only [runW, foldl_map]
  rfl

/-- The map changes exactly the Skipped events of background and regular steps of selected
    scenarios, into Failed-not-found with the same scenario path, step and retry counter. -/
theorem fos_only_skipped (p : ScenKey → Bool) (e : Ev) :
    fosMap p e =
      match e with
      | .scen k ret (.bg i .skipped) => if p k then .scen k ret (.bg i (.failed .notFound)) else e
      | .scen k ret (.step i .skipped) => if p k then .scen k ret (.step i (.failed .notFound)) else e
      | _ => e := by
  unfold fosMap
  split <;> simp_all

/-- Every event that is not a Skipped step event is untouched. -/
theorem fos_untouched (p : ScenKey → Bool) (e : Ev) (h : e.isStepSkipped = false) : fosMap p e = e := by
  unfold fosMap
  split <;> simp_all [Ev.isStepSkipped, Ev.scenEv?, ScenEv.isStepSkipped, ScenEv.stepRes?, StepRes.isSkipped]

/-- Scenarios not selected by the predicate keep their Skipped events. -/
theorem fos_not_selected (p : ScenKey → Bool) (k : ScenKey) (ret) (se : ScenEv) (h : p k = false) :
    fosMap p (.scen k ret se) = .scen k ret se := by
  unfold fosMap
  split <;> simp_all

/-- The default predicate: no `allow.skipped` among scenario, rule and feature tags. -/
theorem fos_default_pred (cat : Catalog) (k : ScenKey) :
    FosPred.default.eval cat k = true ↔
      "allow.skipped" ∉ cat.scenTags k ∧
      (∀ r, k.rule = some r → "allow.skipped" ∉ cat.ruleTags k.feat r) ∧
      "allow.skipped" ∉ cat.featTags k.feat := by
  simp only [FosPred.eval, inheritedTags, Bool.not_eq_true', any_eq_false]
  constructor
  · intro h
    refine ⟨fun hm => ?_, ?_, fun hm => ?_⟩
    · have := h "allow.skipped" (by simp [hm])
      simp at this
    · intro r hr hm
      have := h "allow.skipped" (by simp [hr, hm])
      simp at this
    · have := h "allow.skipped" (by simp [hm])
      simp at this
  · rintro ⟨h1, h2, h3⟩ t ht
    simp only [mem_append] at ht
    simp only [beq_iff_eq]
    rintro rfl
    rcases ht with (ht | ht) | ht
    · exact h1 ht
    · cases hr : k.rule with
      | none => simp [hr] at ht
      | some r => rw [hr] at ht; exact h2 r hr ht
    · exact h3 ht

/-! ## repeat -/

/-- The stream a `Repeat` hands to its inner writer: every event at once, and right after each
    run-Finished the buffered matching events (original order), after which the buffer is empty. -/
def repExpand (f : Ev → Bool) : List Ev → List Ev → List Ev
  | _, [] => []
  | buf, e :: es =>
    let buf' := if f e then buf ++ [e] else buf
    if e.isFinished then e :: (buf' ++ repExpand f [] es) else e :: repExpand f buf' es

theorem rep_handle (cat) (f : RepFilter) (w : W) (buf : List Ev) (s : St w) (e : Ev) :
    handle cat (.rep f w) (buf, s) e =
      let buf' := if f.eval e then buf ++ [e] else buf
      if e.isFinished then
        let r := runFrom cat w (handle cat w s e).1 (handle cat w s e).2 buf'
        (([], r.1), r.2)
      else ((buf', (handle cat w s e).1), (handle cat w s e).2) := by
  simp only [handle, runFrom]

theorem rep_runFrom (cat) (f : RepFilter) (w : W) (buf : List Ev) (s : St w) (acc) (evs : List Ev) :
    ((runFrom cat (.rep f w) (buf, s) acc evs).1.2, (runFrom cat (.rep f w) (buf, s) acc evs).2) =
      runFrom cat w s acc (repExpand f.eval buf evs) := by
  induction evs generalizing buf s acc with
  | nil => simp [runFrom, repExpand]
  | cons e es ih =>
    rw [runFrom_cons, rep_handle]
    simp only [repExpand]
    by_cases hf : e.isFinished = true
    · simp only [hf, if_true]
      rw [ih, runFrom_cons, runFrom_append]
      congr 1
      · rw [runFrom_acc cat w (handle cat w s e).1 (handle cat w s e).2]
        rw [runFrom_acc cat w (handle cat w s e).1 (acc ++ (handle cat w s e).2)]
      · rw [runFrom_acc cat w (handle cat w s e).1 (handle cat w s e).2]
        rw [runFrom_acc cat w (handle cat w s e).1 (acc ++ (handle cat w s e).2)]
        simp [append_assoc]
    · simp only [hf, Bool.false_eq_true, if_false]
      rw [ih, runFrom_cons]

/-- **Repeat**: the inner writer (whatever it is) sees exactly `repExpand filter [] evs`. -/
theorem repeat_output (cat) (f : RepFilter) (w : W) (evs : List Ev) :
    ((runW cat (.rep f w) evs).1.2, (runW cat (.rep f w) evs).2) = runW cat w (repExpand f.eval [] evs) := by
  rw [runW_eq_runFrom, runW_eq_runFrom]
  exact rep_runFrom cat f w [] (St.init w) [] evs

theorem repExpand_no_finished (f : Ev → Bool) (buf : List Ev) (evs : List Ev)
    (h : ∀ e ∈ evs, e.isFinished = false) : repExpand f buf evs = evs := by
  induction evs generalizing buf with
  | nil => rfl
  | cons e es ih =>
    have he := h e (by simp)
    simp [repExpand, he, ih _ (fun x hx => h x (by simp [hx]))]

theorem repExpand_prefix (f : Ev → Bool) (buf pre rest : List Ev)
    (h : ∀ e ∈ pre, e.isFinished = false) (fin : Ev) (hfin : fin.isFinished = true) :
    repExpand f buf (pre ++ fin :: rest) =
      pre ++ fin :: ((buf ++ (pre ++ [fin]).filter f) ++ repExpand f [] rest) := by
  induction pre generalizing buf with
  | nil =>
    simp only [nil_append, repExpand, hfin, if_true, filter_cons, filter_nil]
    split <;> simp
  | cons e es ih =>
    have he := h e (by simp)
    simp only [cons_append, repExpand, he, Bool.false_eq_true, if_false]
    rw [ih _ (fun x hx => h x (by simp [hx]))]
    by_cases hfe : f e = true <;> simp [hfe, filter_cons, append_assoc]

/-- Explicit form for a stream with one run-Finished: everything up to and including it passes
    through unchanged and in order, then exactly the matching events are re-emitted once, in
    original order, and later events pass through unchanged (nothing is re-emitted again). -/
theorem repeat_once (f : Ev → Bool) (pre post : List Ev)
    (hpre : ∀ e ∈ pre, e.isFinished = false) (hpost : ∀ e ∈ post, e.isFinished = false) :
    repExpand f [] (pre ++ Ev.finished :: post) =
      pre ++ [Ev.finished] ++ (pre ++ [Ev.finished]).filter f ++ post := by
  rw [repExpand_prefix f [] pre post hpre Ev.finished rfl, repExpand_no_finished f [] post hpost]
  simp [append_assoc]

/-- The three built-in filters. -/
theorem repeat_filters (e : Ev) :
    (RepFilter.skipped.eval e = e.isStepSkipped) ∧
    (RepFilter.failed.eval e = (e.isStepFailed || e.isHookFailed || e.isParseErr)) := ⟨rfl, rfl⟩

/-! ## tee -/

/-- Both sides of a `Tee` see the same stream: each side's state is what it would be alone. -/
theorem tee_same_stream (cat) (l r : W) (evs : List Ev) :
    (runW cat (.tee l r) evs).1 = ((runW cat l evs).1, (runW cat r evs).1) := by
  suffices ∀ (sl : St l) (sr : St r) acc accl accr,
      (runFrom cat (.tee l r) (sl, sr) acc evs).1 =
        ((runFrom cat l sl accl evs).1, (runFrom cat r sr accr evs).1) from this _ _ [] [] []
  induction evs with
  | nil => intros; rfl
  | cons e es ih => intro sl sr acc accl accr; simp only [runFrom_cons]; exact ih _ _ _ _ _

/-- Per event, a `Tee` delivers to the left pipeline then to the right one, each exactly as if alone. -/
theorem tee_per_event (cat) (l r : W) (sl : St l) (sr : St r) (e : Ev) :
    (handle cat (.tee l r) (sl, sr) e).2 = (handle cat l sl e).2 ++ (handle cat r sr e).2 := rfl

/-- Arbitrary writes go to both sides. -/
theorem tee_write (l r : W) (v : WVal) : writeW (.tee l r) v = writeW l v ++ writeW r v := rfl

/-- Tee statistics are the pointwise maximum. -/
theorem tee_stats_max (l r : W) (sl : St l) (sr : St r) :
    statsOf (.tee l r) (sl, sr) = (statsOf l sl).max (statsOf r sr) := rfl

/-! ## or -/

/-- Each event goes to exactly the side the predicate selects: the left pipeline's state is what it
    would be on the selected sub-stream alone, the right one's on the complement. -/
theorem or_partition (cat) (c : OrPred) (l r : W) (evs : List Ev) :
    (runW cat (.or c l r) evs).1 =
      ((runW cat l (evs.filter c.eval)).1, (runW cat r (evs.filter (fun e => !c.eval e))).1) := by
  suffices ∀ (sl : St l) (sr : St r) acc accl accr,
      (runFrom cat (.or c l r) (sl, sr) acc evs).1 =
        ((runFrom cat l sl accl (evs.filter c.eval)).1,
         (runFrom cat r sr accr (evs.filter (fun e => !c.eval e))).1) from this _ _ [] [] []
  induction evs with
  | nil => intros; rfl
  | cons e es ih =>
    intro sl sr acc accl accr
    by_cases hc : c.eval e = true
    · simp only [filter_cons, hc, if_true, Bool.not_true, Bool.false_eq_true, if_false, runFrom_cons]
      have : handle cat (.or c l r) (sl, sr) e = (((handle cat l sl e).1, sr), (handle cat l sl e).2) := by
        simp [handle, hc]
      rw [this]; exact ih _ _ _ _ _
    · have hc' : c.eval e = false := by simpa using hc
      simp only [filter_cons, hc', Bool.false_eq_true, if_false, Bool.not_false, if_true, runFrom_cons]
      have : handle cat (.or c l r) (sl, sr) e = ((sl, (handle cat r sr e).1), (handle cat r sr e).2) := by
        simp [handle, hc']
      rw [this]; exact ih _ _ _ _ _

/-- Per event: delivered to the selected side only. -/
theorem or_per_event (cat) (c : OrPred) (l r : W) (sl : St l) (sr : St r) (e : Ev) :
    (handle cat (.or c l r) (sl, sr) e).2 =
      if c.eval e then (handle cat l sl e).2 else (handle cat r sr e).2 := by
  simp only [handle]; split <;> rfl

/-- Or statistics are the pointwise sum. -/
theorem or_stats_sum (c : OrPred) (l r : W) (sl : St l) (sr : St r) :
    statsOf (.or c l r) (sl, sr) = (statsOf l sl).add (statsOf r sr) := rfl

/-! ## Normalize in a pipeline -/

/-- one call of `Normalize<w>`: the inner writer is fed exactly what the queue model releases -/
theorem norm_handle (cat) (w : W) (n n' : Norm) (s : St w) (e : Ev) (out : List Ev)
    (h : n.handle e = some (n', out)) :
    handle cat (.norm w) (some n, s) e = ((some n', (runFrom cat w s [] out).1), (runFrom cat w s [] out).2) := by
  simp only [handle, h]
  rfl

/-- **`Normalize` is a pre-filter**: on a stream on which `Normalize` hits no panic branch, the inner
    pipeline `w` behaves exactly as if it had been fed the re-ordered stream (`normRun`'s output) directly —
    same leaf records, same state (hence same statistics and verdict). What that re-ordered stream is, is
    C11's subject (`C11.norm_T1_perm`: a permutation of the input). -/
theorem norm_prefilter_from (cat) (w : W) (n n' : Norm) (s : St w) (acc : List Out) (evs : List Ev) (outs : List (List Ev))
    (h : normRun n evs = some (n', outs)) :
    runFrom cat (.norm w) (some n, s) acc evs =
      ((some n', (runFrom cat w s [] outs.flatten).1), acc ++ (runFrom cat w s [] outs.flatten).2) := by
  induction evs generalizing n s acc outs with
  | nil =>
    simp only [normRun, Option.some.injEq, Prod.mk.injEq] at h
    obtain ⟨rfl, rfl⟩ := h
    simp [runFrom]
  | cons e es ih =>
    simp only [normRun] at h
    cases hh : n.handle e with
    | none => simp [hh] at h
    | some r =>
      obtain ⟨n1, out⟩ := r
      simp only [hh] at h
      cases hr : normRun n1 es with
      | none => simp [hr] at h
      | some r2 =>
        obtain ⟨n2, outs2⟩ := r2
        simp only [hr, Option.some.injEq, Prod.mk.injEq] at h
        obtain ⟨rfl, rfl⟩ := h
        rw [runFrom_cons, norm_handle cat w n n1 s e out hh]
        rw [ih n1 _ _ outs2 hr]
        simp only [flatten_cons]
        rw [runFrom_append cat w s [] out outs2.flatten]
        rw [runFrom_acc cat w (runFrom cat w s [] out).1 (runFrom cat w s [] out).2 outs2.flatten]
        simp [append_assoc]

theorem norm_prefilter (cat) (w : W) (evs : List Ev) (n : Norm) (outs : List (List Ev))
    (h : normRun Norm.init evs = some (n, outs)) :
    runW cat (.norm w) evs = ((some n, (runW cat w outs.flatten).1), (runW cat w outs.flatten).2) := by
  rw [runW_eq_runFrom, runW_eq_runFrom]
  have := norm_prefilter_from cat w Norm.init n (St.init w) [] evs outs h
  simpa [St.init] using this

/-- `Normalize` forwards `Arbitrary::write`, the `Stats` getters and the verdict untouched. -/
theorem norm_identity (w : W) (v : WVal) (ns : Option Norm) (s : St w) :
    writeW (.norm w) v = writeW w v ∧ statsOf (.norm w) (ns, s) = statsOf w s ∧
    execFailed (.norm w) (ns, s) = execFailed w s := ⟨rfl, rfl, rfl⟩

/-! ## identities -/

/-- `AssertNormalized` / `discard::*` do not touch events, writes or statistics. -/
theorem pass_identity (cat) (w : W) (evs : List Ev) (v : WVal) (s : St w) :
    runW cat (.pass w) evs = runW cat w evs ∧ writeW (.pass w) v = writeW w v ∧
    statsOf (.pass w) s = statsOf w s ∧ execFailed (.pass w) s = execFailed w s := ⟨rfl, rfl, rfl, rfl⟩

/-- A recording leaf receives exactly the events fed, in order. -/
theorem leaf_records (cat) (i : Nat) (evs : List Ev) :
    (runW cat (.leaf i) evs).2 = evs.map (Out.ev i) := by
  suffices ∀ s acc, (runFrom cat (.leaf i) s acc evs).2 = acc ++ evs.map (Out.ev i) from by
    rw [runW_eq_runFrom, this]; simp
  induction evs with
  | nil => intros; simp [runFrom]
  | cons e es ih => intro s acc; rw [runFrom_cons, ih]; simp [handle]

/-! ## Non-vacuity: concrete pipeline and stream -/
def exCat : Catalog :=
  { featTags := fun _ => [], ruleTags := fun _ _ => [], scenTags := fun k => if k.scen = 2 then ["allow.skipped"] else [],
    nsteps := fun _ => 1 }
def k1 : ScenKey := ⟨0, none, 1⟩
def k2 : ScenKey := ⟨0, none, 2⟩
def exEvs : List Ev := [.scen k1 none (.step 0 .skipped), .scen k2 none (.step 0 .skipped), .finished]

example : (runW exCat (.fos .default (.rep .failed (.leaf 7))) exEvs).2 =
    [.ev 7 (.scen k1 none (.step 0 (.failed .notFound))), .ev 7 (.scen k2 none (.step 0 .skipped)), .ev 7 .finished,
     .ev 7 (.scen k1 none (.step 0 (.failed .notFound)))] := by decide

end Cuke.C13
