import Cuke.Model.Sched
/-! Helper lemmas about the scheduler's pure functions (used by the property files C03–C08). -/
namespace Cuke.SchedL
open Cuke List

theorem drainQ_perm (ready : Entry → Bool) (cnt : Option Nat) (l : List Entry) :
    (drainQ ready cnt l).1 ++ (drainQ ready cnt l).2.1 ~ l := by
  induction l generalizing cnt with
  | nil => simp [drainQ]
  | cons e rest ih =>
    unfold drainQ
    by_cases h0 : (cnt == some 0) = true
    · simp [h0]
    · simp only [h0, Bool.false_eq_true, if_false]
      by_cases hr : ready e = true
      · simp only [hr, if_true]
        exact (ih _).cons e
      · simp only [hr, Bool.false_eq_true, if_false]
        have := ih cnt
        exact (perm_middle.trans (this.cons e))

theorem drainQ_sublist (ready : Entry → Bool) (cnt : Option Nat) (l : List Entry) :
    (drainQ ready cnt l).1.Sublist l ∧ (drainQ ready cnt l).2.1.Sublist l := by
  induction l generalizing cnt with
  | nil => simp [drainQ]
  | cons e rest ih =>
    unfold drainQ
    by_cases h0 : (cnt == some 0) = true
    · simp [h0]
    · simp only [h0, Bool.false_eq_true, if_false]
      by_cases hr : ready e = true
      · simp only [hr, if_true]
        exact ⟨(ih _).1.cons₂ e, (ih _).2.cons e⟩
      · simp only [hr, Bool.false_eq_true, if_false]
        exact ⟨(ih _).1.cons e, (ih _).2.cons₂ e⟩

theorem drainQ_all_ready (ready : Entry → Bool) (cnt : Option Nat) (l : List Entry) :
    ∀ e ∈ (drainQ ready cnt l).1, ready e = true := by
  induction l generalizing cnt with
  | nil => simp [drainQ]
  | cons e rest ih =>
    unfold drainQ
    by_cases h0 : (cnt == some 0) = true
    · simp [h0]
    · simp only [h0, Bool.false_eq_true, if_false]
      by_cases hr : ready e = true
      · simp only [hr, if_true]
        intro x hx
        simp only [mem_cons] at hx
        rcases hx with rfl | hx
        · exact hr
        · exact ih _ x hx
      · simp only [hr, Bool.false_eq_true, if_false]
        exact ih _

theorem drainQ_length_le (ready : Entry → Bool) (n : Nat) (l : List Entry) :
    (drainQ ready (some n) l).1.length ≤ n := by
  induction l generalizing n with
  | nil => simp [drainQ]
  | cons e rest ih =>
    unfold drainQ
    by_cases h0 : n = 0
    · simp [h0]
    · have : ((some n : Option Nat) == some 0) = false := by simp [h0]
      simp only [this, Bool.false_eq_true, if_false]
      by_cases hr : ready e = true
      · simp only [hr, if_true, Option.map_some, length_cons]
        have := ih (n - 1)
        omega
      · simp only [hr, Bool.false_eq_true, if_false]
        exact ih n

/-- Work conservation of one queue: if fewer than `n` entries were taken, no ready entry is left. -/
theorem drainQ_maximal (ready : Entry → Bool) (n : Nat) (l : List Entry)
    (h : (drainQ ready (some n) l).1.length < n) :
    ∀ e ∈ (drainQ ready (some n) l).2.1, ready e = false := by
  induction l generalizing n with
  | nil => simp [drainQ]
  | cons e rest ih =>
    unfold drainQ at h ⊢
    by_cases h0 : n = 0
    · simp [h0] at h
    · have hz : ((some n : Option Nat) == some 0) = false := by simp [h0]
      simp only [hz, Bool.false_eq_true, if_false] at h ⊢
      by_cases hr : ready e = true
      · simp only [hr, if_true, Option.map_some, length_cons] at h ⊢
        exact ih (n - 1) (by omega)
      · simp only [hr, Bool.false_eq_true, if_false] at h ⊢
        intro x hx
        simp only [mem_cons] at hx
        rcases hx with rfl | hx
        · simpa using hr
        · exact ih n h x hx

/-- Unlimited: every ready entry is taken. -/
theorem drainQ_unlimited (ready : Entry → Bool) (l : List Entry) :
    ∀ e ∈ (drainQ ready none l).2.1, ready e = false := by
  induction l with
  | nil => simp [drainQ]
  | cons e rest ih =>
    unfold drainQ
    simp only [show ((none : Option Nat) == some 0) = false from rfl, Bool.false_eq_true, if_false]
    by_cases hr : ready e = true
    · simp only [hr, if_true, Option.map_none]; exact ih
    · simp only [hr, Bool.false_eq_true, if_false]
      intro x hx
      simp only [mem_cons] at hx
      rcases hx with rfl | hx
      · simpa using hr
      · exact ih x hx

/-- A not-ready entry does not block ready entries behind it. -/
theorem drainQ_skip_not_ready (ready : Entry → Bool) (cnt : Option Nat) (e : Entry) (rest : List Entry)
    (h0 : cnt ≠ some 0) (hr : ready e = false) :
    (drainQ ready cnt (e :: rest)).1 = (drainQ ready cnt rest).1 := by
  have : (cnt == some 0) = false := by simpa using h0
  simp [drainQ, this, hr]

/-- `get` never hands out more than it was asked for. -/
theorem getBatch_length_le (ready : Entry → Bool) (n : Nat) (q : Queues) :
    (getBatch ready (some n) q).1.length ≤ n := by
  unfold getBatch
  by_cases h0 : n = 0
  · simp [h0]
  · have hz : ((some n : Option Nat) == some 0) = false := by simp [h0]
    simp only [hz, Bool.false_eq_true, if_false]
    split
    · have := drainQ_length_le ready 1 q.serial
      simp only
      omega
    · exact drainQ_length_le ready n q.conc

end Cuke.SchedL
