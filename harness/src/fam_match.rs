//! C17: `match.find` — real `step::Collection::find` on random collections
//! registered in random order.

use cucumber::step::{self, Collection, HashableRegex, Location};
use futures::{executor::block_on, future::LocalBoxFuture, FutureExt as _};
use gherkin::StepType;
use regex::Regex;

use crate::common::*;

#[derive(Debug, Default)]
pub struct MW {
    pub last: usize,
}
impl cucumber::World for MW {
    type Error = std::convert::Infallible;
    async fn new() -> Result<Self, Self::Error> {
        Ok(Self::default())
    }
}

macro_rules! fns {
    ($($n:ident = $i:expr),*) => {
        $(fn $n(w: &mut MW, _: step::Context) -> LocalBoxFuture<'_, ()> {
            async move { w.last = $i; }.boxed_local()
        })*
        const FNS: &[step::Step<MW>] = &[$($n),*];
    };
}
fns!(f0 = 0, f1 = 1, f2 = 2, f3 = 3, f4 = 4, f5 = 5, f6 = 6, f7 = 7, f8 = 8, f9 = 9);

const REGEXES: &[&str] = &[
    r"^a (\d+) b$", "a", r"^(?P<x>a+)(b)?", r"(á+)(?:c|(d))", r"^((a)|(b))+$",
    r"^x(?P<n>\d*)y(z)?$", ".*", "^$", "(?i)ABC", r"^(?P<w>\w+) (?P<v>\w+)?$", "b", r"(?:)",
    // unanchored, with groups, matching at a byte offset > 0 (also behind multi-byte characters)
    r"(\d+) (b)", r"(?P<n>\d+)y(z)?", r"(d|c)$", r"(b)(c)?$", r"(?P<t>l+)o( )",
    // compiled with `RegexBuilder` flags (see `build`): the pattern TEXT alone does not say what they match
    "^abc$", "^a b$", "^(A)(b)?c$", "^x y$",
];
/// patterns of the pool that are compiled with a `RegexBuilder` flag: 1 = case_insensitive, 2 = ignore_whitespace
const FLAGGED: &[(&str, u8)] = &[("^abc$", 1), ("^a b$", 2), ("^(A)(b)?c$", 1), ("^x y$", 2)];
fn build(r: &str) -> Regex {
    match FLAGGED.iter().find(|(p, _)| *p == r).map(|(_, f)| *f) {
        Some(1) => regex::RegexBuilder::new(r).case_insensitive(true).build().unwrap(),
        Some(_) => regex::RegexBuilder::new(r).ignore_whitespace(true).build().unwrap(),
        None => Regex::new(r).unwrap(),
    }
}
const TEXTS: &[&str] = &["a 12 b", "aab", "áád", "ab", "xy", "x12yz", "", "abc", "ABC", "b", "áác", "hello ", "a"];
const LOCS: &[Option<Location>] = &[
    None,
    Some(Location { path: "a.rs", line: 1, column: 1 }),
    Some(Location { path: "a.rs", line: 1, column: 2 }),
    Some(Location { path: "a.rs", line: 2, column: 1 }),
    Some(Location { path: "b.rs", line: 1, column: 1 }),
];

fn kw_tok(t: StepType) -> &'static str {
    match t {
        StepType::Given => "g",
        StepType::When => "w",
        StepType::Then => "t",
    }
}

pub fn gen_find(rng: &mut Rng, idx: usize) -> Case {
    let _ = idx;
    let kws = [StepType::Given, StepType::When, StepType::Then];
    let nreg = rng.below(9);
    // few distinct regexes per case so that duplicates / ambiguity are common
    let nre = rng.range(1, 4);
    let res: Vec<&str> = (0..nre).map(|_| *rng.pick(REGEXES)).collect();
    let nloc = rng.range(1, 3);
    let mut regs: Vec<(StepType, &str, usize, usize)> = (0..nreg)
        .map(|_| (*rng.pick(&kws), *rng.pick(&res), rng.below(nloc), rng.below(FNS.len())))
        .collect();
    let distinct_keys = rng.chance(1, 2);
    if distinct_keys {
        let mut seen = std::collections::HashSet::new();
        regs.retain(|(k, r, l, _)| seen.insert((kw_tok(*k), *r, *l)));
    }
    let text = *rng.pick(TEXTS);
    let kw = *rng.pick(&kws);

    // key numbering = position in the real `Ord` order
    let mut keys: Vec<(HashableRegex, Option<Location>)> = Vec::new();
    for (_, r, l, _) in &regs {
        let k = (HashableRegex::from(build(r)), LOCS[*l]);
        if !keys.contains(&k) {
            keys.push(k);
        }
    }
    keys.sort();
    let key_id = |r: &str, l: Option<Location>| {
        keys.iter().position(|(hr, hl)| hr.as_str() == r && *hl == l).unwrap()
    };

    let mut coll = Collection::<MW>::new();
    for (k, r, l, f) in &regs {
        let re = build(r);
        coll = match k {
            StepType::Given => coll.given(LOCS[*l], re, FNS[*f]),
            StepType::When => coll.when(LOCS[*l], re, FNS[*f]),
            StepType::Then => coll.then(LOCS[*l], re, FNS[*f]),
        };
    }
    let mut step = mk_step(&StepSpec { ty: kw, value: text.to_owned() }, 1);
    // the keyword as WRITTEN is not what selects the definitions (the step TYPE is): `And` / `But` inherit the type of
    // the step before them, the `*` bullet is reported as a Given step
    if rng.chance(1, 4) {
        step.keyword = match kw {
            StepType::Given => (*rng.pick(&["* ", "And ", "But ", "Given "])).to_owned(),
            _ => (*rng.pick(&["And ", "But "])).to_owned(),
        };
    }
    let imp = match coll.find(&step) {
        Ok(None) => "none".to_owned(),
        Ok(Some((f, _caps, loc, ctx))) => {
            let mut w = MW::default();
            w.last = usize::MAX;
            block_on(f(&mut w, ctx.clone()));
            format!(
                "one {} {} {}",
                show_opt(loc.as_ref(), |l| LOCS.iter().position(|x| x.as_ref() == Some(l)).unwrap().to_string()),
                w.last,
                show_list(&ctx.matches, |(n, v)| format!("{} {}", show_opt(n.as_ref(), |s| hex(s)), hex(v))),
            )
        }
        Err(e) => format!(
            "amb {}",
            show_list(&e.possible_matches, |(r, l)| key_id(r.as_str(), *l).to_string())
        ),
    };

    let keyinfo = show_list(&keys, |(hr, l)| {
        let re = build(hr.as_str());
        let caps = re.captures(text).map(|c| {
            let groups: Vec<Option<String>> =
                (1..c.len()).map(|i| c.get(i).map(|m| m.as_str().to_owned())).collect();
            format!("{} {}", hex(c.get(0).unwrap().as_str()), show_list(&groups, |g| show_opt(g.as_ref(), |s| hex(s))))
        });
        let names: Vec<Option<String>> = re.capture_names().map(|n| n.map(str::to_owned)).collect();
        format!(
            "{} {} {} {}",
            key_id(hr.as_str(), *l),
            show_opt(l.as_ref(), |l| LOCS.iter().position(|x| x.as_ref() == Some(l)).unwrap().to_string()),
            caps.unwrap_or_else(|| "-".to_owned()),
            show_list(&names, |n| show_opt(n.as_ref(), |s| hex(s))),
        )
    });
    let req = format!(
        "match.find {} {} {}",
        kw_tok(kw),
        show_list(&regs, |(k, r, l, f)| format!("{} {} {}", kw_tok(*k), key_id(r, LOCS[*l]), f)),
        keyinfo,
    );
    let class = imp.split(' ').next().unwrap().to_owned() + if distinct_keys { "/distinct" } else { "/dups" };
    Case { req, nontrivial: !regs.is_empty(), imp, class }
}
