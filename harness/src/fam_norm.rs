//! C11: `norm.run` — contract-abiding (and a few contract-breaking) event streams through the REAL
//! `writer::Normalize` around a recording leaf, compared call by call with the model.

use std::{cell::RefCell, panic::AssertUnwindSafe, rc::Rc};

use cucumber::{cli, writer, Writer, WriterExt as _};
use futures::executor::block_on;

use crate::{common::*, evs::*, fam_pipe::gen_attempt};

struct Rec {
    log: Rc<RefCell<Vec<String>>>,
    cat: Rc<Cat>,
}
impl Writer<PW> for Rec {
    type Cli = cli::Empty;
    async fn handle_event(&mut self, ev: REv, _: &cli::Empty) {
        let a = self.cat.abstract_ev(&ev);
        if !self.cat.meta_ok(&ev, &a) {
            self.log.borrow_mut().push("!metadata-changed".to_owned());
        }
        self.log.borrow_mut().push(show_aev(&a));
    }
}

/// events as nodes of a partial order; returns a random linearisation
fn linearise(rng: &mut Rng, nodes: &[(AEv, Vec<usize>)], sticky: usize) -> Vec<AEv> {
    let n = nodes.len();
    let mut done = vec![false; n];
    let mut out = vec![];
    let mut last: Option<usize> = None;
    for _ in 0..n {
        let avail: Vec<usize> = (0..n).filter(|&i| !done[i] && nodes[i].1.iter().all(|&d| done[d])).collect();
        // stickiness: prefer the direct successor of the last emitted node (sequential-looking streams)
        let pick = match last {
            Some(l) if rng.chance(sticky, 8) => avail.iter().copied().find(|&i| nodes[i].1.contains(&l)).unwrap_or_else(|| *rng.pick(&avail)),
            _ => *rng.pick(&avail),
        };
        done[pick] = true;
        last = Some(pick);
        out.push(nodes[pick].0.clone());
    }
    out
}

thread_local! {
    /// one attempt of the next contract stream gets this many extra `Log` events (a LONG attempt: hundreds of
    /// events that may sit buffered behind another entity)
    pub static LONG_ATTEMPT: std::cell::Cell<usize> = const { std::cell::Cell::new(0) };
}

pub fn gen_contract_stream(rng: &mut Rng, cat: &Cat, sticky: usize) -> Vec<AEv> {
    let mut nodes: Vec<(AEv, Vec<usize>)> = vec![];
    let mut add = |e: AEv, deps: Vec<usize>, nodes: &mut Vec<(AEv, Vec<usize>)>| { nodes.push((e, deps)); nodes.len() - 1 };
    let hooks = (rng.chance(1, 3), rng.chance(1, 3));
    let p_fail = *rng.pick(&[0usize, 3, 8]);
    let started = add(AEv::Started, vec![], &mut nodes);
    let npe = if rng.chance(1, 4) { rng.range(1, 2) } else { 0 };
    let pes: Vec<usize> = (0..npe).map(|i| add(AEv::ParseErr(i), vec![], &mut nodes)).collect();
    let pf = add(AEv::ParsingFinished(cat.feats.len(), 0, cat.scens.len(), 0, npe), pes.clone(), &mut nodes);
    let mut feat_ends = vec![started, pf];
    for f in &cat.feats {
        let in_feat: Vec<&CatScen> = cat.scens.iter().filter(|s| s.key.feat == f.id).collect();
        if in_feat.is_empty() { continue; }
        let fs = add(AEv::FeatStarted(f.id), vec![], &mut nodes);
        let mut f_deps = vec![fs];
        let mut attempts = |s: &CatScen, open: usize, nbg: usize, rng: &mut Rng, nodes: &mut Vec<(AEv, Vec<usize>)>| -> usize {
            let budget = if rng.chance(1, 3) { Some(rng.below(3)) } else { None };
            let mut ret = budget.map(|b| (0usize, b));
            let mut prev = open;
            loop {
                let (mut evs, failed) = gen_attempt(rng, s.key, nbg, s.spec.steps.len(), ret, hooks, p_fail, true);
                let long = LONG_ATTEMPT.with(std::cell::Cell::get);
                if long > 0 && evs.len() >= 2 && rng.chance(1, 3) {
                    LONG_ATTEMPT.with(|l| l.set(0));
                    let extra: Vec<AEv> = (0..long).map(|i| AEv::Scen(s.key, ret, ASc::Log(i % 7))).collect();
                    evs.splice(1..1, extra);
                }
                for e in evs {
                    let deps = if prev == open { vec![open] } else { vec![prev] };
                    nodes.push((e, deps));
                    prev = nodes.len() - 1;
                }
                match ret {
                    Some((c, l)) if failed && l > 0 => ret = Some((c + 1, l - 1)),
                    _ => break,
                }
            }
            prev
        };
        for s in in_feat.iter().filter(|s| s.key.rule.is_none()) {
            let last = attempts(s, fs, f.spec.bg.len(), rng, &mut nodes);
            f_deps.push(last);
        }
        for r in &f.rules {
            let in_rule: Vec<&&CatScen> = in_feat.iter().filter(|s| s.key.rule == Some(r.id)).collect();
            if in_rule.is_empty() { continue; }
            let rs = add(AEv::RuleStarted(f.id, r.id), vec![fs], &mut nodes);
            let mut r_deps = vec![rs];
            for s in in_rule {
                let last = attempts(s, rs, f.spec.bg.len() + r.spec.bg.len(), rng, &mut nodes);
                r_deps.push(last);
            }
            let re = add(AEv::RuleFinished(f.id, r.id), r_deps, &mut nodes);
            f_deps.push(re);
        }
        let fe = add(AEv::FeatFinished(f.id), f_deps, &mut nodes);
        feat_ends.push(fe);
    }
    add(AEv::Finished, feat_ends, &mut nodes);
    linearise(rng, &nodes, sticky)
}

pub fn run_normalize(cat: &Rc<Cat>, evs: &[AEv]) -> String {
    let log: Rc<RefCell<Vec<String>>> = Rc::default();
    let mut w = Rec { log: Rc::clone(&log), cat: Rc::clone(cat) }.normalized::<PW>();
    let mut outs = vec![];
    for e in evs {
        log.borrow_mut().clear();
        let r = std::panic::catch_unwind(AssertUnwindSafe(|| block_on(w.handle_event(cat.realize(e), &cli::Empty))));
        if r.is_err() {
            outs.push("!panic".to_owned());
            break;
        }
        outs.push(show_list(&log.borrow(), |s| s.clone()));
    }
    let _: &dyn writer::Normalized = &w;
    outs.join(" | ")
}

pub fn gen_norm(rng: &mut Rng, idx: usize) -> Case {
    let _ = idx;
    // MANY features (1 case in 60): more than a hundred features whose events interleave freely, so that dozens of
    // finished features sit buffered behind the one at the head of the output and are flushed by a single event
    // (capped in long runs: each such case costs about half a second on the model side)
    let many = idx > 0 && idx < 12_000 && rng.chance(1, 60);
    let specs = if many {
        let mut v = vec![];
        while v.len() < 90 { v = gen_catalog_specs(rng, 150); }
        v
    } else { gen_catalog_specs_twins(rng, 3) };
    let cat = Rc::new(Cat::new(&specs));
    let sticky = if many { 0 } else { *rng.pick(&[0usize, 0, 3, 6, 8]) };
    let long = idx > 0 && !many && rng.chance(1, 25);
    if long { LONG_ATTEMPT.with(|l| l.set(rng.range(257, 420))); }
    let mut evs = gen_contract_stream(rng, &cat, sticky);
    LONG_ATTEMPT.with(|l| l.set(0));
    let breaking = !long && !many && rng.chance(1, 12);
    if breaking && evs.len() > 3 {
        // break the contract: drop, duplicate or move one event
        match rng.below(3) {
            0 => { let i = rng.below(evs.len()); evs.remove(i); }
            1 => { let i = rng.below(evs.len()); let e = evs[i].clone(); let j = rng.below(evs.len()); evs.insert(j, e); }
            _ => { let i = rng.below(evs.len()); let e = evs.remove(i); let j = rng.below(evs.len()); evs.insert(j, e); }
        }
    }
    crate::fam_attempt::install_counting_hook();
    crate::fam_attempt::HOOK_QUIET.with(|q| q.set(true));
    let imp = run_normalize(&cat, &evs);
    crate::fam_attempt::HOOK_QUIET.with(|q| q.set(false));
    let mut req = format!("norm.run {}", show_list(&evs, show_aev));
    let mut imp = imp;
    if !imp.contains("!panic") {
        // monitor: the ordering clauses on what the real writer forwarded (each call's output is
        // already a counted list)
        let outs: Vec<&str> = imp.split(" | ").collect();
        req.push_str(&format!("\nmon.c11 {} {} {} {}", b(!breaking), show_list(&evs, show_aev), outs.len(), outs.join(" ")));
        imp.push_str("\nok");
    }
    let reordered = {
        // was the output order different from the input order?
        let flat: Vec<&str> = imp.split(" | ").flat_map(|c| { let t: Vec<&str> = c.splitn(2, ' ').collect(); if t.len() > 1 { vec![t[1]] } else { vec![] } }).collect();
        flat.join(" ") != evs.iter().map(show_aev).collect::<Vec<_>>().join(" ")
    };
    Case {
        req,
        class: format!("{}{}{}", if breaking { "broken" } else { "contract" }, if imp.contains("!panic") { "/panic" } else { "" }, if reordered { "/reordered" } else { "/sequential" }),
        imp,
        nontrivial: evs.len() > 6,
    }
}
