import Cuke.Model.Attempt
import Cuke.Props.C02
/-!
# C09 — World lifecycle and hook contract within an attempt
Model: the `calls` log of `Cuke.runAttempt` — every invocation of user code with the World it got.
-/
namespace Cuke.C09
open Cuke List

def isWorldNew : Call → Bool
  | .worldNew _ => true
  | _ => false

def isAfter : Call → Bool
  | .after _ _ => true
  | _ => false

/-- `(world id, mutation counter seen)` of a before-hook or step invocation -/
def userOf : Call → Option (Nat × Nat)
  | .before w s => some (w, s)
  | .step _ _ w s => some (w, s)
  | _ => none

def nUser (cs : List Call) : Nat := (cs.filterMap userOf).length
def nNew (cs : List Call) : Nat := (cs.filter isWorldNew).length

/-- the j-th user-code invocation works on World `wid` and sees exactly `j` earlier mutations -/
def Threaded (wid : Nat) (cs : List Call) : Prop :=
  cs.filterMap userOf = (List.range (nUser cs)).map (fun j => (wid, j))

/-- what holds of every state, running or stopped -/
structure Fin (sp : AttemptSpec) (wid : Nat) (st : ASt) : Prop where
  threaded : Threaded wid st.calls
  world : ∀ w c, st.world = some (w, c) → w = wid ∧ c = nUser st.calls
  noWorld : st.world = none → nUser st.calls = 0
  newCount : nNew st.calls ≤ 1
  hasNew : st.world.isSome = true → nNew st.calls = 1
  noAfter : st.calls.filter isAfter = []
  created : sp.init = .ok → nNew st.calls = 1 → st.world.isSome = true

/-- additionally, while the attempt has not been stopped: no World ⇒ `World::new` not yet called -/
structure Inv (sp : AttemptSpec) (wid : Nat) (st : ASt) : Prop extends Fin sp wid st where
  noNew : st.world = none → nNew st.calls = 0

theorem nUser_snoc (cs : List Call) (c : Call) :
    nUser (cs ++ [c]) = nUser cs + (if (userOf c).isSome then 1 else 0) := by
  unfold nUser
  cases h : userOf c <;> simp [filterMap_append, h]

theorem nNew_snoc (cs : List Call) (c : Call) :
    nNew (cs ++ [c]) = nNew cs + (if isWorldNew c then 1 else 0) := by
  unfold nNew
  cases h : isWorldNew c <;> simp [filter_append, h]

theorem threaded_snoc_user (wid : Nat) (cs : List Call) (c : Call) (h : Threaded wid cs)
    (hc : userOf c = some (wid, nUser cs)) : Threaded wid (cs ++ [c]) := by
  unfold Threaded at *
  rw [nUser_snoc]
  simp only [hc, Option.isSome_some, if_true]
  simp only [filterMap_append, filterMap_cons, hc, filterMap_nil]
  rw [List.range_succ, map_append, ← h]
  simp

theorem threaded_snoc_other (wid : Nat) (cs : List Call) (c : Call) (h : Threaded wid cs)
    (hc : userOf c = none) : Threaded wid (cs ++ [c]) := by
  unfold Threaded at *
  rw [nUser_snoc]
  simpa [filterMap_append, hc] using h

theorem inv_st0 (sp : AttemptSpec) (wid : Nat) : Inv sp wid st0 := by
  refine ⟨⟨?_, ?_, ?_, ?_, ?_, ?_, ?_⟩, ?_⟩ <;> simp [st0, Threaded, nUser, nNew]

/-- appending a `World::new` call that succeeded -/
theorem inv_new_ok (sp : AttemptSpec) (wid : Nat) (st : ASt) (h : Inv sp wid st) (hw : st.world = none) (o : InitOut) :
    Inv sp wid { st with calls := st.calls ++ [Call.worldNew o], world := some (wid, 0) } := by
  have hu := h.noWorld hw
  have hn := h.noNew hw
  refine ⟨⟨?_, ?_, ?_, ?_, ?_, ?_, ?_⟩, ?_⟩
  · exact threaded_snoc_other wid _ _ h.threaded rfl
  · intro w c hwc
    simp only [Option.some.injEq, Prod.mk.injEq] at hwc
    obtain ⟨rfl, rfl⟩ := hwc
    simp [nUser_snoc, userOf, hu]
  · intro hh; simp at hh
  · simp [nNew_snoc, isWorldNew, hn]
  · intro _; simp [nNew_snoc, isWorldNew, hn]
  · simp [filter_append, isAfter, h.noAfter]
  · intro _ _; simp
  · intro hh; simp at hh

/-- appending a `World::new` call that failed: the attempt is stopped, `Fin` still holds -/
theorem fin_new_fail (sp : AttemptSpec) (wid : Nat) (st : ASt) (h : Inv sp wid st) (hw : st.world = none) (o : InitOut)
    (ho : sp.init ≠ .ok) :
    Fin sp wid { st with calls := st.calls ++ [Call.worldNew o] } := by
  have hu := h.noWorld hw
  have hn := h.noNew hw
  refine ⟨?_, ?_, ?_, ?_, ?_, ?_, ?_⟩
  · exact threaded_snoc_other wid _ _ h.threaded rfl
  · intro w c hwc; simp [hw] at hwc
  · intro _; simp [nUser_snoc, userOf, hu]
  · simp [nNew_snoc, isWorldNew, hn]
  · simp [hw]
  · simp [filter_append, isAfter, h.noAfter]
  · intro hok; exact absurd hok ho

/-- a user-code call (before hook / step) on the existing World -/
theorem inv_user (sp : AttemptSpec) (wid : Nat) (st : ASt) (h : Inv sp wid st) (w c : Nat) (hw : st.world = some (w, c))
    (call : Call) (hc : userOf call = some (w, c)) (hnn : isWorldNew call = false) (hna : isAfter call = false) :
    Inv sp wid { st with calls := st.calls ++ [call], world := some (w, c + 1) } := by
  obtain ⟨rfl, rfl⟩ := h.world w c hw
  have h1 := h.hasNew (by simp [hw])
  refine ⟨⟨?_, ?_, ?_, ?_, ?_, ?_, ?_⟩, ?_⟩
  · exact threaded_snoc_user _ _ _ h.threaded hc
  · intro w' c' hwc
    simp only [Option.some.injEq, Prod.mk.injEq] at hwc
    obtain ⟨rfl, rfl⟩ := hwc
    simp [nUser_snoc, hc]
  · intro hh; simp at hh
  · simp [nNew_snoc, hnn, h1]
  · intro _; simp [nNew_snoc, hnn, h1]
  · simp [filter_append, hna, h.noAfter]
  · intro _ _; simp
  · intro hh; simp at hh

theorem evs_irrelevant_inv (sp : AttemptSpec) (wid : Nat) (st : ASt) (evs : List ScenEv) (h : Inv sp wid st) : Inv sp wid { st with evs := evs } :=
  ⟨⟨h.threaded, h.world, h.noWorld, h.newCount, h.hasNew, h.noAfter, h.created⟩, h.noNew⟩

theorem evs_irrelevant_fin (sp : AttemptSpec) (wid : Nat) (st : ASt) (evs : List ScenEv) (h : Fin sp wid st) : Fin sp wid { st with evs := evs } :=
  ⟨h.threaded, h.world, h.noWorld, h.newCount, h.hasNew, h.noAfter, h.created⟩

/-- one step: the invariant is kept while the attempt goes on, `Fin` holds when it stops -/
theorem runStep_inv (sp : AttemptSpec) (wid : Nat) (st : ASt) (bg : Bool) (i : Nat) (h : Inv sp wid st) :
    ((runStep sp wid st bg i).2 = .none → Inv sp wid (runStep sp wid st bg i).1) ∧ Fin sp wid (runStep sp wid st bg i).1 := by
  have hs := evs_irrelevant_inv sp wid st (st.evs ++ [stepEv bg i .started]) h
  unfold runStep
  cases ho : outOf sp bg i with
  | noMatch => exact ⟨fun hh => by simp at hh, evs_irrelevant_fin sp wid _ _ hs.toFin⟩
  | ambiguous => exact ⟨fun hh => by simp at hh, hs.toFin⟩
  | pass =>
    simp only
    cases hw : st.world with
    | some wc =>
      obtain ⟨w, c⟩ := wc
      have hi := inv_user sp wid _ hs w c hw (Call.step bg i w c) rfl rfl rfl
      simp only [ensureWorld, hw, callStep, if_true]
      exact ⟨fun _ => evs_irrelevant_inv sp wid _ _ hi, (evs_irrelevant_inv sp wid _ _ hi).toFin⟩
    | none =>
      cases hinit : sp.init with
      | ok =>
        have h1 := inv_new_ok sp wid _ hs hw sp.init
        have h2 := inv_user sp wid _ h1 wid 0 rfl (Call.step bg i wid 0) rfl rfl rfl
        simp only [ensureWorld, hw, hinit, callStep, if_true]
        rw [hinit] at h2
        exact ⟨fun _ => evs_irrelevant_inv sp wid _ _ h2, (evs_irrelevant_inv sp wid _ _ h2).toFin⟩
      | err p =>
        have h1 := fin_new_fail sp wid _ hs hw sp.init (by simp [hinit])
        simp only [ensureWorld, hw, hinit, Bool.false_eq_true, if_false]
        rw [hinit] at h1
        simp only [hw] at h1
        exact ⟨fun hh => by simp at hh, h1⟩
      | panic p =>
        have h1 := fin_new_fail sp wid _ hs hw sp.init (by simp [hinit])
        simp only [ensureWorld, hw, hinit, Bool.false_eq_true, if_false]
        rw [hinit] at h1
        simp only [hw] at h1
        exact ⟨fun hh => by simp at hh, h1⟩
  | panic q =>
    simp only
    cases hw : st.world with
    | some wc =>
      obtain ⟨w, c⟩ := wc
      have hi := inv_user sp wid _ hs w c hw (Call.step bg i w c) rfl rfl rfl
      simp only [ensureWorld, hw, callStep, if_true]
      exact ⟨fun hh => by simp at hh, hi.toFin⟩
    | none =>
      cases hinit : sp.init with
      | ok =>
        have h1 := inv_new_ok sp wid _ hs hw sp.init
        have h2 := inv_user sp wid _ h1 wid 0 rfl (Call.step bg i wid 0) rfl rfl rfl
        simp only [ensureWorld, hw, hinit, callStep, if_true]
        rw [hinit] at h2
        exact ⟨fun hh => by simp at hh, h2.toFin⟩
      | err p =>
        have h1 := fin_new_fail sp wid _ hs hw sp.init (by simp [hinit])
        simp only [ensureWorld, hw, hinit, Bool.false_eq_true, if_false]
        rw [hinit] at h1
        simp only [hw] at h1
        exact ⟨fun hh => by simp at hh, h1⟩
      | panic p =>
        have h1 := fin_new_fail sp wid _ hs hw sp.init (by simp [hinit])
        simp only [ensureWorld, hw, hinit, Bool.false_eq_true, if_false]
        rw [hinit] at h1
        simp only [hw] at h1
        exact ⟨fun hh => by simp at hh, h1⟩

theorem runSteps_fin (sp : AttemptSpec) (wid : Nat) (l : List (Bool × Nat)) (st : ASt) (h : Inv sp wid st) :
    Fin sp wid (runSteps sp wid l st).1 := by
  induction l generalizing st with
  | nil => exact h.toFin
  | cons s rest ih =>
    obtain ⟨bg, i⟩ := s
    have hr := runStep_inv sp wid st bg i h
    simp only [runSteps]
    generalize runStep sp wid st bg i = r at hr
    obtain ⟨st', stop⟩ := r
    cases stop with
    | none => exact ih st' (hr.1 rfl)
    | _ => exact hr.2

theorem runBefore_inv (sp : AttemptSpec) (wid : Nat) :
    ((runBefore sp wid st0).2 = .none → Inv sp wid (runBefore sp wid st0).1) ∧ Fin sp wid (runBefore sp wid st0).1 := by
  have h0 := inv_st0 sp wid
  unfold runBefore
  cases hb : sp.hasBefore
  · exact ⟨fun _ => h0, h0.toFin⟩
  · simp only [if_true]
    have hs := evs_irrelevant_inv sp wid st0 (st0.evs ++ [.hook .before .started]) h0
    cases hinit : sp.init with
    | ok =>
      have h1 := inv_new_ok sp wid _ hs rfl InitOut.ok
      have h2 := inv_user sp wid _ h1 wid 0 rfl (Call.before wid 0) rfl rfl rfl
      cases sp.before with
      | pass => exact ⟨fun _ => evs_irrelevant_inv sp wid _ _ h2, (evs_irrelevant_inv sp wid _ _ h2).toFin⟩
      | panic p => exact ⟨fun hh => by simp at hh, h2.toFin⟩
    | err p => exact ⟨fun hh => by simp at hh, fin_new_fail sp wid _ hs rfl (InitOut.err p) (by simp [hinit])⟩
    | panic p => exact ⟨fun hh => by simp at hh, fin_new_fail sp wid _ hs rfl (InitOut.panic p) (by simp [hinit])⟩

theorem runBody_fin (sp : AttemptSpec) (wid : Nat) : Fin sp wid (runBody sp wid).1 := by
  have hb := runBefore_inv sp wid
  unfold runBody
  cases h : (runBefore sp wid st0).2 with
  | none => exact runSteps_fin sp wid _ _ (hb.1 h)
  | _ => exact hb.2

/-! ## The property, on the final call log -/

/-- A World is created at most once per attempt. -/
theorem world_at_most_once (sp : AttemptSpec) (wid : Nat) :
    ((runAttempt sp wid).calls.filter isWorldNew).length ≤ 1 := by
  have h := (runBody_fin sp wid).newCount
  unfold runAttempt
  simp only
  split
  · simpa [filter_append, isWorldNew, nNew] using h
  · exact h

/-- Before hook and every executed step receive the SAME World (`wid`), and the j-th of them sees
    exactly the mutations of the j previous ones (the before hook runs first, on a fresh World). -/
theorem world_threaded (sp : AttemptSpec) (wid : Nat) :
    Threaded wid (runAttempt sp wid).calls := by
  have h := (runBody_fin sp wid).threaded
  unfold runAttempt
  simp only
  split
  · exact threaded_snoc_other wid _ _ h rfl
  · exact h

/-- The after hook runs exactly once iff one is set, as the LAST user-code call of the attempt,
    receiving the World if (and only if) one was created — carrying all mutations — and the true reason
    the scenario finished. -/
theorem after_hook_once_with_reason (sp : AttemptSpec) (wid : Nat) :
    (sp.hasAfter = false → (runAttempt sp wid).calls.filter isAfter = []) ∧
    (sp.hasAfter = true → ∃ body w,
      (runAttempt sp wid).calls = body ++ [Call.after (runAttempt sp wid).reason w] ∧
      body.filter isAfter = [] ∧
      (w.isSome = true → nNew body = 1) ∧
      (sp.init = .ok → nNew body = 1 → w.isSome = true) ∧
      (∀ id c, w = some (id, c) → id = wid ∧ c = nUser body)) := by
  have hf := runBody_fin sp wid
  constructor
  · intro h; simp [runAttempt, h, hf.noAfter]
  · intro h
    exact ⟨(runBody sp wid).1.calls, (runBody sp wid).1.world, by simp [runAttempt, h], hf.noAfter,
      hf.hasNew, hf.created, hf.world⟩

/-! ## A World is created only if a before hook is set or a step matched -/

theorem runStep_nomatch_calls (sp : AttemptSpec) (wid : Nat) (st : ASt) (bg : Bool) (i : Nat)
    (h : outOf sp bg i = .noMatch ∨ outOf sp bg i = .ambiguous) :
    (runStep sp wid st bg i).1.calls = st.calls ∧ (runStep sp wid st bg i).2 ≠ .none := by
  unfold runStep
  rcases h with h | h <;> simp [h]

/-- No before hook and the first declared step has no (unique) matching definition: the attempt stops
    there and `World::new` is never called. -/
theorem world_only_if_needed (sp : AttemptSpec) (wid : Nat) (hb : sp.hasBefore = false)
    (h : ∀ b i, (stepList sp).head? = some (b, i) → outOf sp b i = .noMatch ∨ outOf sp b i = .ambiguous) :
    (runAttempt sp wid).calls.filter isWorldNew = [] := by
  have hbody : (runBody sp wid).1.calls = [] := by
    unfold runBody runBefore
    simp only [hb, Bool.false_eq_true, if_false]
    cases hl : stepList sp with
    | nil => simp [runSteps, st0]
    | cons s rest =>
      obtain ⟨b, i⟩ := s
      have := runStep_nomatch_calls sp wid st0 b i (h b i (by simp [hl]))
      simp only [runSteps]
      generalize runStep sp wid st0 b i = r at this
      obtain ⟨st', stop⟩ := r
      cases stop with
      | none => simp at this
      | _ => simpa [st0] using this.1
  unfold runAttempt
  simp only [hbody]
  split <;> simp [isWorldNew]

/-- With a before hook the very first user-code call is `World::new`, and on success the hook itself
    comes next, on that fresh World (id `wid`, no mutation yet). -/
theorem before_hook_first (sp : AttemptSpec) (wid : Nat) (hb : sp.hasBefore = true) :
    (runBefore sp wid st0).1.calls =
      Call.worldNew sp.init :: (if sp.init = .ok then [Call.before wid 0] else []) := by
  unfold runBefore
  simp only [hb, if_true]
  cases sp.init <;> cases sp.before <;> simp [st0]

/-- No World instance is seen by two different attempts: every World a callback of the attempt with
    id `wid` receives IS `wid` (the harness checks that the real ids of different attempts differ). -/
theorem world_ids_distinct (sp₁ sp₂ : AttemptSpec) (w₁ w₂ : Nat) (h : w₁ ≠ w₂) :
    ∀ a ∈ (runAttempt sp₁ w₁).calls.filterMap userOf, ∀ b ∈ (runAttempt sp₂ w₂).calls.filterMap userOf, a.1 ≠ b.1 := by
  intro a ha b hb
  rw [world_threaded sp₁ w₁] at ha
  rw [world_threaded sp₂ w₂] at hb
  simp only [mem_map, mem_range] at ha hb
  obtain ⟨_, _, rfl⟩ := ha
  obtain ⟨_, _, rfl⟩ := hb
  exact h

/-! ## Non-vacuity -/
example : (runAttempt C02.exSpec 9).calls =
    [.worldNew .ok, .before 9 0, .step true 0 9 1, .step false 0 9 2, .step false 1 9 3,
     .after .stepFailed (some (9, 4))] := by decide

end Cuke.C09
