import Cuke.Lemmas.SchedRunLevel
import Cuke.Lemmas.SchedFin
import Cuke.Lemmas.SchedFinRule
import Cuke.Props.C05
import Cuke.Lemmas.Sched
import Cuke.Lemmas.SchedLts
import Cuke.Model.SchedMon
import Cuke.Lemmas.Brackets
import Cuke.Lemmas.SchedBrackets
import Cuke.Lemmas.SchedOrder
import Cuke.Lemmas.SchedExit
/-!
# C03 — Event stream framing: run/feature/rule brackets are exact and properly nested
Model: `Cuke.startScenarios`, `Cuke.scenarioFinished`, `Cuke.finishAll`, the run-level labels of the
scheduler LTS (`hookTake`, `pErr`, `pEnd`, `idle fin`, classes B, I, R, FF) and the monitor
`Cuke.SMon.framed` (the property's wording on a run log).
-/
namespace Cuke.C03
open Cuke List

/-! ## run-level events -/

/-- The first thing `execute` owes the stream is exactly one run-Started. -/
theorem started_expected_first (c : SCfg) (s : SState) :
    (stepL c s .hookTake).expect = s.expect ++ [.one .started] := by
  simp only [stepL, inPhase_expect]

/-- Each parser error is owed exactly once, numbered in delivery order. -/
theorem parse_error_expected (c : SCfg) (s : SState) :
    (stepL c s .pErr).expect = s.expect ++ [.one (.parseErr s.nextPE)] ∧ (stepL c s .pErr).nextPE = s.nextPE + 1 := by
  simp only [stepL]
  split <;> simp [SState.note]

/-- When the parser ends, ParsingFinished is owed with exactly the counts accumulated from the items
    actually received. -/
theorem parsing_finished_counts (c : SCfg) (s : SState) :
    (stepL c s .pEnd).expect =
      s.expect ++ [.one (.parsingFinished s.cFeatures s.cRules s.cScenarios s.cSteps s.cErrors)] := by
  simp only [stepL]

/-- A delivered feature adds its own numbers: 1 feature, its rules, all its scenarios (rules included),
    the steps of those scenarios (background steps are not counted, as `count_steps` is written). -/
theorem feature_counts (c : SCfg) (s : SState) (f : Nat) (ft : SFeat) (h : c.feat? f = some ft) (hs : s.parserStopped = false) :
    let s' := stepL c s (.pOk f)
    s'.cFeatures = s.cFeatures + 1 ∧ s'.cRules = s.cRules + ft.rules.length ∧
    s'.cScenarios = s.cScenarios + ft.countScenarios ∧ s'.cSteps = s.cSteps + ft.countSteps := by
  simp [stepL, h, hs]

/-- At loop exit: Finished for every still-open rule, then for every still-open feature, then exactly
    one run-Finished. -/
theorem exit_expectations (c : SCfg) (s : SState) (sleep : Bool) :
    ∃ pre, (stepL c s (.idle true sleep)).expect =
      pre ++ [.anyOf (s.br.rules.map (fun e => Ev.ruleFinished e.1.1 e.1.2)),
              .anyOf (s.br.feats.map (fun e => Ev.featFinished e.1)), .one .finished] ∧ pre = s.expect := by
  refine ⟨s.expect, ?_, rfl⟩
  simp only [stepL, SState.inPhase, SState.note, finishAll, if_true]
  repeat' split
  all_goals simp

/-! ## feature / rule brackets -/

def openFeat (b : Brackets) (f : Nat) : Bool := b.feats.any (fun e => e.1 == f)

theorem foldl_feats_open (fs : List Nat) (acc : List (Nat × Nat) × List Nat) (f : Nat)
    (h : acc.1.any (fun e => e.1 == f) = true) :
    (fs.foldl (fun (acc : List (Nat × Nat) × List Nat) f =>
      if acc.1.any (fun e => e.1 == f) then acc else (acc.1 ++ [(f, 0)], acc.2 ++ [f])) acc).1.any (fun e => e.1 == f) = true := by
  induction fs generalizing acc with
  | nil => exact h
  | cons x xs ih =>
    simp only [foldl_cons]
    apply ih
    split
    · exact h
    · simp [h]

/-- No Started for nothing: an empty batch starts no bracket and emits no event. -/
theorem startScenarios_nil (b : Brackets) : startScenarios b [] = (b, []) := by
  simp [startScenarios, dedupAdj]

/-- A feature that is already open is not started again, whatever the batch. -/
theorem startScenarios_single_open (b : Brackets) (e : Entry) (h : openFeat b e.key.feat = true) (hr : e.key.rule = none) :
    startScenarios b [e] = (b, []) := by
  simp only [openFeat] at h
  simp [startScenarios, dedupAdj, hr, h]

/-- The first scenario of a feature opens its bracket: exactly one Feature::Started, count 0. -/
theorem startScenarios_single_new (b : Brackets) (e : Entry) (h : openFeat b e.key.feat = false) (hr : e.key.rule = none) :
    startScenarios b [e] = ({ b with feats := b.feats ++ [(e.key.feat, 0)] }, [Ev.featStarted e.key.feat]) := by
  simp only [openFeat] at h
  simp [startScenarios, dedupAdj, hr, h]

/-- A retried attempt's end neither counts nor closes anything ("retries included" in the bracket). -/
theorem retried_end_keeps_bracket (b : Brackets) (k : ScenKey) (nR nF : Nat) :
    scenarioFinished b k true nR nF = some (b, []) := by simp [scenarioFinished]

/-- A final end of a top-level scenario: Feature::Finished is emitted exactly when the number of finished
    scenarios reaches the feature's total, and then the bracket entry is removed (so it can never be
    emitted twice). -/
theorem final_end_top_level (b : Brackets) (k : ScenKey) (nR nF cnt : Nat) (hr : k.rule = none)
    (hf : b.feats.find? (fun e => e.1 == k.feat) = some (k.feat, cnt)) :
    scenarioFinished b k false nR nF =
      if nF == cnt + 1 then
        some ({ feats := b.feats.filter (fun e => !(e.1 == k.feat)), rules := b.rules }, [Ev.featFinished k.feat])
      else some ({ feats := b.feats.map (fun e => if e.1 == k.feat then (e.1, cnt + 1) else e), rules := b.rules }, []) := by
  simp [scenarioFinished, hr, hf]

/-- A rule scenario's final end: Rule::Finished (if the rule is complete) comes BEFORE Feature::Finished
    (proper nesting). -/
theorem rule_finished_before_feature (b : Brackets) (k : ScenKey) (r nR nF cr cf : Nat) (hr : k.rule = some r)
    (h1 : b.rules.find? (fun e => e.1 == (k.feat, r)) = some ((k.feat, r), cr))
    (h2 : b.feats.find? (fun e => e.1 == k.feat) = some (k.feat, cf))
    (hR : nR = cr + 1) (hF : nF = cf + 1) :
    ∃ b', scenarioFinished b k false nR nF = some (b', [Ev.ruleFinished k.feat r, Ev.featFinished k.feat]) := by
  simp [scenarioFinished, hr, h1, h2, hR, hF]

/-- Closing at exit: one Finished per open rule and per open feature, nothing for the others. -/
theorem finishAll_exact (b : Brackets) :
    (finishAll b).1.length = b.rules.length ∧ (finishAll b).2.length = b.feats.length ∧
    (∀ f, Ev.featFinished f ∈ (finishAll b).2 ↔ ∃ n, (f, n) ∈ b.feats) := by
  refine ⟨by simp [finishAll], by simp [finishAll], ?_⟩
  intro f
  simp only [finishAll, mem_map]
  constructor
  · rintro ⟨e, he, h⟩
    injection h with h
    exact ⟨e.2, by rw [← h]; exact he⟩
  · rintro ⟨n, hn⟩
    exact ⟨(f, n), hn, rfl⟩

/-- An event the model does not expect is a disagreement (brackets: class B, run level: class I). -/
theorem unexpected_bracket_flagged (c : SCfg) (s : SState) (f : Nat) (h : takeExp (.featStarted f) s.expect = none) :
    (stepL c s (.tx (.featStarted f))).dis.any (fun d => d.cls == .B) = true := by
  simp [stepL, h, SState.note, List.any_append]

/-! ## Non-vacuity: the monitor `framed` on the (prefix-closed) C07 witness run, completed -/
def k2 : ScenKey := ⟨1, none, 2⟩
def exCfg : SCfg :=
  { builderConc := none, cliConc := none, builderFF := false, cliFF := false, builderRetries := none,
    cliRetries := none, builderAfter := none, cliAfter := none, customWhich := false, durTable := [],
    feats := [{ id := 1, tags := [], scens := [⟨2, [], 0⟩], rules := [] }] }
def exLog : List Label :=
  [.pOk 1, .ins 10 [] [⟨10, 2, none, none⟩], .pEnd, .tx (.parsingFinished 1 0 1 0 0), .pFinish,
   .hookTake, .tx .started, .get1 20 (some 64) 0 1, .get2 21 (.cont (some 64)) [10] false 0,
   .tx (.featStarted 1), .disp 1 (.cont (some 63)), .tx (.scen k2 none .started), .tx (.scen k2 none .finished),
   .endA 10 false false 30, .cons true, .notif 10 false false, .tx (.featFinished 1),
   .get1 40 (some 64) 0 0, .get2 41 (.cont (some 64)) [] false 0, .idle true false, .tx .finished, .hookRestore, .exit,
   .rx (.parsingFinished 1 0 1 0 0), .rx .started, .rx (.featStarted 1), .rx (.scen k2 none .started),
   .rx (.scen k2 none .finished), .rx (.featFinished 1), .rx .finished]

example : (finalChecks (accept exCfg exLog)).dis.isEmpty = true ∧ SMon.framed exCfg exLog = none := by
  decide +kernel

/-! ## The bracket ledger over whole runs -/

open Cuke.BrL in
/-- **Bracket ledger.** For EVERY sequence of dispatched batches and drained completion notifications
    (any batches, any order, retried or final, any scenario counts — as long as the bookkeeping does not hit a
    `panic!` branch): for every feature, #Started = #Finished + 1 if it is still in the map, else
    #Started = #Finished; likewise for every rule. So the Started / Finished events of one feature (rule)
    always alternate, beginning with Started: never two Started without a Finished in between, never a
    Finished without its Started. -/
theorem bracket_ledger (ops : List BOp) (b : Brackets) (out : List Ev)
    (h : brRun Brackets.empty ops = some (b, out)) : FeatLedger b out ∧ RuleLedger b out := by
  have hF : FeatLedger Brackets.empty [] := ⟨by simp [keysF, Brackets.empty], fun f => by simp [keysF, Brackets.empty, cnt]⟩
  have hR : RuleLedger Brackets.empty [] := ⟨by simp [keysR, Brackets.empty], fun f r => by simp [keysR, Brackets.empty, cnt]⟩
  simpa using brRun_ledgers Brackets.empty b ops [] out hF hR h

open Cuke.BrL in
/-- **Every bracket is closed exactly once by the end of the run**: after `finish_all_rules_and_features`
    (all open rules, then all open features) every feature and every rule has as many Finished as Started
    events — whatever happened before (retries still pending, fail-fast, lazily parsed features). -/
theorem brackets_balanced_at_exit (ops : List BOp) (b : Brackets) (out : List Ev)
    (h : brRun Brackets.empty ops = some (b, out)) :
    (∀ f, cnt (.featStarted f) (out ++ (finishAll b).1 ++ (finishAll b).2) =
            cnt (.featFinished f) (out ++ (finishAll b).1 ++ (finishAll b).2)) ∧
    (∀ f r, cnt (.ruleStarted f r) (out ++ (finishAll b).1 ++ (finishAll b).2) =
            cnt (.ruleFinished f r) (out ++ (finishAll b).1 ++ (finishAll b).2)) := by
  obtain ⟨hF, hR⟩ := bracket_ledger ops b out h
  exact finishAll_balances b out hF hR

/-- non-vacuity: two scenarios of a rule in one feature; the first ends retried, then both end finally -/
def ledgerOps : List Cuke.BrL.BOp :=
  let e (id scen : Nat) : Entry := { id := id, key := ⟨1, some 5, scen⟩, serial := false, ret := none, t0 := none }
  [.start [e 10 2, e 11 3], .fin ⟨1, some 5, 2⟩ true 2 2, .start [e 12 2], .fin ⟨1, some 5, 3⟩ false 2 2,
   .fin ⟨1, some 5, 2⟩ false 2 2]

example : (Cuke.BrL.brRun Brackets.empty ledgerOps).map (·.2) =
    some [.featStarted 1, .ruleStarted 1 5, .ruleFinished 1 5, .featFinished 1] := by decide +kernel


/-! ## The bracket ledger as an invariant of the scheduler LTS (whole runs, any log)

`GoodB` = the log raised no class-B disagreement (an unexpected / missing bracket event, a notification the
bookkeeping has no entry for). `hist` = everything sent so far followed by everything still owed.
Lemmas/SchedBrackets.lean. -/

open Cuke.SchedBr Cuke.BrL in
/-- **Ledger at every moment of every run**: over sent ++ owed events, every feature (rule) has
    #Started = #Finished + 1 if it is still open in the bookkeeping, else #Started = #Finished — whatever
    the parser delivered, in whatever order attempts completed, with retries, fail-fast, parser errors. -/
theorem lts_bracket_ledger (c : SCfg) (ls : List Label) (hg : GoodB (accept c ls) = true) :
    FeatLedger (accept c ls).br (hist (accept c ls)) ∧ RuleLedger (accept c ls).br (hist (accept c ls)) :=
  foldl_binv c ls {} binv_init hg

open Cuke.SchedBr Cuke.BrL in
/-- **Balanced at the end**: in every run replayed without a class-B disagreement, once the bookkeeping is
    empty (after `finish_all_rules_and_features`) and nothing is owed any more (checked when the panic hook is
    restored), the stream that was actually SENT contains, for every feature and every rule, exactly as many
    Finished as Started events. -/
theorem lts_brackets_balanced (c : SCfg) (ls : List Label) (hg : GoodB (accept c ls) = true)
    (hb : (accept c ls).br = Brackets.empty) (he : expEvents (accept c ls).expect = []) :
    (∀ f, cnt (.featStarted f) (accept c ls).out = cnt (.featFinished f) (accept c ls).out) ∧
    (∀ f r, cnt (.ruleStarted f r) (accept c ls).out = cnt (.ruleFinished f r) (accept c ls).out) := by
  obtain ⟨hF, hR⟩ := lts_bracket_ledger c ls hg
  rw [hb] at hF hR
  have hh : hist (accept c ls) = (accept c ls).out := by simp [hist, he]
  rw [hh] at hF hR
  exact ⟨fun f => (hF.2 f).2 (by simp [keysF, Brackets.empty]), fun f r => (hR.2 f r).2 (by simp [keysR, Brackets.empty])⟩

open Cuke.SchedBr in
/-- the hypotheses of `lts_brackets_balanced` are what a complete clean run ends in (non-vacuity), and a
    Finished bracket that is never sent is a class-B disagreement -/
example : GoodB (accept exCfg exLog) = true ∧ (accept exCfg exLog).br = Brackets.empty ∧
    expEvents (accept exCfg exLog).expect = [] ∧
    GoodB (accept exCfg (exLog.take 16 ++ exLog.drop 17)) = false := by decide +kernel


/-! ## An order clause over whole runs: Started before the first scenario event

`Clean0` = the log raised no disagreement of any class. Lemmas/SchedOrder.lean. -/

open Cuke.SchedOrd in
/-- **No scenario event before its brackets are opened.** In every run replayed without disagreement, whenever an
    event of scenario `k` is sent, the `Feature::Started` of its feature — and, if it sits in a rule, the
    `Rule::Started` of that rule — has been sent before: whatever the batches, the completion order, the retries, the
    moment the parser delivered the feature. (Chain: `get` returns a batch → `start_scenarios` opens its features and
    rules → by the bracket ledger their Started is sent or owed → at dispatch nothing is owed any more → scenario
    events are only accepted from dispatched attempts.) -/
theorem lts_started_before_scenario_events (c : SCfg) (ls : List Label) (k : ScenKey) (ret : Option Retries) (se : ScenEv)
    (hc : Clean0 (accept c (ls ++ [.tx (.scen k ret se)])) = true) :
    Ev.featStarted k.feat ∈ (accept c ls).out ∧ ∀ r, k.rule = some r → Ev.ruleStarted k.feat r ∈ (accept c ls).out := by
  have hacc : accept c (ls ++ [.tx (.scen k ret se)]) = stepL c (accept c ls) (.tx (.scen k ret se)) := by
    simp [accept, List.foldl_append]
  rw [hacc] at hc
  have hpre := clean0_step_mono c _ _ hc
  have hoi := accept_oinv c ls hpre
  obtain ⟨e, he, hk⟩ := tx_scen_running c (accept c ls) k ret se hc
  have := hoi.2.2 e he
  unfold StartedIn at this
  rw [hk] at this
  exact this

/-- non-vacuity: the complete example run is replayed without any disagreement, and it sends scenario events -/
example : Cuke.SchedOrd.Clean0 (accept exCfg (exLog.take 12)) = true ∧
    exLog[11]? = some (.tx (.scen k2 none .started)) := by decide +kernel


/-! ## Nothing of a scenario after the exit decision -/

open Cuke.SchedOrd Cuke.SchedExit in
/-- **After `execute` has taken its exit, no scenario event is sent.** In every run replayed without disagreement:
    once `is_finished` was true (label `idle true _`) nothing is in flight, nothing is dispatched any more, and no event
    of any scenario follows — so the Finished brackets that `finish_all_rules_and_features` emits at that point, and
    run-Finished, come after every scenario event of the run. -/
theorem lts_no_scenario_event_after_exit (c : SCfg) (pre post : List Label) (sl : Bool)
    (hc : Clean0 (accept c (pre ++ [.idle true sl] ++ post)) = true) :
    ∀ k ret se, Label.tx (.scen k ret se) ∉ post := by
  have hacc : accept c (pre ++ [.idle true sl] ++ post) = post.foldl (stepL c) (stepL c (accept c pre) (.idle true sl)) := by
    simp [accept, List.foldl_append]
  rw [hacc] at hc
  have hmono : ∀ (ls : List Label) (s : SState), Clean0 (ls.foldl (stepL c) s) = true → Clean0 s = true := by
    intro ls
    induction ls with
    | nil => intro s h; exact h
    | cons l rest ih2 => intro s h; exact clean0_step_mono c s l (ih2 _ h)
  have h1 := hmono post _ hc
  exact exiting_run c post _ (idle_true_exiting c (accept c pre) sl (clean0_all _ h1).1) hc

/-- non-vacuity: the complete example run takes its exit at label 19 and is clean to its end -/
example : exLog[19]? = some (.idle true false) ∧ Cuke.SchedOrd.Clean0 (accept exCfg (exLog.take 23)) = true := by
  decide +kernel

/-! ## the last ORDER clause over whole runs: a feature is finished after the last event of its scenarios -/

open Cuke.SchedFin Cuke.SchedSeq Cuke.SchedExit Cuke.SchedOrd in
/-- **Feature::Finished comes after the last event of the feature's scenarios (retries included).**
    In every log replayed without a disagreement of either acceptor layer: at the notification at which
    `FinishedRulesAndFeatures` counts the LAST scenario of feature `f` (where the model owes `Feature::Finished f`,
    `closes_owes_finished`), and at every later moment of the run, no attempt of any scenario of `f` is in flight … -/
theorem lts_feature_finished_after_last_attempt (c : SCfg) (hwf : WF c) (pre post : List Label) (id : Nat)
    (failed retried : Bool) (f : Nat) (hcl : closes c (acceptN c pre).base = some f)
    (hc : NClean (acceptN c (pre ++ .notif id failed retried :: post)) = true) :
    ∀ e ∈ (acceptN c (pre ++ .notif id failed retried :: post)).base.running, e.key.feat ≠ f := by
  obtain ⟨hr, hti⟩ := accF_inv c hwf _ hc
  have hcl' := closes_recorded c pre post id failed retried f hcl
  intro e he hef
  rcases hti with hex | hfi
  · rw [hex.2.1] at he; cases he
  · obtain ⟨ft, hft, hx⟩ := owner c hwf _ hr e (by simp [SchedRetry.ents, he])
    rw [hef] at hft
    have := hfi.closedLive f ft hft hcl'
    rw [liveCnt_zero] at this
    apply this e.key.scen hx
    right
    simp only [Rs, SchedCons.scens, mem_map]
    exact ⟨e, he, rfl⟩

open Cuke.SchedFin Cuke.SchedSeq Cuke.SchedOrd in
/-- … hence **no scenario event of the feature is ever sent after that notification**: the `Feature::Finished`
    the model owes from there on (and checks the implementation's stream against) comes after all events of the
    feature's scenarios. -/
theorem lts_no_scenario_event_after_feature_closed (c : SCfg) (hwf : WF c) (pre p1 p2 : List Label) (id : Nat)
    (failed retried : Bool) (f : Nat) (k : ScenKey) (ret : Option Retries) (se : ScenEv)
    (hcl : closes c (acceptN c pre).base = some f)
    (hc : NClean (acceptN c (pre ++ .notif id failed retried :: (p1 ++ .tx (.scen k ret se) :: p2))) = true) :
    k.feat ≠ f := by
  have hsplit : acceptN c (pre ++ .notif id failed retried :: (p1 ++ .tx (.scen k ret se) :: p2)) =
      p2.foldl (stepN c) (stepN c (acceptN c (pre ++ .notif id failed retried :: p1)) (.tx (.scen k ret se))) := by
    simp [acceptN, foldl_append]
  rw [hsplit] at hc
  have h1 : NClean (stepN c (acceptN c (pre ++ .notif id failed retried :: p1)) (.tx (.scen k ret se))) = true :=
    nclean_foldl_mono c p2 _ hc
  have h0 : NClean (acceptN c (pre ++ .notif id failed retried :: p1)) = true := nclean_step_mono c _ _ h1
  have hrun := lts_feature_finished_after_last_attempt c hwf pre p1 id failed retried f hcl h0
  have hc0 : Clean0 (stepL c (acceptN c (pre ++ .notif id failed retried :: p1)).base (.tx (.scen k ret se))) = true := by
    simp only [NClean, Bool.and_eq_true] at h1
    have := h1.1
    rwa [stepN_base] at this
  obtain ⟨e, he, hk⟩ := tx_scen_running c _ k ret se hc0
  rw [← hk]
  exact hrun e he

/-- non-vacuity: in the retry example run (clean in both layers) the notification at position 24 closes feature 0, the
    model owes `Feature::Finished 0` right after it, and the run goes on (the event is sent, `get` is called again) -/
example : Cuke.SchedSeq.NClean (acceptN Cuke.C05.rcfg Cuke.C05.rlog) = true ∧
    Cuke.SchedFin.closes Cuke.C05.rcfg (acceptN Cuke.C05.rcfg (Cuke.C05.rlog.take 24)).base = some 0 ∧
    Cuke.C05.rlog[24]? = some (.notif 11 false false) ∧
    (acceptN Cuke.C05.rcfg (Cuke.C05.rlog.take 25)).base.expect.map (fun x => match x with | .one e => some e | _ => none) =
      [some (.featFinished 0)] := by decide +kernel
/-- the earlier notification (of the attempt that is retried) closes nothing -/
example : Cuke.SchedFin.closes Cuke.C05.rcfg (acceptN Cuke.C05.rcfg (Cuke.C05.rlog.take 16)).base = none := by decide +kernel

/-! ## … and the same for rules -/

open Cuke.SchedFin Cuke.SchedFinR Cuke.SchedSeq Cuke.SchedExit Cuke.SchedOrd in
/-- **Rule::Finished comes after the last event of the rule's scenarios (retries included).** At the notification
    at which the last scenario of rule `(f, r)` is counted (where the model owes `Rule::Finished f r`,
    `closesR_owes_finished`) and at every later moment of a run that is clean in both layers, no attempt of a scenario of
    that rule is in flight … -/
theorem lts_rule_finished_after_last_attempt (c : SCfg) (hwf : WF c) (hwr : WFR c) (pre post : List Label) (id : Nat)
    (failed retried : Bool) (f r : Nat) (hcl : closesR c (acceptN c pre).base = some (f, r))
    (hc : NClean (acceptN c (pre ++ .notif id failed retried :: post)) = true) :
    ∀ e ∈ (acceptN c (pre ++ .notif id failed retried :: post)).base.running, ¬ (e.key.feat = f ∧ e.key.rule = some r) := by
  obtain ⟨hr, hti⟩ := accR_inv c hwf hwr _ hc
  have hcl' := closesR_recorded c pre post id failed retried (f, r) hcl
  intro e he hef
  rcases hti with hex | hfi
  · rw [hex.2.1] at he; cases he
  · obtain ⟨ft, hft, _, hown, _⟩ := ownerR c hwf hwr _ hr e (by simp [SchedRetry.ents, he])
    rw [hef.1] at hft
    have := hfi.closedLive f ft r hft hcl'
    rw [liveCntR_zero] at this
    apply this e.key.scen (hown r hef.2)
    right
    simp only [Rs, SchedCons.scens, mem_map]
    exact ⟨e, he, rfl⟩

open Cuke.SchedFin Cuke.SchedFinR Cuke.SchedSeq Cuke.SchedOrd in
/-- … hence no scenario event of the rule is ever sent after that notification. -/
theorem lts_no_scenario_event_after_rule_closed (c : SCfg) (hwf : WF c) (hwr : WFR c) (pre p1 p2 : List Label) (id : Nat)
    (failed retried : Bool) (f r : Nat) (k : ScenKey) (ret : Option Retries) (se : ScenEv)
    (hcl : closesR c (acceptN c pre).base = some (f, r))
    (hc : NClean (acceptN c (pre ++ .notif id failed retried :: (p1 ++ .tx (.scen k ret se) :: p2))) = true) :
    ¬ (k.feat = f ∧ k.rule = some r) := by
  have hsplit : acceptN c (pre ++ .notif id failed retried :: (p1 ++ .tx (.scen k ret se) :: p2)) =
      p2.foldl (stepN c) (stepN c (acceptN c (pre ++ .notif id failed retried :: p1)) (.tx (.scen k ret se))) := by
    simp [acceptN, foldl_append]
  rw [hsplit] at hc
  have h1 : NClean (stepN c (acceptN c (pre ++ .notif id failed retried :: p1)) (.tx (.scen k ret se))) = true :=
    nclean_foldl_mono c p2 _ hc
  have h0 : NClean (acceptN c (pre ++ .notif id failed retried :: p1)) = true := nclean_step_mono c _ _ h1
  have hrun := lts_rule_finished_after_last_attempt c hwf hwr pre p1 id failed retried f r hcl h0
  have hc0 : Clean0 (stepL c (acceptN c (pre ++ .notif id failed retried :: p1)).base (.tx (.scen k ret se))) = true := by
    simp only [NClean, Bool.and_eq_true] at h1
    have := h1.1
    rwa [stepN_base] at this
  obtain ⟨e, he, hk⟩ := tx_scen_running c _ k ret se hc0
  rw [← hk]
  exact hrun e he

/-- the catalog of the C07 witness run (a feature with a rule) satisfies the rule well-formedness -/
example : Cuke.SchedFinR.ruleScenIds ⟨0, [], [⟨1, [], 1⟩], [⟨7, [], [⟨2, [], 1⟩, ⟨3, [], 1⟩]⟩]⟩ 7 = [2, 3] := by decide

/-! non-vacuity for the rule clause: the retry example run with its scenario inside a rule -/
def rcfgR : SCfg :=
  { Cuke.C05.rcfg with feats := [⟨0, [], [], [⟨7, [], [Cuke.C05.sr]⟩]⟩] }
def kr : ScenKey := ⟨0, some 7, 1⟩
def rlogR : List Label :=
  [.hookTake, .tx .started, .pOk 0, .ins 0 [] [⟨10, 1, some ⟨0, 2⟩, none⟩], .pEnd, .tx (.parsingFinished 1 1 1 1 0), .pFinish,
   .get1 1 (some 2) 0 1, .get2 1 (.cont (some 2)) [10] false 0, .tx (.featStarted 0), .tx (.ruleStarted 0 7), .disp 1 (.cont (some 1)),
   .tx (.scen kr (some ⟨0, 2⟩) .started), .tx (.scen kr (some ⟨0, 2⟩) .finished),
   .ins 2 [] [⟨11, 1, some ⟨1, 1⟩, none⟩], .endA 10 true true 2,
   .cons true, .notif 10 true true,
   .get1 3 (some 2) 0 1, .get2 3 (.cont (some 2)) [11] false 0, .disp 1 (.cont (some 1)),
   .tx (.scen kr (some ⟨1, 1⟩) .started), .tx (.scen kr (some ⟨1, 1⟩) .finished), .endA 11 false false 4,
   .cons true, .notif 11 false false, .tx (.ruleFinished 0 7), .tx (.featFinished 0),
   .get1 5 (some 2) 0 0, .get2 5 (.cont (some 2)) [] false 0, .idle true false, .tx .finished, .hookRestore, .exit]

theorem rcfgR_wf : Cuke.SchedSeq.WF rcfgR := by
  constructor
  · decide
  · intro ft hft ft' hft' x _ _
    simp only [rcfgR, mem_singleton] at hft hft'
    rw [hft, hft']
  · intro ft hft ft' hft' _
    simp only [rcfgR, mem_singleton] at hft hft'
    rw [hft, hft']

theorem rcfgR_wfr : Cuke.SchedFinR.WFR rcfgR := by
  constructor
  · intro ft hft ru hru ru' hru' _
    simp only [rcfgR, mem_singleton] at hft
    subst hft
    simp only [mem_singleton] at hru hru'
    rw [hru, hru']
  · intro ft hft ru hru
    simp only [rcfgR, mem_singleton] at hft
    subst hft
    simp only [mem_singleton] at hru
    subst hru
    decide
  · intro ft hft ru hru ru' hru' x _ _
    simp only [rcfgR, mem_singleton] at hft
    subst hft
    simp only [mem_singleton] at hru hru'
    rw [hru, hru']
  · intro ft hft ru hru x hx
    simp only [rcfgR, mem_singleton] at hft
    subst hft
    simp at hx

/-- the run is clean in both layers; the notification at position 25 closes rule (0, 7) AND feature 0; the model owes
    `Rule::Finished` then `Feature::Finished` -/
example : Cuke.SchedSeq.NClean (acceptN rcfgR rlogR) = true ∧
    Cuke.SchedFinR.closesR rcfgR (acceptN rcfgR (rlogR.take 25)).base = some (0, 7) ∧
    Cuke.SchedFin.closes rcfgR (acceptN rcfgR (rlogR.take 25)).base = some 0 ∧
    (acceptN rcfgR (rlogR.take 26)).base.expect.map (fun x => match x with | .one e => some e | _ => none) =
      [some (.ruleFinished 0 7), some (.featFinished 0)] := by decide +kernel

/-! ## The run-level brackets, over whole runs (Lemmas/SchedRunLevel.lean) -/

open Cuke.SchedRunLevel Cuke.SchedBr Cuke.BrL in
/-- **Exactly one run-Started, exactly one run-Finished — counted over sent and owed events, at every moment.** In
    every log replayed without a disagreement: before `execute` takes the panic hook neither event is sent or owed; from
    then on exactly one run-`Started` is (sent or owed); from the exit decision on exactly one run-`Finished` is, and
    none before it. -/
theorem lts_run_brackets_ledger (c : SCfg) (ls : List Label) (hc : SchedOrd.Clean0 (accept c ls) = true) :
    cnt .started (hist (accept c ls)) = (if (accept c ls).phase = .init then 0 else 1) ∧
    cnt .finished (hist (accept c ls)) =
      (if (accept c ls).phase = .exiting ∨ (accept c ls).phase = .exited then 1 else 0) := by
  have h := rinv_accept c ls hc
  unfold RInv at h
  refine ⟨?_, ?_⟩
  · rw [h.1]; cases hp : (accept c ls).phase <;> simp [pc]
  · rw [h.2]; cases hp : (accept c ls).phase <;> simp [pc]

open Cuke.SchedRunLevel Cuke.SchedBr Cuke.BrL in
/-- **A complete run SENDS exactly one run-Started and exactly one run-Finished.** For every log replayed without a
    disagreement that reached `EXIT` with nothing owed (the end-of-run check `finalChecks`), the stream that was sent
    holds exactly one run-`Started` and exactly one run-`Finished`. -/
theorem lts_run_started_finished_exactly_once (c : SCfg) (ls : List Label) (hc : SchedOrd.Clean0 (accept c ls) = true)
    (hx : (accept c ls).phase = .exited) (he : expEmpty (accept c ls).expect = true) :
    (accept c ls).out.count .started = 1 ∧ (accept c ls).out.count .finished = 1 := by
  have h := lts_run_brackets_ledger c ls hc
  have hee := expEvents_empty _ he
  simp only [hist, hee, List.append_nil, hx] at h
  simpa [cnt] using h

/-- non-vacuity: the complete run `C05.rlog` -/
example : SchedOrd.Clean0 (accept Cuke.C05.rcfg Cuke.C05.rlog) = true ∧ (accept Cuke.C05.rcfg Cuke.C05.rlog).phase = .exited ∧
    expEmpty (accept Cuke.C05.rcfg Cuke.C05.rlog).expect = true ∧
    (accept Cuke.C05.rcfg Cuke.C05.rlog).out.count .started = 1 := by
  decide +kernel

end Cuke.C03
