import Cuke.Model.StepMatch
/-!
# C17 — Step matching is keyword-scoped, exact about ambiguity, and order independent
-/
namespace Cuke.C17
open Cuke List

/-! ## helper lemmas -/

theorem natLe_trans (a b c : Nat) : natLe a b = true → natLe b c = true → natLe a c = true := by
  simp [natLe]; omega

theorem natLe_total (a b : Nat) : (natLe a b || natLe b a) = true := by
  simp [natLe]; omega

theorem sort_perm_eq (l₁ l₂ : List Nat) (h : l₁ ~ l₂) : l₁.mergeSort natLe = l₂.mergeSort natLe := by
  apply Perm.eq_of_pairwise (le := fun a b => natLe a b = true)
  · intro a b _ _ h1 h2; simp [natLe] at h1 h2; omega
  · exact pairwise_mergeSort natLe_trans natLe_total l₁
  · exact pairwise_mergeSort natLe_trans natLe_total l₂
  · exact (mergeSort_perm l₁ natLe).trans (h.trans (mergeSort_perm l₂ natLe).symm)

/-- A collection has distinct keys. -/
def KeysNodup (c : Coll) : Prop := (c.map (·.1)).Nodup

theorem insert_keys (c : Coll) (k f : Nat) :
    (c.insert k f).map (·.1) = if c.any (fun e => e.1 == k) then c.map (·.1) else c.map (·.1) ++ [k] := by
  unfold Coll.insert
  split
  · simp only [map_map]
    congr 1
    funext e
    simp only [Function.comp]
    split <;> simp_all
  · simp

theorem insert_nodup (c : Coll) (k f : Nat) (h : KeysNodup c) : KeysNodup (c.insert k f) := by
  unfold KeysNodup at *
  rw [insert_keys]
  split
  · exact h
  · rename_i hk
    rw [nodup_append]
    refine ⟨h, by simp, ?_⟩
    intro a ha b hb
    simp at hb; subst hb
    intro e; subst e
    apply hk
    simp only [mem_map] at ha
    obtain ⟨e, he, rfl⟩ := ha
    simp only [any_eq_true]
    exact ⟨e, he, by simp⟩

theorem build_nodup (regs : List Reg) (kw : Kw) : KeysNodup (build regs kw) := by
  unfold build
  generalize (regs.filter fun r => r.kw == kw) = rs
  suffices ∀ c : Coll, KeysNodup c → KeysNodup (rs.foldl (fun c r => c.insert r.key r.fn) c) from
    this [] (by simp [KeysNodup])
  induction rs with
  | nil => intro c h; simpa
  | cons r rs ih => intro c h; exact ih _ (insert_nodup c r.key r.fn h)

/-! ## Keyword scoping -/

/-- Only definitions registered under the step's own keyword are considered:
    registrations under other keywords never change the result. -/
theorem find_keyword_scoped (regs : List Reg) (kw : Kw) (m) (names) :
    find regs kw m names = find (regs.filter (fun r => r.kw == kw)) kw m names := by
  simp [find, build, filter_filter]

/-! ## Exactness: none / the one / all of them, sorted -/

/-- No definition of this keyword matches ⇒ not found. -/
theorem find_none (iter : Coll) (m) (names) (h : ∀ e ∈ iter, m e.1 = none) :
    findIn iter m names = .none := by
  have : hits iter m = [] := by
    simp only [hits, filter_eq_nil_iff]
    intro e he; simp [h e he]
  simp [findIn, this]

/-- Exactly one matching definition ⇒ it is chosen, with whole match + every group, named, in order,
    `""` for groups that did not participate. -/
theorem find_unique (iter : Coll) (m) (names) (k f : Nat) (c : Caps)
    (hh : hits iter m = [(k, f)]) (hm : m k = some c) :
    findIn iter m names = .one k f ((names k).zip (c.whole :: c.groups.map (fun g => g.getD ""))) := by
  simp [findIn, hh, hm, mkMatches]

/-- Shape of the matches: one entry per capture name; the first is the whole match. -/
theorem find_matches_shape (names : List (Option String)) (c : Caps)
    (hlen : names.length = c.groups.length + 1) :
    (mkMatches names c).length = c.groups.length + 1 ∧
    (mkMatches names c).map (·.2) = c.whole :: c.groups.map (fun g => g.getD "") ∧
    (mkMatches names c).map (·.1) = names := by
  refine ⟨by simp [mkMatches, hlen], ?_, ?_⟩
  · simp only [mkMatches]
    rw [← unzip_snd, unzip_zip (by simp [hlen])]
  · simp only [mkMatches]
    rw [← unzip_fst, unzip_zip (by simp [hlen])]

/-- Two or more ⇒ ambiguity error listing exactly the matching keys, in the deterministic (sorted) order. -/
theorem find_ambiguous (iter : Coll) (m) (names) (h : 2 ≤ (hits iter m).length) :
    ∃ ks, findIn iter m names = .ambiguous ks ∧ ks ~ (hits iter m).map (·.1) ∧
      ks.Pairwise (fun a b => a ≤ b) := by
  refine ⟨((hits iter m).map (·.1)).mergeSort natLe, ?_, mergeSort_perm _ _, ?_⟩
  · unfold findIn
    match hh : hits iter m with
    | [] => simp [hh] at h
    | [_] => simp [hh] at h
    | a :: b :: rest => simp
  · have := pairwise_mergeSort natLe_trans natLe_total ((hits iter m).map (·.1))
    simpa [natLe] using this

/-- The candidates listed are exactly the definitions of this keyword whose regex matches. -/
theorem ambiguous_lists_all (iter : Coll) (m) (names) (ks : List Nat)
    (h : findIn iter m names = .ambiguous ks) (k : Nat) :
    k ∈ ks ↔ ∃ f, (k, f) ∈ iter ∧ (m k).isSome = true := by
  unfold findIn at h
  split at h
  · cases h
  · split at h <;> cases h
  · rename_i hs _ _
    cases h
    simp only [mem_mergeSort, mem_map]
    constructor
    · rintro ⟨e, he, rfl⟩
      simp only [hits, mem_filter] at he
      exact ⟨e.2, he.1, he.2⟩
    · rintro ⟨f, hf, hk⟩
      exact ⟨(k, f), by simp [hits, mem_filter, hf, hk], rfl⟩

/-! ## Order independence -/

theorem singleton_perm {α} (a : α) (l : List α) (h : [a] ~ l) : l = [a] := by
  have := h.length_eq
  match l, this with
  | [b], _ =>
    have : a ∈ [b] := h.subset (by simp)
    simp at this; simp [this]

/-- The result does not depend on the order in which the map is iterated. -/
theorem findIn_perm (iter iter' : Coll) (m) (names) (h : iter ~ iter') :
    findIn iter m names = findIn iter' m names := by
  have hp : hits iter m ~ hits iter' m := h.filter _
  unfold findIn
  match hh : hits iter m, hh' : hits iter' m with
  | [], l' =>
    rw [hh, hh'] at hp; have := hp.length_eq; cases l' <;> simp_all
  | [e], l' =>
    rw [hh, hh'] at hp
    have := singleton_perm e l' hp; subst this; rfl
  | a :: b :: rest, l' =>
    rw [hh, hh'] at hp
    match l', hp.length_eq with
    | a' :: b' :: rest', _ =>
      simp only
      congr 1
      exact sort_perm_eq _ _ (hp.map _)

/-- If no key is registered twice under the keyword, the map's entries are the registrations. -/
theorem build_of_nodup (rs : List Reg) (c : Coll)
    (h : ((c.map (·.1)) ++ rs.map (·.key)).Nodup) :
    rs.foldl (fun c r => c.insert r.key r.fn) c = c ++ rs.map (fun r => (r.key, r.fn)) := by
  induction rs generalizing c with
  | nil => simp
  | cons r rs ih =>
    have hnot : c.any (fun e => e.1 == r.key) = false := by
      rw [Bool.eq_false_iff]; intro hc
      simp only [any_eq_true] at hc
      obtain ⟨e, he, hk⟩ := hc
      rw [nodup_append] at h
      have := h.2.2 e.1 (mem_map.mpr ⟨e, he, rfl⟩) r.key (by simp)
      simp at hk; exact this hk
    have hins : c.insert r.key r.fn = c ++ [(r.key, r.fn)] := by simp [Coll.insert, hnot]
    simp only [foldl_cons, hins]
    rw [ih]
    · simp
    · simpa [append_assoc] using h

/-- **Registration-order independence.** For registrations whose keys are pairwise distinct within the
    keyword, any permutation of the registration order yields the same `find` result
    (same definition, same function, same matches / same ambiguity list). -/
theorem find_perm_invariant (regs regs' : List Reg) (kw : Kw) (m) (names)
    (hperm : regs ~ regs')
    (hnd : ((regs.filter (fun r => r.kw == kw)).map (·.key)).Nodup) :
    find regs kw m names = find regs' kw m names := by
  have hp : regs.filter (fun r => r.kw == kw) ~ regs'.filter (fun r => r.kw == kw) := hperm.filter _
  have hnd' : ((regs'.filter (fun r => r.kw == kw)).map (·.key)).Nodup := (hp.map _).nodup_iff.mp hnd
  unfold find build
  rw [build_of_nodup _ [] (by simpa using hnd), build_of_nodup _ [] (by simpa using hnd')]
  simp only [nil_append]
  exact findIn_perm _ _ m names (hp.map _)

/-! ## Non-vacuity -/
def exRegs : List Reg := [⟨.given, 2, 20⟩, ⟨.when, 1, 11⟩, ⟨.given, 0, 10⟩, ⟨.given, 1, 12⟩]
def exM : Nat → Option Caps := fun k => if k = 0 ∨ k = 2 then some ⟨"x", [none]⟩ else none
def exNames : Nat → List (Option String) := fun _ => [none, some "n"]

example : 2 ≤ (hits (build exRegs .given) exM).length := by decide
example : find exRegs .when (fun _ => some ⟨"w", [none]⟩) exNames = .one 1 11 [(none, "w"), (some "n", "")] := by decide
example : ((exRegs.filter (fun r => r.kw == Kw.given)).map (·.key)).Nodup := by decide

end Cuke.C17
