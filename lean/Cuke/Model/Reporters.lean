import Cuke.Model.Summarize
/-
  Models of the built-in reporters up to (not including) serialisation:
  * `writer::Libtest` (src/writer/libtest.rs): JSON-lines records with structured test names, totals;
  * `writer::JUnit` (src/writer/junit.rs): one test suite per feature, one test case per attempt;
  * `writer::Json` (src/writer/json.rs): Cucumber JSON features → elements → steps / hooks;
  and `facts`, what a run stated.
  Names are structured values; the harness parses the real bytes back into the same shape.
-/
namespace Cuke.Rep
open Cuke

/-! ## facts of a run -/

inductive Status where
  | passed | skipped | failed | ambiguous | undefined
  deriving Repr, DecidableEq

def statusOf : StepRes → Option Status
  | .started => none
  | .passed => some .passed
  | .skipped => some .skipped
  | .failed .notFound => some .undefined
  | .failed .ambiguous => some .ambiguous
  | .failed (.panic _) => some .failed

inductive Fact where
  | step (k : ScenKey) (ret : Option Retries) (bg : Bool) (idx : Nat) (st : Status)
  | hookFailed (k : ScenKey) (ret : Option Retries) (before : Bool)
  | parseErr (i : Nat)
  deriving Repr, DecidableEq

def factOf : Ev → Option Fact
  | .parseErr i => some (.parseErr i)
  | .scen k ret (.bg i r) => (statusOf r).map (Fact.step k ret true i)
  | .scen k ret (.step i r) => (statusOf r).map (Fact.step k ret false i)
  | .scen k ret (.hook t (.failed _)) => some (.hookFailed k ret (t == .before))
  | _ => none

def facts (evs : List Ev) : List Fact := evs.filterMap factOf

/-! ## libtest -/

inductive LtStep where
  | hook (before : Bool)
  | step (bg : Bool) (idx : Nat)
  deriving Repr, DecidableEq

/-- `test_case_name`, structured. `featNo` = the running number used for a feature without `path`. -/
structure LtName where
  feat : Nat
  featNo : Option Nat
  rule : Option Nat
  scen : Nat
  /-- `| Retry attempt current/(current+left)`, only for `current > 0` -/
  retry : Option (Nat × Nat)
  step : LtStep
  deriving Repr, DecidableEq

inductive LtRec where
  | suiteStarted (testCount : Nat)
  | started (n : LtName)
  | ok (n : LtName)
  | failed (n : LtName)
  | ignored (n : LtName)
  /-- parser error: named by path or by the running number -/
  | parseStarted (id : Nat)
  | parseFailed (id : Nat)
  | suiteOk (passed failed ignored : Nat)
  | suiteFailed (passed failed ignored : Nat)
  deriving Repr, DecidableEq

structure Lt where
  events : List Ev := []
  parsedAll : Bool := false
  passed : Nat := 0
  failed : Nat := 0
  retried : Nat := 0
  parsingErrors : Nat := 0
  hookErrors : Nat := 0
  ignored : Nat := 0
  featuresWithoutPath : Nat := 0
  deriving Repr

/-- `retries.filter(|r| r.current > 0).map(|r| (r.current, r.current + r.left))` -/
def retryOf (ret : Option Retries) : Option (Nat × Nat) :=
  match ret with
  | some r => if r.current > 0 then some (r.current, r.current + r.left) else none
  | none => none

/-- `test_case_name`: a path-less feature is named by the running number of path-less features, which is bumped
    when such a feature STARTS (since the `fix:` for F-C14a; before, it was bumped on every call) -/
def Lt.name (s : Lt) (hasPath : Nat → Bool) (k : ScenKey) (ret : Option Retries) (st : LtStep) : Lt × LtName :=
  let retry := retryOf ret
  if hasPath k.feat then (s, ⟨k.feat, none, k.rule, k.scen, retry, st⟩)
  else (s, ⟨k.feat, some s.featuresWithoutPath, k.rule, k.scen, retry, st⟩)

/-- `expand_cucumber_event` -/
def Lt.expand (s : Lt) (hasPath : Nat → Bool) : Ev → Lt × List LtRec
  | .started => (s, [])
  | .parsingFinished _ _ _ steps pe => (s, [.suiteStarted (steps + pe)])
  | .finished =>
    let f := s.failed + s.parsingErrors + s.hookErrors
    (s, [if f == 0 then .suiteOk s.passed f s.ignored else .suiteFailed s.passed f s.ignored])
  | .parseErr i =>
    let s := { s with parsingErrors := s.parsingErrors + 1 }
    (s, [.parseStarted i, .parseFailed i])
  | .scen k ret (.hook t (.failed _)) =>
    let s := { s with hookErrors := s.hookErrors + 1 }
    let (s, n) := s.name hasPath k ret (.hook (t == .before))
    (s, [.started n, .failed n])
  | .scen k ret (.bg i r) => stepRec s hasPath k ret true i r
  | .scen k ret (.step i r) => stepRec s hasPath k ret false i r
  | .featStarted f => (if hasPath f then s else { s with featuresWithoutPath := s.featuresWithoutPath + 1 }, [])
  | _ => (s, [])
where
  stepRec (s : Lt) (hasPath : Nat → Bool) (k : ScenKey) (ret : Option Retries) (bg : Bool) (i : Nat) (r : StepRes) : Lt × List LtRec :=
    let (s, n) := s.name hasPath k ret (.step bg i)
    match r with
    | .started => (s, [.started n])
    | .passed => ({ s with passed := s.passed + 1 }, [.ok n])
    | .skipped => ({ s with ignored := s.ignored + 1 }, [.ignored n])
    | .failed err =>
      if isRetriedFailure ret err then ({ s with retried := s.retried + 1 }, [.failed n])
      else ({ s with failed := s.failed + 1 }, [.failed n])

def Lt.expandAll (s : Lt) (hasPath : Nat → Bool) : List Ev → Lt × List LtRec
  | [] => (s, [])
  | e :: es =>
    let r := s.expand hasPath e
    let r2 := Lt.expandAll r.1 hasPath es
    (r2.1, r.2 ++ r2.2)

/-- `handle_cucumber_event`: everything is buffered until ParsingFinished arrives -/
def Lt.handle (s : Lt) (hasPath : Nat → Bool) (e : Ev) : Lt × List LtRec :=
  if s.parsedAll then s.expand hasPath e
  else
    match e with
    | .parsingFinished .. =>
      let s' := { s with parsedAll := true, events := [] }
      s'.expandAll hasPath (e :: s.events)
    | _ => ({ s with events := s.events ++ [e] }, [])

def ltRun (hasPath : Nat → Bool) (evs : List Ev) : Lt × List LtRec :=
  evs.foldl (fun (acc : Lt × List LtRec) e => let r := acc.1.handle hasPath e; (r.1, acc.2 ++ r.2)) ({}, [])

/-! ## JUnit -/

inductive JStatus where
  | success | skipped | failure (hook : Bool)
  deriving Repr, DecidableEq

structure JCase where
  rule : Option Nat
  scen : Nat
  status : JStatus
  deriving Repr, DecidableEq

inductive JSuite where
  | errors (parseErr : Nat)
  | feature (f : Nat) (cases : List JCase)
  deriving Repr, DecidableEq

structure JU where
  suit : Option (Nat × List JCase) := none
  events : List ScenEv := []
  report : List JSuite := []
  deriving Repr

/-- status by the last event that is neither a Log nor an after-hook Started/Passed -/
def caseStatus (evs : List ScenEv) : Option JStatus :=
  let sig := evs.reverse.find? (fun e => match e with
    | .log _ => false
    | .hook .after .started => false
    | .hook .after .passed => false
    | _ => true)
  match sig with
  | none => none  -- `panic!("no events for Scenario")`
  | some e =>
    match e with
    | .hook _ (.failed _) => some (.failure true)
    | .bg _ .skipped => some .skipped
    | .step _ .skipped => some .skipped
    | .bg _ (.failed _) => some (.failure false)
    | .step _ (.failed _) => some (.failure false)
    | .finished => none  -- `panic!("Duplicated Finished")`
    | _ => some .success

/-- `none` = a panic branch ("no TestSuit", …) -/
def JU.handle (s : JU) : Ev → Option JU
  | .parseErr i => some { s with report := s.report ++ [.errors i] }
  | .featStarted f => some { s with suit := some (f, []) }
  | .featFinished _ =>
    match s.suit with
    | none => none
    | some (f, cs) => some { s with suit := none, report := s.report ++ [.feature f cs] }
  | .scen k _ .finished =>
    match caseStatus s.events, s.suit with
    | some st, some (f, cs) => some { s with events := [], suit := some (f, cs ++ [⟨k.rule, k.scen, st⟩]) }
    | _, _ => none
  | .scen _ _ se => some { s with events := s.events ++ [se] }
  | _ => some s

def junitRun (evs : List Ev) : Option (List JSuite) :=
  (evs.foldl (fun (acc : Option JU) e => acc.bind (fun s => s.handle e)) (some {})).map (·.report)

/-! ## Cucumber JSON -/

structure JElem where
  rule : Option Nat
  scen : Nat
  bg : Bool                       -- type "background" vs "scenario"
  steps : List (Nat × Status)     -- (step index, status)
  before : List Bool              -- hook results: passed?
  after : List Bool
  deriving Repr, DecidableEq

inductive JFeat where
  | errors (parseErr : Nat)
  | feature (f : Nat) (els : List JElem)
  deriving Repr, DecidableEq

/-- `mut_or_insert_element`: the feature is looked up with `PartialEq<gherkin::Feature>` — never equal
    for a feature without `path` (finding F-C14b: a fresh feature object per event) -/
def jsonUpd (hasPath : Nat → Bool) (doc : List JFeat) (k : ScenKey) (bg : Bool) (g : JElem → JElem) : List JFeat :=
  let isF (x : JFeat) : Bool := match x with | .feature f _ => hasPath k.feat && f == k.feat | _ => false
  let updEls (els : List JElem) : List JElem :=
    if els.any (fun e => e.rule == k.rule && e.scen == k.scen && e.bg == bg) then
      updFirstJ (fun e => e.rule == k.rule && e.scen == k.scen && e.bg == bg) g els
    else els ++ [g ⟨k.rule, k.scen, bg, [], [], []⟩]
  if doc.any isF then
    updFirstJ isF (fun x => match x with | .feature f els => .feature f (updEls els) | y => y) doc
  else doc ++ [.feature k.feat (updEls [])]
where
  updFirstJ {α} (p : α → Bool) (g : α → α) : List α → List α
    | [] => []
    | a :: rest => if p a then g a :: rest else a :: updFirstJ p g rest

def jsonHandle (hasPath : Nat → Bool) (doc : List JFeat) : Ev → List JFeat
  | .parseErr i => doc ++ [.errors i]
  | .scen k _ (.hook t r) =>
    match r with
    | .started => doc
    | .passed => jsonUpd hasPath doc k false (fun e => if t == .before then { e with before := e.before ++ [true] } else { e with after := e.after ++ [true] })
    | .failed _ => jsonUpd hasPath doc k false (fun e => if t == .before then { e with before := e.before ++ [false] } else { e with after := e.after ++ [false] })
  | .scen k _ (.bg i r) =>
    match statusOf r with
    | none => jsonUpd hasPath doc k true id
    | some st => jsonUpd hasPath doc k true (fun e => { e with steps := e.steps ++ [(i, st)] })
  | .scen k _ (.step i r) =>
    match statusOf r with
    | none => jsonUpd hasPath doc k false id
    | some st => jsonUpd hasPath doc k false (fun e => { e with steps := e.steps ++ [(i, st)] })
  | _ => doc

/-- the document written at run-Finished -/
def jsonRun (hasPath : Nat → Bool) (evs : List Ev) : List JFeat :=
  (evs.takeWhile (fun e => !e.isFinished)).foldl (jsonHandle hasPath) []

end Cuke.Rep
