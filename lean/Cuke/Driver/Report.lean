import Cuke.Driver.EvCodec
import Cuke.Model.Reporters
import Cuke.Model.ReportMon
import Cuke.Model.BasicWriter
/-! `report.run <features without path> <events>` → `LT … ; JU … ; JS …` -/
namespace Cuke.Driver
open Cuke Cuke.Wire Cuke.Rep

def showLtStep : LtStep → String
  | .hook true => "hb"
  | .hook false => "ha"
  | .step true i => s!"bg {i}"
  | .step false i => s!"st {i}"

def showLtName (n : LtName) : String :=
  s!"{n.feat} {showOpt toString n.featNo} {showOpt toString n.rule} {n.scen} {showOpt (fun (p : Nat × Nat) => s!"{p.1} {p.2}") n.retry} {showLtStep n.step}"

def showLtRec : LtRec → String
  | .suiteStarted n => s!"SS {n}"
  | .started n => s!"ST {showLtName n}"
  | .ok n => s!"OK {showLtName n}"
  | .failed n => s!"FL {showLtName n}"
  | .ignored n => s!"IG {showLtName n}"
  | .parseStarted i => s!"PS {i}"
  | .parseFailed i => s!"PX {i}"
  | .suiteOk p f i => s!"SO {p} {f} {i}"
  | .suiteFailed p f i => s!"SF {p} {f} {i}"

def showJStatus : JStatus → String
  | .success => "ok"
  | .skipped => "skip"
  | .failure true => "failh"
  | .failure false => "fails"

def showJSuite : JSuite → String
  | .errors i => s!"E {i}"
  | .feature f cs => s!"F {f} {showList (fun (c : JCase) => s!"{showOpt toString c.rule} {c.scen} {showJStatus c.status}") cs}"

def showStatus : Status → String
  | .passed => "p" | .skipped => "s" | .failed => "f" | .ambiguous => "a" | .undefined => "u"

def showJElem (e : JElem) : String :=
  s!"{showOpt toString e.rule} {e.scen} {showBool e.bg} {showList (fun (p : Nat × Status) => s!"{p.1} {showStatus p.2}") e.steps} {showList showBool e.before} {showList showBool e.after}"

def showJFeat : JFeat → String
  | .errors i => s!"E {i}"
  | .feature f els => s!"F {f} {showList showJElem els}"

def showRetryPair (r : Option (Nat × Nat)) : String := showOpt (fun (p : Nat × Nat) => s!"{p.1} {p.2}") r

def showBLine : BLine → String
  | .parseErr i => s!"PE {i}"
  | .feature f => s!"F {f}"
  | .rule ind r => s!"R {ind} {r}"
  | .scenario ind sc retry => s!"S {ind} {sc} {showRetryPair retry}"
  | .step ind bg i r loc => s!"T {ind} {showBool bg} {i} {showStepRes r} {showOpt toString loc}"
  | .hook ind before p loc => s!"H {ind} {showBool before} {p} {loc}"
  | .log m => s!"L {m}"

def handleReportRun : Toks → Option String :=
  fun ts => runAll (do
    let nopath ← list nat
    -- features sharing the source path of another feature: (feature, the feature whose path it shares)
    let alias ← list (do let a ← nat; let b ← nat; pure (a, b))
    let evs ← list evP
    let hasPath : Nat → Bool := fun f => !nopath.contains f
    let rep : Nat → Nat := fun f => ((alias.find? (fun p => p.1 == f)).map (·.2)).getD f
    let lt := (ltRun hasPath evs).2
    let ju := match junitRun evs with
      | some r => showList showJSuite r
      | none => "!panic"
    let js := jsonRun hasPath evs
    -- a printed location `path:line:col` names a path, i.e. the representative of the features sharing it
    let ba := (basicRun evs).2.map (fun l => match l with
      | .step ind bg i r (some f) => BLine.step ind bg i r (some (rep f))
      | .hook ind before p f => BLine.hook ind before p (rep f)
      | l => l)
    pure s!"LT {showList showLtRec lt} ; JU {ju} ; JS {showList showJFeat js} ; BA {showList showBLine ba}") ts

/-- `report.json …`: the Cucumber JSON document alone (features that share a NAME are told apart by their path, which
    only this document states) -/
def handleReportJson : Toks → Option String :=
  fun ts => runAll (do
    let nopath ← list nat
    let _alias ← list (do let a ← nat; let b ← nat; pure (a, b))
    let evs ← list evP
    let hasPath : Nat → Bool := fun f => !nopath.contains f
    pure s!"JS {showList showJFeat (jsonRun hasPath evs)}") ts

/-! wire parsers of the parsed-back records (inverse of the printers above) -/

def ltStepP : P LtStep := do
  let t ← tok
  match t with
  | "hb" => pure (.hook true)
  | "ha" => pure (.hook false)
  | "bg" => do let i ← nat; pure (.step true i)
  | "st" => do let i ← nat; pure (.step false i)
  | _ => fail

def ltNameP : P LtName := do
  let f ← nat; let no ← opt nat; let r ← opt nat; let s ← nat
  let retry ← opt (do let a ← nat; let b ← nat; pure (a, b))
  let st ← ltStepP
  pure ⟨f, no, r, s, retry, st⟩

def ltRecP : P LtRec := do
  let t ← tok
  match t with
  | "SS" => do let n ← nat; pure (.suiteStarted n)
  | "ST" => do let n ← ltNameP; pure (.started n)
  | "OK" => do let n ← ltNameP; pure (.ok n)
  | "FL" => do let n ← ltNameP; pure (.failed n)
  | "IG" => do let n ← ltNameP; pure (.ignored n)
  | "PS" => do let i ← nat; pure (.parseStarted i)
  | "PX" => do let i ← nat; pure (.parseFailed i)
  | "SO" => do let a ← nat; let b ← nat; let c ← nat; pure (.suiteOk a b c)
  | "SF" => do let a ← nat; let b ← nat; let c ← nat; pure (.suiteFailed a b c)
  | _ => fail

def jStatusP : P JStatus := do
  let t ← tok
  match t with
  | "ok" => pure .success | "skip" => pure .skipped | "failh" => pure (.failure true) | "fails" => pure (.failure false)
  | _ => fail

def jSuiteP : P JSuite := do
  let t ← tok
  match t with
  | "E" => do let i ← nat; pure (.errors i)
  | "F" => do
    let f ← nat
    let cs ← list (do let r ← opt nat; let s ← nat; let st ← jStatusP; pure (⟨r, s, st⟩ : JCase))
    pure (.feature f cs)
  | _ => fail

def statusP : P Status := do
  let t ← tok
  match t with
  | "p" => pure .passed | "s" => pure .skipped | "f" => pure .failed | "a" => pure .ambiguous | "u" => pure .undefined
  | _ => fail

def jFeatP : P JFeat := do
  let t ← tok
  match t with
  | "E" => do let i ← nat; pure (.errors i)
  | "F" => do
    let f ← nat
    let els ← list (do
      let r ← opt nat; let s ← nat; let bg ← bool
      let steps ← list (do let i ← nat; let st ← statusP; pure (i, st))
      let before ← list bool; let after ← list bool
      pure (⟨r, s, bg, steps, before, after⟩ : JElem))
    pure (.feature f els)
  | _ => fail

/-- `mon.c14 <nopath> <events> <lt records> <junit: 1 suites | 0> <json doc>` -/
def handleMonC14 : Toks → Option String :=
  fun ts => runAll (do
    let nopath ← list nat
    let evs ← list evP
    let lt ← list ltRecP
    let hasJu ← bool
    let ju ← (if hasJu then do let r ← list jSuiteP; pure (some r) else pure none)
    let js ← list jFeatP
    pure (RepMon.monC14 nopath evs lt ju js)) ts

end Cuke.Driver
