import Cuke.Model.Summarize
import Cuke.Model.Normalize
/-
  Compositional model of the writer combinators:
  `FailOnSkipped`, `Repeat`, `Tee`, `Or`, `Summarize`, `Normalize`, `AssertNormalized`, `discard::*`
  over recording leaf writers. A pipeline is a static expression `W`; its state type
  `St w` is computed from the expression, so `handle` is structurally recursive on `w`.
-/
namespace Cuke

/-- predicates a `FailOnSkipped` can carry: the default one or members of a small closed
    family standing for "custom" predicates -/
inductive FosPred where
  | default | always | never | scenOdd
  deriving Repr, DecidableEq

inductive RepFilter where
  | skipped | failed | always | never | featStarted
  deriving Repr, DecidableEq

inductive OrPred where
  | const (b : Bool) | isScen | isErr | featOdd
  deriving Repr, DecidableEq

def inheritedTags (cat : Catalog) (k : ScenKey) : List String :=
  cat.scenTags k ++ (match k.rule with | some r => cat.ruleTags k.feat r | none => []) ++ cat.featTags k.feat

def FosPred.eval (cat : Catalog) : FosPred → ScenKey → Bool
  | .default, k => !((inheritedTags cat k).any (fun t => t == "allow.skipped"))
  | .always, _ => true
  | .never, _ => false
  | .scenOdd, k => k.scen % 2 == 1

/-- `FailOnSkipped::handle_event`'s event transformation. -/
def fosMap (p : ScenKey → Bool) : Ev → Ev
  | .scen k ret (.bg i .skipped) => if p k then .scen k ret (.bg i (.failed .notFound)) else .scen k ret (.bg i .skipped)
  | .scen k ret (.step i .skipped) => if p k then .scen k ret (.step i (.failed .notFound)) else .scen k ret (.step i .skipped)
  | e => e

def RepFilter.eval : RepFilter → Ev → Bool
  | .skipped, e => e.isStepSkipped
  | .failed, e => e.isStepFailed || e.isHookFailed || e.isParseErr
  | .always, _ => true
  | .never, _ => false
  | .featStarted, e => match e with | .featStarted _ => true | _ => false

def Ev.feat? : Ev → Option Nat
  | .featStarted f => some f
  | .featFinished f => some f
  | .ruleStarted f _ => some f
  | .ruleFinished f _ => some f
  | .scen k _ _ => some k.feat
  | _ => none

def OrPred.eval : OrPred → Ev → Bool
  | .const b, _ => b
  | .isScen, e => e.scenEv?.isSome
  | .isErr, e => e.isParseErr
  | .featOdd, e => match e.feat? with | some f => f % 2 == 1 | none => false

/-- the six `Stats` getters -/
structure StatsVec where
  passed : Nat := 0
  skipped : Nat := 0
  failed : Nat := 0
  retried : Nat := 0
  parsingErrors : Nat := 0
  hookErrors : Nat := 0
  deriving Repr, DecidableEq

def StatsVec.max (a b : StatsVec) : StatsVec :=
  ⟨Nat.max a.passed b.passed, Nat.max a.skipped b.skipped, Nat.max a.failed b.failed,
   Nat.max a.retried b.retried, Nat.max a.parsingErrors b.parsingErrors, Nat.max a.hookErrors b.hookErrors⟩

def StatsVec.add (a b : StatsVec) : StatsVec :=
  ⟨a.passed + b.passed, a.skipped + b.skipped, a.failed + b.failed,
   a.retried + b.retried, a.parsingErrors + b.parsingErrors, a.hookErrors + b.hookErrors⟩

/-- the default `Stats::execution_has_failed` -/
def StatsVec.defaultFailed (s : StatsVec) : Bool :=
  decide (s.failed > 0) || decide (s.parsingErrors > 0) || decide (s.hookErrors > 0)

/-- The harness' recording leaf counts what it receives. -/
def leafCount (s : StatsVec) (e : Ev) : StatsVec :=
  { passed := s.passed + (if e.isStepPassed then 1 else 0)
    skipped := s.skipped + (if e.isStepSkipped then 1 else 0)
    failed := s.failed + (if e.isStepFailed then 1 else 0)
    retried := s.retried
    parsingErrors := s.parsingErrors + (if e.isParseErr then 1 else 0)
    hookErrors := s.hookErrors + (if e.isHookFailed then 1 else 0) }

/-- values passed to `Arbitrary::write` -/
inductive WVal where
  | user (id : Nat)
  /-- the summary, as the numbers it prints -/
  | summary (features rules : Nat) (scenarios steps : Stats) (parsingErrors hookErrors : Nat)
  deriving Repr, DecidableEq

/-- what reaches a leaf writer -/
inductive Out where
  | ev (leaf : Nat) (e : Ev)
  | write (leaf : Nat) (v : WVal)
  deriving Repr, DecidableEq

/-- static pipeline expression -/
inductive W where
  | leaf (id : Nat)
  | fos (p : FosPred) (w : W)
  | rep (f : RepFilter) (w : W)
  | tee (l r : W)
  | or (c : OrPred) (l r : W)
  | summ (w : W)
  | pass (w : W)     -- `AssertNormalized`, `discard::Arbitrary`, `discard::Stats`: identities on events
  | norm (w : W)     -- `Normalize` (the queue model of Cuke/Model/Normalize.lean in front of `w`)
  deriving Repr, DecidableEq

/-- state of a pipeline -/
@[reducible] def St : W → Type
  | .leaf _ => StatsVec
  | .fos _ w => St w
  | .rep _ w => List Ev × St w
  | .tee l r => St l × St r
  | .or _ l r => St l × St r
  | .summ w => Summ × St w
  | .pass w => St w
  | .norm w => Option Norm × St w     -- `none`: a `panic!` branch of `Normalize` was hit

def St.init : (w : W) → St w
  | .leaf _ => ({} : StatsVec)
  | .fos _ w => St.init w
  | .rep _ w => (([] : List Ev), St.init w)
  | .tee l r => (St.init l, St.init r)
  | .or _ l r => (St.init l, St.init r)
  | .summ w => (({} : Summ), St.init w)
  | .pass w => St.init w
  | .norm w => (some Norm.init, St.init w)

/-- `Arbitrary::write` through the pipeline (no state changes: leaves only record). -/
def writeW : (w : W) → WVal → List Out
  | .leaf id, v => [.write id v]
  | .fos _ w, v => writeW w v
  | .rep _ w, v => writeW w v
  | .tee l r, v => writeW l v ++ writeW r v
  | .or _ _ _, _ => []      -- `Or` has no `Arbitrary` impl; never called on type-correct pipelines
  | .summ w, v => writeW w v
  | .pass w, v => writeW w v
  | .norm w, v => writeW w v

def Summ.summaryVal (s : Summ) : WVal :=
  .summary s.features s.rules s.scenarios s.steps s.parsingErrors s.failedHooks

/-- `Writer::handle_event` through the pipeline. -/
def handle (cat : Catalog) : (w : W) → St w → Ev → St w × List Out
  | .leaf id, s, e => (leafCount s e, [.ev id e])
  | .fos p w, s, e => handle cat w s (fosMap (p.eval cat) e)
  | .rep f w, (buf, s), e =>
    let buf := if f.eval e then buf ++ [e] else buf
    let r := handle cat w s e
    if e.isFinished then
      let r' := buf.foldl (fun (acc : St w × List Out) ev =>
        let r2 := handle cat w acc.1 ev
        (r2.1, acc.2 ++ r2.2)) r
      (([], r'.1), r'.2)
    else ((buf, r.1), r.2)
  | .tee l r, (sl, sr), e =>
    let a := handle cat l sl e
    let b := handle cat r sr e
    ((a.1, b.1), a.2 ++ b.2)
  | .or c l r, (sl, sr), e =>
    if c.eval e then
      let a := handle cat l sl e
      ((a.1, sr), a.2)
    else
      let b := handle cat r sr e
      ((sl, b.1), b.2)
  | .summ w, (sm, s), e =>
    let sm := sm.pre cat e
    let r := handle cat w s e
    let p := sm.post
    if p.2 then ((p.1, r.1), r.2 ++ writeW w p.1.summaryVal) else ((p.1, r.1), r.2)
  | .pass w, s, e => handle cat w s e
  | .norm w, (ns, s), e =>
    match ns with
    | none => ((none, s), [])
    | some n =>
      match n.handle e with
      | none => ((none, s), [])
      | some (n', outs) =>
        let r := outs.foldl (fun (acc : St w × List Out) ev =>
          let r2 := handle cat w acc.1 ev
          (r2.1, acc.2 ++ r2.2)) (s, [])
        ((some n', r.1), r.2)

/-- the `Stats` getters of a pipeline -/
def statsOf : (w : W) → St w → StatsVec
  | .leaf _, s => s
  | .fos _ w, s => statsOf w s
  | .rep _ w, (_, s) => statsOf w s
  | .tee l r, (sl, sr) => (statsOf l sl).max (statsOf r sr)
  | .or _ l r, (sl, sr) => (statsOf l sl).add (statsOf r sr)
  | .summ _, (sm, _) =>
    { passed := sm.steps.passed, skipped := sm.steps.skipped, failed := sm.steps.failed,
      retried := sm.steps.retried, parsingErrors := sm.parsingErrors, hookErrors := sm.failedHooks }
  | .pass w, s => statsOf w s
  | .norm w, (_, s) => statsOf w s

/-- `Stats::execution_has_failed`: wrappers that forward it, the others use the default formula. -/
def execFailed : (w : W) → St w → Bool
  | .leaf _, s => s.defaultFailed
  | .fos _ w, s => execFailed w s
  | .rep _ w, (_, s) => execFailed w s
  | .tee l r, s => (statsOf (.tee l r) s).defaultFailed
  | .or c l r, s => (statsOf (.or c l r) s).defaultFailed
  | .summ w, s => (statsOf (.summ w) s).defaultFailed
  | .pass w, s => execFailed w s
  | .norm w, (_, s) => execFailed w s

/-- run a whole stream -/
def runW (cat : Catalog) (w : W) (evs : List Ev) : St w × List Out :=
  evs.foldl (fun (acc : St w × List Out) e =>
    let r := handle cat w acc.1 e
    (r.1, acc.2 ++ r.2)) (St.init w, [])

end Cuke
