import Cuke.Model.BasicWriter
/-! Helper lemmas about the plain-terminal reporter model (C14). -/
namespace Cuke.Rep
open Cuke List

/-- `readReport` from an arbitrary context -/
def readFrom (c : BCtx) (ls : List BLine) : BCtx × List BFact :=
  ls.foldl (fun (acc : BCtx × List BFact) l => let r := readLine acc.1 l; (r.1, acc.2 ++ r.2)) (c, [])

theorem readReport_eq (ls : List BLine) : readReport ls = (readFrom {} ls).2 := rfl

theorem readFrom_acc (c : BCtx) (acc : List BFact) (ls : List BLine) :
    ls.foldl (fun (a : BCtx × List BFact) l => let r := readLine a.1 l; (r.1, a.2 ++ r.2)) (c, acc) =
      ((readFrom c ls).1, acc ++ (readFrom c ls).2) := by
  induction ls generalizing c acc with
  | nil => simp [readFrom]
  | cons l ls ih =>
    simp only [readFrom, foldl_cons, nil_append]
    rw [ih, ih (acc := (readLine c l).2)]
    simp [readFrom, append_assoc]

theorem readFrom_nil (c : BCtx) : readFrom c [] = (c, []) := rfl

theorem readFrom_cons (c : BCtx) (l : BLine) (ls : List BLine) :
    readFrom c (l :: ls) = ((readFrom (readLine c l).1 ls).1, (readLine c l).2 ++ (readFrom (readLine c l).1 ls).2) := by
  simp only [readFrom, foldl_cons, nil_append]
  rw [readFrom_acc]
  rfl

theorem readFrom_append (c : BCtx) (a b : List BLine) :
    readFrom c (a ++ b) = ((readFrom (readFrom c a).1 b).1, (readFrom c a).2 ++ (readFrom (readFrom c a).1 b).2) := by
  induction a generalizing c with
  | nil => simp [readFrom_nil]
  | cons l a ih =>
    rw [cons_append, readFrom_cons, ih, readFrom_cons]
    simp [append_assoc]

/-- `basicRun` from an arbitrary state -/
def basicFrom (s : Basic) (evs : List Ev) : Basic × List BLine :=
  evs.foldl (fun (acc : Basic × List BLine) e => let r := acc.1.handle e; (r.1, acc.2 ++ r.2)) (s, [])

theorem basicRun_eq (evs : List Ev) : basicRun evs = basicFrom {} evs := rfl

theorem basicFrom_acc (s : Basic) (acc : List BLine) (evs : List Ev) :
    evs.foldl (fun (a : Basic × List BLine) e => let r := a.1.handle e; (r.1, a.2 ++ r.2)) (s, acc) =
      ((basicFrom s evs).1, acc ++ (basicFrom s evs).2) := by
  induction evs generalizing s acc with
  | nil => simp [basicFrom]
  | cons e es ih =>
    simp only [basicFrom, foldl_cons, nil_append]
    rw [ih, ih (acc := (s.handle e).2)]
    simp [basicFrom, append_assoc]

theorem basicFrom_cons (s : Basic) (e : Ev) (es : List Ev) :
    basicFrom s (e :: es) = ((basicFrom (s.handle e).1 es).1, (s.handle e).2 ++ (basicFrom (s.handle e).1 es).2) := by
  simp only [basicFrom, foldl_cons, nil_append]
  rw [basicFrom_acc]
  rfl

/-- what one event prints states exactly that event's (un-attributed) fact -/
theorem handle_raw (s : Basic) (e : Ev) : (s.handle e).2.filterMap rawOfLine = (rawOfEv e).toList := by
  cases e with
  | scen k ret se =>
    cases se with
    | hook t r => cases r <;> simp [Basic.handle, rawOfLine, rawOfEv]
    | bg i r =>
      cases r with
      | failed err => cases err <;> simp [Basic.handle, Basic.stepResult, rawOfLine, rawOfEv, statusOf]
      | _ => simp [Basic.handle, Basic.stepResult, rawOfLine, rawOfEv, statusOf]
    | step i r =>
      cases r with
      | failed err => cases err <;> simp [Basic.handle, Basic.stepResult, rawOfLine, rawOfEv, statusOf]
      | _ => simp [Basic.handle, Basic.stepResult, rawOfLine, rawOfEv, statusOf]
    | _ => simp [Basic.handle, rawOfLine, rawOfEv]
  | _ => simp [Basic.handle, rawOfLine, rawOfEv]

/-- the invariant tying the stream recogniser, the writer's indentation and the reader's context -/
structure Tied (q : SeqSt) (b : Basic) (c : BCtx) : Prop where
  indent : b.indent = (if q.rule.isSome then 2 else 0) + (if q.scen.isSome then 2 else 0) + (if q.opened then 4 else 0)
  closed : q.scen = none → q.opened = false
  feat : ∀ f, q.feat = some f → c.feat = some f
  rule : ∀ r, q.rule = some r → c.rule = some r
  scen : ∀ k ret, q.scen = some (k, ret) →
    c.scen = some (k.scen, retryOf ret) ∧ c.rule = k.rule ∧ q.feat = some k.feat ∧ q.rule = k.rule

set_option hygiene false in
macro "seq_case" : tactic => `(tactic| (
  simp only [SeqSt.step] at hs
  split at hs
  · rename_i hcond
    simp only [SeqSt.inScen, Bool.and_eq_true, Option.isNone_iff_eq_none, beq_iff_eq] at hcond
    simp only [Option.some.injEq] at hs
    subst hs
    refine ⟨⟨?_, ?_, ?_, ?_, ?_⟩, ?_⟩ <;>
      simp_all [Basic.handle, Basic.stepResult, readFrom_cons, readFrom_nil, readLine, bfactOf, statusOf]
  · cases hs))

theorem tied_step (q q' : SeqSt) (b : Basic) (c : BCtx) (e : Ev) (h : Tied q b c) (hs : q.step e = some q') :
    Tied q' (b.handle e).1 (readFrom c (b.handle e).2).1 ∧ (readFrom c (b.handle e).2).2 = (bfactOf e).toList := by
  obtain ⟨hi, hc, hf, hr, hsc⟩ := h
  cases e with
  | started => simp [SeqSt.step] at hs; subst hs; exact ⟨⟨hi, hc, hf, hr, hsc⟩, by simp [Basic.handle, readFrom_nil, bfactOf]⟩
  | parsingFinished a b' c' d e' => simp [SeqSt.step] at hs; subst hs; exact ⟨⟨hi, hc, hf, hr, hsc⟩, by simp [Basic.handle, readFrom_nil, bfactOf]⟩
  | finished => simp [SeqSt.step] at hs; subst hs; exact ⟨⟨hi, hc, hf, hr, hsc⟩, by simp [Basic.handle, readFrom_nil, bfactOf]⟩
  | parseErr i =>
    simp [SeqSt.step] at hs; subst hs
    exact ⟨⟨hi, hc, hf, hr, hsc⟩, by simp [Basic.handle, readFrom_cons, readFrom_nil, readLine, bfactOf]⟩
  | featStarted f => seq_case
  | featFinished f => seq_case
  | ruleStarted f r => seq_case
  | ruleFinished f r => seq_case
  | scen k ret se =>
    cases se with
    | started =>
      simp only [SeqSt.step] at hs
      split at hs
      · rename_i hcond
        simp only [Bool.and_eq_true, Option.isNone_iff_eq_none, beq_iff_eq] at hcond
        simp only [Option.some.injEq] at hs
        subst hs
        refine ⟨⟨?_, ?_, ?_, ?_, ?_⟩, ?_⟩ <;>
          simp_all [Basic.handle, readFrom_cons, readFrom_nil, readLine, bfactOf]
        cases hk : k.rule with
        | none => simp
        | some r => simp [hr r hk]
      · cases hs
    | finished => seq_case
    | log m => seq_case
    | hook t r => cases r <;> seq_case
    | bg i r => 
      cases r with
      | failed err => cases err <;> seq_case
      | _ => seq_case
    | step i r =>
      cases r with
      | failed err => cases err <;> seq_case
      | _ => seq_case

end Cuke.Rep
