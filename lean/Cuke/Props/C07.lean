import Cuke.Lemmas.Sched
import Cuke.Model.SchedMon
import Cuke.Lemmas.SchedSerial
import Cuke.Lemmas.SchedSpin
/-!
# C07 — @serial scenarios run in isolation from every other scenario
Model: `Cuke.getBatch` (serial preference, one at a time), `Cuke.isSerial`, the scheduler LTS, and the
monitor `Cuke.SMon.isolation` (the property's wording on a run log).

The full statement is FALSE of the code (finding F-C07): `get` hands out a ready Serial entry without
looking at what is in flight. What IS proved: serial entries are only ever dispatched alone and first.
-/
namespace Cuke.C07
open Cuke List Cuke.SchedL Cuke.SMon

/-- Classification: the default looks for the `serial` tag on scenario, rule or feature. -/
theorem serial_by_tag (c : SCfg) (h : c.customWhich = false) (sc rt ft : List String) :
    isSerial c sc rt ft = true ↔ "serial" ∈ sc ∨ "serial" ∈ rt ∨ "serial" ∈ ft := by
  simp [isSerial, h, or_assoc]

/-- **A Serial entry is never dispatched together with anything else**: a batch that contains a Serial
    entry is that single entry. (Queues hold Serial entries only in `serial`, Concurrent only in `conc`.) -/
theorem getBatch_serial_alone (ready : Entry → Bool) (ask : Option Nat) (q : Queues)
    (hq : ∀ e ∈ q.conc, e.serial = false)
    (e : Entry) (he : e ∈ (getBatch ready ask q).1) (hs : e.serial = true) :
    (getBatch ready ask q).1 = [e] := by
  unfold getBatch at he ⊢
  by_cases h0 : (ask == some 0) = true
  · simp [h0] at he
  · simp only [h0, Bool.false_eq_true, if_false] at he ⊢
    by_cases hne : (drainQ ready (some 1) q.serial).1.isEmpty = true
    · simp only [hne, Bool.not_true, Bool.false_eq_true, if_false] at he ⊢
      have := (drainQ_sublist ready ask q.conc).1.subset he
      rw [hq e this] at hs; cases hs
    · simp only [hne, Bool.not_false, if_true] at he ⊢
      have hl := drainQ_length_le ready 1 q.serial
      match hd : (drainQ ready (some 1) q.serial).1, hl with
      | [x], _ => rw [hd] at he; simp at he; rw [he]
      | [], _ => simp [hd] at hne

/-- **Serial preference**: if a Serial entry is ready (and `get` may hand out anything), the batch is a
    single Serial entry — Concurrent ones wait. -/
theorem getBatch_serial_first (ready : Entry → Bool) (ask : Option Nat) (q : Queues) (h0 : ask ≠ some 0)
    (hs : ∃ e ∈ q.serial, ready e = true) :
    ∃ e ∈ q.serial, (getBatch ready ask q).1 = [e] ∧ ready e = true := by
  have hz : (ask == some 0) = false := by simpa using h0
  have hne : (drainQ ready (some 1) q.serial).1 ≠ [] := by
    intro hnil
    obtain ⟨e, he, hr⟩ := hs
    have := drainQ_maximal ready 1 q.serial (by simp [hnil])
    have hperm := drainQ_perm ready (some 1) q.serial
    rw [hnil, nil_append] at hperm
    have := this e (hperm.symm.subset he)
    rw [hr] at this; cases this
  have hl := drainQ_length_le ready 1 q.serial
  match hd : (drainQ ready (some 1) q.serial).1, hl, hne with
  | [x], _, _ =>
    refine ⟨x, (drainQ_sublist ready (some 1) q.serial).1.subset (by rw [hd]; simp), ?_, drainQ_all_ready ready _ _ x (by rw [hd]; simp)⟩
    simp [getBatch, hz, hd]

/-- In the LTS nothing is dispatched between a dispatch and the consumption of a completion
    (`execute` awaits `run_scenarios.next()`): a `get` in phase `selecting` is a class-I disagreement.
    Hence a Serial attempt dispatched while NOTHING is in flight stays alone until it ends. -/
theorem no_get_while_selecting (c : SCfg) (s : SState) (t : Nat) (ask : Option Nat) (ns nc : Nat)
    (h : s.phase = .selecting) :
    (stepL c s (.get1 t ask ns nc)).dis.any (fun d => d.cls == .I) = true := by
  simp only [stepL]
  split <;> split <;> split <;> split <;>
    simp [SState.note, SState.inPhase, h, List.any_append]

/-! ## The full statement is false of the code (finding F-C07) -/

def f1 : SFeat := { id := 1, tags := [], scens := [⟨2, [], 0⟩, ⟨3, [], 0⟩], rules := [] }
def f4 : SFeat := { id := 4, tags := [], scens := [⟨5, ["serial"], 0⟩], rules := [] }
def wcfg : SCfg :=
  { builderConc := some (some 2), cliConc := none, builderFF := false, cliFF := false, builderRetries := none,
    cliRetries := none, builderAfter := none, cliAfter := none, customWhich := false, durTable := [], feats := [f1, f4] }

def k2 : ScenKey := ⟨1, none, 2⟩
def k3 : ScenKey := ⟨1, none, 3⟩
def k5 : ScenKey := ⟨4, none, 5⟩

/-- A lazy parser delivers the feature with the `@serial` scenario after two concurrent scenarios were
    dispatched; when the first of them completes, `get` returns the serial one. -/
def witness : List Label :=
  [.pOk 1, .ins 10 [] [⟨10, 2, none, none⟩, ⟨11, 3, none, none⟩], .pPend,
   .hookTake, .tx .started,
   .get1 20 (some 2) 0 2, .get2 21 (.cont (some 2)) [10, 11] false 0, .tx (.featStarted 1), .disp 2 (.cont (some 0)),
   .tx (.scen k2 none .started), .tx (.scen k3 none .started),
   .pWake, .pOk 4, .ins 30 [⟨12, 5, none, none⟩] [], .pEnd, .tx (.parsingFinished 2 0 3 0 0), .pFinish,
   .tx (.scen k2 none .finished), .endA 10 false false 40, .cons true, .notif 10 false false,
   .get1 50 (some 1) 1 0, .get2 51 (.cont (some 1)) [12] false 1, .tx (.featStarted 4), .disp 1 (.cont (some 0)),
   .tx (.scen k5 none .started)]

/-- The scheduler model (= the code, by the trace correspondence) accepts this run without any
    disagreement … -/
theorem witness_accepted : (accept wcfg witness).dis.isEmpty = true := by decide +kernel

/-- … and in it the serial attempt (5) starts while the concurrent attempt (3) is still in flight. -/
theorem witness_violates : (isolation wcfg witness).isSome = true := by decide +kernel

/-- The property's full statement, on run logs the model accepts. -/
def C07_full : Prop :=
  ∀ (c : SCfg) (ls : List Label), (accept c ls).dis.isEmpty = true → isolation c ls = none

/-- **The full statement is false** (finding F-C07). -/
theorem C07_full_false : ¬ C07_full := by
  intro h
  have := h wcfg witness witness_accepted
  have hv := witness_violates
  rw [this] at hv
  cases hv

/-- the witness is an instance of the listed cause pattern (a Serial entry delivered late by the parser
    is handed out while another scenario is in flight), so the known-finding matcher explains it -/
theorem witness_is_known_pattern : knownC07 wcfg witness (isolation wcfg witness) = some "F-C07" := by
  decide +kernel


/-! ## Whole runs: what IS true of the code

`Good` = the log raised no disagreement of the classes K (slot accounting), I (program order of `execute`),
Q (queue discipline). Lemmas/SchedSerial.lean. -/

open Cuke.SchedSerial Cuke.SchedInv in
/-- **An attempt dispatched into an empty runner runs alone until it ends.** Take any run log `pre`, then a
    dispatch of the single entry `e` while nothing is running and no completion is waiting to be consumed, then
    any continuation `mid` that does not contain the end of that attempt: if the LTS replays the whole log
    without a K / I / Q disagreement, then at its end `e` is still the only attempt in flight — nothing else was
    dispatched, however the parser, the clock and the other labels interleave. -/
theorem lts_alone_until_end (c : SCfg) (pre mid : List Label) (n : Nat) (sl : Slots) (e : Entry)
    (hb : (accept c pre).batch = [e]) (hr : (accept c pre).running = []) (he : (accept c pre).endedUnconsumed = 0)
    (hno : ∀ l ∈ mid, ∀ f r t, l ≠ .endA e.id f r t)
    (hg : Good (accept c (pre ++ [.disp n sl] ++ mid)) = true) :
    (accept c (pre ++ [.disp n sl] ++ mid)).running = [e] ∧
    (accept c (pre ++ [.disp n sl] ++ mid)).batch = [] := by
  have hacc : accept c (pre ++ [.disp n sl] ++ mid) = mid.foldl (stepL c) (stepL c (accept c pre) (.disp n sl)) := by
    simp [accept, List.foldl_append]
  rw [hacc] at hg ⊢
  have h0 := alone_after_dispatch c (accept c pre) n sl e hb hr he
  have := alone_run c e mid _ h0 hno hg
  exact ⟨this.1, this.2.2.2⟩

open Cuke.SchedSerial Cuke.SchedInv in
/-- … in particular no further dispatch is accepted before that attempt has ended -/
theorem lts_no_dispatch_while_alone (c : SCfg) (pre mid : List Label) (n n' : Nat) (sl sl' : Slots) (e : Entry)
    (hb : (accept c pre).batch = [e]) (hr : (accept c pre).running = []) (he : (accept c pre).endedUnconsumed = 0)
    (hno : ∀ l ∈ mid, ∀ f r t, l ≠ .endA e.id f r t) :
    Good (accept c (pre ++ [.disp n sl] ++ mid ++ [.disp n' sl'])) = false := by
  cases hgood : Good (accept c (pre ++ [.disp n sl] ++ mid ++ [.disp n' sl'])) with
  | false => rfl
  | true =>
    exfalso
    have hacc : accept c (pre ++ [.disp n sl] ++ mid ++ [.disp n' sl']) =
        stepL c (mid.foldl (stepL c) (stepL c (accept c pre) (.disp n sl))) (.disp n' sl') := by
      simp [accept, List.foldl_append]
    rw [hacc] at hgood
    have hgm := good_step_mono c _ _ hgood
    have h0 := alone_after_dispatch c (accept c pre) n sl e hb hr he
    have hal := alone_run c e mid _ h0 hno hgm
    have := wp_disp c _ n' sl' hal.2.2.1
    rw [good_no_I _ hgood] at this
    cases this

/-! non-vacuity: a serial scenario handed out while nothing is in flight; the hypotheses of
    `lts_alone_until_end` hold for this log with a non-empty continuation -/
def scfg : SCfg :=
  { builderConc := some (some 2), cliConc := none, builderFF := false, cliFF := false, builderRetries := none,
    cliRetries := none, builderAfter := none, cliAfter := none, customWhich := false, durTable := [], feats := [f4] }
def spre : List Label :=
  [.hookTake, .tx .started, .pOk 4, .ins 0 [⟨12, 5, none, none⟩] [], .pEnd, .tx (.parsingFinished 1 0 1 0 0), .pFinish,
   .get1 1 (some 2) 1 0, .get2 1 (.cont (some 2)) [12] false 0, .tx (.featStarted 4)]
def smid : List Label := [.tx (.scen k5 none .started), .poll, .envMove, .tx (.scen k5 none (.step 0 .started))]

example : (accept scfg spre).batch.map (fun e => (e.id, e.serial)) = [(12, true)] ∧ (accept scfg spre).running = [] ∧
    (accept scfg spre).endedUnconsumed = 0 ∧
    Cuke.SchedInv.Good (accept scfg (spre ++ [.disp 1 (.cont (some 1))] ++ smid)) = true ∧
    (accept scfg (spre ++ [.disp 1 (.cont (some 1))] ++ smid)).running.map (·.id) = [12] := by decide +kernel

/-! ## User code of other scenarios (whole runs; Lemmas/SchedSpin.lean) -/

open Cuke.SchedSerial Cuke.SchedInv Cuke.SchedSpin in
/-- **While an attempt runs alone, only ITS user code runs.** As in `lts_alone_until_end`: the single entry `e` is
    dispatched into an empty runner, then any continuation `mid` without the end of that attempt. If user code — a
    step, a hook, `World::new` — is then entered (label `cbIn`) and the whole log is replayed without a disagreement,
    that code belongs to `e`'s scenario: no other scenario's step, hook or World code runs while the serial attempt is
    in flight. (The acceptor accepts `cbIn` only for an attempt that is dispatched and not yet ended.) -/
theorem lts_only_own_user_code_while_alone (c : SCfg) (pre mid : List Label) (n : Nat) (sl : Slots) (e : Entry)
    (sc att t : Nat)
    (hb : (accept c pre).batch = [e]) (hr : (accept c pre).running = []) (he : (accept c pre).endedUnconsumed = 0)
    (hno : ∀ l ∈ mid, ∀ f r t, l ≠ .endA e.id f r t)
    (hc : SchedOrd.Clean0 (accept c (pre ++ [.disp n sl] ++ mid ++ [.cbIn sc att t])) = true) :
    sc = e.key.scen := by
  have hstep : accept c (pre ++ [.disp n sl] ++ mid ++ [.cbIn sc att t]) =
      stepL c (accept c (pre ++ [.disp n sl] ++ mid)) (.cbIn sc att t) := by
    simp [accept, List.foldl_append]
  rw [hstep] at hc
  have hc0 : SchedOrd.Clean0 (accept c (pre ++ [.disp n sl] ++ mid)) = true := SchedOrd.clean0_step_mono c _ _ hc
  have hg : Good (accept c (pre ++ [.disp n sl] ++ mid)) = true := (SchedOrd.clean0_all _ hc0).1
  have hal := (lts_alone_until_end c pre mid n sl e hb hr he hno hg).1
  obtain ⟨_, e', he', hsc, _⟩ := cbIn_clean c _ sc att t (by simpa [SchedOrd.Clean0] using hc0)
    (by simpa [SchedOrd.Clean0] using hc)
  have heq : pre ++ Label.disp n sl :: mid = pre ++ [Label.disp n sl] ++ mid := by simp
  rw [heq, hal] at he'
  have : e' = e := by simpa using he'
  rw [← hsc, this]

end Cuke.C07
