import Cuke.Lemmas.NormalizeInsert
import Cuke.Lemmas.NormalizeOrder
import Cuke.Lemmas.NormalizeSeq
import Cuke.Lemmas.NormalizeContract
import Cuke.Model.Monitors
/-!
# C11 — Normalize reorders any contract-abiding stream losslessly into sequential order
Model: `Cuke.Norm.handle`, `Cuke.normRun` (Cuke/Model/Normalize.lean).

Proved here (for streams of any length / shape):
* **T1 lossless**: the concatenation of everything forwarded so far plus what the queue still owes is a
  permutation of what was received; for a stream that ends with run-Finished nothing is owed any more;
* **T0 no panic** along any `SafeRun`;
* **T4 immediate forwarding** of run-Started / ParsingFinished / parser errors; run-Finished is the last
  thing forwarded by its call; after it everything passes through unchanged.
`SafeRun` is the contract, stated relative to the normalizer's own bookkeeping (decidable; evaluated on
every generated stream by the correspondence run). The ordering clauses (T2 sequential output,
T3 per-attempt order, T5 pass-through of sequential input) are evaluated by executable monitors on the
real writer's output; their proofs are not done yet — see `C11_order_partial`.
-/
namespace Cuke.C11
open Cuke List Cuke.NormL Cuke.Mon

/-- all features still queued have received their Finished bracket -/
def allClosed (n : Norm) : Bool := n.feats.all (fun fq => fq.2.fin == .pending)

/-- one step obeys the contract (relative to the normalizer state) -/
def safeStep (n : Norm) (e : Ev) : Bool :=
  n.fin == .emitted || (Safe n e && (!(e == .finished) || allClosed n))

/-- the whole stream obeys the contract and no `panic!` branch is hit -/
def SafeRun : Norm → List Ev → Bool
  | _, [] => true
  | n, e :: es =>
    safeStep n e &&
    match n.handle e with
    | some (n', _) => SafeRun n' es
    | none => false

theorem emitFeats_all_closed (fs : List (Nat × FeatQ)) (hok : fs.all featOk = true)
    (hc : fs.all (fun fq => fq.2.fin == .pending) = true) : (emitFeats fs).2 = [] := by
  induction fs with
  | nil => simp [emitFeats]
  | cons fq rest ih =>
    obtain ⟨f, q⟩ := fq
    simp only [all_cons, Bool.and_eq_true] at hok hc
    simp only [emitFeats, hc.1, if_true]
    exact ih hok.2 hc.2

/-- **Step**: one `handle_event` forwards events that, together with what is still owed afterwards,
    are a permutation of what was owed before plus the event received. -/
theorem handle_step (n n' : Norm) (e : Ev) (out : List Ev) (hok : NormOk n) (hfin : n.fin ≠ .pending)
    (hs : safeStep n e = true) (h : n.handle e = some (n', out)) :
    out ++ buffered n' ~ buffered n ++ [e] ∧ NormOk n' ∧ n'.fin ≠ .pending ∧
    (e = .finished → n.fin ≠ .emitted → buffered n' = [] ∧ n'.fin = .emitted) ∧
    (n.fin = .emitted → n' = n ∧ out = [e]) ∧
    (n.fin ≠ .emitted → e ≠ .finished → n'.fin ≠ .emitted) := by
  unfold Norm.handle at h
  by_cases hem : n.fin = .emitted
  · simp only [hem, beq_self_eq_true, if_true, Option.some.injEq, Prod.mk.injEq] at h
    obtain ⟨rfl, rfl⟩ := h
    exact ⟨perm_append_comm, hok, hfin, fun _ hne => absurd hem hne, fun _ => ⟨rfl, rfl⟩, fun hne => absurd hem hne⟩
  · have hem' : (n.fin == Fin.emitted) = false := by simpa using hem
    have hno : n.fin = .no := by cases hn : n.fin <;> simp_all
    simp only [hem', Bool.false_eq_true, if_false] at h
    simp only [safeStep, hem', Bool.false_or, Bool.and_eq_true, Bool.or_eq_true, Bool.not_eq_true'] at hs
    cases hi : n.insert e with
    | none => simp [hi] at h
    | some n1 =>
      simp only [hi] at h
      obtain ⟨hp, hok1, hfin1⟩ := insert_perm n n1 e hok hs.1 hi
      obtain ⟨heq, hok2⟩ := emitFeats_eq n1.feats hok1
      by_cases hf : e = .finished
      · subst hf
        simp only [beq_self_eq_true, if_true] at hfin1
        simp only [hfin1, beq_self_eq_true, if_true, Option.some.injEq, Prod.mk.injEq] at h
        obtain ⟨rfl, rfl⟩ := h
        have hclosed : allClosed n = true := by
          rcases hs.2 with h2 | h2
          · simp at h2
          · exact h2
        have hn1 : n1.feats = n.feats := by
          simp only [Norm.insert, Option.some.injEq] at hi; subst hi; rfl
        have hnil := emitFeats_all_closed n1.feats hok1 (by rw [hn1]; exact hclosed)
        refine ⟨?_, hok2, by simp, fun _ _ => ⟨by simp [buffered, hnil, bufFeats], rfl⟩, fun hh => absurd hh hem, fun _ hh => absurd rfl hh⟩
        simp only [buffered, hno, Ev.isRunLevel, Bool.false_eq_true, if_false, nil_append, append_nil,
          show (Fin.no == Fin.pending) = false from rfl, show (Fin.emitted == Fin.pending) = false from rfl]
        have hq : queued Ev.finished = [] := by simp [queued]
        rw [hq, append_nil] at hp
        rw [append_assoc]
        have : (emitFeats n1.feats).1 ++ ([Ev.finished] ++ bufFeats (emitFeats n1.feats).2) ~
            ((emitFeats n1.feats).1 ++ bufFeats (emitFeats n1.feats).2) ++ [Ev.finished] := by
          rw [append_assoc]; exact Perm.append_left _ perm_append_comm
        rw [heq] at this
        exact this.trans (hp.append_right _)
      · have hf' : (e == Ev.finished) = false := by simpa using hf
        simp only [hf', Bool.false_eq_true, if_false] at hfin1
        have hn1p : (n1.fin == Fin.pending) = false := by rw [hfin1, hno]; rfl
        simp only [hn1p, Bool.false_eq_true, if_false, Option.some.injEq, Prod.mk.injEq] at h
        obtain ⟨rfl, rfl⟩ := h
        refine ⟨?_, hok2, by simp [hfin1, hno], fun hh => absurd hh hf, fun hh => absurd hh hem, fun _ _ => by simp [hfin1, hno]⟩
        simp only [buffered, hfin1, hno, show (Fin.no == Fin.pending) = false from rfl, Bool.false_eq_true, if_false, append_nil]
        by_cases hr : e.isRunLevel = true
        · have hq : queued e = [] := by simp [queued, hr]
          rw [hq, append_nil] at hp
          simp only [hr, if_true]
          rw [append_assoc, heq]
          exact (perm_append_comm).trans (hp.append_right _)
        · have hr' : e.isRunLevel = false := by simpa using hr
          have hq : queued e = [e] := by simp [queued, hr', hf']
          rw [hq] at hp
          simp only [hr', Bool.false_eq_true, if_false, nil_append]
          rw [heq]; exact hp

/-- **T0 + T1.** Along any contract-abiding run no panic branch is hit, and at every moment
    `forwarded ++ still-owed` is a permutation of `received`. -/
theorem norm_T1_perm_from (n : Norm) (evs : List Ev) (hok : NormOk n) (hfin : n.fin ≠ .pending)
    (hemp : n.fin = .emitted → buffered n = [])
    (hs : SafeRun n evs = true) :
    ∃ n' outs, normRun n evs = some (n', outs) ∧ outs.flatten ++ buffered n' ~ buffered n ++ evs ∧
      NormOk n' ∧ n'.fin ≠ .pending ∧ (n'.fin = .emitted → buffered n' = []) := by
  induction evs generalizing n with
  | nil => exact ⟨n, [], rfl, by simp, hok, hfin, hemp⟩
  | cons e es ih =>
    simp only [SafeRun, Bool.and_eq_true] at hs
    cases hh : n.handle e with
    | none => simp [hh] at hs
    | some r =>
      obtain ⟨n1, out⟩ := r
      simp only [hh] at hs
      obtain ⟨hp, hok1, hfin1, hA, hB, hC⟩ := handle_step n n1 e out hok hfin hs.1 hh
      have hemp1 : n1.fin = .emitted → buffered n1 = [] := by
        intro h1
        by_cases hem : n.fin = .emitted
        · obtain ⟨rfl, _⟩ := hB hem; exact hemp hem
        · by_cases hf : e = .finished
          · exact (hA hf hem).1
          · exact absurd h1 (hC hem hf)
      obtain ⟨n', outs, hrun, hperm, hok', hfin', hemp'⟩ := ih n1 hok1 hfin1 hemp1 hs.2
      refine ⟨n', out :: outs, by simp [normRun, hh, hrun], ?_, hok', hfin', hemp'⟩
      simp only [flatten_cons]
      rw [append_assoc]
      have h1 : out ++ (outs.flatten ++ buffered n') ~ out ++ (buffered n1 ++ es) := Perm.append_left _ hperm
      have h2 : out ++ (buffered n1 ++ es) ~ (buffered n ++ [e]) ++ es := by
        rw [← append_assoc]; exact hp.append_right _
      exact h1.trans (h2.trans (by simp))

theorem norm_T1_perm (evs : List Ev) (hs : SafeRun Norm.init evs = true) :
    ∃ n outs, normRun Norm.init evs = some (n, outs) ∧ outs.flatten ++ buffered n ~ evs := by
  obtain ⟨n, outs, h1, h2, _, _⟩ := norm_T1_perm_from Norm.init evs (by simp [NormOk, Norm.init]) (by simp [Norm.init]) (by simp [Norm.init]) hs
  exact ⟨n, outs, h1, by simpa [buffered, Norm.init, bufFeats] using h2⟩

theorem normRun_append (n : Norm) (a b : List Ev) :
    normRun n (a ++ b) = (normRun n a).bind (fun r => (normRun r.1 b).map (fun r2 => (r2.1, r.2 ++ r2.2))) := by
  induction a generalizing n with
  | nil => simp [normRun]
  | cons e es ih =>
    simp only [cons_append, normRun]
    cases h : n.handle e with
    | none => simp
    | some r =>
      obtain ⟨n1, out⟩ := r
      simp only [ih]
      cases normRun n1 es with
      | none => simp
      | some r1 =>
        obtain ⟨n2, outs⟩ := r1
        simp only [Option.bind_some]
        cases normRun n2 b <;> simp

theorem safeRun_append (n : Norm) (a b : List Ev) (h : SafeRun n (a ++ b) = true) :
    SafeRun n a = true ∧ ∀ n' outs, normRun n a = some (n', outs) → SafeRun n' b = true := by
  induction a generalizing n with
  | nil =>
    refine ⟨rfl, fun n' outs hr => ?_⟩
    simp only [normRun, Option.some.injEq, Prod.mk.injEq] at hr
    obtain ⟨rfl, _⟩ := hr
    exact h
  | cons e es ih =>
    simp only [cons_append, SafeRun, Bool.and_eq_true] at h ⊢
    cases hh : n.handle e with
    | none => simp [hh] at h
    | some r =>
      obtain ⟨n1, out⟩ := r
      simp only [hh] at h ⊢
      have := ih n1 h.2
      refine ⟨⟨h.1, this.1⟩, ?_⟩
      intro n' outs hr
      simp only [normRun, hh] at hr
      cases hr2 : normRun n1 es with
      | none => simp [hr2] at hr
      | some r2 =>
        obtain ⟨n2, outs2⟩ := r2
        simp only [hr2, Option.some.injEq, Prod.mk.injEq] at hr
        obtain ⟨rfl, _⟩ := hr
        exact this.2 n2 outs2 hr2

/-- **T1 for complete streams.** For a contract-abiding stream that ends with run-Finished, the
    concatenation of everything forwarded is a permutation of the stream: exactly the same multiset of
    events, nothing dropped, duplicated or left behind. -/
theorem norm_T1_complete (pre : List Ev) (hs : SafeRun Norm.init (pre ++ [Ev.finished]) = true) :
    ∃ n outs, normRun Norm.init (pre ++ [Ev.finished]) = some (n, outs) ∧ outs.flatten ~ pre ++ [Ev.finished] ∧
      n.fin = .emitted := by
  obtain ⟨hs1, hs2⟩ := safeRun_append Norm.init pre [Ev.finished] hs
  obtain ⟨n1, outs1, hr1, hp1, hok1, hfin1, hemp1⟩ :=
    norm_T1_perm_from Norm.init pre (by simp [NormOk, Norm.init]) (by simp [Norm.init]) (by simp [Norm.init]) hs1
  have hs3 := hs2 n1 outs1 hr1
  simp only [SafeRun, Bool.and_eq_true] at hs3
  cases hh : n1.handle Ev.finished with
  | none => simp [hh] at hs3
  | some r =>
    obtain ⟨n2, out⟩ := r
    obtain ⟨hp, hok2, hfin2, hA, hB, _⟩ := handle_step n1 n2 Ev.finished out hok1 hfin1 hs3.1 hh
    have hrun : normRun Norm.init (pre ++ [Ev.finished]) = some (n2, outs1 ++ [out]) := by
      rw [normRun_append, hr1]; simp [normRun, hh]
    have hb : buffered n2 = [] ∧ n2.fin = .emitted := by
      by_cases hem : n1.fin = .emitted
      · obtain ⟨rfl, _⟩ := hB hem
        exact ⟨hemp1 hem, hem⟩
      · exact hA rfl hem
    refine ⟨n2, outs1 ++ [out], hrun, ?_, hb.2⟩
    rw [hb.1, append_nil] at hp
    simp only [flatten_append, flatten_cons, flatten_nil, append_nil]
    have h1 : outs1.flatten ++ out ~ outs1.flatten ++ (buffered n1 ++ [Ev.finished]) := Perm.append_left _ hp
    have h2 : outs1.flatten ++ (buffered n1 ++ [Ev.finished]) ~ (outs1.flatten ++ buffered n1) ++ [Ev.finished] := by
      rw [append_assoc]
    have h3 : (outs1.flatten ++ buffered n1) ++ [Ev.finished] ~ (buffered Norm.init ++ pre) ++ [Ev.finished] :=
      hp1.append_right _
    exact h1.trans (h2.trans (h3.trans (by simp [buffered, Norm.init, bufFeats])))

/-! ## T4 — immediate forwarding -/

/-- run-Started, ParsingFinished and parser errors are forwarded by the very call that receives them,
    before anything else. -/
theorem norm_T4_run_level (n n' : Norm) (e : Ev) (out : List Ev) (hr : e.isRunLevel = true)
    (h : n.handle e = some (n', out)) : out.head? = some e := by
  unfold Norm.handle at h
  split at h
  · simp only [Option.some.injEq, Prod.mk.injEq] at h; obtain ⟨_, rfl⟩ := h; rfl
  · split at h
    · cases h
    · split at h <;> simp only [Option.some.injEq, Prod.mk.injEq] at h <;> obtain ⟨_, rfl⟩ := h <;> simp [hr]

/-- run-Finished is forwarded by the call that receives it — after everything that was still owed —
    and is the LAST event that call forwards. -/
theorem norm_finished_last (n n' : Norm) (out : List Ev) (hfin : n.fin = .no)
    (h : n.handle Ev.finished = some (n', out)) : out.getLast? = some Ev.finished ∧ n'.fin = .emitted := by
  simp only [Norm.handle, hfin, show (Fin.no == Fin.emitted) = false from rfl, Bool.false_eq_true, if_false,
    Norm.insert, beq_self_eq_true, if_true, Option.some.injEq, Prod.mk.injEq] at h
  obtain ⟨rfl, rfl⟩ := h
  simp

/-- After run-Finished has been forwarded every further event passes through unchanged, at once. -/
theorem norm_passthrough_after_finished (n : Norm) (e : Ev) (h : n.fin = .emitted) :
    n.handle e = some (n, [e]) := by simp [Norm.handle, h]

/-! ## T3 — each attempt's events keep their original relative order -/

theorem proj_queued (κ : AKey) (e : Ev) : proj κ (queued e) = proj κ [e] := by
  unfold queued
  split
  · rename_i h
    have : evKey? e = none := by
      cases e <;> simp_all [Ev.isRunLevel, evKey?]
    simp [proj_nonscen κ e this]
  · rfl

theorem proj_direct (κ : AKey) (e : Ev) : proj κ (if e.isRunLevel then [e] else []) = [] := by
  split
  · rename_i h
    have : evKey? e = none := by cases e <;> simp_all [Ev.isRunLevel, evKey?]
    exact proj_nonscen κ e this
  · rfl

/-- **Step (order)**: for every attempt key κ, what one `handle_event` forwards under κ followed by what is
    still owed under κ is exactly what was owed under κ before followed by the event received — as LISTS
    (order included), not just as multisets. Distinctness of the queue keys is an invariant. -/
theorem handle_proj (n n' : Norm) (e : Ev) (out : List Ev) (hd : NormD n) (hok : NormOk n) (hfin : n.fin ≠ .pending)
    (hemp : n.fin = .emitted → buffered n = [])
    (hs : safeStep n e = true) (h : n.handle e = some (n', out)) (κ : AKey) :
    proj κ (out ++ buffered n') = proj κ (buffered n ++ [e]) ∧ NormD n' := by
  unfold Norm.handle at h
  by_cases hem : n.fin = .emitted
  · simp only [hem, beq_self_eq_true, if_true, Option.some.injEq, Prod.mk.injEq] at h
    obtain ⟨rfl, rfl⟩ := h
    rw [hemp hem]
    exact ⟨by simp, hd⟩
  · have hem' : (n.fin == Fin.emitted) = false := by simpa using hem
    have hno : n.fin = .no := by cases hn : n.fin <;> simp_all
    simp only [hem', Bool.false_eq_true, if_false] at h
    simp only [safeStep, hem', Bool.false_or, Bool.and_eq_true] at hs
    cases hi : n.insert e with
    | none => simp [hi] at h
    | some n1 =>
      simp only [hi] at h
      obtain ⟨hp, hd1⟩ := insert_proj n n1 e hd hs.1 hi κ
      obtain ⟨_, hok1, _⟩ := insert_perm n n1 e hok hs.1 hi
      obtain ⟨heq, _⟩ := emitFeats_eq n1.feats hok1
      have hd2 := emitFeats_D n1.feats hd1
      have hcore : proj κ (emitFeats n1.feats).1 ++ proj κ (bufFeats (emitFeats n1.feats).2) =
          proj κ (bufFeats n.feats) ++ proj κ [e] := by
        rw [← proj_append, heq, hp, proj_queued]
      have hfinished : proj κ [Ev.finished] = [] := proj_nonscen κ _ rfl
      split at h
      · simp only [Option.some.injEq, Prod.mk.injEq] at h
        obtain ⟨rfl, rfl⟩ := h
        refine ⟨?_, hd2⟩
        simp only [buffered, hno, show (Fin.no == Fin.pending) = false from rfl,
          show (Fin.emitted == Fin.pending) = false from rfl, Bool.false_eq_true, if_false, append_nil,
          proj_append, proj_direct, hfinished, nil_append]
        exact hcore
      · rename_i hnp
        simp only [Option.some.injEq, Prod.mk.injEq] at h
        obtain ⟨rfl, rfl⟩ := h
        refine ⟨?_, hd2⟩
        have hnp' : (n1.fin == Fin.pending) = false := by simpa using hnp
        simp only [buffered, hno, show (Fin.no == Fin.pending) = false from rfl, hnp', Bool.false_eq_true, if_false,
          append_nil, proj_append, proj_direct, nil_append]
        exact hcore

/-- along a contract-abiding run, for every attempt key: forwarded ++ still owed = received, in order -/
theorem norm_T3_from (n : Norm) (evs : List Ev) (hd : NormD n) (hok : NormOk n) (hfin : n.fin ≠ .pending)
    (hemp : n.fin = .emitted → buffered n = [])
    (hs : SafeRun n evs = true) (κ : AKey) :
    ∃ n' outs, normRun n evs = some (n', outs) ∧ proj κ (outs.flatten ++ buffered n') = proj κ (buffered n ++ evs) := by
  induction evs generalizing n with
  | nil => exact ⟨n, [], rfl, by simp⟩
  | cons e es ih =>
    simp only [SafeRun, Bool.and_eq_true] at hs
    cases hh : n.handle e with
    | none => simp [hh] at hs
    | some r =>
      obtain ⟨n1, out⟩ := r
      simp only [hh] at hs
      obtain ⟨_, hok1, hfin1, hA, hB, hC⟩ := handle_step n n1 e out hok hfin hs.1 hh
      obtain ⟨hp, hd1⟩ := handle_proj n n1 e out hd hok hfin hemp hs.1 hh κ
      have hemp1 : n1.fin = .emitted → buffered n1 = [] := by
        intro h1
        by_cases hem : n.fin = .emitted
        · obtain ⟨rfl, _⟩ := hB hem; exact hemp hem
        · by_cases hf : e = .finished
          · exact (hA hf hem).1
          · exact absurd h1 (hC hem hf)
      obtain ⟨n', outs, hrun, hperm⟩ := ih n1 hd1 hok1 hfin1 hemp1 hs.2
      refine ⟨n', out :: outs, by simp [normRun, hh, hrun], ?_⟩
      simp only [flatten_cons, proj_append] at hperm hp ⊢
      rw [append_assoc, hperm, ← append_assoc, hp]
      rw [show e :: es = [e] ++ es from rfl, proj_append]
      simp [append_assoc]

/-- **T3 over a whole run.** For a contract-abiding stream `pre ++ [Finished]` and every attempt
    (scenario, retry counter): the events of that attempt are forwarded in exactly their original
    relative order — `projAtt κ output = projAtt κ input`. -/
theorem norm_T3_order (pre : List Ev) (hs : SafeRun Norm.init (pre ++ [Ev.finished]) = true) (κ : AKey) :
    ∃ n outs, normRun Norm.init (pre ++ [Ev.finished]) = some (n, outs) ∧
      proj κ outs.flatten = proj κ (pre ++ [Ev.finished]) := by
  obtain ⟨n, outs, hrun, _, hfin⟩ := norm_T1_complete pre hs
  obtain ⟨n', outs', hrun', hp⟩ := norm_T3_from Norm.init (pre ++ [Ev.finished]) (by simp [NormD, featsD, Norm.init])
    (by simp [NormOk, Norm.init]) (by simp [Norm.init]) (by simp [Norm.init]) hs κ
  rw [hrun] at hrun'
  simp only [Option.some.injEq, Prod.mk.injEq] at hrun'
  obtain ⟨rfl, rfl⟩ := hrun'
  refine ⟨n, outs, hrun, ?_⟩
  -- everything was flushed: nothing is owed at the end
  obtain ⟨hs1, hs2⟩ := safeRun_append Norm.init pre [Ev.finished] hs
  have hbuf : buffered n = [] := by
    obtain ⟨n1, outs1, hr1, _, hok1, hfin1, hemp1⟩ :=
      norm_T1_perm_from Norm.init pre (by simp [NormOk, Norm.init]) (by simp [Norm.init]) (by simp [Norm.init]) hs1
    have hs3 := hs2 n1 outs1 hr1
    simp only [SafeRun, Bool.and_eq_true] at hs3
    cases hh : n1.handle Ev.finished with
    | none => simp [hh] at hs3
    | some r =>
      obtain ⟨n2, out⟩ := r
      obtain ⟨_, _, _, hA, hB, _⟩ := handle_step n1 n2 Ev.finished out hok1 hfin1 hs3.1 hh
      have hrun2 : normRun Norm.init (pre ++ [Ev.finished]) = some (n2, outs1 ++ [out]) := by
        rw [normRun_append, hr1]; simp [normRun, hh]
      rw [hrun] at hrun2
      simp only [Option.some.injEq, Prod.mk.injEq] at hrun2
      obtain ⟨rfl, _⟩ := hrun2
      by_cases hem : n1.fin = .emitted
      · obtain ⟨rfl, _⟩ := hB hem; exact hemp1 hem
      · exact (hA rfl hem).1
  rw [hbuf, append_nil] at hp
  simpa [buffered, Norm.init, bufFeats] using hp

/-- the projection used here is the one the monitor `mon.c11` evaluates on real output -/
theorem proj_eq_monitor (κ : AKey) (l : List Ev) : proj κ l = Cuke.Mon.projAtt κ l := by
  unfold proj Cuke.Mon.projAtt
  congr 1
  funext e
  cases e <;> simp [evKey?]

/-! ## T2 — the forwarded stream is sequential -/

/-- the clause of the Runner contract that T2 needs on top of `SafeRun`: an attempt's first event is its
    `Started`, which is not repeated while the attempt is queued (stated, like `SafeRun`, relative to the
    normalizer's own bookkeeping; evaluated on every generated contract stream by `mon.c11`) -/
def StartsRun : Norm → List Ev → Bool
  | _, [] => true
  | n, e :: es =>
    startsRightN n e &&
    match n.handle e with
    | some (n', _) => StartsRun n' es
    | none => false

/-- **Step (sequential)**: while run-Finished has not been received, what one `handle_event` forwards is
    accepted by the strict sequential automaton from the state the queue shows before, and leads to the
    state the queue shows afterwards. -/
theorem handle_seq (n n' : Norm) (e : Ev) (out : List Ev) (hok : NormOk n) (hw : featsWF n.feats = true)
    (hno : n.fin = .no) (hne : e ≠ .finished) (hs : safeStep n e = true) (hc : startsRightN n e = true)
    (h : n.handle e = some (n', out)) :
    seqRun (featsSt n.feats) out = some (featsSt n'.feats) ∧ featsWF n'.feats = true ∧ NormOk n' ∧ n'.fin = .no := by
  unfold Norm.handle at h
  have hem' : (n.fin == Fin.emitted) = false := by rw [hno]; rfl
  simp only [hem', Bool.false_eq_true, if_false] at h
  simp only [safeStep, hem', Bool.false_or, Bool.and_eq_true] at hs
  cases hi : n.insert e with
  | none => simp [hi] at h
  | some n1 =>
    simp only [hi] at h
    obtain ⟨_, hok1, hfin1⟩ := insert_perm n n1 e hok hs.1 hi
    obtain ⟨hst1, hw1⟩ := insert_seq n n1 e hs.1 hc hw hi
    obtain ⟨_, hok2⟩ := emitFeats_eq n1.feats hok1
    obtain ⟨hrun, hw2⟩ := emitFeats_seq n1.feats hok1 hw1
    have hf' : (e == Ev.finished) = false := by simpa using hne
    simp only [hf', Bool.false_eq_true, if_false] at hfin1
    have hn1p : (n1.fin == Fin.pending) = false := by rw [hfin1, hno]; rfl
    simp only [hn1p, Bool.false_eq_true, if_false, Option.some.injEq, Prod.mk.injEq] at h
    obtain ⟨rfl, rfl⟩ := h
    refine ⟨?_, hw2, hok2, by simp [hfin1, hno]⟩
    rw [seqRun_append, ← hst1]
    have hdirect : seqRun (featsSt n1.feats) (if e.isRunLevel then [e] else []) = some (featsSt n1.feats) := by
      have hnf : (featsSt n1.feats).finished = false := by
        cases hfs : n1.feats with
        | nil => rfl
        | cons fq rest =>
          simp only [featsSt, featSt]
          split
          · rfl
          · cases hit : fq.2.items with
            | nil => rfl
            | cons it rest2 =>
              cases it with
              | att a => rfl
              | rule r q => simp only [itemsSt, ruleSt]; split <;> rfl
      split
      · rename_i hr
        rw [seqRun_cons]
        have : seqStep (featsSt n1.feats) e = some (featsSt n1.feats) := by
          cases e <;> simp_all [Ev.isRunLevel, seqStep]
        rw [this]; rfl
      · rfl
    rw [hdirect]
    exact hrun

/-- along a run that has not seen run-Finished: the automaton state after everything forwarded is the one
    the queue shows -/
theorem norm_T2_from (n : Norm) (evs : List Ev) (hok : NormOk n) (hw : featsWF n.feats = true) (hno : n.fin = .no)
    (hnf : ∀ e ∈ evs, e ≠ Ev.finished) (hs : SafeRun n evs = true) (hc : StartsRun n evs = true) :
    ∃ n' outs, normRun n evs = some (n', outs) ∧ seqRun (featsSt n.feats) outs.flatten = some (featsSt n'.feats) ∧
      featsWF n'.feats = true ∧ NormOk n' ∧ n'.fin = .no := by
  induction evs generalizing n with
  | nil => exact ⟨n, [], rfl, rfl, hw, hok, hno⟩
  | cons e es ih =>
    simp only [SafeRun, Bool.and_eq_true] at hs
    simp only [StartsRun, Bool.and_eq_true] at hc
    cases hh : n.handle e with
    | none => simp [hh] at hs
    | some r =>
      obtain ⟨n1, out⟩ := r
      simp only [hh] at hs hc
      obtain ⟨hrun1, hw1, hok1, hno1⟩ := handle_seq n n1 e out hok hw hno (hnf e (by simp)) hs.1 hc.1 hh
      obtain ⟨n', outs, hrun, hseq, hw', hok', hno'⟩ := ih n1 hok1 hw1 hno1 (fun x hx => hnf x (by simp [hx])) hs.2 hc.2
      refine ⟨n', out :: outs, by simp [normRun, hh, hrun], ?_, hw', hok', hno'⟩
      rw [flatten_cons, seqRun_append, hrun1]
      exact hseq

/-- **T2 over a whole run.** For a contract-abiding stream `pre ++ [Finished]` everything `Normalize`
    forwards, taken together, is accepted by the strict sequential automaton: one feature open at a time,
    one rule or top-level attempt inside it, one attempt inside a rule, each attempt contiguous from its
    `Started` to its `Finished`, brackets properly nested, run-Finished last. -/
theorem norm_T2_sequential (pre : List Ev) (hnf : ∀ e ∈ pre, e ≠ Ev.finished)
    (hs : SafeRun Norm.init (pre ++ [Ev.finished]) = true) (hc : StartsRun Norm.init (pre ++ [Ev.finished]) = true) :
    ∃ n outs, normRun Norm.init (pre ++ [Ev.finished]) = some (n, outs) ∧ Cuke.Mon.seqOk outs.flatten = true := by
  obtain ⟨hs1, hs2⟩ := safeRun_append Norm.init pre [Ev.finished] hs
  have hc1 : StartsRun Norm.init pre = true ∧
      ∀ n' outs, normRun Norm.init pre = some (n', outs) → StartsRun n' [Ev.finished] = true := by
    clear hs hs1 hs2 hnf
    generalize Norm.init = n0 at hc ⊢
    induction pre generalizing n0 with
    | nil => exact ⟨rfl, fun n' outs h => by simp only [normRun, Option.some.injEq, Prod.mk.injEq] at h; rw [← h.1]; exact hc⟩
    | cons e es ih =>
      simp only [cons_append, StartsRun, Bool.and_eq_true] at hc
      cases hh : n0.handle e with
      | none => simp [hh] at hc
      | some r =>
        obtain ⟨n1, out⟩ := r
        simp only [hh] at hc
        obtain ⟨i1, i2⟩ := ih n1 hc.2
        refine ⟨by simp [StartsRun, hc.1, hh, i1], ?_⟩
        intro n' outs hrun
        simp only [normRun, hh] at hrun
        cases hr : normRun n1 es with
        | none => simp [hr] at hrun
        | some r2 =>
          obtain ⟨n2, outs2⟩ := r2
          simp only [hr, Option.some.injEq, Prod.mk.injEq] at hrun
          rw [← hrun.1]
          exact i2 n2 outs2 hr
  obtain ⟨n1, outs1, hr1, hseq1, hw1, hok1, hno1⟩ :=
    norm_T2_from Norm.init pre (by simp [NormOk, Norm.init]) (by simp [featsWF, Norm.init]) (by simp [Norm.init]) hnf hs1 hc1.1
  have hs3 := hs2 n1 outs1 hr1
  simp only [SafeRun, Bool.and_eq_true] at hs3
  cases hh : n1.handle Ev.finished with
  | none => simp [hh] at hs3
  | some r =>
    obtain ⟨n2, out⟩ := r
    have hrun : normRun Norm.init (pre ++ [Ev.finished]) = some (n2, outs1 ++ [out]) := by
      rw [normRun_append, hr1]; simp [normRun, hh]
    refine ⟨n2, outs1 ++ [out], hrun, ?_⟩
    -- the last call: everything still queued is closed, so the queue empties and run-Finished follows
    have hh' := hh
    unfold Norm.handle at hh'
    have hem' : (n1.fin == Fin.emitted) = false := by rw [hno1]; rfl
    simp only [hem', Bool.false_eq_true, if_false, Norm.insert, beq_self_eq_true, if_true, Option.some.injEq,
      Prod.mk.injEq] at hh'
    obtain ⟨_, rfl⟩ := hh'
    have hsafe := hs3.1
    simp only [safeStep, hem', Bool.false_or, Bool.and_eq_true, beq_self_eq_true, Bool.not_true, Bool.false_or] at hsafe
    have hnil := emitFeats_all_closed n1.feats hok1 hsafe.2
    obtain ⟨hrunE, _⟩ := emitFeats_seq n1.feats hok1 hw1
    rw [hnil] at hrunE
    rw [seqOk_iff, flatten_append, seqRun_append]
    have h0 : featsSt Norm.init.feats = {} := rfl
    rw [h0] at hseq1
    rw [hseq1]
    simp only [flatten_cons, flatten_nil, append_nil, Option.bind_some, Ev.isRunLevel, Bool.false_eq_true, if_false,
      nil_append]
    rw [seqRun_append, hrunE]
    simp [featsSt, seqRun_cons, seqRun_nil, seqStep]

/-! ## T4b — events of the entity at the head of the output do not wait -/

theorem handle_drained (n n' : Norm) (e : Ev) (out : List Ev) (hd : headDrained n.feats = true)
    (h : n.handle e = some (n', out)) : headDrained n'.feats = true := by
  unfold Norm.handle at h
  split at h
  · simp only [Option.some.injEq, Prod.mk.injEq] at h; rw [← h.1]; exact hd
  · cases hi : n.insert e with
    | none => simp [hi] at h
    | some n1 =>
      simp only [hi] at h
      split at h <;> (simp only [Option.some.injEq, Prod.mk.injEq] at h; rw [← h.1]; exact emitFeats_drained _)

theorem normRun_drained (n n' : Norm) (evs : List Ev) (outs : List (List Ev)) (hd : headDrained n.feats = true)
    (h : normRun n evs = some (n', outs)) : headDrained n'.feats = true := by
  induction evs generalizing n outs with
  | nil => simp only [normRun, Option.some.injEq, Prod.mk.injEq] at h; rw [← h.1]; exact hd
  | cons e es ih =>
    simp only [normRun] at h
    cases hh : n.handle e with
    | none => simp [hh] at h
    | some r =>
      obtain ⟨n1, out⟩ := r
      simp only [hh] at h
      cases hr : normRun n1 es with
      | none => simp [hr] at h
      | some r2 =>
        obtain ⟨n2, outs2⟩ := r2
        simp only [hr, Option.some.injEq, Prod.mk.injEq] at h
        obtain ⟨rfl, _⟩ := h
        exact ih n1 outs2 (handle_drained n n1 e out hd hh) hr

/-- **T4b.** After any contract-abiding prefix (no run-Finished yet), if the output so far ends INSIDE an
    attempt (the sequential automaton, run over everything forwarded, shows that attempt open), then the next
    event of that attempt is forwarded by the very call that receives it, as the first thing — it does not
    wait for the attempt, the rule or the feature to finish. -/
theorem norm_T4b_head_forwarded (pre : List Ev) (hnf : ∀ e ∈ pre, e ≠ Ev.finished)
    (hs : SafeRun Norm.init pre = true) (hc : StartsRun Norm.init pre = true)
    (n : Norm) (outs : List (List Ev)) (hrun : normRun Norm.init pre = some (n, outs))
    (k : ScenKey) (ret : Option Retries) (ev : ScenEv)
    (hopen : seqRun {} outs.flatten = some (inAtt k.feat k.rule (some (k, ret))))
    (n' : Norm) (out : List Ev) (h : n.handle (.scen k ret ev) = some (n', out)) :
    out.head? = some (.scen k ret ev) := by
  obtain ⟨n0, outs0, hrun0, hseq, _, _, hno⟩ :=
    norm_T2_from Norm.init pre (by simp [NormOk, Norm.init]) (by simp [featsWF, Norm.init]) (by simp [Norm.init]) hnf hs hc
  rw [hrun] at hrun0
  simp only [Option.some.injEq, Prod.mk.injEq] at hrun0
  obtain ⟨rfl, rfl⟩ := hrun0
  have h0 : featsSt Norm.init.feats = {} := rfl
  rw [h0, hopen] at hseq
  have hst : featsSt n.feats = inAtt k.feat k.rule (some (k, ret)) := (Option.some.inj hseq).symm
  have hd := normRun_drained Norm.init n pre outs (by simp [headDrained, Norm.init]) hrun
  exact head_event_forwarded n n' k ret ev out hno hd hst h

/-! ## an already sequential stream passes through unchanged, event by event -/

/-- **Pass-through.** If the stream handed to `Normalize` is already sequential (accepted by the strict
    automaton `seqOk` — the very condition T2 establishes for the output), every call forwards exactly the
    event it received, at once: the per-call outputs are `[e₁], [e₂], …`. No further hypothesis. -/
theorem norm_passthrough_sequential (evs : List Ev) (h : seqOk evs = true) :
    ∃ n, normRun Norm.init evs = some (n, evs.map (fun e => [e])) := by
  rw [seqOk_iff, Option.isSome_iff_exists] at h
  obtain ⟨s, hs⟩ := h
  exact passthrough_from {} s evs rfl rfl hs

/-- hence `Normalize ∘ Normalize` forwards what `Normalize` forwards: the output of a contract-abiding run
    is a fixed point -/
theorem norm_idempotent (pre : List Ev) (hnf : ∀ e ∈ pre, e ≠ Ev.finished)
    (hs : SafeRun Norm.init (pre ++ [Ev.finished]) = true) (hc : StartsRun Norm.init (pre ++ [Ev.finished]) = true) :
    ∃ n outs n2, normRun Norm.init (pre ++ [Ev.finished]) = some (n, outs) ∧
      normRun Norm.init outs.flatten = some (n2, outs.flatten.map (fun e => [e])) := by
  obtain ⟨n, outs, hrun, hseq⟩ := norm_T2_sequential pre hnf hs hc
  obtain ⟨n2, h2⟩ := norm_passthrough_sequential outs.flatten hseq
  exact ⟨n, outs, n2, hrun, h2⟩

/-! ## The whole run -/

/-- run-Finished has not been seen: the queue is still open -/
theorem normRun_fin_no (n n' : Norm) (evs : List Ev) (outs : List (List Ev)) (hok : NormOk n) (hfin : n.fin = .no)
    (hnf : ∀ e ∈ evs, e ≠ Ev.finished) (hs : SafeRun n evs = true) (hr : normRun n evs = some (n', outs)) :
    n'.fin = .no := by
  induction evs generalizing n outs with
  | nil => simp only [normRun, Option.some.injEq, Prod.mk.injEq] at hr; obtain ⟨rfl, _⟩ := hr; exact hfin
  | cons e es ih =>
    simp only [SafeRun, Bool.and_eq_true] at hs
    simp only [normRun] at hr
    cases hh : n.handle e with
    | none => simp [hh] at hs
    | some r =>
      obtain ⟨n1, out⟩ := r
      simp only [hh] at hs hr
      obtain ⟨_, hok1, hfin1, _, _, hC⟩ := handle_step n n1 e out hok (by rw [hfin]; decide) hs.1 hh
      have hne : n1.fin ≠ .emitted := hC (by rw [hfin]; decide) (hnf e (by simp))
      have hno : n1.fin = .no := by cases hn : n1.fin <;> simp_all
      cases hr2 : normRun n1 es with
      | none => simp [hr2] at hr
      | some r2 =>
        obtain ⟨n2, outs2⟩ := r2
        simp only [hr2, Option.some.injEq, Prod.mk.injEq] at hr
        obtain ⟨rfl, _⟩ := hr
        exact ih n1 outs2 hok1 hno (fun e he => hnf e (by simp [he])) hs.2 hr2

/-- **T1 + T5 over a whole run.** A contract-abiding stream `pre ++ [Finished]` (no other run-Finished)
    comes out as `pre' ++ [Finished]` where `pre'` is a permutation of `pre`: the same multiset of events,
    and run-Finished is the very last event forwarded. -/
theorem norm_T1_finished_last (pre : List Ev) (hnf : ∀ e ∈ pre, e ≠ Ev.finished)
    (hs : SafeRun Norm.init (pre ++ [Ev.finished]) = true) :
    ∃ n outs pre', normRun Norm.init (pre ++ [Ev.finished]) = some (n, outs) ∧
      outs.flatten = pre' ++ [Ev.finished] ∧ pre' ~ pre := by
  obtain ⟨hs1, hs2⟩ := safeRun_append Norm.init pre [Ev.finished] hs
  obtain ⟨n1, outs1, hr1, hp1, hok1, hfin1, _⟩ :=
    norm_T1_perm_from Norm.init pre (by simp [NormOk, Norm.init]) (by simp [Norm.init]) (by simp [Norm.init]) hs1
  have hno : n1.fin = .no :=
    normRun_fin_no Norm.init n1 pre outs1 (by simp [NormOk, Norm.init]) (by simp [Norm.init]) hnf hs1 hr1
  have hs3 := hs2 n1 outs1 hr1
  simp only [SafeRun, Bool.and_eq_true] at hs3
  cases hh : n1.handle Ev.finished with
  | none => simp [hh] at hs3
  | some r =>
    obtain ⟨n2, out⟩ := r
    obtain ⟨hp, _, _, hA, _, _⟩ := handle_step n1 n2 Ev.finished out hok1 hfin1 hs3.1 hh
    have hrun : normRun Norm.init (pre ++ [Ev.finished]) = some (n2, outs1 ++ [out]) := by
      rw [normRun_append, hr1]; simp [normRun, hh]
    have hb := hA rfl (by rw [hno]; decide)
    rw [hb.1, append_nil] at hp
    have hlast := (norm_finished_last n1 n2 out hno hh).1
    obtain ⟨out', rfl⟩ : ∃ out', out = out' ++ [Ev.finished] := by
      have hne : out ≠ [] := by intro h0; rw [h0] at hlast; simp at hlast
      refine ⟨out.dropLast, ?_⟩
      have := dropLast_concat_getLast hne
      rw [getLast?_eq_some_getLast hne, Option.some.injEq] at hlast
      rw [hlast] at this
      exact this.symm
    refine ⟨n2, outs1 ++ [out' ++ [Ev.finished]], outs1.flatten ++ out', hrun, by simp, ?_⟩
    have h1 : out' ~ buffered n1 := (perm_append_right_iff [Ev.finished]).mp hp
    have h2 : outs1.flatten ++ out' ~ outs1.flatten ++ buffered n1 := Perm.append_left _ h1
    exact h2.trans (hp1.trans (by simp [buffered, Norm.init, bufFeats]))

/-! ## Non-vacuity: an interleaved contract-abiding stream -/
def ka : ScenKey := ⟨1, none, 10⟩
def kb : ScenKey := ⟨2, some 5, 20⟩
def exStream : List Ev :=
  [.started, .featStarted 1, .featStarted 2, .ruleStarted 2 5, .scen kb none .started, .scen ka none .started,
   .scen kb none .finished, .ruleFinished 2 5, .featFinished 2, .scen ka none .finished, .featFinished 1, .finished]

example : SafeRun Norm.init exStream = true := by decide +kernel
example : StartsRun Norm.init exStream = true := by decide +kernel
/-- T2 on the interleaved example -/
example : (normRun Norm.init exStream).map (fun r => seqOk r.2.flatten) = some true ∧ seqOk exStream = false := by
  decide +kernel
example : (normRun Norm.init exStream).map (fun r => r.2.flatten) =
    some [.started, .featStarted 1, .scen ka none .started, .scen ka none .finished, .featFinished 1,
          .featStarted 2, .ruleStarted 2 5, .scen kb none .started, .scen kb none .finished, .ruleFinished 2 5,
          .featFinished 2, .finished] := by decide +kernel

/-- T3 on the interleaved example: attempt `ka`'s events come out in their original order although
    `kb`'s were received in between -/
example : (normRun Norm.init exStream).map (fun r => proj (ka, none) r.2.flatten) =
    some (proj (ka, none) exStream) ∧ (proj (ka, none) exStream).length = 2 := by decide +kernel

/-! ## The contract, stated without reference to the normalizer

`Cuke.Contract` (Cuke/Model/Contract.lean) is a status ledger over the STREAM alone. It implies `SafeRun`
and `StartsRun` — so every theorem above holds for every stream the ledger accepts — and that no
`panic!` / `unreachable!` branch of `Normalize` is reached (T0 proper). Invariant and lemmas:
Cuke/Lemmas/NormalizeContract.lean. -/

/-- the two regimes of the simulation: before run-Finished the queue mirrors the ledger; after it the queue
    is empty and everything passes through -/
def Mirrors (c : CSt) (n : Norm) : Prop :=
  (c.fin = false ∧ n.fin = .no ∧ Inv c n.feats) ∨ (c.fin = true ∧ n.fin = .emitted ∧ n.feats = [])

theorem contract_step (c c' : CSt) (n : Norm) (e : Ev) (hwf : CWf c) (hok : NormOk n) (hd : NormD n)
    (hm : Mirrors c n) (hstep : c.step e = some c') :
    safeStep n e = true ∧ startsRightN n e = true ∧
    ∃ n' out, n.handle e = some (n', out) ∧ CWf c' ∧ NormOk n' ∧ NormD n' ∧ Mirrors c' n' := by
  have hwf' := cwf_step c c' e hwf hstep
  rcases hm with ⟨hcf, hno, hinv⟩ | ⟨hcf, hem, hnil⟩
  · obtain ⟨hsafe, hstart, hclosed⟩ := contract_safe c c' n e hwf hinv hd hcf hstep
    have hss : safeStep n e = true := by
      simp only [safeStep, hno, hsafe, Bool.true_and, Bool.or_eq_true, Bool.not_eq_true']
      right
      by_cases hf : e = .finished
      · right; exact hclosed hf
      · left; simpa using hf
    refine ⟨hss, hstart, ?_⟩
    obtain ⟨n1, hi⟩ := insert_some n e hsafe
    obtain ⟨_, hok1, hfin1⟩ := insert_perm n n1 e hok hsafe hi
    have hd1 : NormD n1 := (insert_proj n n1 e hd hsafe hi (⟨0, none, 0⟩, none)).2
    have hinv1 := inv_insert c c' n n1 e hwf hinv hd hcf hstep hi
    obtain ⟨_, hok2⟩ := emitFeats_eq n1.feats hok1
    have hd2 := emitFeats_D n1.feats hd1
    have hinv2 := inv_emit c' n1.feats hwf' hok1 hinv1
    have hem' : (n.fin == Fin.emitted) = false := by rw [hno]; rfl
    by_cases hf : e = .finished
    · subst hf
      simp only [beq_self_eq_true, if_true] at hfin1
      have hn1 : n1.feats = n.feats := by
        simp only [Norm.insert, Option.some.injEq] at hi; subst hi; rfl
      have hnil := emitFeats_all_closed n1.feats hok1 (by rw [hn1]; exact hclosed rfl)
      refine ⟨{ feats := (emitFeats n1.feats).2, fin := .emitted },
        (if Ev.finished.isRunLevel then [Ev.finished] else []) ++ (emitFeats n1.feats).1 ++ [.finished], ?_, hwf', hok2, hd2, ?_⟩
      · simp only [Norm.handle, hem', Bool.false_eq_true, if_false, hi, hfin1, beq_self_eq_true, if_true]
      · exact Or.inr ⟨(cstep_fin c c' _ hcf hstep).mpr rfl, rfl, hnil⟩
    · have hf' : (e == Ev.finished) = false := by simpa using hf
      simp only [hf', Bool.false_eq_true, if_false] at hfin1
      have hn1p : (n1.fin == Fin.pending) = false := by rw [hfin1, hno]; rfl
      refine ⟨{ n1 with feats := (emitFeats n1.feats).2 },
        (if e.isRunLevel then [e] else []) ++ (emitFeats n1.feats).1, ?_, hwf', hok2, hd2, ?_⟩
      · simp only [Norm.handle, hem', Bool.false_eq_true, if_false, hi, hn1p]
      · refine Or.inl ⟨?_, by simp [hfin1, hno], hinv2⟩
        cases hc : c'.fin with
        | false => rfl
        | true => exact absurd ((cstep_fin c c' _ hcf hstep).mp hc) hf
  · have hc' : c' = c := by
      simp only [CSt.step, hcf, if_true, Option.some.injEq] at hstep
      exact hstep.symm
    subst hc'
    have hem' : (n.fin == Fin.emitted) = true := by rw [hem]; rfl
    refine ⟨by simp [safeStep, hem'], ?_, n, [e], by simp [Norm.handle, hem'], hwf, hok, hd, Or.inr ⟨hcf, hem, hnil⟩⟩
    cases e with
    | scen k ret ev => simp [startsRightN, featIn, hnil]
    | _ => simp [startsRightN]

theorem contract_safeRun_from (c : CSt) (n : Norm) (evs : List Ev) (hwf : CWf c) (hok : NormOk n) (hd : NormD n)
    (hm : Mirrors c n) (h : contractFrom c evs = true) :
    SafeRun n evs = true ∧ StartsRun n evs = true := by
  induction evs generalizing c n with
  | nil => simp [SafeRun, StartsRun]
  | cons e es ih =>
    simp only [contractFrom] at h
    cases hstep : c.step e with
    | none => simp [hstep] at h
    | some c' =>
      simp only [hstep] at h
      obtain ⟨hss, hstart, n', out, hh, hwf', hok', hd', hm'⟩ := contract_step c c' n e hwf hok hd hm hstep
      obtain ⟨ih1, ih2⟩ := ih c' n' hwf' hok' hd' hm' h
      simp [SafeRun, StartsRun, hss, hstart, hh, ih1, ih2]

/-- **Contract ⇒ hypotheses of the C11 theorems.** Every stream accepted by the status ledger satisfies
    `SafeRun` and `StartsRun`. -/
theorem contract_implies_safeRun (evs : List Ev) (h : Contract evs = true) :
    SafeRun Norm.init evs = true ∧ StartsRun Norm.init evs = true :=
  contract_safeRun_from {} Norm.init evs cwf_init (by simp [NormOk, Norm.init]) (by simp [NormD, featsD, Norm.init])
    (Or.inl ⟨rfl, rfl, inv_init⟩) h

theorem safeRun_runs (n : Norm) (evs : List Ev) (h : SafeRun n evs = true) : ∃ n' outs, normRun n evs = some (n', outs) := by
  induction evs generalizing n with
  | nil => exact ⟨n, [], rfl⟩
  | cons e es ih =>
    simp only [SafeRun, Bool.and_eq_true] at h
    cases hh : n.handle e with
    | none => simp [hh] at h
    | some r =>
      obtain ⟨n1, out⟩ := r
      simp only [hh] at h
      obtain ⟨n2, outs, hr⟩ := ih n1 h.2
      exact ⟨n2, out :: outs, by simp [normRun, hh, hr]⟩

/-- **T0.** On a contract-abiding stream — of any length, any interleaving of concurrently running scenarios,
    anything at all after run-Finished — `Normalize` never reaches one of its `panic!("no Feature")`,
    `panic!("no Rule")` / `unreachable!()` branches. -/
theorem norm_T0_no_panic (evs : List Ev) (h : Contract evs = true) :
    ∃ n outs, normRun Norm.init evs = some (n, outs) :=
  safeRun_runs Norm.init evs (contract_implies_safeRun evs h).1

/-- **C11, whole run, from the contract alone.** For every contract-abiding stream `pre ++ [Finished]`:
    no panic; the output is `pre' ++ [Finished]` with `pre'` a permutation of `pre` (nothing lost, nothing
    duplicated, run-Finished last); the output is sequential (accepted by the strict automaton); and every
    attempt's events come out in their original relative order. -/
theorem norm_contract_whole_run (pre : List Ev) (hnf : ∀ e ∈ pre, e ≠ Ev.finished)
    (h : Contract (pre ++ [Ev.finished]) = true) :
    ∃ n outs pre', normRun Norm.init (pre ++ [Ev.finished]) = some (n, outs) ∧
      outs.flatten = pre' ++ [Ev.finished] ∧ pre' ~ pre ∧
      Cuke.Mon.seqOk outs.flatten = true ∧
      ∀ κ : AKey, proj κ outs.flatten = proj κ (pre ++ [Ev.finished]) := by
  obtain ⟨hs, hc⟩ := contract_implies_safeRun _ h
  obtain ⟨n, outs, pre', hrun, hflat, hperm⟩ := norm_T1_finished_last pre hnf hs
  refine ⟨n, outs, pre', hrun, hflat, hperm, ?_, ?_⟩
  · obtain ⟨n2, outs2, hrun2, hseq⟩ := norm_T2_sequential pre hnf hs hc
    rw [hrun] at hrun2
    simp only [Option.some.injEq, Prod.mk.injEq] at hrun2
    rw [hrun2.2]; exact hseq
  · intro κ
    obtain ⟨n3, outs3, hrun3, hp⟩ := norm_T3_order pre hs κ
    rw [hrun] at hrun3
    simp only [Option.some.injEq, Prod.mk.injEq] at hrun3
    rw [hrun3.2]; exact hp

/-- non-vacuity: the interleaved example stream is contract-abiding, and so is one with a retried attempt
    and events after run-Finished -/
example : Contract exStream = true := by decide +kernel
example : Contract [.started, .featStarted 1, .scen ka (some ⟨0, 1⟩) .started, .featStarted 2, .ruleStarted 2 5,
    .scen ka (some ⟨0, 1⟩) (.step 0 (.failed .notFound)), .scen kb none .started, .scen ka (some ⟨0, 1⟩) .finished,
    .scen ka (some ⟨1, 0⟩) .started, .scen kb none .finished, .scen ka (some ⟨1, 0⟩) .finished, .ruleFinished 2 5,
    .featFinished 1, .featFinished 2, .finished, .scen ka none .started] = true := by decide +kernel
/-- … and the ledger rejects what the contract forbids -/
example : Contract [.featStarted 1, .scen ka none .started, .featFinished 1] = false ∧   -- closing over an open attempt
    Contract [.featStarted 1, .featFinished 1, .featStarted 1] = false ∧                    -- re-opening
    Contract [.featStarted 1, .scen ka none (.step 0 .started)] = false ∧                   -- attempt without Started
    Contract [.scen ka none .started] = false ∧                                             -- outside any feature
    Contract [.featStarted 1, .finished] = false := by decide +kernel                       -- run-Finished over an open feature

end Cuke.C11
