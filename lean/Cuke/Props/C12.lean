import Cuke.Model.Writers
import Cuke.Props.C13
import Cuke.Props.C02
import Cuke.Lemmas.SummarizeGuard
/-!
# C12 — Summary counters equal what the event stream contains
Model: `Cuke.Summ` (Cuke/Model/Summarize.lean) inside `Cuke.handle (.summ w)`.
-/
namespace Cuke.C12
open Cuke List Cuke.C02

/-- one `handle_event` of `Summarize` on its own state (counting, then the output transition) -/
def step (cat : Catalog) (s : Summ) (e : Ev) : Summ := ((s.pre cat e).post).1

/-- the Summarize state reached after a stream -/
def summAfter (cat : Catalog) (evs : List Ev) : Summ := evs.foldl (step cat) {}

/-- The `Summarize` node of a pipeline evolves by `step`, whatever it wraps. -/
theorem summ_state (cat) (w : W) (evs : List Ev) :
    (runW cat (.summ w) evs).1.1 = summAfter cat evs := by
  suffices ∀ (sm : Summ) (s : St w) acc,
      (C13.runFrom cat (.summ w) (sm, s) acc evs).1.1 = evs.foldl (step cat) sm from this _ _ []
  induction evs with
  | nil => intros; rfl
  | cons e es ih =>
    intro sm s acc
    rw [C13.runFrom_cons]
    have hh : (handle cat (.summ w) (sm, s) e).1.1 = step cat sm e := by
      simp only [handle, step]; split <;> rfl
    generalize handle cat (.summ w) (sm, s) e = r at hh ⊢
    obtain ⟨⟨sm', s'⟩, o⟩ := r
    simp only at hh
    subst hh
    exact ih _ _ _

/-! ## classification of events used in the statements -/

/-- a Failed step event that the summary counts as *failed*: no retry left, or not-found -/
def isFinalStepFailure : Ev → Bool
  | .scen _ ret (.bg _ (.failed err)) => !isRetriedFailure ret err
  | .scen _ ret (.step _ (.failed err)) => !isRetriedFailure ret err
  | _ => false

/-- a Failed step event counted as *retried*: `left > 0` and not not-found -/
def isRetriedStepFailure : Ev → Bool
  | .scen _ ret (.bg _ (.failed err)) => isRetriedFailure ret err
  | .scen _ ret (.step _ (.failed err)) => isRetriedFailure ret err
  | _ => false

def isFeatStarted : Ev → Bool
  | .featStarted _ => true
  | _ => false

def isRuleStarted : Ev → Bool
  | .ruleStarted _ _ => true
  | _ => false

/-- every Failed step event is exactly one of the two classes -/
theorem failure_classes (e : Ev) :
    e.isStepFailed = (isFinalStepFailure e || isRetriedStepFailure e) ∧
    ¬(isFinalStepFailure e = true ∧ isRetriedStepFailure e = true) := by
  cases e with
  | scen k ret se =>
    cases se with
    | bg i r =>
      cases r with
      | failed err =>
        cases h : isRetriedFailure ret err <;>
          simp [isFinalStepFailure, isRetriedStepFailure, h, Ev.isStepFailed, Ev.scenEv?, ScenEv.isStepFailed, ScenEv.stepRes?, StepRes.isFailed]
      | _ => simp [isFinalStepFailure, isRetriedStepFailure, Ev.isStepFailed, Ev.scenEv?, ScenEv.isStepFailed, ScenEv.stepRes?, StepRes.isFailed]
    | step i r =>
      cases r with
      | failed err =>
        cases h : isRetriedFailure ret err <;>
          simp [isFinalStepFailure, isRetriedStepFailure, h, Ev.isStepFailed, Ev.scenEv?, ScenEv.isStepFailed, ScenEv.stepRes?, StepRes.isFailed]
      | _ => simp [isFinalStepFailure, isRetriedStepFailure, Ev.isStepFailed, Ev.scenEv?, ScenEv.isStepFailed, ScenEv.stepRes?, StepRes.isFailed]
    | _ => simp [isFinalStepFailure, isRetriedStepFailure, Ev.isStepFailed, Ev.scenEv?, ScenEv.isStepFailed, ScenEv.stepRes?]
  | _ => simp [isFinalStepFailure, isRetriedStepFailure, Ev.isStepFailed, Ev.scenEv?]

/-! ## the eight stream-determined counters -/

structure CVec where
  stepsPassed : Nat
  stepsSkipped : Nat
  stepsFailed : Nat
  stepsRetried : Nat
  parsingErrors : Nat
  failedHooks : Nat
  features : Nat
  rules : Nat
  deriving DecidableEq, Repr

def vec (s : Summ) : CVec :=
  ⟨s.steps.passed, s.steps.skipped, s.steps.failed, s.steps.retried, s.parsingErrors, s.failedHooks, s.features, s.rules⟩

def b2n (b : Bool) : Nat := if b then 1 else 0

def evVec (e : Ev) : CVec :=
  ⟨b2n e.isStepPassed, b2n e.isStepSkipped, b2n (isFinalStepFailure e), b2n (isRetriedStepFailure e),
   b2n e.isParseErr, b2n e.isHookFailed, b2n (isFeatStarted e), b2n (isRuleStarted e)⟩

def CVec.add (a b : CVec) : CVec :=
  ⟨a.1 + b.1, a.2 + b.2, a.3 + b.3, a.4 + b.4, a.5 + b.5, a.6 + b.6, a.7 + b.7, a.8 + b.8⟩

def countVec (evs : List Ev) : CVec :=
  ⟨evs.countP Ev.isStepPassed, evs.countP Ev.isStepSkipped, evs.countP isFinalStepFailure,
   evs.countP isRetriedStepFailure, evs.countP Ev.isParseErr, evs.countP Ev.isHookFailed,
   evs.countP isFeatStarted, evs.countP isRuleStarted⟩

theorem handleStep_vec (s : Summ) (k : ScenKey) (isLast : Bool) (r : StepRes) (ret) :
    vec (s.handleStep k isLast r ret) =
      (vec s).add ⟨b2n r.isPassed, b2n r.isSkipped,
        (match r with | .failed err => b2n (!isRetriedFailure ret err) | _ => 0),
        (match r with | .failed err => b2n (isRetriedFailure ret err) | _ => 0), 0, 0, 0, 0⟩ := by
  cases r with
  | started => simp [Summ.handleStep, vec, CVec.add, b2n, StepRes.isPassed, StepRes.isSkipped]
  | passed =>
    simp only [Summ.handleStep]
    split <;> simp [vec, CVec.add, b2n, StepRes.isPassed, StepRes.isSkipped]
  | skipped => simp [Summ.handleStep, vec, CVec.add, b2n, StepRes.isPassed, StepRes.isSkipped]
  | failed err =>
    simp only [Summ.handleStep]
    cases h : isRetriedFailure ret err
    · simp [vec, CVec.add, b2n, StepRes.isPassed, StepRes.isSkipped]
    · simp only [if_true]
      split <;> simp [vec, CVec.add, b2n, StepRes.isPassed, StepRes.isSkipped]

theorem handleHookFailed_vec (s : Summ) (k : ScenKey) :
    vec (s.handleHookFailed k) = (vec s).add ⟨0, 0, 0, 0, 0, 1, 0, 0⟩ := by
  simp only [Summ.handleHookFailed]
  split <;> simp [vec, CVec.add]

theorem handleScenFinished_vec (s : Summ) (k : ScenKey) : vec (s.handleScenFinished k) = vec s := by
  simp only [Summ.handleScenFinished]
  split <;> simp [vec]

theorem add_zero_vec (v : CVec) : v.add ⟨0, 0, 0, 0, 0, 0, 0, 0⟩ = v := by
  cases v; simp [CVec.add]

/-- One counted event adds exactly its own contribution to the eight counters. -/
theorem count_vec (cat) (s : Summ) (e : Ev) : vec (s.count cat e) = (vec s).add (evVec e) := by
  cases e with
  | scen k ret se =>
    simp only [Summ.count, Summ.handleScenario]
    cases se with
    | started =>
      have : evVec (.scen k ret .started) = ⟨0, 0, 0, 0, 0, 0, 0, 0⟩ := rfl
      rw [this, add_zero_vec]
    | log m =>
      have : evVec (.scen k ret (.log m)) = ⟨0, 0, 0, 0, 0, 0, 0, 0⟩ := by
        simp [evVec, b2n, Ev.isStepPassed, Ev.isStepSkipped, Ev.scenEv?, ScenEv.isStepPassed, ScenEv.isStepSkipped, ScenEv.stepRes?, isFinalStepFailure, isRetriedStepFailure, Ev.isParseErr, Ev.isHookFailed, ScenEv.isHookFailed, isFeatStarted, isRuleStarted]
      rw [this, add_zero_vec]
    | finished =>
      have : evVec (.scen k ret .finished) = ⟨0, 0, 0, 0, 0, 0, 0, 0⟩ := rfl
      rw [this, add_zero_vec, handleScenFinished_vec]
    | hook t r =>
      cases hr : r.isFailed
      · have : evVec (.scen k ret (.hook t r)) = ⟨0, 0, 0, 0, 0, 0, 0, 0⟩ := by
          simp [evVec, b2n, Ev.isStepPassed, Ev.isStepSkipped, Ev.scenEv?, ScenEv.isStepPassed, ScenEv.isStepSkipped, ScenEv.stepRes?, isFinalStepFailure, isRetriedStepFailure, Ev.isParseErr, Ev.isHookFailed, ScenEv.isHookFailed, isFeatStarted, isRuleStarted, hr]
        rw [this, add_zero_vec]; simp [hr]
      · have : evVec (.scen k ret (.hook t r)) = ⟨0, 0, 0, 0, 0, 1, 0, 0⟩ := by
          simp [evVec, b2n, Ev.isStepPassed, Ev.isStepSkipped, Ev.scenEv?, ScenEv.isStepPassed, ScenEv.isStepSkipped, ScenEv.stepRes?, isFinalStepFailure, isRetriedStepFailure, Ev.isParseErr, Ev.isHookFailed, ScenEv.isHookFailed, isFeatStarted, isRuleStarted, hr]
        rw [this]; simp only [hr, if_true]; rw [handleHookFailed_vec]
    | bg i r =>
      rw [handleStep_vec]
      congr 1
      cases r with
      | failed err =>
        cases h : isRetriedFailure ret err <;>
          simp [evVec, b2n, Ev.isStepPassed, Ev.isStepSkipped, Ev.scenEv?, ScenEv.isStepPassed, ScenEv.isStepSkipped, ScenEv.stepRes?, isFinalStepFailure, isRetriedStepFailure, Ev.isParseErr, Ev.isHookFailed, ScenEv.isHookFailed, isFeatStarted, isRuleStarted, StepRes.isPassed, StepRes.isSkipped, h]
      | _ => simp [evVec, b2n, Ev.isStepPassed, Ev.isStepSkipped, Ev.scenEv?, ScenEv.isStepPassed, ScenEv.isStepSkipped, ScenEv.stepRes?, isFinalStepFailure, isRetriedStepFailure, Ev.isParseErr, Ev.isHookFailed, ScenEv.isHookFailed, isFeatStarted, isRuleStarted, StepRes.isPassed, StepRes.isSkipped]
    | step i r =>
      rw [handleStep_vec]
      congr 1
      cases r with
      | failed err =>
        cases h : isRetriedFailure ret err <;>
          simp [evVec, b2n, Ev.isStepPassed, Ev.isStepSkipped, Ev.scenEv?, ScenEv.isStepPassed, ScenEv.isStepSkipped, ScenEv.stepRes?, isFinalStepFailure, isRetriedStepFailure, Ev.isParseErr, Ev.isHookFailed, ScenEv.isHookFailed, isFeatStarted, isRuleStarted, StepRes.isPassed, StepRes.isSkipped, h]
      | _ => simp [evVec, b2n, Ev.isStepPassed, Ev.isStepSkipped, Ev.scenEv?, ScenEv.isStepPassed, ScenEv.isStepSkipped, ScenEv.stepRes?, isFinalStepFailure, isRetriedStepFailure, Ev.isParseErr, Ev.isHookFailed, ScenEv.isHookFailed, isFeatStarted, isRuleStarted, StepRes.isPassed, StepRes.isSkipped]
  | _ => simp [Summ.count, vec, CVec.add, evVec, b2n, Ev.isStepPassed, Ev.isStepSkipped, Ev.scenEv?, isFinalStepFailure, isRetriedStepFailure, Ev.isParseErr, Ev.isHookFailed, isFeatStarted, isRuleStarted]

theorem countVec_cons (e : Ev) (es : List Ev) : countVec (e :: es) = (evVec e).add (countVec es) := by
  simp only [countVec, evVec, CVec.add, countP_cons, b2n]
  congr 1 <;> omega

theorem CVec.add_assoc (a b c : CVec) : (a.add b).add c = a.add (b.add c) := by
  simp [CVec.add, Nat.add_assoc]

theorem handleStep_state (s : Summ) (k) (l) (r) (ret) : (s.handleStep k l r ret).state = s.state := by
  cases r with
  | started => rfl
  | passed => simp only [Summ.handleStep]; split <;> rfl
  | skipped => rfl
  | failed err =>
    simp only [Summ.handleStep]
    split
    · split <;> rfl
    · rfl

theorem handleHookFailed_state (s : Summ) (k) : (s.handleHookFailed k).state = s.state := by
  simp only [Summ.handleHookFailed]; split <;> rfl

theorem handleScenFinished_state (s : Summ) (k) : (s.handleScenFinished k).state = s.state := by
  simp only [Summ.handleScenFinished]; split <;> rfl

theorem count_state (cat) (s : Summ) (e : Ev) (h : e.isFinished = false) : (s.count cat e).state = s.state := by
  cases e with
  | finished => simp [Ev.isFinished] at h
  | scen k ret se =>
    simp only [Summ.count, Summ.handleScenario]
    cases se with
    | hook t r =>
      show (if r.isFailed = true then s.handleHookFailed k else s).state = s.state
      cases r.isFailed <;> simp [handleHookFailed_state]
    | bg i r => exact handleStep_state ..
    | step i r => exact handleStep_state ..
    | finished => exact handleScenFinished_state ..
    | _ => rfl
  | _ => rfl

/-- While in progress and before run-Finished: counters advance by the events' contributions. -/
theorem in_progress_fold (cat) (s : Summ) (evs : List Ev) (hs : s.state = .inProgress)
    (h : ∀ e ∈ evs, e.isFinished = false) :
    (evs.foldl (step cat) s).state = .inProgress ∧
    vec (evs.foldl (step cat) s) = (vec s).add (countVec evs) := by
  induction evs generalizing s with
  | nil => simp [hs, countVec, CVec.add, vec]
  | cons e es ih =>
    have he := h e (by simp)
    have hst : step cat s e = s.count cat e := by
      have h1 : (s.count cat e).state = .inProgress := by rw [count_state cat s e he, hs]
      simp [step, Summ.pre, Summ.isInProgress, hs, Summ.post, Summ.needsOutput, h1]
    have h1 : (step cat s e).state = .inProgress := by rw [hst, count_state cat s e he, hs]
    obtain ⟨i1, i2⟩ := ih (step cat s e) h1 (fun x hx => h x (by simp [hx]))
    refine ⟨by simpa using i1, ?_⟩
    simp only [foldl_cons]
    rw [i2, hst, count_vec, countVec_cons, CVec.add_assoc]

/-- run-Finished while in progress: counters unchanged, state becomes "finished and output". -/
theorem finished_step (cat) (s : Summ) (hs : s.state = .inProgress) :
    (step cat s .finished).state = .finishedOutput ∧ vec (step cat s .finished) = vec s ∧
    (step cat s .finished).scenarios = s.scenarios := by
  simp [step, Summ.pre, Summ.isInProgress, hs, Summ.count, Summ.post, Summ.needsOutput, vec]

/-- **Frozen after run-Finished**: once finished, no event changes any counter (events replayed by an
    outer `Repeat` change nothing). -/
theorem frozen_after_finished (cat) (s : Summ) (hs : s.state = .finishedOutput) (evs : List Ev) :
    evs.foldl (step cat) s = s := by
  induction evs with
  | nil => rfl
  | cons e es ih =>
    have : step cat s e = s := by
      simp [step, Summ.pre, Summ.isInProgress, hs, Summ.post, Summ.needsOutput]
    simp [this, ih]

/-- **Counters = stream.** For ANY stream `pre ++ finished :: post` whose first run-Finished is the
    one shown: the eight counters are the numbers of the corresponding events of `pre`. -/
theorem counters_eq_stream (cat) (pre post : List Ev) (h : ∀ e ∈ pre, e.isFinished = false) :
    vec (summAfter cat (pre ++ Ev.finished :: post)) = countVec pre := by
  unfold summAfter
  rw [foldl_append, foldl_cons]
  obtain ⟨h1, h2⟩ := in_progress_fold cat {} pre rfl h
  obtain ⟨f1, f2, _⟩ := finished_step cat _ h1
  rw [frozen_after_finished cat _ f1, f2, h2]
  simp [vec, CVec.add]

/-- The same while the run is still in progress (no run-Finished yet). -/
theorem counters_eq_stream_in_progress (cat) (pre : List Ev) (h : ∀ e ∈ pre, e.isFinished = false) :
    vec (summAfter cat pre) = countVec pre := by
  obtain ⟨_, h2⟩ := in_progress_fold cat {} pre rfl h
  unfold summAfter; rw [h2]; simp [vec, CVec.add]

/-- The `Stats` getters a user reads are these counters (background steps included). -/
theorem stats_getters (cat) (w : W) (pre post : List Ev) (h : ∀ e ∈ pre, e.isFinished = false) :
    let st := statsOf (.summ w) (runW cat (.summ w) (pre ++ Ev.finished :: post)).1
    st.passed = pre.countP Ev.isStepPassed ∧ st.skipped = pre.countP Ev.isStepSkipped ∧
    st.failed = pre.countP isFinalStepFailure ∧ st.retried = pre.countP isRetriedStepFailure ∧
    st.parsingErrors = pre.countP Ev.isParseErr ∧ st.hookErrors = pre.countP Ev.isHookFailed := by
  have hv := counters_eq_stream cat pre post h
  have hs := summ_state cat w (pre ++ Ev.finished :: post)
  simp only [statsOf]
  rw [hs]
  simp only [vec, countVec, CVec.mk.injEq] at hv
  obtain ⟨a, b, c, d, e, f, _, _⟩ := hv
  exact ⟨a, b, c, d, e, f⟩

/-! ## the summary is written exactly once, right after the inner writer got run-Finished -/

def isSummaryWrite : Out → Bool
  | .write _ (.summary ..) => true
  | _ => false

/-- Per event: the summary is written iff this event is the first run-Finished, and then it comes
    after everything the inner writer emitted for that event. -/
theorem summary_write_point (cat) (w : W) (sm : Summ) (s : St w) (e : Ev) :
    (handle cat (.summ w) (sm, s) e).2 =
      (handle cat w s e).2 ++
        (if sm.state = .inProgress ∧ e.isFinished = true then writeW w (step cat sm e).summaryVal else
         if sm.state = .finishedNotOutput then writeW w (step cat sm e).summaryVal else []) := by
  simp only [handle, step]
  cases hs : sm.state <;> cases e <;>
    simp [Summ.pre, Summ.isInProgress, hs, Summ.post, Summ.needsOutput, Summ.count, Ev.isFinished]
  all_goals
    first
    | rfl
    | (rename_i k ret se
       have := count_state cat sm (.scen k ret se) rfl
       simp [Summ.count, hs] at this
       simp [this])

/-! ## Scenario classification: proved counter-examples to the full statement (known findings) -/

def kx : ScenKey := ⟨0, none, 1⟩
def catx (n : Nat) : Catalog := { featTags := fun _ => [], ruleTags := fun _ _ => [], scenTags := fun _ => [], nsteps := fun _ => n }
def r01 : Option Retries := some ⟨0, 1⟩
def r10 : Option Retries := some ⟨1, 0⟩

/-- F-C12a: after-hook fails in attempt 0 (which is retried), attempt 1 passes everything. -/
def streamA : List Ev :=
  [.started, .featStarted 0,
   .scen kx r01 .started, .scen kx r01 (.step 0 .started), .scen kx r01 (.step 0 .passed),
   .scen kx r01 (.hook .after .started), .scen kx r01 (.hook .after (.failed 0)), .scen kx r01 .finished,
   .scen kx r10 .started, .scen kx r10 (.step 0 .started), .scen kx r10 (.step 0 .passed),
   .scen kx r10 (.hook .after .started), .scen kx r10 (.hook .after .passed), .scen kx r10 .finished,
   .featFinished 0, .finished]

/-- one scenario, last attempt passed — yet it is counted as failed AND as passed -/
theorem C12_class_full_false_a :
    (summAfter (catx 1) streamA).scenarios = { passed := 1, skipped := 0, failed := 1, retried := 0 } := by
  decide +kernel

/-- F-C12b: attempt 0 fails in a step (retried), attempt 1 fails in the before hook, no retry left. -/
def streamB : List Ev :=
  [.started, .featStarted 0,
   .scen kx r01 .started, .scen kx r01 (.hook .before .started), .scen kx r01 (.hook .before .passed),
   .scen kx r01 (.step 0 .started), .scen kx r01 (.step 0 (.failed (.panic 0))), .scen kx r01 .finished,
   .scen kx r10 .started, .scen kx r10 (.hook .before .started), .scen kx r10 (.hook .before (.failed 0)),
   .scen kx r10 .finished, .featFinished 0, .finished]

/-- the scenario's last attempt failed — it is counted in none of passed / skipped / failed -/
theorem C12_class_full_false_b :
    (summAfter (catx 1) streamB).scenarios = { passed := 0, skipped := 0, failed := 0, retried := 1 } := by
  decide +kernel

/-- F-C12c: scenario without own steps; background step fails in attempt 0, passes in attempt 1. -/
def streamC : List Ev :=
  [.started, .featStarted 0,
   .scen kx r01 .started, .scen kx r01 (.bg 0 .started), .scen kx r01 (.bg 0 (.failed (.panic 0))), .scen kx r01 .finished,
   .scen kx r10 .started, .scen kx r10 (.bg 0 .started), .scen kx r10 (.bg 0 .passed), .scen kx r10 .finished,
   .featFinished 0, .finished]

theorem C12_class_full_false_c :
    (summAfter (catx 0) streamC).scenarios = { passed := 0, skipped := 0, failed := 0, retried := 1 } := by
  decide +kernel

/-! ## Non-vacuity of the counter theorems -/
example : vec (summAfter (catx 1) streamB) = countVec (streamB.dropLast) := by decide +kernel
example : countVec (streamB.dropLast) = ⟨0, 0, 0, 1, 0, 1, 1, 0⟩ := by decide +kernel


/-! ## Scenario classification: the proved part (attempts with no retry left) -/

/-- what `Summarize` remembers and counts about ONE scenario: its indicator and the scenario counters -/
def obs (k : ScenKey) (s : Summ) : Option Indicator × Stats := (s.handled.get k, s.scenarios)

/-- the effect of one scenario event on `obs`, as a function of `obs` alone -/
def obsStep (ret : Option Retries) (nsteps : Nat) (o : Option Indicator × Stats) : ScenEv → Option Indicator × Stats
  | .started => o
  | .log _ => o
  | .hook _ r =>
    if r.isFailed then
      match o.1 with
      | some .failed => o
      | some .retried => o
      | some .skipped => (o.1, { o.2 with skipped := o.2.skipped - 1, failed := o.2.failed + 1 })
      | none => (some .failed, { o.2 with failed := o.2.failed + 1 })
    else o
  | .bg _ r => stepObs false r
  | .step i r => stepObs (decide (i + 1 = nsteps)) r
  | .finished =>
    match o.1 with
    | some .retried => o
    | some _ => (none, o.2)
    | none => (none, { o.2 with passed := o.2.passed + 1 })
where
  stepObs (isLast : Bool) : StepRes → Option Indicator × Stats
    | .started => o
    | .passed => if isLast then (none, o.2) else o
    | .skipped => (some .skipped, { o.2 with skipped := o.2.skipped + 1 })
    | .failed err =>
      if isRetriedFailure ret err then
        (some .retried, if o.1.isNone then { o.2 with retried := o.2.retried + 1 } else o.2)
      else (some .failed, { o.2 with failed := o.2.failed + 1 })

theorem get_insert_self (h : Handled) (k : ScenKey) (i : Indicator) : (h.insert k i).get k = some i := by
  simp [Handled.insert, Handled.get, find?]

theorem get_remove_self (h : Handled) (k : ScenKey) : (h.remove k).get k = none := by
  simp only [Handled.remove, Handled.get, Option.map_eq_none_iff, find?_eq_none, mem_filter]
  intro x hx
  simpa using hx.2

theorem obs_handle (cat : Catalog) (k : ScenKey) (ret : Option Retries) (s : Summ) (e : ScenEv) :
    obs k (s.handleScenario cat k ret e) = obsStep ret (cat.nsteps k) (obs k s) e := by
  have hstep : ∀ (isLast : Bool) (r : StepRes),
      obs k (s.handleStep k isLast r ret) = obsStep.stepObs ret (obs k s) isLast r := by
    intro isLast r
    cases r with
    | started => rfl
    | passed =>
      cases isLast <;> simp [Summ.handleStep, obs, obsStep.stepObs, get_remove_self]
    | skipped => simp [Summ.handleStep, obs, obsStep.stepObs, get_insert_self]
    | failed err =>
      by_cases hr : isRetriedFailure ret err = true
      · simp only [Summ.handleStep, hr, if_true, obs, obsStep.stepObs]
        by_cases hn : (s.handled.get k).isNone = true
        · simp [hn, get_insert_self]
        · simp [hn, get_insert_self]
      · have hr' : isRetriedFailure ret err = false := by simpa using hr
        simp [Summ.handleStep, hr', obs, obsStep.stepObs, get_insert_self]
  cases e with
  | started => rfl
  | log m => rfl
  | finished =>
    simp only [Summ.handleScenario, Summ.handleScenFinished, obs, obsStep]
    cases hg : s.handled.get k with
    | none => simp [hg]
    | some i => cases i <;> simp [hg, get_remove_self]
  | hook t r =>
    cases r with
    | failed p =>
      simp only [Summ.handleScenario, HookRes.isFailed, if_true, Summ.handleHookFailed, obs, obsStep]
      cases hg : s.handled.get k with
      | none => simp [hg, get_insert_self]
      | some i => cases i <;> simp [hg]
    | _ => simp [Summ.handleScenario, HookRes.isFailed, obs, obsStep]
  | bg i r => simpa [Summ.handleScenario, obsStep] using hstep false r
  | step i r => simpa [Summ.handleScenario, obsStep] using hstep (decide (i + 1 = cat.nsteps k)) r


/-- feed one attempt's events of scenario `k` -/
def feedScen (cat : Catalog) (k : ScenKey) (ret : Option Retries) (s : Summ) (evs : List ScenEv) : Summ :=
  evs.foldl (fun s e => s.handleScenario cat k ret e) s

theorem obs_feed (cat : Catalog) (k : ScenKey) (ret : Option Retries) (s : Summ) (evs : List ScenEv) :
    obs k (feedScen cat k ret s evs) = evs.foldl (obsStep ret (cat.nsteps k)) (obs k s) := by
  induction evs generalizing s with
  | nil => rfl
  | cons e es ih => simp only [feedScen, foldl_cons] at ih ⊢; rw [ih, obs_handle]

/-- folding the step part of a canonical attempt (no retry left), before the deferred failure -/
theorem fold_specSteps (ret : Option Retries) (n : Nat) (sp : AttemptSpec) (hn : n = sp.nsteps)
    (hret : ∀ err, isRetriedFailure ret err = false) (sc : Stats) (l : List (Bool × Nat)) (idx : Nat) :
    (specSteps sp idx l).1.foldl (obsStep ret n) (none, sc) =
      match (specSteps sp idx l).2 with
      | .skipped => (some .skipped, { sc with skipped := sc.skipped + 1 })
      | _ => (none, sc) := by
  induction l generalizing idx with
  | nil => simp [specSteps]
  | cons s rest ih =>
    obtain ⟨bg, i⟩ := s
    simp only [specSteps]
    cases h : effRes sp idx bg i with
    | started => exact absurd h (effRes_ne_started sp idx bg i)
    | passed =>
      simp only [foldl_cons]
      have h1 : obsStep ret n (none, sc) (stepEv bg i .started) = (none, sc) := by
        cases bg <;> simp [stepEv, obsStep, obsStep.stepObs]
      have h2 : obsStep ret n (none, sc) (stepEv bg i .passed) = (none, sc) := by
        cases bg <;> simp [stepEv, obsStep, obsStep.stepObs]
      rw [h1, h2]
      exact ih (idx + 1)
    | skipped =>
      cases bg <;> simp [stepEv, obsStep, obsStep.stepObs]
    | failed e =>
      cases bg <;> simp [stepEv, obsStep, obsStep.stepObs]



/-- the class the property assigns to a finished attempt -/
def attemptClass (sp : AttemptSpec) (wid : Nat) (sc : Stats) : Stats :=
  if (runAttempt sp wid).failed then { sc with failed := sc.failed + 1 }
  else if (runAttempt sp wid).reason = .stepSkipped then { sc with skipped := sc.skipped + 1 }
  else { sc with passed := sc.passed + 1 }

theorem afterFold (ret : Option Retries) (n : Nat) (sp : AttemptSpec) (o : Option Indicator × Stats) :
    (specAfter sp).foldl (obsStep ret n) o =
      if afterFailed sp then obsStep ret n o (.hook .after (.failed 0)) else o := by
  unfold specAfter afterFailed
  cases sp.hasAfter with
  | false => simp
  | true =>
    cases sp.after with
    | pass => simp [obsStep, HookRes.isFailed]
    | panic p => simp [obsStep, HookRes.isFailed]

theorem specSteps_failed_shape (sp : AttemptSpec) (l : List (Bool × Nat)) (idx : Nat) (ev : ScenEv)
    (h : (specSteps sp idx l).2 = .failed ev) : ∃ bg i e, ev = stepEv bg i (.failed e) := by
  induction l generalizing idx with
  | nil => simp [specSteps] at h
  | cons s rest ih =>
    obtain ⟨bg, i⟩ := s
    simp only [specSteps] at h
    cases he : effRes sp idx bg i with
    | started => simp [he] at h
    | passed => simp only [he] at h; exact ih (idx + 1) h
    | skipped => simp [he] at h
    | failed e =>
      simp only [he, Stop.failed.injEq] at h
      exact ⟨bg, i, e, h.symm⟩

theorem specSteps_not_beforeFailed (sp : AttemptSpec) (l : List (Bool × Nat)) (idx : Nat) (ev : ScenEv) :
    (specSteps sp idx l).2 ≠ .beforeFailed ev := by
  induction l generalizing idx with
  | nil => simp [specSteps]
  | cons s rest ih =>
    obtain ⟨bg, i⟩ := s
    simp only [specSteps]
    cases he : effRes sp idx bg i with
    | started => simp
    | passed => exact ih (idx + 1)
    | skipped => simp
    | failed e => simp

/-- **A scenario attempt with no retry left is counted exactly once, in the class of that attempt**
    (failed if a step, the before hook or the after hook failed; skipped if a step was skipped; passed
    otherwise) — for EVERY attempt the attempt model (C02) can produce, whatever else `Summarize` has seen,
    provided it holds no stale indicator for the scenario. Excluded: attempts with a retry left
    (findings F-C12a/b/c live there). -/
theorem single_attempt_counted_once (cat : Catalog) (k : ScenKey) (ret : Option Retries) (sp : AttemptSpec) (wid : Nat)
    (s : Summ) (hn : cat.nsteps k = sp.nsteps) (hret : ∀ err, isRetriedFailure ret err = false)
    (hk : s.handled.get k = none) :
    obs k (feedScen cat k ret s (runAttempt sp wid).events) = (none, attemptClass sp wid s.scenarios) := by
  have hfailed : (runAttempt sp wid).failed = ((specStop sp).isFailure || afterFailed sp) := by
    simp [runAttempt, (runBody_spec sp wid).2]
  have hreason : (runAttempt sp wid).reason = reasonOf (specStop sp) := by
    simp [runAttempt, (runBody_spec sp wid).2]
  rw [obs_feed, runAttempt_canonical]
  unfold attemptClass
  rw [hfailed, hreason]
  have hobs : obs k s = (none, s.scenarios) := by simp [obs, hk]
  rw [hobs]
  unfold specEvents
  simp only [foldl_append, foldl_cons, foldl_nil]
  have hstart : obsStep ret (cat.nsteps k) (none, s.scenarios) ScenEv.started = (none, s.scenarios) := rfl
  rw [hstart]
  -- the before hook
  cases hb : specBefore sp with
  | mk evB stopB =>
    unfold specStop
    rw [hb]
    simp only
    have hbcases : (evB = [] ∧ stopB = .none) ∨ (evB = [.hook .before .started, .hook .before .passed] ∧ stopB = .none) ∨
        (∃ p, evB = [.hook .before .started] ∧ stopB = .beforeFailed (.hook .before (.failed p))) := by
      unfold specBefore at hb
      split at hb
      · split at hb
        · split at hb
          · simp only [Prod.mk.injEq] at hb; exact Or.inr (Or.inl ⟨hb.1.symm, hb.2.symm⟩)
          · simp only [Prod.mk.injEq] at hb; exact Or.inr (Or.inr ⟨_, hb.1.symm, hb.2.symm⟩)
        · simp only [Prod.mk.injEq] at hb; exact Or.inr (Or.inr ⟨_, hb.1.symm, hb.2.symm⟩)
      · simp only [Prod.mk.injEq] at hb; exact Or.inl ⟨hb.1.symm, hb.2.symm⟩
    rcases hbcases with ⟨rfl, rfl⟩ | ⟨rfl, rfl⟩ | ⟨p, rfl, rfl⟩
    all_goals simp only [foldl_nil, foldl_cons]
    · -- no before hook
      rw [fold_specSteps ret (cat.nsteps k) sp hn hret, afterFold]
      cases hst : (specSteps sp 0 (stepList sp)).2 with
      | failed ev =>
        obtain ⟨bg, i, e, rfl⟩ := specSteps_failed_shape sp _ _ ev hst
        cases haf : afterFailed sp <;> cases bg <;>
          simp [Stop.deferred, Stop.isFailure, reasonOf, stepEv, obsStep, obsStep.stepObs, HookRes.isFailed, hret]
      | beforeFailed ev => exact absurd hst (specSteps_not_beforeFailed sp _ _ ev)
      | none =>
        cases haf : afterFailed sp <;>
          simp [Stop.deferred, Stop.isFailure, reasonOf, obsStep, obsStep.stepObs, HookRes.isFailed, hret]
      | skipped =>
        cases haf : afterFailed sp <;>
          simp [Stop.deferred, Stop.isFailure, reasonOf, obsStep, obsStep.stepObs, HookRes.isFailed, hret]
    · -- before hook passed
      have h1 : obsStep ret (cat.nsteps k) (none, s.scenarios) (.hook .before .started) = (none, s.scenarios) := by
        simp [obsStep, HookRes.isFailed]
      have h2 : obsStep ret (cat.nsteps k) (none, s.scenarios) (.hook .before .passed) = (none, s.scenarios) := by
        simp [obsStep, HookRes.isFailed]
      rw [h1, h2, fold_specSteps ret (cat.nsteps k) sp hn hret, afterFold]
      cases hst : (specSteps sp 0 (stepList sp)).2 with
      | failed ev =>
        obtain ⟨bg, i, e, rfl⟩ := specSteps_failed_shape sp _ _ ev hst
        cases haf : afterFailed sp <;> cases bg <;>
          simp [Stop.deferred, Stop.isFailure, reasonOf, stepEv, obsStep, obsStep.stepObs, HookRes.isFailed, hret]
      | beforeFailed ev => exact absurd hst (specSteps_not_beforeFailed sp _ _ ev)
      | none =>
        cases haf : afterFailed sp <;>
          simp [Stop.deferred, Stop.isFailure, reasonOf, obsStep, obsStep.stepObs, HookRes.isFailed, hret]
      | skipped =>
        cases haf : afterFailed sp <;>
          simp [Stop.deferred, Stop.isFailure, reasonOf, obsStep, obsStep.stepObs, HookRes.isFailed, hret]
    · -- before hook failed: no steps, the deferred Hook-Failed event, then the after hook
      have h1 : obsStep ret (cat.nsteps k) (none, s.scenarios) (.hook .before .started) = (none, s.scenarios) := by
        simp [obsStep, HookRes.isFailed]
      rw [h1, afterFold]
      cases haf : afterFailed sp <;>
        simp [Stop.deferred, Stop.isFailure, reasonOf, obsStep, HookRes.isFailed]


/-- non-vacuity: the C02 example attempt (before hook, background, a panicking second step, a failing after
    hook) without retries is counted once, as failed -/
example : obs kx (feedScen (catx 3) kx none {} (runAttempt exSpec 9).events) =
    (none, { passed := 0, skipped := 0, failed := 1, retried := 0 }) := by decide +kernel


/-! ## Scenario classification with retries: the proved part -/
set_option linter.unusedSimpArgs false

/-- position `idx` of the declaration-ordered step list -/
theorem stepList_drop (sp : AttemptSpec) (idx : Nat) (bg : Bool) (i : Nat) (rest : List (Bool × Nat))
    (h : (stepList sp).drop idx = (bg, i) :: rest) :
    (bg = false → (i + 1 = sp.nsteps ↔ rest = [])) ∧ rest = (stepList sp).drop (idx + 1) ∧
    (bg = false → sp.nsteps > 0) ∧ (bg = true → sp.nsteps > 0 → rest ≠ []) := by
  have hlen : (stepList sp).length = sp.nbg + sp.nsteps := by simp [stepList]
  have hrest : rest = (stepList sp).drop (idx + 1) := by
    have := congrArg (List.drop 1) h
    simpa [drop_drop, Nat.add_comm] using this.symm
  have hidx : idx < (stepList sp).length := by
    by_cases hc : idx < (stepList sp).length
    · exact hc
    · have : (stepList sp).drop idx = [] := drop_eq_nil_of_le (by omega)
      rw [this] at h; cases h
  have helem : (stepList sp)[idx]? = some (bg, i) := by
    have := congrArg List.head? h
    simpa [head?_drop] using this
  have hbgcase : bg = true → sp.nsteps > 0 → rest ≠ [] := by
    intro hb hn hnil
    have hlt : idx < sp.nbg := by
      by_cases hlt : idx < sp.nbg
      · exact hlt
      · simp only [stepList] at helem
        rw [getElem?_append_right (by simpa using hlt)] at helem
        simp at helem
        have hl : idx - sp.nbg < sp.nsteps := by rw [hlen] at hidx; omega
        subst hb
        simp [hl] at helem
    have hpos : 0 < ((stepList sp).drop (idx + 1)).length := by rw [length_drop, hlen]; omega
    rw [← hrest, hnil] at hpos; simp at hpos
  suffices hmain : bg = false → ((i + 1 = sp.nsteps ↔ rest = []) ∧ sp.nsteps > 0) from
    ⟨fun hb => (hmain hb).1, hrest, fun hb => (hmain hb).2, hbgcase⟩
  intro hb
  -- the element at position idx
  have hval : idx ≥ sp.nbg ∧ i = idx - sp.nbg := by
    simp only [stepList] at helem
    by_cases hlt : idx < sp.nbg
    · rw [getElem?_append_left (by simpa using hlt)] at helem
      simp [hlt] at helem
      exact absurd helem.1.symm (by simp [hb])
    · rw [getElem?_append_right (by simpa using hlt)] at helem
      simp at helem
      have hl : idx - sp.nbg < sp.nsteps := by rw [hlen] at hidx; omega
      simp [hl] at helem
      exact ⟨by omega, by omega⟩
  refine ⟨?_, by rw [hlen] at hidx; omega⟩
  rw [hrest]
  constructor
  · intro h1
    apply drop_eq_nil_of_le
    rw [hlen]; omega
  · intro h1
    have : (stepList sp).length ≤ idx + 1 := by
      by_cases hc : (stepList sp).length ≤ idx + 1
      · exact hc
      · have hpos : 0 < ((stepList sp).drop (idx + 1)).length := by rw [length_drop]; omega
        rw [h1] at hpos; simp at hpos
    rw [hlen] at this hidx
    omega


/-- folding the step part of a canonical attempt from ANY observation `o` (before the deferred failure) -/
theorem fold_specSteps_gen (ret : Option Retries) (n : Nat) (sp : AttemptSpec) (hn : n = sp.nsteps)
    (o : Option Indicator × Stats) (l : List (Bool × Nat)) (idx : Nat) (hl : (stepList sp).drop idx = l) :
    (specSteps sp idx l).1.foldl (obsStep ret n) o =
      match (specSteps sp idx l).2 with
      | .skipped => (some .skipped, { o.2 with skipped := o.2.skipped + 1 })
      | .none => if sp.nsteps > 0 ∧ l ≠ [] then (none, o.2) else o
      | _ => o := by
  induction l generalizing idx o with
  | nil => simp [specSteps]
  | cons s rest ih =>
    obtain ⟨bg, i⟩ := s
    obtain ⟨hlast, hrest, hown, hbgn⟩ := stepList_drop sp idx bg i rest hl
    simp only [specSteps]
    cases h : effRes sp idx bg i with
    | started => exact absurd h (effRes_ne_started sp idx bg i)
    | skipped => cases bg <;> simp [stepEv, obsStep, obsStep.stepObs]
    | failed e => cases bg <;> simp [stepEv, obsStep, obsStep.stepObs]
    | passed =>
      simp only [foldl_cons]
      have h1 : obsStep ret n o (stepEv bg i .started) = o := by
        cases bg <;> simp [stepEv, obsStep, obsStep.stepObs]
      rw [h1]
      cases bg with
      | true =>
        have h2 : obsStep ret n o (stepEv true i .passed) = o := by simp [stepEv, obsStep, obsStep.stepObs]
        rw [h2, ih o (idx + 1) hrest.symm]
        cases hst : (specSteps sp (idx + 1) rest).2 <;> simp
        by_cases hp : sp.nsteps > 0
        · have := hbgn rfl hp
          simp [hp, this]
        · simp [hp]
      | false =>
        have hpos := hown rfl
        by_cases hi : i + 1 = sp.nsteps
        · have hnil := (hlast rfl).mp hi
          subst hnil
          have h2 : obsStep ret n o (stepEv false i .passed) = (none, o.2) := by
            simp [stepEv, obsStep, obsStep.stepObs, hn, hi]
          rw [h2]
          simp [specSteps, hpos]
        · have hne : rest ≠ [] := fun hc => hi ((hlast rfl).mpr hc)
          have h2 : obsStep ret n o (stepEv false i .passed) = o := by
            simp [stepEv, obsStep, obsStep.stepObs, hn, hi]
          rw [h2, ih o (idx + 1) hrest.symm]
          cases hst : (specSteps sp (idx + 1) rest).2 <;> simp [hpos, hne]


/-- the events of an attempt whose before hook (if any) passes, folded from any observation -/
theorem fold_attempt_before_ok (ret : Option Retries) (n : Nat) (sp : AttemptSpec) (hn : n = sp.nsteps)
    (hb : (specBefore sp).2 = .none) (o : Option Indicator × Stats) :
    (specEvents sp).foldl (obsStep ret n) o =
      obsStep ret n
        ((specAfter sp).foldl (obsStep ret n)
          ((specSteps sp 0 (stepList sp)).2.deferred.foldl (obsStep ret n)
            ((specSteps sp 0 (stepList sp)).1.foldl (obsStep ret n) o))) .finished := by
  unfold specEvents specStop
  have hbe : (specBefore sp).1 = [] ∨ (specBefore sp).1 = [.hook .before .started, .hook .before .passed] := by
    unfold specBefore at hb ⊢
    split
    · split
      · split
        · right; rfl
        · simp_all
      · simp_all
    · left; rfl
  simp only [hb, foldl_append, foldl_cons, foldl_nil]
  have hstart : obsStep ret n o ScenEv.started = o := rfl
  rw [hstart]
  rcases hbe with h | h <;> rw [h] <;> simp [obsStep, HookRes.isFailed]

/-- **A retried attempt** (a step fails with a retry left, no hook fails) leaves the scenario marked
    `Retried` and counts it as retried at most once. -/
theorem retried_attempt (cat : Catalog) (k : ScenKey) (ret : Option Retries) (sp : AttemptSpec) (wid : Nat) (s : Summ)
    (hn : cat.nsteps k = sp.nsteps) (hb : (specBefore sp).2 = .none) (haf : afterFailed sp = false)
    (bg : Bool) (i : Nat) (err : StepErr) (hstop : (specSteps sp 0 (stepList sp)).2 = .failed (stepEv bg i (.failed err)))
    (hret : isRetriedFailure ret err = true)
    (hk : s.handled.get k = none ∨ s.handled.get k = some .retried) :
    obs k (feedScen cat k ret s (runAttempt sp wid).events) =
      (some .retried, if (s.handled.get k).isNone then { s.scenarios with retried := s.scenarios.retried + 1 } else s.scenarios) := by
  rw [obs_feed, runAttempt_canonical, fold_attempt_before_ok ret _ sp hn hb,
    fold_specSteps_gen ret _ sp hn _ (stepList sp) 0 (by simp), hstop, afterFold, haf]
  simp only [Stop.deferred, foldl_cons, foldl_nil, Bool.false_eq_true, if_false]
  rcases hk with hk | hk <;> cases bg <;>
    simp [obs, hk, stepEv, obsStep, obsStep.stepObs, hret]

/-- **The last attempt after retries** (no retry left; its before hook passes; if every step passes the
    scenario has own steps) is counted exactly once in its class, and the `Retried` mark is cleared. -/
theorem final_attempt_after_retries (cat : Catalog) (k : ScenKey) (ret : Option Retries) (sp : AttemptSpec) (wid : Nat)
    (s : Summ) (hn : cat.nsteps k = sp.nsteps) (hret : ∀ err, isRetriedFailure ret err = false)
    (hb : (specBefore sp).2 = .none) (hown : (specSteps sp 0 (stepList sp)).2 = .none → sp.nsteps > 0)
    (hk : s.handled.get k = some .retried) :
    obs k (feedScen cat k ret s (runAttempt sp wid).events) = (none, attemptClass sp wid s.scenarios) := by
  have hfailed : (runAttempt sp wid).failed = ((specStop sp).isFailure || afterFailed sp) := by
    simp [runAttempt, (runBody_spec sp wid).2]
  have hreason : (runAttempt sp wid).reason = reasonOf (specStop sp) := by
    simp [runAttempt, (runBody_spec sp wid).2]
  have hstopeq : specStop sp = (specSteps sp 0 (stepList sp)).2 := by
    unfold specStop; rw [hb]
  rw [obs_feed, runAttempt_canonical, fold_attempt_before_ok ret _ sp hn hb,
    fold_specSteps_gen ret _ sp hn _ (stepList sp) 0 (by simp), afterFold]
  unfold attemptClass
  rw [hfailed, hreason, hstopeq]
  have hobs : obs k s = (some .retried, s.scenarios) := by simp [obs, hk]
  rw [hobs]
  cases hst : (specSteps sp 0 (stepList sp)).2 with
  | failed ev =>
    obtain ⟨bg, i, e, rfl⟩ := specSteps_failed_shape sp _ _ ev hst
    cases haf : afterFailed sp <;> cases bg <;>
      simp [Stop.deferred, Stop.isFailure, reasonOf, stepEv, obsStep, obsStep.stepObs, HookRes.isFailed, hret]
  | beforeFailed ev => exact absurd hst (specSteps_not_beforeFailed sp _ _ ev)
  | skipped =>
    cases haf : afterFailed sp <;>
      simp [Stop.deferred, Stop.isFailure, reasonOf, obsStep, obsStep.stepObs, HookRes.isFailed, hret]
  | none =>
    have hpos := hown hst
    have hne : stepList sp ≠ [] := by
      intro h0
      have : (stepList sp).length = sp.nbg + sp.nsteps := by simp [stepList]
      rw [h0] at this; simp at this; omega
    cases haf : afterFailed sp <;>
      simp [Stop.deferred, Stop.isFailure, reasonOf, obsStep, obsStep.stepObs, HookRes.isFailed, hret, hpos, hne]


/-- an attempt description: (retry counter, outcome spec, id of the World it would create) -/
abbrev Att := Option Retries × AttemptSpec × Nat

/-- an attempt that is retried for the reason the property has in mind: a step fails with a retry left
    (and nothing else goes wrong: no hook fails — the histories of findings F-C12a/b are excluded) -/
structure RetriedOk (cat : Catalog) (k : ScenKey) (a : Att) : Prop where
  nsteps : cat.nsteps k = a.2.1.nsteps
  beforeOk : (specBefore a.2.1).2 = .none
  afterOk : afterFailed a.2.1 = false
  stepFails : ∃ bg i err, (specSteps a.2.1 0 (stepList a.2.1)).2 = .failed (stepEv bg i (.failed err)) ∧
    isRetriedFailure a.1 err = true

def feedAtts (cat : Catalog) (k : ScenKey) (s : Summ) (atts : List Att) : Summ :=
  atts.foldl (fun s a => feedScen cat k a.1 s (runAttempt a.2.1 a.2.2).events) s

theorem retried_chain (cat : Catalog) (k : ScenKey) (rs : List Att) (hrs : ∀ a ∈ rs, RetriedOk cat k a) (s : Summ)
    (hk : s.handled.get k = none ∨ s.handled.get k = some .retried) (hne : rs ≠ []) :
    obs k (feedAtts cat k s rs) =
      (some .retried, if (s.handled.get k).isNone then { s.scenarios with retried := s.scenarios.retried + 1 } else s.scenarios) := by
  induction rs generalizing s with
  | nil => exact absurd rfl hne
  | cons a rest ih =>
    obtain ⟨h1, h2, h3, bg, i, err, h4, h5⟩ := hrs a (by simp)
    have hstep := retried_attempt cat k a.1 a.2.1 a.2.2 s h1 h2 h3 bg i err h4 h5 hk
    simp only [feedAtts, foldl_cons]
    by_cases hr : rest = []
    · subst hr; simpa using hstep
    · have hk' : (feedScen cat k a.1 s (runAttempt a.2.1 a.2.2).events).handled.get k = some .retried := by
        have := congrArg Prod.fst hstep; simpa [obs] using this
      have := ih (fun x hx => hrs x (by simp [hx])) _ (Or.inr hk') hr
      simp only [feedAtts] at this
      rw [this, hk']
      have hsc := congrArg Prod.snd hstep
      simp only [obs] at hsc
      simp [hsc]

/-- **Scenario classification by the last attempt (proved part).** A scenario whose earlier attempts were
    retried because a step failed (no hook failure), and whose last attempt — no retry left — is any attempt
    of the C02 model (if there were retries: its before hook passes, and if all its steps pass it has own
    steps), is counted exactly ONCE, in the class of that last attempt, and at most once as retried.
    The excluded histories are exactly the patterns of findings F-C12a / F-C12b / F-C12c. -/
theorem scenario_counted_by_last_attempt (cat : Catalog) (k : ScenKey) (s : Summ) (rs : List Att) (last : Att)
    (hk : s.handled.get k = none) (hrs : ∀ a ∈ rs, RetriedOk cat k a)
    (hn : cat.nsteps k = last.2.1.nsteps) (hret : ∀ err, isRetriedFailure last.1 err = false)
    (hlast : rs ≠ [] → (specBefore last.2.1).2 = .none ∧
      ((specSteps last.2.1 0 (stepList last.2.1)).2 = .none → last.2.1.nsteps > 0)) :
    obs k (feedScen cat k last.1 (feedAtts cat k s rs) (runAttempt last.2.1 last.2.2).events) =
      (none, attemptClass last.2.1 last.2.2
        (if rs = [] then s.scenarios else { s.scenarios with retried := s.scenarios.retried + 1 })) := by
  by_cases hr : rs = []
  · subst hr
    simpa [feedAtts] using single_attempt_counted_once cat k last.1 last.2.1 last.2.2 s hn hret hk
  · have hchain := retried_chain cat k rs hrs s (Or.inl hk) hr
    have hk' : (feedAtts cat k s rs).handled.get k = some .retried := by
      have := congrArg Prod.fst hchain; simpa [obs] using this
    have hsc : (feedAtts cat k s rs).scenarios = { s.scenarios with retried := s.scenarios.retried + 1 } := by
      have := congrArg Prod.snd hchain; simpa [obs, hk] using this
    obtain ⟨hb, hown⟩ := hlast hr
    rw [final_attempt_after_retries cat k last.1 last.2.1 last.2.2 _ hn hret hb hown hk', hsc]
    simp [hr]


/-- non-vacuity: a first attempt whose second step panics with a retry left, then a passing last attempt:
    the hypotheses hold and the scenario is counted once as passed and once as retried -/
def flakyFirst : AttemptSpec :=
  { hasBefore := true, hasAfter := true, nbg := 1, nsteps := 2, init := .ok, before := .pass, after := .pass,
    bgOut := fun _ => .pass, stepOut := fun i => if i = 1 then .panic 4 else .pass }
def passingLast : AttemptSpec := { flakyFirst with stepOut := fun _ => .pass }

example : (specBefore flakyFirst).2 = .none ∧ afterFailed flakyFirst = false ∧
    (specSteps flakyFirst 0 (stepList flakyFirst)).2 = .failed (stepEv false 1 (.failed (.panic 4))) ∧
    isRetriedFailure (some ⟨0, 1⟩) (.panic 4) = true := by decide +kernel

example : obs kx (feedScen (catx 2) kx (some ⟨1, 0⟩) (feedAtts (catx 2) kx {} [(some ⟨0, 1⟩, flakyFirst, 7)])
      (runAttempt passingLast 8).events) =
    (none, { passed := 1, skipped := 0, failed := 0, retried := 1 }) := by decide +kernel


/-! ## The guard of the model's one truncated subtraction

`Summarize::handle_scenario` does `scenarios.skipped -= 1` when a `Hook::Failed` arrives for a scenario marked
`Skipped` — an arithmetic underflow in the code when `skipped = 0` (a panic with overflow checks, a wrap without),
a silent `0 - 1 = 0` in the model's `Nat`. Lemmas/SummarizeGuard.lean. -/

open Cuke.SummG in
/-- **No underflow.** On every stream that never has a second failed hook after a skipped step within one attempt
    (`OneFailedHookPerSkip`, a condition on the stream alone; every Runner stream satisfies it: a skipped step ends
    the attempt's steps, the After hook runs once, then Finished) the decrement is never reached with
    `skipped = 0`: the model's arithmetic is the code's arithmetic, for streams of any length and interleaving. -/
theorem summ_no_underflow (cat : Catalog) (evs : List Ev) (h : OneFailedHookPerSkip evs = true) :
    guardRun cat {} evs = true :=
  guardRun_from cat {} {} evs (Or.inr ginv2_init) h

open Cuke.SummG in
/-- … in particular on every stream in which no scenario path has two failed hooks at all (the guard the
    arbitrary-stream generator of the correspondence stays inside) -/
theorem summ_no_underflow_of_nodup (cat : Catalog) (evs : List Ev) (h : (hookFailedKeys evs).Nodup) :
    guardRun cat {} evs = true :=
  summ_no_underflow cat evs (ghost_of_nodup_from {} evs h (fun _ _ hc => by cases hc))

/-- the guard is not vacuous, and it is needed: after a skipped step, ONE failed hook is fine (a retried attempt may
    bring another skipped step and another failed hook), a SECOND one within the attempt reaches the decrement
    with nothing to subtract -/
example :
    Cuke.SummG.OneFailedHookPerSkip [.scen kx none (.step 0 .skipped), .scen kx none (.hook .after (.failed 1)), .scen kx none .finished,
      .scen kx none (.step 0 .skipped), .scen kx none (.hook .after (.failed 1)), .scen kx none .finished] = true ∧
    Cuke.SummG.guardRun (catx 1) {} [.scen kx none (.step 0 .skipped), .scen kx none (.hook .after (.failed 1)),
      .scen kx none (.hook .before (.failed 1))] = false ∧
    Cuke.SummG.OneFailedHookPerSkip [.scen kx none (.step 0 .skipped), .scen kx none (.hook .after (.failed 1)),
      .scen kx none (.hook .before (.failed 1))] = false := by decide

end Cuke.C12

