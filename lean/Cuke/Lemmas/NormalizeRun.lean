import Cuke.Lemmas.NormalizeInsert
import Cuke.Lemmas.NormalizeOrder
import Cuke.Lemmas.NormalizeSeq
import Cuke.Lemmas.NormalizeContract
import Cuke.Model.Monitors
/-!
  Run-level helper definitions and lemmas for C11 (the property theorems are in Cuke/Props/C11.lean):
  `SafeRun` / `StartsRun` (the contract relative to the normalizer's own bookkeeping, decidable, evaluated by
  the monitor), the one-step lemmas (`handle_step`, `handle_proj`, `handle_seq`, `handle_drained`,
  `contract_step`) and their lifts over a whole stream.
-/
namespace Cuke.C11
open Cuke List Cuke.NormL Cuke.Mon
/-- all features still queued have received their Finished bracket -/
def allClosed (n : Norm) : Bool := n.feats.all (fun fq => fq.2.fin == .pending)

/-- one step obeys the contract (relative to the normalizer state) -/
def safeStep (n : Norm) (e : Ev) : Bool :=
  n.fin == .emitted || (Safe n e && (!(e == .finished) || allClosed n))

/-- the whole stream obeys the contract and no `panic!` branch is hit -/
def SafeRun : Norm → List Ev → Bool
  | _, [] => true
  | n, e :: es =>
    safeStep n e &&
    match n.handle e with
    | some (n', _) => SafeRun n' es
    | none => false

theorem emitFeats_all_closed (fs : List (Nat × FeatQ)) (hok : fs.all featOk = true)
    (hc : fs.all (fun fq => fq.2.fin == .pending) = true) : (emitFeats fs).2 = [] := by
  induction fs with
  | nil => simp [emitFeats]
  | cons fq rest ih =>
    obtain ⟨f, q⟩ := fq
    simp only [all_cons, Bool.and_eq_true] at hok hc
    simp only [emitFeats, hc.1, if_true]
    exact ih hok.2 hc.2

/-- **Step**: one `handle_event` forwards events that, together with what is still owed afterwards,
    are a permutation of what was owed before plus the event received. -/
theorem handle_step (n n' : Norm) (e : Ev) (out : List Ev) (hok : NormOk n) (hfin : n.fin ≠ .pending)
    (hs : safeStep n e = true) (h : n.handle e = some (n', out)) :
    out ++ buffered n' ~ buffered n ++ [e] ∧ NormOk n' ∧ n'.fin ≠ .pending ∧
    (e = .finished → n.fin ≠ .emitted → buffered n' = [] ∧ n'.fin = .emitted) ∧
    (n.fin = .emitted → n' = n ∧ out = [e]) ∧
    (n.fin ≠ .emitted → e ≠ .finished → n'.fin ≠ .emitted) := by
  unfold Norm.handle at h
  by_cases hem : n.fin = .emitted
  · simp only [hem, beq_self_eq_true, if_true, Option.some.injEq, Prod.mk.injEq] at h
    obtain ⟨rfl, rfl⟩ := h
    exact ⟨perm_append_comm, hok, hfin, fun _ hne => absurd hem hne, fun _ => ⟨rfl, rfl⟩, fun hne => absurd hem hne⟩
  · have hem' : (n.fin == Fin.emitted) = false := by simpa using hem
    have hno : n.fin = .no := by cases hn : n.fin <;> simp_all
    simp only [hem', Bool.false_eq_true, if_false] at h
    simp only [safeStep, hem', Bool.false_or, Bool.and_eq_true, Bool.or_eq_true, Bool.not_eq_true'] at hs
    cases hi : n.insert e with
    | none => simp [hi] at h
    | some n1 =>
      simp only [hi] at h
      obtain ⟨hp, hok1, hfin1⟩ := insert_perm n n1 e hok hs.1 hi
      obtain ⟨heq, hok2⟩ := emitFeats_eq n1.feats hok1
      by_cases hf : e = .finished
      · subst hf
        simp only [beq_self_eq_true, if_true] at hfin1
        simp only [hfin1, beq_self_eq_true, if_true, Option.some.injEq, Prod.mk.injEq] at h
        obtain ⟨rfl, rfl⟩ := h
        have hclosed : allClosed n = true := by
          rcases hs.2 with h2 | h2
          · simp at h2
          · exact h2
        have hn1 : n1.feats = n.feats := by
          simp only [Norm.insert, Option.some.injEq] at hi; subst hi; rfl
        have hnil := emitFeats_all_closed n1.feats hok1 (by rw [hn1]; exact hclosed)
        refine ⟨?_, hok2, by simp, fun _ _ => ⟨by simp [buffered, hnil, bufFeats], rfl⟩, fun hh => absurd hh hem, fun _ hh => absurd rfl hh⟩
        simp only [buffered, hno, Ev.isRunLevel, Bool.false_eq_true, if_false, nil_append, append_nil,
          show (Fin.no == Fin.pending) = false from rfl, show (Fin.emitted == Fin.pending) = false from rfl]
        have hq : queued Ev.finished = [] := by simp [queued]
        rw [hq, append_nil] at hp
        rw [append_assoc]
        have : (emitFeats n1.feats).1 ++ ([Ev.finished] ++ bufFeats (emitFeats n1.feats).2) ~
            ((emitFeats n1.feats).1 ++ bufFeats (emitFeats n1.feats).2) ++ [Ev.finished] := by
          rw [append_assoc]; exact Perm.append_left _ perm_append_comm
        rw [heq] at this
        exact this.trans (hp.append_right _)
      · have hf' : (e == Ev.finished) = false := by simpa using hf
        simp only [hf', Bool.false_eq_true, if_false] at hfin1
        have hn1p : (n1.fin == Fin.pending) = false := by rw [hfin1, hno]; rfl
        simp only [hn1p, Bool.false_eq_true, if_false, Option.some.injEq, Prod.mk.injEq] at h
        obtain ⟨rfl, rfl⟩ := h
        refine ⟨?_, hok2, by simp [hfin1, hno], fun hh => absurd hh hf, fun hh => absurd hh hem, fun _ _ => by simp [hfin1, hno]⟩
        simp only [buffered, hfin1, hno, show (Fin.no == Fin.pending) = false from rfl, Bool.false_eq_true, if_false, append_nil]
        by_cases hr : e.isRunLevel = true
        · have hq : queued e = [] := by simp [queued, hr]
          rw [hq, append_nil] at hp
          simp only [hr, if_true]
          rw [append_assoc, heq]
          exact (perm_append_comm).trans (hp.append_right _)
        · have hr' : e.isRunLevel = false := by simpa using hr
          have hq : queued e = [e] := by simp [queued, hr', hf']
          rw [hq] at hp
          simp only [hr', Bool.false_eq_true, if_false, nil_append]
          rw [heq]; exact hp

/-- **T0 + T1.** Along any contract-abiding run no panic branch is hit, and at every moment
    `forwarded ++ still-owed` is a permutation of `received`. -/
theorem norm_T1_perm_from (n : Norm) (evs : List Ev) (hok : NormOk n) (hfin : n.fin ≠ .pending)
    (hemp : n.fin = .emitted → buffered n = [])
    (hs : SafeRun n evs = true) :
    ∃ n' outs, normRun n evs = some (n', outs) ∧ outs.flatten ++ buffered n' ~ buffered n ++ evs ∧
      NormOk n' ∧ n'.fin ≠ .pending ∧ (n'.fin = .emitted → buffered n' = []) := by
  induction evs generalizing n with
  | nil => exact ⟨n, [], rfl, by simp, hok, hfin, hemp⟩
  | cons e es ih =>
    simp only [SafeRun, Bool.and_eq_true] at hs
    cases hh : n.handle e with
    | none => simp [hh] at hs
    | some r =>
      obtain ⟨n1, out⟩ := r
      simp only [hh] at hs
      obtain ⟨hp, hok1, hfin1, hA, hB, hC⟩ := handle_step n n1 e out hok hfin hs.1 hh
      have hemp1 : n1.fin = .emitted → buffered n1 = [] := by
        intro h1
        by_cases hem : n.fin = .emitted
        · obtain ⟨rfl, _⟩ := hB hem; exact hemp hem
        · by_cases hf : e = .finished
          · exact (hA hf hem).1
          · exact absurd h1 (hC hem hf)
      obtain ⟨n', outs, hrun, hperm, hok', hfin', hemp'⟩ := ih n1 hok1 hfin1 hemp1 hs.2
      refine ⟨n', out :: outs, by simp [normRun, hh, hrun], ?_, hok', hfin', hemp'⟩
      simp only [flatten_cons]
      rw [append_assoc]
      have h1 : out ++ (outs.flatten ++ buffered n') ~ out ++ (buffered n1 ++ es) := Perm.append_left _ hperm
      have h2 : out ++ (buffered n1 ++ es) ~ (buffered n ++ [e]) ++ es := by
        rw [← append_assoc]; exact hp.append_right _
      exact h1.trans (h2.trans (by simp))

theorem normRun_append (n : Norm) (a b : List Ev) :
    normRun n (a ++ b) = (normRun n a).bind (fun r => (normRun r.1 b).map (fun r2 => (r2.1, r.2 ++ r2.2))) := by
  induction a generalizing n with
  | nil => simp [normRun]
  | cons e es ih =>
    simp only [cons_append, normRun]
    cases h : n.handle e with
    | none => simp
    | some r =>
      obtain ⟨n1, out⟩ := r
      simp only [ih]
      cases normRun n1 es with
      | none => simp
      | some r1 =>
        obtain ⟨n2, outs⟩ := r1
        simp only [Option.bind_some]
        cases normRun n2 b <;> simp

theorem safeRun_append (n : Norm) (a b : List Ev) (h : SafeRun n (a ++ b) = true) :
    SafeRun n a = true ∧ ∀ n' outs, normRun n a = some (n', outs) → SafeRun n' b = true := by
  induction a generalizing n with
  | nil =>
    refine ⟨rfl, fun n' outs hr => ?_⟩
    simp only [normRun, Option.some.injEq, Prod.mk.injEq] at hr
    obtain ⟨rfl, _⟩ := hr
    exact h
  | cons e es ih =>
    simp only [cons_append, SafeRun, Bool.and_eq_true] at h ⊢
    cases hh : n.handle e with
    | none => simp [hh] at h
    | some r =>
      obtain ⟨n1, out⟩ := r
      simp only [hh] at h ⊢
      have := ih n1 h.2
      refine ⟨⟨h.1, this.1⟩, ?_⟩
      intro n' outs hr
      simp only [normRun, hh] at hr
      cases hr2 : normRun n1 es with
      | none => simp [hr2] at hr
      | some r2 =>
        obtain ⟨n2, outs2⟩ := r2
        simp only [hr2, Option.some.injEq, Prod.mk.injEq] at hr
        obtain ⟨rfl, _⟩ := hr
        exact this.2 n2 outs2 hr2

theorem proj_queued (κ : AKey) (e : Ev) : proj κ (queued e) = proj κ [e] := by
  unfold queued
  split
  · rename_i h
    have : evKey? e = none := by
      cases e <;> simp_all [Ev.isRunLevel, evKey?]
    simp [proj_nonscen κ e this]
  · rfl

theorem proj_direct (κ : AKey) (e : Ev) : proj κ (if e.isRunLevel then [e] else []) = [] := by
  split
  · rename_i h
    have : evKey? e = none := by cases e <;> simp_all [Ev.isRunLevel, evKey?]
    exact proj_nonscen κ e this
  · rfl

/-- **Step (order)**: for every attempt key κ, what one `handle_event` forwards under κ followed by what is
    still owed under κ is exactly what was owed under κ before followed by the event received — as LISTS
    (order included), not just as multisets. Distinctness of the queue keys is an invariant. -/
theorem handle_proj (n n' : Norm) (e : Ev) (out : List Ev) (hd : NormD n) (hok : NormOk n) (hfin : n.fin ≠ .pending)
    (hemp : n.fin = .emitted → buffered n = [])
    (hs : safeStep n e = true) (h : n.handle e = some (n', out)) (κ : AKey) :
    proj κ (out ++ buffered n') = proj κ (buffered n ++ [e]) ∧ NormD n' := by
  unfold Norm.handle at h
  by_cases hem : n.fin = .emitted
  · simp only [hem, beq_self_eq_true, if_true, Option.some.injEq, Prod.mk.injEq] at h
    obtain ⟨rfl, rfl⟩ := h
    rw [hemp hem]
    exact ⟨by simp, hd⟩
  · have hem' : (n.fin == Fin.emitted) = false := by simpa using hem
    have hno : n.fin = .no := by cases hn : n.fin <;> simp_all
    simp only [hem', Bool.false_eq_true, if_false] at h
    simp only [safeStep, hem', Bool.false_or, Bool.and_eq_true] at hs
    cases hi : n.insert e with
    | none => simp [hi] at h
    | some n1 =>
      simp only [hi] at h
      obtain ⟨hp, hd1⟩ := insert_proj n n1 e hd hs.1 hi κ
      obtain ⟨_, hok1, _⟩ := insert_perm n n1 e hok hs.1 hi
      obtain ⟨heq, _⟩ := emitFeats_eq n1.feats hok1
      have hd2 := emitFeats_D n1.feats hd1
      have hcore : proj κ (emitFeats n1.feats).1 ++ proj κ (bufFeats (emitFeats n1.feats).2) =
          proj κ (bufFeats n.feats) ++ proj κ [e] := by
        rw [← proj_append, heq, hp, proj_queued]
      have hfinished : proj κ [Ev.finished] = [] := proj_nonscen κ _ rfl
      split at h
      · simp only [Option.some.injEq, Prod.mk.injEq] at h
        obtain ⟨rfl, rfl⟩ := h
        refine ⟨?_, hd2⟩
        simp only [buffered, hno, show (Fin.no == Fin.pending) = false from rfl,
          show (Fin.emitted == Fin.pending) = false from rfl, Bool.false_eq_true, if_false, append_nil,
          proj_append, proj_direct, hfinished, nil_append]
        exact hcore
      · rename_i hnp
        simp only [Option.some.injEq, Prod.mk.injEq] at h
        obtain ⟨rfl, rfl⟩ := h
        refine ⟨?_, hd2⟩
        have hnp' : (n1.fin == Fin.pending) = false := by simpa using hnp
        simp only [buffered, hno, show (Fin.no == Fin.pending) = false from rfl, hnp', Bool.false_eq_true, if_false,
          append_nil, proj_append, proj_direct, nil_append]
        exact hcore

/-- along a contract-abiding run, for every attempt key: forwarded ++ still owed = received, in order -/
theorem norm_T3_from (n : Norm) (evs : List Ev) (hd : NormD n) (hok : NormOk n) (hfin : n.fin ≠ .pending)
    (hemp : n.fin = .emitted → buffered n = [])
    (hs : SafeRun n evs = true) (κ : AKey) :
    ∃ n' outs, normRun n evs = some (n', outs) ∧ proj κ (outs.flatten ++ buffered n') = proj κ (buffered n ++ evs) := by
  induction evs generalizing n with
  | nil => exact ⟨n, [], rfl, by simp⟩
  | cons e es ih =>
    simp only [SafeRun, Bool.and_eq_true] at hs
    cases hh : n.handle e with
    | none => simp [hh] at hs
    | some r =>
      obtain ⟨n1, out⟩ := r
      simp only [hh] at hs
      obtain ⟨_, hok1, hfin1, hA, hB, hC⟩ := handle_step n n1 e out hok hfin hs.1 hh
      obtain ⟨hp, hd1⟩ := handle_proj n n1 e out hd hok hfin hemp hs.1 hh κ
      have hemp1 : n1.fin = .emitted → buffered n1 = [] := by
        intro h1
        by_cases hem : n.fin = .emitted
        · obtain ⟨rfl, _⟩ := hB hem; exact hemp hem
        · by_cases hf : e = .finished
          · exact (hA hf hem).1
          · exact absurd h1 (hC hem hf)
      obtain ⟨n', outs, hrun, hperm⟩ := ih n1 hd1 hok1 hfin1 hemp1 hs.2
      refine ⟨n', out :: outs, by simp [normRun, hh, hrun], ?_⟩
      simp only [flatten_cons, proj_append] at hperm hp ⊢
      rw [append_assoc, hperm, ← append_assoc, hp]
      rw [show e :: es = [e] ++ es from rfl, proj_append]
      simp [append_assoc]

/-- the clause of the Runner contract that T2 needs on top of `SafeRun`: an attempt's first event is its
    `Started`, which is not repeated while the attempt is queued (stated, like `SafeRun`, relative to the
    normalizer's own bookkeeping; evaluated on every generated contract stream by `mon.c11`) -/
def StartsRun : Norm → List Ev → Bool
  | _, [] => true
  | n, e :: es =>
    startsRightN n e &&
    match n.handle e with
    | some (n', _) => StartsRun n' es
    | none => false

/-- **Step (sequential)**: while run-Finished has not been received, what one `handle_event` forwards is
    accepted by the strict sequential automaton from the state the queue shows before, and leads to the
    state the queue shows afterwards. -/
theorem handle_seq (n n' : Norm) (e : Ev) (out : List Ev) (hok : NormOk n) (hw : featsWF n.feats = true)
    (hno : n.fin = .no) (hne : e ≠ .finished) (hs : safeStep n e = true) (hc : startsRightN n e = true)
    (h : n.handle e = some (n', out)) :
    seqRun (featsSt n.feats) out = some (featsSt n'.feats) ∧ featsWF n'.feats = true ∧ NormOk n' ∧ n'.fin = .no := by
  unfold Norm.handle at h
  have hem' : (n.fin == Fin.emitted) = false := by rw [hno]; rfl
  simp only [hem', Bool.false_eq_true, if_false] at h
  simp only [safeStep, hem', Bool.false_or, Bool.and_eq_true] at hs
  cases hi : n.insert e with
  | none => simp [hi] at h
  | some n1 =>
    simp only [hi] at h
    obtain ⟨_, hok1, hfin1⟩ := insert_perm n n1 e hok hs.1 hi
    obtain ⟨hst1, hw1⟩ := insert_seq n n1 e hs.1 hc hw hi
    obtain ⟨_, hok2⟩ := emitFeats_eq n1.feats hok1
    obtain ⟨hrun, hw2⟩ := emitFeats_seq n1.feats hok1 hw1
    have hf' : (e == Ev.finished) = false := by simpa using hne
    simp only [hf', Bool.false_eq_true, if_false] at hfin1
    have hn1p : (n1.fin == Fin.pending) = false := by rw [hfin1, hno]; rfl
    simp only [hn1p, Bool.false_eq_true, if_false, Option.some.injEq, Prod.mk.injEq] at h
    obtain ⟨rfl, rfl⟩ := h
    refine ⟨?_, hw2, hok2, by simp [hfin1, hno]⟩
    rw [seqRun_append, ← hst1]
    have hdirect : seqRun (featsSt n1.feats) (if e.isRunLevel then [e] else []) = some (featsSt n1.feats) := by
      have hnf : (featsSt n1.feats).finished = false := by
        cases hfs : n1.feats with
        | nil => rfl
        | cons fq rest =>
          simp only [featsSt, featSt]
          split
          · rfl
          · cases hit : fq.2.items with
            | nil => rfl
            | cons it rest2 =>
              cases it with
              | att a => rfl
              | rule r q => simp only [itemsSt, ruleSt]; split <;> rfl
      split
      · rename_i hr
        rw [seqRun_cons]
        have : seqStep (featsSt n1.feats) e = some (featsSt n1.feats) := by
          cases e <;> simp_all [Ev.isRunLevel, seqStep]
        rw [this]; rfl
      · rfl
    rw [hdirect]
    exact hrun

/-- along a run that has not seen run-Finished: the automaton state after everything forwarded is the one
    the queue shows -/
theorem norm_T2_from (n : Norm) (evs : List Ev) (hok : NormOk n) (hw : featsWF n.feats = true) (hno : n.fin = .no)
    (hnf : ∀ e ∈ evs, e ≠ Ev.finished) (hs : SafeRun n evs = true) (hc : StartsRun n evs = true) :
    ∃ n' outs, normRun n evs = some (n', outs) ∧ seqRun (featsSt n.feats) outs.flatten = some (featsSt n'.feats) ∧
      featsWF n'.feats = true ∧ NormOk n' ∧ n'.fin = .no := by
  induction evs generalizing n with
  | nil => exact ⟨n, [], rfl, rfl, hw, hok, hno⟩
  | cons e es ih =>
    simp only [SafeRun, Bool.and_eq_true] at hs
    simp only [StartsRun, Bool.and_eq_true] at hc
    cases hh : n.handle e with
    | none => simp [hh] at hs
    | some r =>
      obtain ⟨n1, out⟩ := r
      simp only [hh] at hs hc
      obtain ⟨hrun1, hw1, hok1, hno1⟩ := handle_seq n n1 e out hok hw hno (hnf e (by simp)) hs.1 hc.1 hh
      obtain ⟨n', outs, hrun, hseq, hw', hok', hno'⟩ := ih n1 hok1 hw1 hno1 (fun x hx => hnf x (by simp [hx])) hs.2 hc.2
      refine ⟨n', out :: outs, by simp [normRun, hh, hrun], ?_, hw', hok', hno'⟩
      rw [flatten_cons, seqRun_append, hrun1]
      exact hseq

theorem handle_drained (n n' : Norm) (e : Ev) (out : List Ev) (hd : headDrained n.feats = true)
    (h : n.handle e = some (n', out)) : headDrained n'.feats = true := by
  unfold Norm.handle at h
  split at h
  · simp only [Option.some.injEq, Prod.mk.injEq] at h; rw [← h.1]; exact hd
  · cases hi : n.insert e with
    | none => simp [hi] at h
    | some n1 =>
      simp only [hi] at h
      split at h <;> (simp only [Option.some.injEq, Prod.mk.injEq] at h; rw [← h.1]; exact emitFeats_drained _)

theorem normRun_drained (n n' : Norm) (evs : List Ev) (outs : List (List Ev)) (hd : headDrained n.feats = true)
    (h : normRun n evs = some (n', outs)) : headDrained n'.feats = true := by
  induction evs generalizing n outs with
  | nil => simp only [normRun, Option.some.injEq, Prod.mk.injEq] at h; rw [← h.1]; exact hd
  | cons e es ih =>
    simp only [normRun] at h
    cases hh : n.handle e with
    | none => simp [hh] at h
    | some r =>
      obtain ⟨n1, out⟩ := r
      simp only [hh] at h
      cases hr : normRun n1 es with
      | none => simp [hr] at h
      | some r2 =>
        obtain ⟨n2, outs2⟩ := r2
        simp only [hr, Option.some.injEq, Prod.mk.injEq] at h
        obtain ⟨rfl, _⟩ := h
        exact ih n1 outs2 (handle_drained n n1 e out hd hh) hr

/-- run-Finished has not been seen: the queue is still open -/
theorem normRun_fin_no (n n' : Norm) (evs : List Ev) (outs : List (List Ev)) (hok : NormOk n) (hfin : n.fin = .no)
    (hnf : ∀ e ∈ evs, e ≠ Ev.finished) (hs : SafeRun n evs = true) (hr : normRun n evs = some (n', outs)) :
    n'.fin = .no := by
  induction evs generalizing n outs with
  | nil => simp only [normRun, Option.some.injEq, Prod.mk.injEq] at hr; obtain ⟨rfl, _⟩ := hr; exact hfin
  | cons e es ih =>
    simp only [SafeRun, Bool.and_eq_true] at hs
    simp only [normRun] at hr
    cases hh : n.handle e with
    | none => simp [hh] at hs
    | some r =>
      obtain ⟨n1, out⟩ := r
      simp only [hh] at hs hr
      obtain ⟨_, hok1, hfin1, _, _, hC⟩ := handle_step n n1 e out hok (by rw [hfin]; decide) hs.1 hh
      have hne : n1.fin ≠ .emitted := hC (by rw [hfin]; decide) (hnf e (by simp))
      have hno : n1.fin = .no := by cases hn : n1.fin <;> simp_all
      cases hr2 : normRun n1 es with
      | none => simp [hr2] at hr
      | some r2 =>
        obtain ⟨n2, outs2⟩ := r2
        simp only [hr2, Option.some.injEq, Prod.mk.injEq] at hr
        obtain ⟨rfl, _⟩ := hr
        exact ih n1 outs2 hok1 hno (fun e he => hnf e (by simp [he])) hs.2 hr2

/-- the two regimes of the simulation: before run-Finished the queue mirrors the ledger; after it the queue
    is empty and everything passes through -/
def Mirrors (c : CSt) (n : Norm) : Prop :=
  (c.fin = false ∧ n.fin = .no ∧ Inv c n.feats) ∨ (c.fin = true ∧ n.fin = .emitted ∧ n.feats = [])

theorem contract_step (c c' : CSt) (n : Norm) (e : Ev) (hwf : CWf c) (hok : NormOk n) (hd : NormD n)
    (hm : Mirrors c n) (hstep : c.step e = some c') :
    safeStep n e = true ∧ startsRightN n e = true ∧
    ∃ n' out, n.handle e = some (n', out) ∧ CWf c' ∧ NormOk n' ∧ NormD n' ∧ Mirrors c' n' := by
  have hwf' := cwf_step c c' e hwf hstep
  rcases hm with ⟨hcf, hno, hinv⟩ | ⟨hcf, hem, hnil⟩
  · obtain ⟨hsafe, hstart, hclosed⟩ := contract_safe c c' n e hwf hinv hd hcf hstep
    have hss : safeStep n e = true := by
      simp only [safeStep, hno, hsafe, Bool.true_and, Bool.or_eq_true, Bool.not_eq_true']
      right
      by_cases hf : e = .finished
      · right; exact hclosed hf
      · left; simpa using hf
    refine ⟨hss, hstart, ?_⟩
    obtain ⟨n1, hi⟩ := insert_some n e hsafe
    obtain ⟨_, hok1, hfin1⟩ := insert_perm n n1 e hok hsafe hi
    have hd1 : NormD n1 := (insert_proj n n1 e hd hsafe hi (⟨0, none, 0⟩, none)).2
    have hinv1 := inv_insert c c' n n1 e hwf hinv hd hcf hstep hi
    obtain ⟨_, hok2⟩ := emitFeats_eq n1.feats hok1
    have hd2 := emitFeats_D n1.feats hd1
    have hinv2 := inv_emit c' n1.feats hwf' hok1 hinv1
    have hem' : (n.fin == Fin.emitted) = false := by rw [hno]; rfl
    by_cases hf : e = .finished
    · subst hf
      simp only [beq_self_eq_true, if_true] at hfin1
      have hn1 : n1.feats = n.feats := by
        simp only [Norm.insert, Option.some.injEq] at hi; subst hi; rfl
      have hnil := emitFeats_all_closed n1.feats hok1 (by rw [hn1]; exact hclosed rfl)
      refine ⟨{ feats := (emitFeats n1.feats).2, fin := .emitted },
        (if Ev.finished.isRunLevel then [Ev.finished] else []) ++ (emitFeats n1.feats).1 ++ [.finished], ?_, hwf', hok2, hd2, ?_⟩
      · simp only [Norm.handle, hem', Bool.false_eq_true, if_false, hi, hfin1, beq_self_eq_true, if_true]
      · exact Or.inr ⟨(cstep_fin c c' _ hcf hstep).mpr rfl, rfl, hnil⟩
    · have hf' : (e == Ev.finished) = false := by simpa using hf
      simp only [hf', Bool.false_eq_true, if_false] at hfin1
      have hn1p : (n1.fin == Fin.pending) = false := by rw [hfin1, hno]; rfl
      refine ⟨{ n1 with feats := (emitFeats n1.feats).2 },
        (if e.isRunLevel then [e] else []) ++ (emitFeats n1.feats).1, ?_, hwf', hok2, hd2, ?_⟩
      · simp only [Norm.handle, hem', Bool.false_eq_true, if_false, hi, hn1p]
      · refine Or.inl ⟨?_, by simp [hfin1, hno], hinv2⟩
        cases hc : c'.fin with
        | false => rfl
        | true => exact absurd ((cstep_fin c c' _ hcf hstep).mp hc) hf
  · have hc' : c' = c := by
      simp only [CSt.step, hcf, if_true, Option.some.injEq] at hstep
      exact hstep.symm
    subst hc'
    have hem' : (n.fin == Fin.emitted) = true := by rw [hem]; rfl
    refine ⟨by simp [safeStep, hem'], ?_, n, [e], by simp [Norm.handle, hem'], hwf, hok, hd, Or.inr ⟨hcf, hem, hnil⟩⟩
    cases e with
    | scen k ret ev => simp [startsRightN, featIn, hnil]
    | _ => simp [startsRightN]

theorem contract_safeRun_from (c : CSt) (n : Norm) (evs : List Ev) (hwf : CWf c) (hok : NormOk n) (hd : NormD n)
    (hm : Mirrors c n) (h : contractFrom c evs = true) :
    SafeRun n evs = true ∧ StartsRun n evs = true := by
  induction evs generalizing c n with
  | nil => simp [SafeRun, StartsRun]
  | cons e es ih =>
    simp only [contractFrom] at h
    cases hstep : c.step e with
    | none => simp [hstep] at h
    | some c' =>
      simp only [hstep] at h
      obtain ⟨hss, hstart, n', out, hh, hwf', hok', hd', hm'⟩ := contract_step c c' n e hwf hok hd hm hstep
      obtain ⟨ih1, ih2⟩ := ih c' n' hwf' hok' hd' hm' h
      simp [SafeRun, StartsRun, hss, hstart, hh, ih1, ih2]

theorem safeRun_runs (n : Norm) (evs : List Ev) (h : SafeRun n evs = true) : ∃ n' outs, normRun n evs = some (n', outs) := by
  induction evs generalizing n with
  | nil => exact ⟨n, [], rfl⟩
  | cons e es ih =>
    simp only [SafeRun, Bool.and_eq_true] at h
    cases hh : n.handle e with
    | none => simp [hh] at h
    | some r =>
      obtain ⟨n1, out⟩ := r
      simp only [hh] at h
      obtain ⟨n2, outs, hr⟩ := ih n1 h.2
      exact ⟨n2, out :: outs, by simp [normRun, hh, hr]⟩

end Cuke.C11
