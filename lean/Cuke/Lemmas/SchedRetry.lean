import Cuke.Lemmas.SchedInv
/-!
  C05 over whole runs of the scheduler LTS: every entry the scheduler ever holds (queued, in the batch just
  taken, or running) DESCENDS from the entry `Features::insert` built for a scenario of a delivered feature:
  same scenario, same serial flag, and its retry options are the initial ones moved `k` steps by
  `next_try` — `current + left` is constant, the delay is unchanged, and "no options" stays "no options".
  So no attempt numbered beyond the configured budget is ever queued or dispatched, in any run of any length.
  `GoodRQ` = the log raised no disagreement of the classes the retry bookkeeping depends on (R, Q).
-/
namespace Cuke.SchedRetry
open Cuke List Cuke.SchedL Cuke.SchedInv

set_option linter.unusedSimpArgs false
set_option linter.unusedVariables false

def GoodRQ (s : SState) : Bool := s.dis.all (fun d => d.cls != .R && d.cls != .Q)

theorem goodRQ_note (s : SState) (cls : DClass) (m : String) (h : GoodRQ (s.note cls m) = true) :
    GoodRQ s = true ∧ cls ≠ .R ∧ cls ≠ .Q := by
  simp only [GoodRQ, SState.note, all_append, Bool.and_eq_true, all_cons, all_nil, Bool.and_true] at h ⊢
  exact ⟨h.1, by simpa using h.2.1, by simpa using h.2.2⟩

theorem goodRQ_of_prefix (s s' : SState) (h : s.dis <+: s'.dis) (hg : GoodRQ s' = true) : GoodRQ s = true := by
  obtain ⟨t, ht⟩ := h
  simp only [GoodRQ, ← ht, all_append, Bool.and_eq_true] at hg
  exact hg.1

theorem goodRQ_step_mono (c : SCfg) (s : SState) (l : Label) (hg : GoodRQ (stepL c s l) = true) : GoodRQ s = true :=
  goodRQ_of_prefix s _ (dis_prefix c s l) hg

/-- everything the scheduler holds -/
def ents (s : SState) : List Entry := s.q.serial ++ s.q.conc ++ s.batch ++ s.running

/-- the retry options are the initial ones moved some steps by `next_try` -/
def retDesc : Option RetryOptions → Option RetryOptions → Prop
  | none, none => True
  | some o0, some o => o.retries.current + o.retries.left = o0.retries.current + o0.retries.left ∧ o.after = o0.after
  | _, _ => False

def Desc (e0 e : Entry) : Prop := e.key = e0.key ∧ e.serial = e0.serial ∧ retDesc e0.ret e.ret

/-- an entry `Features::insert` builds for a scenario of a feature of the run -/
def Origin (c : SCfg) (e0 : Entry) : Prop := ∃ ft ∈ c.feats, e0 ∈ newEntries c ft

def RInv (c : SCfg) (s : SState) : Prop := ∀ e ∈ ents s, ∃ e0, Origin c e0 ∧ Desc e0 e

theorem retDesc_refl (r : Option RetryOptions) : retDesc r r := by
  cases r <;> simp [retDesc]

theorem retDesc_next (r0 r : Option RetryOptions) (o : RetryOptions) (h : retDesc r0 r) (hn : nextTry r true = some o) :
    retDesc r0 (some o) := by
  cases r with
  | none => simp [nextTry] at hn
  | some o1 =>
    cases r0 with
    | none => simp [retDesc] at h
    | some o0 =>
      simp only [retDesc] at h ⊢
      unfold nextTry RetryOptions.nextTry Retries.nextTry at hn
      simp only [if_true] at hn
      by_cases hl : o1.retries.left = 0
      · simp [hl] at hn
      · simp only [hl, if_false, Option.some.injEq] at hn
        subst hn
        simp only
        refine ⟨?_, h.2⟩
        omega

/-! ## membership through the queue operations -/

theorem mem_adoptIds (model : List Entry) (probe : List QE) (e' : Entry) (h : e' ∈ adoptIds model probe) :
    ∃ e ∈ model, e'.key = e.key ∧ e'.serial = e.serial ∧ e'.ret = e.ret := by
  simp only [adoptIds, mem_map] at h
  obtain ⟨p, hp, rfl⟩ := h
  exact ⟨p.1, (of_mem_zip hp).1, rfl, rfl, rfl⟩

theorem mem_insertInitial (q : Queues) (a b : List Entry) (e : Entry)
    (h : e ∈ (insertInitial q a b).serial ++ (insertInitial q a b).conc) :
    e ∈ q.serial ++ q.conc ∨ e ∈ a ∨ e ∈ b := by
  unfold insertInitial at h
  split at h
  · simp only [mem_append] at h ⊢
    rcases h with h | h | h
    · exact Or.inl (Or.inl h)
    · exact Or.inl (Or.inr h)
    · exact Or.inr (Or.inr h)
  · split at h
    · simp only [mem_append] at h ⊢
      rcases h with (h | h) | h
      · exact Or.inr (Or.inl h)
      · exact Or.inl (Or.inl h)
      · exact Or.inl (Or.inr h)
    · simp only [mem_append] at h ⊢
      rcases h with (h | h) | (h | h)
      · exact Or.inr (Or.inl h)
      · exact Or.inl (Or.inl h)
      · exact Or.inr (Or.inr h)
      · exact Or.inl (Or.inr h)

theorem mem_insertRetried (q : Queues) (ne : Entry) (now : Nat) (e : Entry)
    (h : e ∈ (insertRetried q ne now).serial ++ (insertRetried q ne now).conc) :
    e ∈ q.serial ++ q.conc ∨ (e.key = ne.key ∧ e.serial = ne.serial ∧ e.ret = ne.ret) := by
  unfold insertRetried at h
  simp only at h
  split at h
  · simp only [mem_append, mem_cons] at h ⊢
    rcases h with (h | h) | h
    · subst h; exact Or.inr ⟨rfl, rfl, rfl⟩
    · exact Or.inl (Or.inl h)
    · exact Or.inl (Or.inr h)
  · simp only [mem_append, mem_cons] at h ⊢
    rcases h with h | (h | h)
    · exact Or.inl (Or.inl h)
    · subst h; exact Or.inr ⟨rfl, rfl, rfl⟩
    · exact Or.inl (Or.inr h)

theorem mem_drainQ (ready : Entry → Bool) (cnt : Option Nat) (l : List Entry) (e : Entry)
    (h : e ∈ (drainQ ready cnt l).1 ∨ e ∈ (drainQ ready cnt l).2.1) : e ∈ l := by
  induction l generalizing cnt with
  | nil => simp [drainQ] at h
  | cons a rest ih =>
    unfold drainQ at h
    split at h
    · simpa using h
    · split at h
      · simp only [mem_cons] at h ⊢
        rcases h with (h | h) | h
        · exact Or.inl h
        · exact Or.inr (ih _ (Or.inl h))
        · exact Or.inr (ih _ (Or.inr h))
      · simp only [mem_cons] at h ⊢
        rcases h with h | (h | h)
        · exact Or.inr (ih _ (Or.inl h))
        · exact Or.inl h
        · exact Or.inr (ih _ (Or.inr h))

theorem mem_getBatch (ready : Entry → Bool) (ask : Option Nat) (q : Queues) (e : Entry)
    (h : e ∈ (getBatch ready ask q).1 ∨ e ∈ (getBatch ready ask q).2.1.serial ∨ e ∈ (getBatch ready ask q).2.1.conc) :
    e ∈ q.serial ++ q.conc := by
  unfold getBatch at h
  simp only [mem_append]
  split at h
  · rcases h with h | h | h
    · simp at h
    · exact Or.inl h
    · exact Or.inr h
  · simp only at h
    split at h
    · rcases h with h | h | h
      · exact Or.inl (mem_drainQ _ _ _ _ (Or.inl h))
      · exact Or.inl (mem_drainQ _ _ _ _ (Or.inr h))
      · exact Or.inr h
    · rcases h with h | h | h
      · exact Or.inr (mem_drainQ _ _ _ _ (Or.inl h))
      · exact Or.inl (mem_drainQ _ _ _ _ (Or.inr h))
      · exact Or.inr (mem_drainQ _ _ _ _ (Or.inr h))

/-! ## labels that do not touch the entries -/

syntax "ents_simp" : tactic
macro_rules
  | `(tactic| ents_simp) => `(tactic|
      (simp only [stepL]
       repeat' split
       all_goals (first
         | rfl
         | (simp [ents, SState.note, SState.inPhase, SState.checkExpectDone] <;> (repeat' split) <;> simp [SState.note]))))

theorem ents_tx (c : SCfg) (s : SState) (e : Ev) : ents (stepL c s (.tx e)) = ents s := by ents_simp
theorem ents_rx (c : SCfg) (s : SState) (e : Ev) : ents (stepL c s (.rx e)) = ents s := by ents_simp
theorem ents_other (c : SCfg) (s : SState) : ents (stepL c s .other) = ents s := by ents_simp
theorem ents_verdict (c : SCfg) (s : SState) (b : Bool) (x y z : Nat) : ents (stepL c s (.verdict b x y z)) = ents s := by ents_simp
theorem ents_poll (c : SCfg) (s : SState) : ents (stepL c s .poll) = ents s := by ents_simp
theorem ents_cbIn (c : SCfg) (s : SState) (a b t : Nat) : ents (stepL c s (.cbIn a b t)) = ents s := by ents_simp
theorem ents_cbOut (c : SCfg) (s : SState) (a b t : Nat) : ents (stepL c s (.cbOut a b t)) = ents s := by ents_simp
theorem ents_env (c : SCfg) (s : SState) : ents (stepL c s .envMove) = ents s := by ents_simp
theorem ents_hookTake (c : SCfg) (s : SState) : ents (stepL c s .hookTake) = ents s := by ents_simp
theorem ents_hookRestore (c : SCfg) (s : SState) : ents (stepL c s .hookRestore) = ents s := by ents_simp
theorem ents_exit (c : SCfg) (s : SState) : ents (stepL c s .exit) = ents s := by ents_simp
theorem ents_pPend (c : SCfg) (s : SState) : ents (stepL c s .pPend) = ents s := by ents_simp
theorem ents_pWake (c : SCfg) (s : SState) : ents (stepL c s .pWake) = ents s := by ents_simp
theorem ents_pOk (c : SCfg) (s : SState) (f : Nat) : ents (stepL c s (.pOk f)) = ents s := by ents_simp
theorem ents_pErr (c : SCfg) (s : SState) : ents (stepL c s .pErr) = ents s := by ents_simp
theorem ents_pEnd (c : SCfg) (s : SState) : ents (stepL c s .pEnd) = ents s := by ents_simp
theorem ents_pFinish (c : SCfg) (s : SState) : ents (stepL c s .pFinish) = ents s := by ents_simp
theorem ents_get1 (c : SCfg) (s : SState) (t : Nat) (ask : Option Nat) (ns nc : Nat) : ents (stepL c s (.get1 t ask ns nc)) = ents s := by ents_simp
theorem ents_idle (c : SCfg) (s : SState) (f sl : Bool) : ents (stepL c s (.idle f sl)) = ents s := by ents_simp
theorem ents_idleYield (c : SCfg) (s : SState) : ents (stepL c s .idleYield) = ents s := by ents_simp
theorem ents_idleSlept (c : SCfg) (s : SState) : ents (stepL c s .idleSlept) = ents s := by ents_simp
theorem ents_idleContinue (c : SCfg) (s : SState) : ents (stepL c s .idleContinue) = ents s := by ents_simp
theorem ents_cons (c : SCfg) (s : SState) (b : Bool) : ents (stepL c s (.cons b)) = ents s := by ents_simp
theorem ents_notif (c : SCfg) (s : SState) (id : Nat) (f r : Bool) : ents (stepL c s (.notif id f r)) = ents s := by ents_simp
theorem ents_brk (c : SCfg) (s : SState) : ents (stepL c s .brk) = ents s := by ents_simp

/-! ## the four labels that move entries -/

theorem chk_q (s : SState) (b : Bool) (cls : DClass) (m : String) :
    (chk s b cls m).q = s.q ∧ (chk s b cls m).batch = s.batch ∧ (chk s b cls m).running = s.running := by
  unfold chk; split <;> simp [SState.note]

theorem disp5_fields (s : SState) (n : Nat) (slots : Slots) :
    (disp5 s n slots).q = s.q ∧ (disp5 s n slots).batch = s.batch ∧ (disp5 s n slots).running = s.running := by
  have h1 : (disp1 s).q = s.q ∧ (disp1 s).batch = s.batch ∧ (disp1 s).running = s.running := by
    simp only [disp1, SState.inPhase, SState.checkExpectDone]
    repeat' split
    all_goals simp [SState.note]
  have h3 : (disp3 s).q = s.q ∧ (disp3 s).batch = s.batch ∧ (disp3 s).running = s.running := by
    simpa [disp3] using h1
  have h4 := chk_q (disp3 s) (n == (disp3 s).batch.length) .K s!"dispatched {n}, batch {(disp3 s).batch.length}"
  have h5 := chk_q (disp4 s n) (slots == (disp4 s n).slots.onDispatch (disp4 s n).batch.length) .K
    s!"slots after dispatch {repr slots}, model {repr ((disp4 s n).slots.onDispatch (disp4 s n).batch.length)}"
  refine ⟨?_, ?_, ?_⟩
  · rw [disp5, h5.1, disp4, h4.1, h3.1]
  · rw [disp5, h5.2.1, disp4, h4.2.1, h3.2.1]
  · rw [disp5, h5.2.2, disp4, h4.2.2, h3.2.2]

theorem disp_rinv (c : SCfg) (s : SState) (n : Nat) (slots : Slots) (h : RInv c s) : RInv c (stepL c s (.disp n slots)) := by
  rw [disp_eq]
  obtain ⟨h1, h2, h3⟩ := disp5_fields s n slots
  intro e he
  apply h e
  simp only [ents, dispR, h1, h2, h3, append_nil, mem_append] at he ⊢
  rcases he with (he | he) | (he | he)
  · exact Or.inl (Or.inl (Or.inl he))
  · exact Or.inl (Or.inl (Or.inr he))
  · exact Or.inr he
  · exact Or.inl (Or.inr he)

theorem endA_rinv (c : SCfg) (s : SState) (id : Nat) (failed retried : Bool) (t : Nat) (h : RInv c s) :
    RInv c (stepL c s (.endA id failed retried t)) := by
  rw [endA_eq]
  intro e he
  apply h e
  unfold endR at he
  simp only at he
  split at he
  · simpa [ents, SState.note] using he
  · split at he
    · simp only [ents, mem_append] at he ⊢
      rcases he with he | he
      · exact Or.inl he
      · exact Or.inr (mem_of_mem_eraseP he)
    · simp only [ents, SState.note, mem_append] at he ⊢
      rcases he with he | he
      · exact Or.inl he
      · exact Or.inr (mem_of_mem_eraseP he)

theorem get2e_fields (s : SState) (slots : Slots) (running : Nat) :
    (get2e s slots running).q = s.q ∧ (get2e s slots running).batch = s.batch ∧ (get2e s slots running).running = s.running := by
  have ha : (get2a s).q = s.q ∧ (get2a s).batch = s.batch ∧ (get2a s).running = s.running := by
    simp only [get2a, SState.inPhase]
    repeat' split
    all_goals simp [SState.note]
  have hc : (get2c s).q = s.q ∧ (get2c s).batch = s.batch ∧ (get2c s).running = s.running := by
    simp only [get2c, SState.checkExpectDone]
    split <;> simp [SState.note, ha]
  have hd : (get2d s slots).q = s.q ∧ (get2d s slots).batch = s.batch ∧ (get2d s slots).running = s.running := by
    simp only [get2d]
    split <;> simp [SState.note, hc]
  simp only [get2e]
  split <;> simp [SState.note, hd]

theorem mem_filterMap_find (all : List Entry) (got : List Nat) (e : Entry)
    (h : e ∈ got.filterMap (fun i => all.find? (fun x => x.id == i))) : e ∈ all := by
  simp only [mem_filterMap] at h
  obtain ⟨i, _, hi⟩ := h
  exact mem_of_find?_eq_some hi

theorem get2_rinv (c : SCfg) (s : SState) (t2 : Nat) (slots : Slots) (got : List Nat) (sleep : Bool) (running : Nat)
    (h : RInv c s) : RInv c (stepL c s (.get2 t2 slots got sleep running)) := by
  rw [get2_eq]
  obtain ⟨h1, h2, h3⟩ := get2e_fields s slots running
  intro e he
  apply h e
  unfold get2R at he
  simp only at he
  split at he
  · -- the model's batch
    have hq : ∀ x, x ∈ (getBatch (get2ready (get2e s slots running) t2 got) (get2e s slots running).slots.ask s.q).1 ∨
        x ∈ (getBatch (get2ready (get2e s slots running) t2 got) (get2e s slots running).slots.ask s.q).2.1.serial ∨
        x ∈ (getBatch (get2ready (get2e s slots running) t2 got) (get2e s slots running).slots.ask s.q).2.1.conc →
        x ∈ s.q.serial ++ s.q.conc := fun x hx => mem_getBatch _ _ _ x hx
    split at he
    · simp only [ents, h1, h3, mem_append] at he ⊢
      rcases he with ((he | he) | he) | he
      · exact Or.inl (Or.inl (mem_append.mp (hq e (Or.inr (Or.inl he)))))
      · exact Or.inl (Or.inl (mem_append.mp (hq e (Or.inr (Or.inr he)))))
      · exact Or.inl (Or.inl (mem_append.mp (hq e (Or.inl he))))
      · exact Or.inr he
    · simp only [ents, SState.note, h1, h3, mem_append] at he ⊢
      rcases he with ((he | he) | he) | he
      · exact Or.inl (Or.inl (mem_append.mp (hq e (Or.inr (Or.inl he)))))
      · exact Or.inl (Or.inl (mem_append.mp (hq e (Or.inr (Or.inr he)))))
      · exact Or.inl (Or.inl (mem_append.mp (hq e (Or.inl he))))
      · exact Or.inr he
  · -- following the implementation: still a sub-collection of what was queued
    simp only [ents, SState.note, h1, h3, mem_append, mem_filter] at he ⊢
    rcases he with ((he | he) | he) | he
    · exact Or.inl (Or.inl (Or.inl he.1))
    · exact Or.inl (Or.inl (Or.inr he.1))
    · exact Or.inl (Or.inl (mem_append.mp (mem_filterMap_find _ got e he)))
    · exact Or.inr he

/-! ## insertion: a delivered feature, or a retried scenario -/

def insFresh (c : SCfg) (s : SState) (f : Nat) (ps pc : List QE) : SState :=
  let ft := (c.feat? f).getD ⟨f, [], [], []⟩
  let es := newEntries c ft
  let q' := insertInitial s.q (es.filter (·.serial)) (es.filter (fun e => !e.serial))
  let ok := sameShapes q'.serial ps false && sameShapes q'.conc pc false
  let s := { s with pendingFeat := none }
  if ok then { s with q := { serial := adoptIds q'.serial ps, conc := adoptIds q'.conc pc } }
  else (s.note .Q s!"queue after inserting feature {f} differs: model serial={repr (q'.serial.map Entry.shape)} conc={repr (q'.conc.map Entry.shape)}").followQueues c ps pc

def insRetry (c : SCfg) (s : SState) (t : Nat) (ps pc : List QE) : SState :=
  let known := (s.q.serial ++ s.q.conc).map (·.id)
  let fresh := (ps.map (fun p => (true, p)) ++ pc.map (fun p => (false, p))).filter (fun p => !known.contains p.2.id)
  match fresh with
  | [(ser, p)] =>
    match s.running.find? (fun e => e.key.scen == p.scen) with
    | none => (s.note .R s!"re-insertion of scenario {p.scen} which is not running").followQueues c ps pc
    | some e =>
      match (nextTry e.ret true).map (fun o => ({ e with id := p.id, ret := some o } : Entry)) with
      | none =>
        (s.note .R s!"scenario {p.scen} re-inserted although its retry budget is exhausted").followQueues c ps pc
      | some ne =>
        let q' := insertRetried s.q ne t
        let ok := sameShapes q'.serial ps false && sameShapes q'.conc pc false && ser == e.serial
        if ok then { s with q := { serial := adoptIds q'.serial ps, conc := adoptIds q'.conc pc } }
        else (s.note .Q s!"queue after re-inserting scenario {p.scen} differs: model serial={repr (q'.serial.map Entry.shape)} conc={repr (q'.conc.map Entry.shape)}").followQueues c ps pc
  | _ => (s.note .Q s!"INS without a pending feature and not a single new entry").followQueues c ps pc

def insR (c : SCfg) (s : SState) (t : Nat) (ps pc : List QE) : SState :=
  let s0 : SState := { s with pos := s.pos + 1 }
  match s0.pendingFeat with
  | some f => insFresh c s0 f ps pc
  | none => insRetry c s0 t ps pc

theorem ins_eq (c : SCfg) (s : SState) (t : Nat) (ps pc : List QE) : stepL c s (.ins t ps pc) = insR c s t ps pc := rfl

theorem followQueues_dis (s : SState) (c : SCfg) (ps pc : List QE) : (s.followQueues c ps pc).dis = s.dis := rfl

theorem not_good_follow (s : SState) (c : SCfg) (cls : DClass) (m : String) (ps pc : List QE) (hc : cls = .R ∨ cls = .Q) :
    GoodRQ ((s.note cls m).followQueues c ps pc) = false := by
  simp only [GoodRQ, followQueues_dis, SState.note, all_append, all_cons, all_nil, Bool.and_true]
  rcases hc with rfl | rfl <;> simp

theorem mem_filter_origin (c : SCfg) (ft : SFeat) (hft : ft ∈ c.feats) (p : Entry → Bool) (e : Entry)
    (h : e ∈ (newEntries c ft).filter p) : ∃ e0, Origin c e0 ∧ Desc e0 e :=
  ⟨e, ⟨ft, hft, (mem_filter.mp h).1⟩, rfl, rfl, retDesc_refl _⟩

theorem desc_of_same (e0 e e' : Entry) (h : Desc e0 e) (hk : e'.key = e.key) (hs : e'.serial = e.serial) (hr : e'.ret = e.ret) :
    Desc e0 e' := by
  unfold Desc at *
  rw [hk, hs, hr]; exact h

theorem insFresh_rinv (c : SCfg) (s : SState) (f : Nat) (ps pc : List QE) (h : RInv c s)
    (hg : GoodRQ (insFresh c s f ps pc) = true) : RInv c (insFresh c s f ps pc) := by
  generalize hX : insFresh c s f ps pc = X at hg ⊢
  unfold insFresh at hX
  simp only at hX
  split at hX
  · subst hX
    intro e he
    simp only [ents, mem_append] at he
    have hold : ∀ x, x ∈ s.q.serial ++ s.q.conc → ∃ e0, Origin c e0 ∧ Desc e0 x := by
      intro x hx
      apply h x
      simp only [ents, mem_append] at hx ⊢
      exact Or.inl (Or.inl hx)
    have hmodel : ∀ x, x ∈ (insertInitial s.q ((newEntries c ((c.feat? f).getD ⟨f, [], [], []⟩)).filter (·.serial))
          ((newEntries c ((c.feat? f).getD ⟨f, [], [], []⟩)).filter (fun e => !e.serial))).serial ++
        (insertInitial s.q ((newEntries c ((c.feat? f).getD ⟨f, [], [], []⟩)).filter (·.serial))
          ((newEntries c ((c.feat? f).getD ⟨f, [], [], []⟩)).filter (fun e => !e.serial))).conc →
        ∃ e0, Origin c e0 ∧ Desc e0 x := by
      intro x hx
      rcases mem_insertInitial _ _ _ x hx with h1 | h1 | h1
      · exact hold x h1
      · cases hft : c.feat? f with
        | none => simp [hft, newEntries, featScenarios] at h1
        | some ft =>
          rw [hft] at h1
          exact mem_filter_origin c ft (mem_of_find?_eq_some hft) _ x h1
      · cases hft : c.feat? f with
        | none => simp [hft, newEntries, featScenarios] at h1
        | some ft =>
          rw [hft] at h1
          exact mem_filter_origin c ft (mem_of_find?_eq_some hft) _ x h1
    rcases he with ((he | he) | he) | he
    · obtain ⟨x, hx, h1, h2, h3⟩ := mem_adoptIds _ _ e he
      obtain ⟨e0, ho, hd⟩ := hmodel x (mem_append_left _ hx)
      exact ⟨e0, ho, desc_of_same e0 x e hd h1 h2 h3⟩
    · obtain ⟨x, hx, h1, h2, h3⟩ := mem_adoptIds _ _ e he
      obtain ⟨e0, ho, hd⟩ := hmodel x (mem_append_right _ hx)
      exact ⟨e0, ho, desc_of_same e0 x e hd h1 h2 h3⟩
    · exact h e (by simp only [ents, mem_append]; exact Or.inl (Or.inr he))
    · exact h e (by simp only [ents, mem_append]; exact Or.inr he)
  · subst hX
    rw [not_good_follow _ c .Q _ ps pc (Or.inr rfl)] at hg
    cases hg

theorem insRetry_rinv (c : SCfg) (s : SState) (t : Nat) (ps pc : List QE) (h : RInv c s)
    (hg : GoodRQ (insRetry c s t ps pc) = true) : RInv c (insRetry c s t ps pc) := by
  generalize hX : insRetry c s t ps pc = X at hg ⊢
  unfold insRetry at hX
  simp only at hX
  split at hX
  · rename_i ser p hfresh
    split at hX
    · subst hX
      rw [not_good_follow _ c .R _ ps pc (Or.inl rfl)] at hg
      cases hg
    · rename_i e0r hrun
      split at hX
      · subst hX
        rw [not_good_follow _ c .R _ ps pc (Or.inl rfl)] at hg
        cases hg
      · rename_i ne hne
        split at hX
        · subst hX
          simp only [Option.map_eq_some_iff] at hne
          obtain ⟨o, ho, rfl⟩ := hne
          obtain ⟨eo, horig, hdesc⟩ := h e0r (by
            simp only [ents, mem_append]
            exact Or.inr (mem_of_find?_eq_some hrun))
          have hne_desc : Desc eo { e0r with id := p.id, ret := some o } :=
            ⟨hdesc.1, hdesc.2.1, retDesc_next eo.ret e0r.ret o hdesc.2.2 ho⟩
          intro e he
          simp only [ents, mem_append] at he
          have hmodel : ∀ x, x ∈ (insertRetried s.q { e0r with id := p.id, ret := some o } t).serial ++
              (insertRetried s.q { e0r with id := p.id, ret := some o } t).conc → ∃ e0, Origin c e0 ∧ Desc e0 x := by
            intro x hx
            rcases mem_insertRetried _ _ _ x hx with h1 | ⟨h1, h2, h3⟩
            · apply h x
              simp only [ents, mem_append] at h1 ⊢
              exact Or.inl (Or.inl h1)
            · exact ⟨eo, horig, desc_of_same eo _ x hne_desc h1 h2 h3⟩
          rcases he with ((he | he) | he) | he
          · obtain ⟨x, hx, h1, h2, h3⟩ := mem_adoptIds _ _ e he
            obtain ⟨e0, ho', hd⟩ := hmodel x (mem_append_left _ hx)
            exact ⟨e0, ho', desc_of_same e0 x e hd h1 h2 h3⟩
          · obtain ⟨x, hx, h1, h2, h3⟩ := mem_adoptIds _ _ e he
            obtain ⟨e0, ho', hd⟩ := hmodel x (mem_append_right _ hx)
            exact ⟨e0, ho', desc_of_same e0 x e hd h1 h2 h3⟩
          · exact h e (by simp only [ents, mem_append]; exact Or.inl (Or.inr he))
          · exact h e (by simp only [ents, mem_append]; exact Or.inr he)
        · subst hX
          rw [not_good_follow _ c .Q _ ps pc (Or.inr rfl)] at hg
          cases hg
  · subst hX
    rw [not_good_follow _ c .Q _ ps pc (Or.inr rfl)] at hg
    cases hg

theorem rinv_pos (c : SCfg) (s : SState) (h : RInv c s) : RInv c { s with pos := s.pos + 1 } := h

theorem ins_rinv (c : SCfg) (s : SState) (t : Nat) (ps pc : List QE) (h : RInv c s)
    (hg : GoodRQ (stepL c s (.ins t ps pc)) = true) : RInv c (stepL c s (.ins t ps pc)) := by
  rw [ins_eq] at hg ⊢
  generalize hX : insR c s t ps pc = X at hg ⊢
  unfold insR at hX
  simp only at hX
  split at hX
  · subst hX; exact insFresh_rinv c _ _ ps pc (rinv_pos c s h) hg
  · subst hX; exact insRetry_rinv c _ t ps pc (rinv_pos c s h) hg

/-- **one label keeps the lineage** -/
theorem step_rinv (c : SCfg) (s : SState) (l : Label) (h : RInv c s) (hg : GoodRQ (stepL c s l) = true) :
    RInv c (stepL c s l) := by
  have fr : ∀ s', ents s' = ents s → RInv c s' := fun s' he e hm => h e (by rw [← he]; exact hm)
  cases l with
  | hookTake => exact fr _ (ents_hookTake c s)
  | hookRestore => exact fr _ (ents_hookRestore c s)
  | exit => exact fr _ (ents_exit c s)
  | tx e => exact fr _ (ents_tx c s e)
  | pOk f => exact fr _ (ents_pOk c s f)
  | pErr => exact fr _ (ents_pErr c s)
  | pEnd => exact fr _ (ents_pEnd c s)
  | pPend => exact fr _ (ents_pPend c s)
  | pWake => exact fr _ (ents_pWake c s)
  | pFinish => exact fr _ (ents_pFinish c s)
  | ins t a b => exact ins_rinv c s t a b h hg
  | get1 t ask ns nc => exact fr _ (ents_get1 c s t ask ns nc)
  | get2 t sl g b r => exact get2_rinv c s t sl g b r h
  | idle f sl => exact fr _ (ents_idle c s f sl)
  | idleContinue => exact fr _ (ents_idleContinue c s)
  | idleYield => exact fr _ (ents_idleYield c s)
  | idleSlept => exact fr _ (ents_idleSlept c s)
  | disp n sl => exact disp_rinv c s n sl h
  | cons b => exact fr _ (ents_cons c s b)
  | notif id f r => exact fr _ (ents_notif c s id f r)
  | brk => exact fr _ (ents_brk c s)
  | endA id f r t => exact endA_rinv c s id f r t h
  | rx e => exact fr _ (ents_rx c s e)
  | cbIn a b t => exact fr _ (ents_cbIn c s a b t)
  | cbOut a b t => exact fr _ (ents_cbOut c s a b t)
  | envMove => exact fr _ (ents_env c s)
  | poll => exact fr _ (ents_poll c s)
  | verdict b x y z => exact fr _ (ents_verdict c s b x y z)
  | other => exact fr _ (ents_other c s)

theorem foldl_rinv (c : SCfg) (ls : List Label) (s : SState) (h : RInv c s) (hg : GoodRQ (ls.foldl (stepL c) s) = true) :
    RInv c (ls.foldl (stepL c) s) := by
  induction ls generalizing s with
  | nil => exact h
  | cons l rest ih =>
    simp only [foldl_cons] at hg ⊢
    have hmono : ∀ (ls : List Label) (s : SState), GoodRQ (ls.foldl (stepL c) s) = true → GoodRQ s = true := by
      intro ls
      induction ls with
      | nil => intro s h; exact h
      | cons l rest ih2 => intro s h; exact goodRQ_step_mono c s l (ih2 _ h)
    exact ih (stepL c s l) (step_rinv c s l h (hmono rest _ hg)) hg

end Cuke.SchedRetry
