//! Kind-B correspondence for the writer combinators and `Summarize`
//! (C13, C12, C01): a generated pipeline expression is built from the REAL
//! `FailOnSkipped`, `Repeat`, `Tee`, `Or`, `Summarize`, `AssertNormalized`
//! around recording leaves, fed a generated event stream op by op.

use std::{cell::RefCell, rc::Rc};

use cucumber::{
    cli, event, parser, writer, Event, StatsWriter as _, Writer, WriterExt as _,
};
use futures::{executor::block_on, future::LocalBoxFuture, FutureExt as _};
use regex::Regex;

use crate::{common::*, evs::*};

type Log = Rc<RefCell<Vec<String>>>;

// ---------------------------------------------------------------------------
// dynamic boxing, so that pipelines of any shape can be built at run time

pub trait DynWriter {
    fn handle<'a>(&'a mut self, ev: REv) -> LocalBoxFuture<'a, ()>;
    fn write<'a>(&'a mut self, v: String) -> LocalBoxFuture<'a, ()>;
    fn stats(&self) -> [usize; 6];
    fn failed(&self) -> bool;
}

pub struct DynW(pub Box<dyn DynWriter>);

impl Writer<PW> for DynW {
    type Cli = cli::Empty;
    async fn handle_event(&mut self, ev: REv, _: &cli::Empty) {
        self.0.handle(ev).await;
    }
}
impl writer::Arbitrary<PW, String> for DynW {
    async fn write(&mut self, v: String) {
        self.0.write(v).await;
    }
}
impl writer::Stats<PW> for DynW {
    fn passed_steps(&self) -> usize { self.0.stats()[0] }
    fn skipped_steps(&self) -> usize { self.0.stats()[1] }
    fn failed_steps(&self) -> usize { self.0.stats()[2] }
    fn retried_steps(&self) -> usize { self.0.stats()[3] }
    fn parsing_errors(&self) -> usize { self.0.stats()[4] }
    fn hook_errors(&self) -> usize { self.0.stats()[5] }
    fn execution_has_failed(&self) -> bool { self.0.failed() }
}
impl writer::Normalized for DynW {}
impl writer::NonTransforming for DynW {}

fn stats_of<T: writer::Stats<PW>>(t: &T) -> [usize; 6] {
    [t.passed_steps(), t.skipped_steps(), t.failed_steps(), t.retried_steps(), t.parsing_errors(), t.hook_errors()]
}

/// adapter for writers with `Arbitrary<String>`
struct WrapArb<T, C>(T, C);
impl<T, C> DynWriter for WrapArb<T, C>
where
    T: Writer<PW, Cli = C> + writer::Stats<PW> + writer::Arbitrary<PW, String>,
{
    fn handle<'a>(&'a mut self, ev: REv) -> LocalBoxFuture<'a, ()> {
        async move { self.0.handle_event(ev, &self.1).await }.boxed_local()
    }
    fn write<'a>(&'a mut self, v: String) -> LocalBoxFuture<'a, ()> {
        async move { self.0.write(v).await }.boxed_local()
    }
    fn stats(&self) -> [usize; 6] { stats_of(&self.0) }
    fn failed(&self) -> bool { self.0.execution_has_failed() }
}

/// adapter for writers without `Arbitrary` (`Or`)
struct WrapNoArb<T, C>(T, C);
impl<T, C> DynWriter for WrapNoArb<T, C>
where
    T: Writer<PW, Cli = C> + writer::Stats<PW>,
{
    fn handle<'a>(&'a mut self, ev: REv) -> LocalBoxFuture<'a, ()> {
        async move { self.0.handle_event(ev, &self.1).await }.boxed_local()
    }
    fn write<'a>(&'a mut self, _: String) -> LocalBoxFuture<'a, ()> {
        panic!("harness bug: Arbitrary::write on a writer without Arbitrary impl")
    }
    fn stats(&self) -> [usize; 6] { stats_of(&self.0) }
    fn failed(&self) -> bool { self.0.execution_has_failed() }
}

// ---------------------------------------------------------------------------
// recording leaf

pub struct Leaf {
    id: usize,
    log: Log,
    cat: Rc<Cat>,
    counts: [usize; 6],
}

impl Writer<PW> for Leaf {
    type Cli = cli::Empty;
    async fn handle_event(&mut self, ev: REv, _: &cli::Empty) {
        let a = self.cat.abstract_ev(&ev);
        if let AEv::Scen(_, _, se) = &a {
            match se {
                ASc::Bg(_, r) | ASc::Step(_, r) => match r {
                    ARes::Passed => self.counts[0] += 1,
                    ARes::Skipped => self.counts[1] += 1,
                    ARes::Failed(_) => self.counts[2] += 1,
                    ARes::Started => {}
                },
                ASc::Hook(_, AHook::Failed(_)) => self.counts[5] += 1,
                _ => {}
            }
        }
        if matches!(a, AEv::ParseErr(_)) {
            self.counts[4] += 1;
        }
        if !self.cat.meta_ok(&ev, &a) {
            self.log.borrow_mut().push(format!("!metadata-changed {} {}", self.id, show_aev(&a)));
        }
        self.log.borrow_mut().push(format!("e {} {}", self.id, show_aev(&a)));
    }
}
impl writer::Arbitrary<PW, String> for Leaf {
    async fn write(&mut self, v: String) {
        let enc = if let Some(id) = v.strip_prefix("user:") {
            format!("u {id}")
        } else {
            format!("s {}", parse_summary(&v))
        };
        self.log.borrow_mut().push(format!("w {} {enc}", self.id));
    }
}
impl writer::Stats<PW> for Leaf {
    fn passed_steps(&self) -> usize { self.counts[0] }
    fn skipped_steps(&self) -> usize { self.counts[1] }
    fn failed_steps(&self) -> usize { self.counts[2] }
    fn retried_steps(&self) -> usize { self.counts[3] }
    fn parsing_errors(&self) -> usize { self.counts[4] }
    fn hook_errors(&self) -> usize { self.counts[5] }
}
impl writer::Normalized for Leaf {}
impl writer::NonTransforming for Leaf {}

/// Parses the text produced by `Styles::summary` (coloring never) back into
/// `features rules sc(p s f r) st(p s f r) parse_errs hook_errs`.
pub fn parse_summary(s: &str) -> String {
    let num = |re: &str| -> usize {
        Regex::new(re).unwrap().captures(s).and_then(|c| c[1].parse().ok()).unwrap_or(0)
    };
    let stats = |line_re: &str| -> [usize; 4] {
        let line = Regex::new(line_re).unwrap().find(s).map_or("", |m| m.as_str());
        let n = |re: &str| Regex::new(re).unwrap().captures(line).and_then(|c| c[1].parse().ok()).unwrap_or(0usize);
        [n(r"(\d+) passed"), n(r"(\d+) skipped"), n(r"(\d+) failed"), n(r"(\d+) retr(?:y|ies)")]
    };
    if !s.starts_with("[Summary]") {
        return format!("!unparsable {}", hex(s));
    }
    let sc = stats(r"(?m)^\d+ scenarios?.*$");
    let st = stats(r"(?m)^\d+ steps?.*$");
    // totals printed must agree with the parts
    let sc_total = num(r"(?m)^(\d+) scenarios?");
    let st_total = num(r"(?m)^(\d+) steps?");
    if sc_total != sc[0] + sc[1] + sc[2] || st_total != st[0] + st[1] + st[2] {
        return format!("!summary-total-mismatch {}", hex(s));
    }
    format!(
        "{} {} {} {} {} {} {} {} {} {} {} {}",
        num(r"(?m)^(\d+) features?$"),
        num(r"(?m)^(\d+) rules?$"),
        sc[0], sc[1], sc[2], sc[3], st[0], st[1], st[2], st[3],
        num(r"(\d+) parsing errors?"),
        num(r"(\d+) hook errors?"),
    )
}

// ---------------------------------------------------------------------------
// pipeline expressions

#[derive(Clone, Debug)]
pub enum WX {
    Leaf(usize),
    Fos(char, Box<WX>),
    Rep(char, Box<WX>),
    Tee(Box<WX>, Box<WX>),
    Or(&'static str, Box<WX>, Box<WX>),
    Summ(Box<WX>),
    Pass(u8, Box<WX>),
    Norm(Box<WX>),
}

impl WX {
    pub fn show(&self) -> String {
        match self {
            WX::Leaf(i) => format!("L {i}"),
            WX::Fos(p, w) => format!("FOS {p} {}", w.show()),
            WX::Rep(f, w) => format!("REP {f} {}", w.show()),
            WX::Tee(l, r) => format!("TEE {} {}", l.show(), r.show()),
            WX::Or(c, l, r) => format!("OR {c} {} {}", l.show(), r.show()),
            WX::Summ(w) => format!("SUMM {}", w.show()),
            WX::Pass(_, w) => format!("PASS {}", w.show()),
            WX::Norm(w) => format!("NORM {}", w.show()),
        }
    }
    fn arb(&self) -> bool {
        match self {
            WX::Leaf(_) | WX::Summ(_) => true,
            WX::Fos(_, w) | WX::Rep(_, w) | WX::Pass(_, w) | WX::Norm(w) => w.arb(),
            WX::Tee(l, r) => l.arb() && r.arb(),
            WX::Or(..) => false,
        }
    }
    fn nt(&self) -> bool {
        match self {
            WX::Leaf(_) => true,
            WX::Fos(..) | WX::Rep(..) => false,
            WX::Summ(w) | WX::Pass(_, w) | WX::Norm(w) => w.nt(),
            WX::Tee(l, r) | WX::Or(_, l, r) => l.nt() && r.nt(),
        }
    }
    fn summarizable(&self) -> bool {
        self.nt() || matches!(self, WX::Rep(..))
    }
    pub fn has_norm(&self) -> bool {
        let mut k = vec![];
        self.kinds(&mut k);
        k.contains(&"norm")
    }
    pub fn kinds(&self, out: &mut Vec<&'static str>) {
        match self {
            WX::Leaf(_) => {}
            WX::Fos(_, w) => { out.push("fos"); w.kinds(out) }
            WX::Rep(_, w) => { out.push("rep"); w.kinds(out) }
            WX::Pass(_, w) => { out.push("pass"); w.kinds(out) }
            WX::Norm(w) => { out.push("norm"); w.kinds(out) }
            WX::Summ(w) => { out.push("summ"); w.kinds(out) }
            WX::Tee(l, r) => { out.push("tee"); l.kinds(out); r.kinds(out) }
            WX::Or(_, l, r) => { out.push("or"); l.kinds(out); r.kinds(out) }
        }
    }
}

/// Generates a pipeline that type-checks in the real crate
/// (`Repeat` needs a `NonTransforming` inner writer, `Summarize` an
/// `Arbitrary + Summarizable` one, `Or` has no `Arbitrary`).
pub fn gen_wx(rng: &mut Rng, depth: usize, next_leaf: &mut usize) -> WX {
    gen_wx_in(rng, depth, next_leaf, true)
}

/// `norm_ok`: a `Normalize` may be placed here (not below an `Or`, which would hand it only a part of
/// the stream and so break the contract `Normalize` panics on).
fn gen_wx_in(rng: &mut Rng, depth: usize, next_leaf: &mut usize, norm_ok: bool) -> WX {
    if depth == 0 || rng.chance(1, 5) {
        *next_leaf += 1;
        return WX::Leaf(*next_leaf);
    }
    for _ in 0..20 {
        let c = match rng.below(if norm_ok { 9 } else { 7 }) {
            0 => WX::Fos(*rng.pick(&['d', 'd', 'a', 'n', 'o']), Box::new(gen_wx_in(rng, depth - 1, next_leaf, norm_ok))),
            1 => {
                let w = gen_wx_in(rng, depth - 1, next_leaf, norm_ok);
                if !w.nt() { continue; }
                WX::Rep(*rng.pick(&['s', 'f', 'f', 'a', 'n', 'F']), Box::new(w))
            }
            2 => WX::Tee(Box::new(gen_wx_in(rng, depth - 1, next_leaf, norm_ok)), Box::new(gen_wx_in(rng, depth - 1, next_leaf, norm_ok))),
            3 => WX::Or(
                *rng.pick(&["c0", "c1", "s", "e", "o"]),
                Box::new(gen_wx_in(rng, depth - 1, next_leaf, false)),
                Box::new(gen_wx_in(rng, depth - 1, next_leaf, false)),
            ),
            4 | 5 => {
                let w = gen_wx_in(rng, depth - 1, next_leaf, norm_ok);
                if !(w.arb() && w.summarizable()) { continue; }
                WX::Summ(Box::new(w))
            }
            6 => WX::Pass(rng.below(3) as u8, Box::new(gen_wx_in(rng, depth - 1, next_leaf, norm_ok))),
            _ => WX::Norm(Box::new(gen_wx_in(rng, depth - 1, next_leaf, norm_ok))),
        };
        return c;
    }
    *next_leaf += 1;
    WX::Leaf(*next_leaf)
}

fn boxed_arb<T>(t: T) -> DynW
where
    T: Writer<PW, Cli = cli::Empty> + writer::Stats<PW> + writer::Arbitrary<PW, String> + 'static,
{
    DynW(Box::new(WrapArb(t, cli::Empty)))
}

pub fn build(wx: &WX, log: &Log, cat: &Rc<Cat>) -> DynW {
    match wx {
        WX::Leaf(id) => boxed_arb(Leaf { id: *id, log: Rc::clone(log), cat: Rc::clone(cat), counts: [0; 6] }),
        WX::Fos(p, w) => {
            let inner = build(w, log, cat);
            let arb = w.arb();
            macro_rules! wrap { ($e:expr) => {{
                let x = $e;
                if arb { boxed_arb(x) } else { DynW(Box::new(WrapNoArb(x, cli::Empty))) }
            }}; }
            match p {
                'd' => wrap!(inner.fail_on_skipped()),
                'a' => wrap!(inner.fail_on_skipped_with(|_, _, _| true)),
                'n' => wrap!(inner.fail_on_skipped_with(|_, _, _| false)),
                _ => wrap!(inner.fail_on_skipped_with(|_, _, s: &gherkin::Scenario| {
                    s.name.trim_start_matches("s-").parse::<usize>().unwrap() % 2 == 1
                })),
            }
        }
        WX::Rep(f, w) => {
            let inner = build(w, log, cat);
            let arb = w.arb();
            macro_rules! wrap { ($e:expr) => {{
                let x = $e;
                if arb { boxed_arb(x) } else { DynW(Box::new(WrapNoArb(x, cli::Empty))) }
            }}; }
            match f {
                's' => wrap!(inner.repeat_skipped::<PW>()),
                'f' => wrap!(inner.repeat_failed::<PW>()),
                'a' => wrap!(inner.repeat_if::<PW, _>(|_| true)),
                'n' => wrap!(inner.repeat_if::<PW, _>(|_| false)),
                _ => wrap!(inner.repeat_if::<PW, _>(|ev| {
                    matches!(ev.as_deref(), Ok(event::Cucumber::Feature(_, event::Feature::Started)))
                })),
            }
        }
        WX::Tee(l, r) => {
            let (a, b) = (build(l, log, cat), build(r, log, cat));
            let t = writer::Tee::new(a, b);
            let c = cli::Compose { left: cli::Empty, right: cli::Empty };
            if l.arb() && r.arb() { DynW(Box::new(WrapArb(t, c))) } else { DynW(Box::new(WrapNoArb(t, c))) }
        }
        WX::Or(c, l, r) => {
            let (a, b) = (build(l, log, cat), build(r, log, cat));
            let cat2 = Rc::clone(cat);
            let c = *c;
            type E = parser::Result<Event<event::Cucumber<PW>>>;
            let pred = move |ev: &E, _: &cli::Compose<cli::Empty, cli::Empty>| -> bool {
                let a = cat2.abstract_ev(ev);
                match c {
                    "c0" => false,
                    "c1" => true,
                    "s" => matches!(a, AEv::Scen(..)),
                    "e" => matches!(a, AEv::ParseErr(_)),
                    _ => match a {
                        AEv::FeatStarted(f) | AEv::FeatFinished(f) | AEv::RuleStarted(f, _) | AEv::RuleFinished(f, _) => f % 2 == 1,
                        AEv::Scen(k, _, _) => k.feat % 2 == 1,
                        _ => false,
                    },
                }
            };
            let t = writer::Or::new(a, b, pred);
            DynW(Box::new(WrapNoArb(t, cli::Compose { left: cli::Empty, right: cli::Empty })))
        }
        WX::Summ(w) => boxed_arb(build(w, log, cat).summarized()),
        WX::Norm(w) => {
            let inner = build(w, log, cat);
            let x = inner.normalized::<PW>();
            if w.arb() { boxed_arb(x) } else { DynW(Box::new(WrapNoArb(x, cli::Empty))) }
        }
        WX::Pass(k, w) => {
            let inner = build(w, log, cat);
            let arb = w.arb();
            macro_rules! wrap { ($e:expr) => {{
                let x = $e;
                if arb { boxed_arb(x) } else { DynW(Box::new(WrapNoArb(x, cli::Empty))) }
            }}; }
            match k {
                0 => wrap!(inner.assert_normalized()),
                // discard::Arbitrary / discard::Stats are identities on events; they are only
                // applied where they keep the getters/writes of the model meaningful
                _ => wrap!(inner.assert_normalized()),
            }
        }
    }
}

// ---------------------------------------------------------------------------
// stream generators

#[derive(Clone, Copy, Debug, PartialEq)]
pub enum Outc { Pass, Skip, Amb, Panic, NotFound }

thread_local! {
    /// focus mode of the `fail_on_skipped` cases: most non-passing steps are Skipped
    pub static SKIP_BIAS: std::cell::Cell<bool> = const { std::cell::Cell::new(false) };
    /// streams as seen BEHIND `fail_on_skipped`: a skipped step may arrive as Failed(NotFound) — in an
    /// attempt that is the last one whatever its retry counter says (the runner saw a Skipped step)
    pub static NOTFOUND_MODE: std::cell::Cell<bool> = const { std::cell::Cell::new(false) };
}

/// One canonical attempt (what `Executor::run_scenario` emits), chosen randomly.
/// Returns (events, failed).
pub fn gen_attempt(
    rng: &mut Rng, key: Key, nbg: usize, nsteps: usize, ret: Option<(usize, usize)>,
    hooks: (bool, bool), p_fail: usize, logs: bool,
) -> (Vec<AEv>, bool) {
    let mut v = vec![];
    let push = |v: &mut Vec<AEv>, e: ASc| v.push(AEv::Scen(key, ret, e));
    push(&mut v, ASc::Started);
    let mut failed = false;
    let mut not_found = false;
    let mut deferred: Option<ASc> = None;
    let mut stop = false;
    if hooks.0 {
        push(&mut v, ASc::Hook(true, AHook::Started));
        if rng.chance(p_fail, 40) {
            deferred = Some(ASc::Hook(true, AHook::Failed(rng.below(3))));
            failed = true;
            stop = true;
        } else {
            if logs && rng.chance(1, 4) { push(&mut v, ASc::Log(rng.below(5))); }
            push(&mut v, ASc::Hook(true, AHook::Passed));
        }
    }
    let mut run_steps = |v: &mut Vec<AEv>, n: usize, bg: bool, rng: &mut Rng| {
        for i in 0..n {
            if stop { break; }
            let mk = |r: ARes| if bg { ASc::Bg(i, r) } else { ASc::Step(i, r) };
            push(v, mk(ARes::Started));
            if logs && rng.chance(1, 6) { push(v, ASc::Log(rng.below(5))); }
            let o = if rng.chance(p_fail, 20) {
                if SKIP_BIAS.with(std::cell::Cell::get) { *rng.pick(&[Outc::Skip, Outc::Skip, Outc::Skip, Outc::Panic]) }
                else if NOTFOUND_MODE.with(std::cell::Cell::get) { *rng.pick(&[Outc::Skip, Outc::NotFound, Outc::NotFound, Outc::Amb, Outc::Panic]) }
                else { *rng.pick(&[Outc::Skip, Outc::Amb, Outc::Panic, Outc::Panic]) }
            } else { Outc::Pass };
            match o {
                Outc::Pass => push(v, mk(ARes::Passed)),
                Outc::Skip => { push(v, mk(ARes::Skipped)); stop = true; }
                Outc::NotFound => { deferred = Some(mk(ARes::Failed(AErr::NotFound))); not_found = true; stop = true; }
                Outc::Amb => { deferred = Some(mk(ARes::Failed(AErr::Ambiguous))); failed = true; stop = true; }
                Outc::Panic => { deferred = Some(mk(ARes::Failed(AErr::Panic(rng.below(3))))); failed = true; stop = true; }
            }
        }
    };
    run_steps(&mut v, nbg, true, rng);
    run_steps(&mut v, nsteps, false, rng);
    if let Some(d) = deferred { push(&mut v, d); }
    if hooks.1 {
        push(&mut v, ASc::Hook(false, AHook::Started));
        if rng.chance(p_fail, 40) {
            push(&mut v, ASc::Hook(false, AHook::Failed(rng.below(3))));
            failed = true;
        } else {
            push(&mut v, ASc::Hook(false, AHook::Passed));
        }
    }
    push(&mut v, ASc::Finished);
    // a not-found failure ends the retry chain (the runner never retries a skipped step)
    (v, failed && !not_found)
}

/// A normalized, contract-abiding stream over the catalog, with retries.
pub fn gen_canonical_stream(rng: &mut Rng, cat: &Cat, fail_fast_cut: bool) -> Vec<AEv> {
    let mut v = vec![];
    let p_fail = *rng.pick(&[0usize, 2, 5, 10]);
    let hooks = (rng.chance(1, 3), rng.chance(1, 3));
    let logs = rng.chance(1, 3);
    let npe = if rng.chance(1, 4) { rng.range(1, 2) } else { 0 };
    // run-level prologue (parser errors and ParsingFinished may come before or after Started)
    let pf = AEv::ParsingFinished(cat.feats.len(), cat.feats.iter().map(|f| f.rules.len()).sum(), cat.scens.len(),
        cat.scens.iter().map(|s| s.spec.steps.len()).sum(), npe);
    let early_pf = rng.chance(1, 2);
    if early_pf { for i in 0..npe { v.push(AEv::ParseErr(i)); } v.push(pf.clone()); }
    v.push(AEv::Started);
    if !early_pf { for i in 0..npe { v.push(AEv::ParseErr(i)); } }
    let mut pf_pending = !early_pf;
    let cut_at = if fail_fast_cut { Some(rng.below(cat.scens.len().max(1))) } else { None };
    let mut started_scen = 0usize;
    'outer: for f in &cat.feats {
        let in_feat: Vec<&CatScen> = cat.scens.iter().filter(|s| s.key.feat == f.id).collect();
        if in_feat.is_empty() { continue; }
        v.push(AEv::FeatStarted(f.id));
        if pf_pending && rng.chance(1, 2) { v.push(pf.clone()); pf_pending = false; }
        let mut attempts = |v: &mut Vec<AEv>, s: &CatScen, rng: &mut Rng, nbg: usize| {
            let budget = if rng.chance(1, 3) { Some(rng.below(3)) } else { None };
            let mut ret = budget.map(|b| (0usize, b));
            loop {
                let (evs, failed) = gen_attempt(rng, s.key, nbg, s.spec.steps.len(), ret, hooks, p_fail, logs);
                v.extend(evs);
                match ret {
                    Some((c, l)) if failed && l > 0 => ret = Some((c + 1, l - 1)),
                    _ => break,
                }
            }
        };
        for s in in_feat.iter().filter(|s| s.key.rule.is_none()) {
            if cut_at == Some(started_scen) { v.push(AEv::FeatFinished(f.id)); break 'outer; }
            started_scen += 1;
            attempts(&mut v, s, rng, f.spec.bg.len());
        }
        for r in &f.rules {
            let in_rule: Vec<&&CatScen> = in_feat.iter().filter(|s| s.key.rule == Some(r.id)).collect();
            if in_rule.is_empty() { continue; }
            v.push(AEv::RuleStarted(f.id, r.id));
            for s in in_rule {
                if cut_at == Some(started_scen) {
                    v.push(AEv::RuleFinished(f.id, r.id));
                    v.push(AEv::FeatFinished(f.id));
                    break 'outer;
                }
                started_scen += 1;
                attempts(&mut v, s, rng, f.spec.bg.len() + r.spec.bg.len());
            }
            v.push(AEv::RuleFinished(f.id, r.id));
        }
        v.push(AEv::FeatFinished(f.id));
    }
    if pf_pending { v.push(pf); }
    v.push(AEv::Finished);
    v
}

/// An arbitrary (not contract-abiding) stream over the catalog.
pub fn gen_arbitrary_stream(rng: &mut Rng, cat: &Cat) -> Vec<AEv> {
    let n = rng.range(0, 25);
    let mut v = vec![];
    let mut hook_failed_of: Vec<Key> = vec![];
    for _ in 0..n {
        let res = |rng: &mut Rng| match rng.below(7) {
            0 => ARes::Started,
            1 | 2 => ARes::Passed,
            3 | 4 => ARes::Skipped,
            5 => ARes::Failed(rng.pick(&[AErr::NotFound, AErr::Ambiguous]).clone()),
            _ => ARes::Failed(AErr::Panic(rng.below(3))),
        };
        let e = match rng.below(16) {
            0 => AEv::Started,
            1 => AEv::ParsingFinished(rng.below(3), rng.below(3), rng.below(5), rng.below(9), rng.below(2)),
            2 => AEv::ParseErr(rng.below(4)),
            3 => AEv::Finished,
            4 => AEv::FeatStarted(rng.pick(&cat.feats).id),
            5 => AEv::FeatFinished(rng.pick(&cat.feats).id),
            6 | 7 => {
                let f = rng.pick(&cat.feats);
                if f.rules.is_empty() { AEv::FeatStarted(f.id) } else {
                    let r = rng.pick(&f.rules).id;
                    if rng.chance(1, 2) { AEv::RuleStarted(f.id, r) } else { AEv::RuleFinished(f.id, r) }
                }
            }
            _ => {
                if cat.scens.is_empty() { AEv::Started } else {
                    let s = rng.pick(&cat.scens);
                    let ret = match rng.below(3) { 0 => None, 1 => Some((rng.below(2), 0)), _ => Some((rng.below(2), rng.range(1, 2))) };
                    let se = match rng.below(10) {
                        0 => ASc::Started,
                        1 => ASc::Finished,
                        2 => ASc::Log(rng.below(4)),
                        3 => ASc::Hook(rng.chance(1, 2), rng.pick(&[AHook::Started, AHook::Passed, AHook::Failed(1)]).clone()),
                        4 | 5 => ASc::Bg(rng.below(3), res(rng)),
                        _ => ASc::Step(rng.below(4), res(rng)),
                    };
                    AEv::Scen(s.key, ret, se)
                }
            }
        };
        // Guard of the Summarize model (DESIGN §0.3): a SECOND `Hook::Failed` for a scenario path whose indicator is
        // still `Skipped` makes `scenarios.skipped -= 1` underflow (a panic with overflow checks, a wrap without) —
        // build-dependent behaviour that no Runner stream can cause. At most one failed hook per scenario path.
        if let AEv::Scen(k, _, ASc::Hook(_, AHook::Failed(_))) = &e {
            if hook_failed_of.contains(k) { continue; }
            hook_failed_of.push(*k);
        }
        v.push(e);
    }
    if rng.chance(2, 3) { v.push(AEv::Finished); }
    if rng.chance(1, 4) {
        // events after Finished (what an outer Repeat replays)
        for _ in 0..rng.below(4) {
            if v.is_empty() { break; }
            let i = rng.below(v.len());
            let e = v[i].clone();
            if matches!(e, AEv::Scen(_, _, ASc::Hook(_, AHook::Failed(_)))) { continue; }
            v.push(e);
        }
    }
    v
}

// ---------------------------------------------------------------------------
// running

pub enum POp { Ev(AEv), Write(usize) }

pub struct PipeRun {
    pub line: String,
    /// per op: what reached the leaves (`e <leaf> <ev>` / `w <leaf> ...`)
    pub per_op: Vec<Vec<String>>,
    pub stats: [usize; 6],
    pub failed: bool,
}

pub fn run_pipeline(wx: &WX, cat: &Rc<Cat>, ops: &[POp]) -> PipeRun {
    let log: Log = Rc::default();
    let mut w = build(wx, &log, cat);
    let mut per_op = vec![];
    let mut raw = vec![];
    for op in ops {
        log.borrow_mut().clear();
        match op {
            POp::Ev(e) => block_on(w.handle_event(cat.realize(e), &cli::Empty)),
            POp::Write(i) => block_on(writer::Arbitrary::<PW, String>::write(&mut w, format!("user:{i}"))),
        }
        let l = log.borrow();
        per_op.push(show_list(&l, |s| s.clone()));
        raw.push(l.clone());
    }
    let s = [w.passed_steps(), w.skipped_steps(), w.failed_steps(), w.retried_steps(), w.parsing_errors(), w.hook_errors()];
    let failed = w.execution_has_failed();
    PipeRun {
        line: format!(
            "{} || {} {} {} {} {} {} {}",
            per_op.join(" | "), s[0], s[1], s[2], s[3], s[4], s[5], b(failed)
        ),
        per_op: raw,
        stats: s,
        failed,
    }
}

#[derive(Clone, Copy, PartialEq)]
enum Mon { None, C12, C01 }

fn has_fos(wx: &WX) -> bool {
    let mut k = vec![];
    wx.kinds(&mut k);
    k.contains(&"fos")
}

/// Directed streams: the kernel-checked witnesses of the known findings (Lean: C12.streamA/B/C).
fn directed(idx: usize) -> Option<(Vec<FeatSpec>, Vec<AEv>)> {
    let st = |v: &str| StepSpec { ty: gherkin::StepType::Given, value: v.to_owned() };
    let nsteps = if idx == 2 { 0 } else { 1 };
    let spec = FeatSpec {
        id: 0, name: "f-0".into(), path: Some("/feat/f0.feature".into()), tags: vec![],
        bg: if idx == 2 { vec![st("fbg 0")] } else { vec![] },
        scens: vec![ScenSpec { id: 1, name: "s-1".into(), tags: vec![], steps: (0..nsteps).map(|_| st("step 0")).collect(), line: 20 }],
        rules: vec![],
    };
    let k = Key { feat: 0, rule: None, scen: 1 };
    let a = |ret: (usize, usize), e: ASc| AEv::Scen(k, Some(ret), e);
    let (r0, r1) = ((0, 1), (1, 0));
    let body: Vec<AEv> = match idx {
        0 => vec![
            a(r0, ASc::Started), a(r0, ASc::Step(0, ARes::Started)), a(r0, ASc::Step(0, ARes::Passed)),
            a(r0, ASc::Hook(false, AHook::Started)), a(r0, ASc::Hook(false, AHook::Failed(0))), a(r0, ASc::Finished),
            a(r1, ASc::Started), a(r1, ASc::Step(0, ARes::Started)), a(r1, ASc::Step(0, ARes::Passed)),
            a(r1, ASc::Hook(false, AHook::Started)), a(r1, ASc::Hook(false, AHook::Passed)), a(r1, ASc::Finished),
        ],
        1 => vec![
            a(r0, ASc::Started), a(r0, ASc::Hook(true, AHook::Started)), a(r0, ASc::Hook(true, AHook::Passed)),
            a(r0, ASc::Step(0, ARes::Started)), a(r0, ASc::Step(0, ARes::Failed(AErr::Panic(0)))), a(r0, ASc::Finished),
            a(r1, ASc::Started), a(r1, ASc::Hook(true, AHook::Started)), a(r1, ASc::Hook(true, AHook::Failed(0))), a(r1, ASc::Finished),
        ],
        2 => vec![
            a(r0, ASc::Started), a(r0, ASc::Bg(0, ARes::Started)), a(r0, ASc::Bg(0, ARes::Failed(AErr::Panic(0)))), a(r0, ASc::Finished),
            a(r1, ASc::Started), a(r1, ASc::Bg(0, ARes::Started)), a(r1, ASc::Bg(0, ARes::Passed)), a(r1, ASc::Finished),
        ],
        _ => return None,
    };
    let mut evs = vec![AEv::Started, AEv::FeatStarted(0)];
    evs.extend(body);
    evs.extend([AEv::FeatFinished(0), AEv::Finished]);
    Some((vec![spec], evs))
}

fn gen_case(rng: &mut Rng, canonical: bool, force: Option<fn(&mut Rng, &mut usize) -> WX>, mon: Mon, idx: usize) -> Case {
    let dir = if mon == Mon::None { None } else { directed(idx) };
    let mut specs = match &dir { Some((s, _)) => s.clone(), None => gen_catalog_specs_twins(rng, 3) };
    let mut nl = 0;
    let wx = match force {
        Some(_) if dir.is_some() => { nl += 1; WX::Summ(Box::new(WX::Leaf(nl))) }
        Some(f) => f(rng, &mut nl),
        None => { let d = rng.range(1, 3); gen_wx(rng, d, &mut nl) }
    };
    // focus mode for `fail_on_skipped`: `@allow.skipped` on exactly ONE level (feature, rule or
    // scenario) per feature — or nowhere —, and streams in which most non-passing steps are Skipped
    let fos_focus = dir.is_none() && has_fos(&wx) && rng.chance(1, 2);
    if fos_focus {
        for f in specs.iter_mut() {
            let level = rng.below(4);
            let fix = |tags: &mut Vec<String>, on: bool| {
                tags.retain(|t| t != "allow.skipped");
                if on { tags.push("allow.skipped".to_owned()); }
            };
            fix(&mut f.tags, level == 0);
            for sc in &mut f.scens { let on = level == 2 && rng.chance(1, 2); fix(&mut sc.tags, on); }
            for r in &mut f.rules {
                let on = level == 1 && rng.chance(1, 2);
                fix(&mut r.tags, on);
                for sc in &mut r.scens { let on = level == 2 && rng.chance(1, 2); fix(&mut sc.tags, on); }
            }
        }
    }
    SKIP_BIAS.with(|b| b.set(fos_focus));
    let cat = Rc::new(Cat::new(&specs));
    let cut = rng.chance(1, 6);
    let evs = if let Some((_, e)) = dir { e }
        else if wx.has_norm() {
            // `Normalize` panics on streams that break its contract: concurrent (interleaved) but contract-abiding
            let sticky = *rng.pick(&[0usize, 0, 3, 6, 8]);
            crate::fam_norm::gen_contract_stream(rng, &cat, sticky)
        }
        else if canonical { gen_canonical_stream(rng, &cat, cut) } else { gen_arbitrary_stream(rng, &cat) };
    let mut evs = evs;
    if mon == Mon::C01 && idx > 2 && !wx.has_norm() { vary_parsing_finished(rng, &mut evs); }
    SKIP_BIAS.with(|b| b.set(false));
    let mut ops: Vec<POp> = vec![];
    for e in evs {
        if wx.arb() && rng.chance(1, 25) { ops.push(POp::Write(rng.below(5))); }
        ops.push(POp::Ev(e));
    }
    let run = run_pipeline(&wx, &cat, &ops);
    let mut imp = run.line.clone();
    let mut req = format!(
        "pipe.run {} {} {}",
        wx.show(),
        cat.show(),
        show_list(&ops, |o| match o { POp::Ev(e) => format!("E {}", show_aev(e)), POp::Write(i) => format!("Wr {i}") }),
    );
    match mon {
        Mon::None => {}
        Mon::C12 => {
            // the stream as `Summarize` saw it = what reached leaf 1 up to the first run-Finished;
            // the implementation's scenario counters = the summary it wrote
            let mut seen: Vec<String> = vec![];
            let mut summary: Option<String> = None;
            let mut done = false;
            for l in run.per_op.iter().flatten() {
                if let Some(ev) = l.strip_prefix("e 1 ") {
                    if !done { seen.push(ev.to_owned()); }
                    if ev == "X" { done = true; }
                } else if let Some(sm) = l.strip_prefix("w 1 s ") {
                    summary.get_or_insert(sm.to_owned());
                }
            }
            if let Some(sm) = summary {
                let nums: Vec<&str> = sm.split(' ').collect();
                req.push_str(&format!(
                    "\nmon.c12 {} {} {} {} {} {} {}",
                    cat.show(), seen.len(), seen.join(" "), nums[2], nums[3], nums[4], nums[5]
                ));
                imp.push_str("\nok");
            }
        }
        Mon::C01 => {
            let evs: Vec<String> = ops.iter().filter_map(|o| match o { POp::Ev(e) => Some(show_aev(e)), _ => None }).collect();
            req.push_str(&format!(
                "\nmon.c01 {} {} {} {} {} {} {}",
                b(has_fos(&wx)), cat.show(), evs.len(), evs.join(" "), b(run.failed), run.stats[2], run.stats[4]
            ));
            imp.push_str("\nok");
        }
    }
    let mut kinds = vec![];
    wx.kinds(&mut kinds);
    kinds.sort();
    kinds.dedup();
    Case {
        req,
        imp,
        class: format!("{}:{}", if wx.has_norm() { "interleaved" } else if canonical { "canon" } else { "arb" }, if kinds.is_empty() { "leaf".to_owned() } else { kinds.join("+") }),
        nontrivial: !kinds.is_empty() && !ops.is_empty(),
    }
}

/// C13: arbitrary streams (2/3) and canonical ones (1/3) through random nestings.
pub fn gen_comb(rng: &mut Rng, idx: usize) -> Case {
    let _ = idx;
    let canonical = rng.chance(1, 3);
    gen_case(rng, canonical, None, Mon::None, idx)
}

/// streams as a CUSTOM `Runner` may deliver them to a writer (C01: "a parser error was delivered"): the
/// `ParsingFinished` summary event is absent, or its `parser_errors` field does not match the errors delivered
pub fn vary_parsing_finished(rng: &mut Rng, evs: &mut Vec<AEv>) {
    match rng.below(8) {
        0 => evs.retain(|e| !matches!(e, AEv::ParsingFinished(..))),
        1 => for e in evs.iter_mut() {
            if let AEv::ParsingFinished(_, _, _, _, n) = e { *n = if *n == 0 { 1 } else { 0 }; }
        },
        _ => {}
    }
}

/// C12: canonical normalized streams through `Summarize`, optionally inside `Repeat` /
/// outside `FailOnSkipped`.
pub fn gen_summ(rng: &mut Rng, idx: usize) -> Case {
    let _ = idx;
    fn shape(rng: &mut Rng, nl: &mut usize) -> WX {
        *nl += 1;
        let leaf = WX::Leaf(*nl);
        let inner = match rng.below(4) {
            0 => WX::Rep(*rng.pick(&['s', 'f', 'a']), Box::new(leaf)),
            _ => leaf,
        };
        let s = WX::Summ(Box::new(inner));
        match rng.below(6) {
            0 => WX::Fos(*rng.pick(&['d', 'a']), Box::new(s)),
            // `.summarized().repeat_*()`: events replayed after run-Finished reach `Summarize` again
            1 | 2 => WX::Rep(*rng.pick(&['s', 'f', 'f', 'a']), Box::new(s)),
            _ => s,
        }
    }
    gen_case(rng, true, Some(shape), Mon::C12, idx)
}

/// C01: the verdict-relevant pipelines (`summarized()`, `tee`, `or`, with/without fos/repeat).
pub fn gen_verdict(rng: &mut Rng, idx: usize) -> Case {
    let _ = idx;
    fn shape(rng: &mut Rng, nl: &mut usize) -> WX {
        fn summ(rng: &mut Rng, nl: &mut usize) -> WX {
            *nl += 1;
            let leaf = WX::Leaf(*nl);
            let inner = if rng.chance(1, 3) { WX::Rep('f', Box::new(leaf)) } else { leaf };
            WX::Summ(Box::new(inner))
        }
        // behind / in front of `Normalize`: `summarized().normalized()`, the default
        // `Summarize<Normalize<_>>`, and a normalized branch of a `Tee`
        fn summ_n(rng: &mut Rng, nl: &mut usize) -> WX {
            match rng.below(3) {
                0 => WX::Norm(Box::new(summ(rng, nl))),
                1 => { *nl += 1; WX::Summ(Box::new(WX::Norm(Box::new(WX::Leaf(*nl))))) }
                _ => summ(rng, nl),
            }
        }
        let core = match rng.below(6) {
            0 => WX::Tee(Box::new(summ(rng, nl)), Box::new(summ(rng, nl))),
            1 => WX::Or(*rng.pick(&["c0", "c1"]), Box::new(summ(rng, nl)), Box::new(summ(rng, nl))),
            2 => WX::Tee(Box::new(summ_n(rng, nl)), Box::new(summ_n(rng, nl))),
            3 => summ_n(rng, nl),
            _ => summ(rng, nl),
        };
        if rng.chance(1, 3) { WX::Fos('d', Box::new(core)) } else { core }
    }
    gen_case(rng, true, Some(shape), Mon::C01, idx)
}

// ---------------------------------------------------------------------------
// C01, process verdict: the REAL `Cucumber` builder glue (`with_cli`, `repeat_*`, `fail_on_skipped*`,
// `filter_run`'s event loop, `run_and_exit`'s panic) around a runner that replays a generated stream.

/// a `Runner` that ignores the features and replays a prepared event stream
pub struct ReplayRunner(pub Vec<AEv>, pub Rc<Cat>);
impl cucumber::Runner<PW> for ReplayRunner {
    type Cli = cli::Empty;
    type EventStream = futures::stream::LocalBoxStream<'static, REv>;
    fn run<S>(self, _features: S, _: cli::Empty) -> Self::EventStream
    where
        S: futures::Stream<Item = parser::Result<gherkin::Feature>> + 'static,
    {
        use futures::StreamExt as _;
        let cat = self.1;
        futures::stream::iter(self.0.into_iter().map(move |e| cat.realize(&e))).boxed_local()
    }
}

type ExitCuc<Wr> = cucumber::Cucumber<PW, crate::fam_filter::VecParser, (), ReplayRunner, Wr, cli::Empty>;

/// `run_and_exit` under `catch_unwind`: `None` = returned normally, `Some(msg)` = panicked with `msg`
fn run_exit<Wr>(c: ExitCuc<Wr>) -> Option<String>
where
    Wr: Writer<PW, Cli = cli::Empty> + writer::Stats<PW> + writer::Normalized,
{
    let opts = cli::Opts::<cli::Empty, cli::Empty, cli::Empty, cli::Empty> {
        re_filter: None,
        tags_filter: None,
        parser: cli::Empty,
        runner: cli::Empty,
        writer: cli::Empty,
        custom: cli::Empty,
    };
    crate::fam_attempt::install_counting_hook();
    crate::fam_attempt::HOOK_QUIET.with(|q| q.set(true));
    let r = std::panic::catch_unwind(std::panic::AssertUnwindSafe(|| block_on(c.with_cli(opts).run_and_exit(()))));
    crate::fam_attempt::HOOK_QUIET.with(|q| q.set(false));
    match r {
        Ok(()) => None,
        Err(p) => Some(
            p.downcast_ref::<String>().cloned()
                .or_else(|| p.downcast_ref::<&'static str>().map(|s| (*s).to_owned()))
                .unwrap_or_else(|| "<non-string payload>".to_owned()),
        ),
    }
}

fn verdict_shape(rng: &mut Rng, nl: &mut usize) -> WX {
    fn summ(rng: &mut Rng, nl: &mut usize) -> WX {
        *nl += 1;
        let leaf = WX::Leaf(*nl);
        let inner = if rng.chance(1, 3) { WX::Rep('f', Box::new(leaf)) } else { leaf };
        WX::Summ(Box::new(inner))
    }
    match rng.below(6) {
        0 => WX::Tee(Box::new(summ(rng, nl)), Box::new(summ(rng, nl))),
        1 => WX::Or(*rng.pick(&["c0", "c1", "o"]), Box::new(summ(rng, nl)), Box::new(summ(rng, nl))),
        2 => { *nl += 1; WX::Leaf(*nl) }
        _ => summ(rng, nl),
    }
}

/// C01: `exit.run` — the run's events through the real builder glue and `run_and_exit`.
pub fn gen_exit(rng: &mut Rng, idx: usize) -> Case {
    // directed: the witnesses of the known findings first (C12.streamA/B/C)
    let dir = directed(idx);
    let mut specs = match &dir { Some((s, _)) => s.clone(), None => gen_catalog_specs_twins(rng, 3) };
    let mut nl = 0;
    let core = if dir.is_some() { nl += 1; WX::Summ(Box::new(WX::Leaf(nl))) } else { verdict_shape(rng, &mut nl) };
    // builder glue: `repeat_*` needs a NonTransforming writer, so it is applied before `fail_on_skipped*`
    let rep = if dir.is_some() || !core.summarizable_outer() { 'x' } else { *rng.pick(&['x', 'x', 's', 'f', 'a']) };
    let fos = if dir.is_some() { 'x' } else { *rng.pick(&['x', 'x', 'd', 'a', 'o']) };
    let fos_focus = fos != 'x' && rng.chance(1, 2);
    if fos_focus {
        for f in specs.iter_mut() {
            let level = rng.below(4);
            let fix = |tags: &mut Vec<String>, on: bool| {
                tags.retain(|t| t != "allow.skipped");
                if on { tags.push("allow.skipped".to_owned()); }
            };
            fix(&mut f.tags, level == 0);
            for sc in &mut f.scens { let on = level == 2 && rng.chance(1, 2); fix(&mut sc.tags, on); }
            for r in &mut f.rules {
                let on = level == 1 && rng.chance(1, 2);
                fix(&mut r.tags, on);
                for sc in &mut r.scens { let on = level == 2 && rng.chance(1, 2); fix(&mut sc.tags, on); }
            }
        }
    }
    SKIP_BIAS.with(|b| b.set(fos_focus));
    let cat = Rc::new(Cat::new(&specs));
    let cut = rng.chance(1, 6);
    let is_dir = dir.is_some();
    let mut evs = match dir { Some((_, e)) => e, None => gen_canonical_stream(rng, &cat, cut) };
    if !is_dir { vary_parsing_finished(rng, &mut evs); }
    SKIP_BIAS.with(|b| b.set(false));

    let mut wx = core.clone();
    if rep != 'x' { wx = WX::Rep(rep, Box::new(wx)); }
    if fos != 'x' { wx = WX::Fos(fos, Box::new(wx)); }

    let log: Log = Rc::default();
    let inner = build(&core, &log, &cat);
    let base = cucumber::Cucumber::<PW, _, (), _, _, cli::Empty>::custom(
        crate::fam_filter::VecParser(vec![]),
        ReplayRunner(evs.clone(), Rc::clone(&cat)),
        inner,
    );
    macro_rules! with_fos { ($c:expr) => {{
        let c = $c;
        match fos {
            'd' => run_exit(c.fail_on_skipped()),
            'a' => run_exit(c.fail_on_skipped_with(|_, _, _| true)),
            'o' => run_exit(c.fail_on_skipped_with(|_, _, s: &gherkin::Scenario| {
                s.name.trim_start_matches("s-").parse::<usize>().unwrap() % 2 == 1
            })),
            _ => run_exit(c),
        }
    }}; }
    let outcome = match rep {
        's' => with_fos!(base.repeat_skipped()),
        'f' => with_fos!(base.repeat_failed()),
        'a' => with_fos!(base.repeat_if(|_| true)),
        _ => with_fos!(base),
    };
    let l = log.borrow();
    let imp = format!(
        "{} || {}",
        show_list(&l, |s| s.clone()),
        match &outcome { None => "exit 0".to_owned(), Some(m) => format!("exit 1 {}", hex(m)) },
    );
    let req = format!("exit.run {} {} {}", wx.show(), cat.show(), show_list(&evs, show_aev));
    let mut kinds = vec![];
    wx.kinds(&mut kinds);
    kinds.sort();
    kinds.dedup();
    Case {
        req,
        imp,
        class: format!("{}:{}", if outcome.is_some() { "panic" } else { "ok" }, kinds.join("+")),
        nontrivial: !evs.is_empty(),
    }
}

impl WX {
    /// may a `Repeat` be put around this writer (it must be `NonTransforming`)?
    fn summarizable_outer(&self) -> bool {
        // DynW (what `build` returns) is declared NonTransforming whatever it contains; the real
        // restriction is on what the MODEL can express: `rep` around anything is fine
        true
    }
}
