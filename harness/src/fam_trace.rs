//! C20: tracing attribution. One run per CHILD process (the subscriber is a process-global), with the
//! real `init_tracing()` subscriber; the parent collects the child's event stream and hands it to the
//! Lean monitor `mon.c20`.

use std::{
    cell::RefCell,
    collections::HashMap,
    future::Future,
    pin::Pin,
    rc::Rc,
    task::{Context, Poll},
};

use cucumber::{cli, event, parser, runner, step, writer, Cucumber, Event, World, Writer};
use futures::{executor::block_on, future::LocalBoxFuture, FutureExt as _};
use regex::Regex;

use crate::{common::*, fam_filter::VecParser};

#[derive(Debug, Default)]
pub struct TW;
impl World for TW {
    type Error = std::convert::Infallible;
    async fn new() -> Result<Self, Self::Error> {
        Ok(Self)
    }
}

struct YieldN(usize);
impl Future for YieldN {
    type Output = ();
    fn poll(mut self: Pin<&mut Self>, cx: &mut Context<'_>) -> Poll<()> {
        if self.0 == 0 {
            Poll::Ready(())
        } else {
            self.0 -= 1;
            cx.waker().wake_by_ref();
            Poll::Pending
        }
    }
}

thread_local! {
    /// (scenario, step) -> (logs before await, yields, logs after await, fail on first attempt)
    static PLAN: RefCell<HashMap<(usize, usize), (usize, usize, usize, bool)>> = RefCell::new(HashMap::new());
    static SEEN: RefCell<HashMap<(usize, usize), usize>> = RefCell::new(HashMap::new());
}

fn step_fn(_: &mut TW, ctx: step::Context) -> LocalBoxFuture<'_, ()> {
    async move {
        // text: "log <scen> <step>"
        let t: Vec<usize> = ctx.step.value.split(' ').skip(1).filter_map(|x| x.parse().ok()).collect();
        let (sc, st) = (t[0], t[1]);
        let (before, yields, after, fail_once) = PLAN.with(|p| p.borrow().get(&(sc, st)).copied().unwrap_or((0, 0, 0, false)));
        let nth = SEEN.with(|s| { let mut s = s.borrow_mut(); let e = s.entry((sc, st)).or_insert(0); *e += 1; *e });
        for k in 0..before {
            tracing::info!("L {sc} {st} {k}");
        }
        YieldN(yields).await;
        for k in before..before + after {
            tracing::info!("L {sc} {st} {k}");
        }
        YieldN(yields / 2).await;
        if fail_once && nth == 1 {
            panic!("first attempt fails");
        }
    }
    .boxed_local()
}

struct RecW(Rc<RefCell<Vec<String>>>);
impl Writer<TW> for RecW {
    type Cli = cli::Empty;
    async fn handle_event(&mut self, ev: parser::Result<Event<event::Cucumber<TW>>>, _: &cli::Empty) {
        let Ok(ev) = ev else { return };
        let mut line = cucumber::verif::describe(&*ev);
        if let event::Cucumber::Feature(_, fe) = &*ev {
            let sc = match fe {
                event::Feature::Scenario(_, sc) => Some(sc),
                event::Feature::Rule(_, event::Rule::Scenario(_, sc)) => Some(sc),
                _ => None,
            };
            if let Some(event::RetryableScenario { event: event::Scenario::Log(msg), .. }) = sc {
                let re = Regex::new(r"L (\d+) (\d+) (\d+)").unwrap();
                line.push_str(&re.captures(msg).map_or_else(|| " ?".to_owned(), |c| format!(" {} {} {}", &c[1], &c[2], &c[3])));
            }
        }
        self.0.borrow_mut().push(line);
    }
}
impl writer::Normalized for RecW {}

/// the child: one run, prints `mon.c20 …` to stdout
pub fn child(seed: u64) {
    let mut rng = Rng::new(seed);
    let nscen = rng.range(1, 12);
    let limit = *rng.pick(&[1usize, 2, 4, 12]);
    let mut feats = vec![];
    let mut plan = HashMap::new();
    let mut expected: Vec<(usize, usize, usize)> = vec![];
    let mut id = 0;
    let nfeat = rng.range(1, 2);
    for f in 0..nfeat {
        let mut scens = vec![];
        for _ in 0..(nscen / nfeat).max(1) {
            id += 1;
            let nsteps = rng.range(1, 3);
            let fail_step = if rng.chance(1, 4) { Some(rng.below(nsteps)) } else { None };
            let mut steps = vec![];
            for st in 0..nsteps {
                let (b, y, a) = (rng.below(3), rng.below(4), rng.below(3));
                plan.insert((id, st), (b, y, a, fail_step == Some(st)));
                expected.push((id, st, b + a));
                steps.push(StepSpec { ty: gherkin::StepType::Given, value: format!("log {id} {st}") });
            }
            scens.push(ScenSpec {
                id,
                name: format!("s-{id}"),
                tags: if fail_step.is_some() { vec!["retry(1)".to_owned()] } else { vec![] },
                steps,
                line: 10 * id,
            });
        }
        let mut built = mk_feat(&FeatSpec { id: 100 + f, name: format!("f-{}", 100 + f), path: None, tags: vec![], bg: vec![], scens, rules: vec![] });
        for s in &mut built.scenarios {
            for (i, st) in s.steps.iter_mut().enumerate() { st.position.line = crate::rr::RST + i; }
        }
        feats.push(built);
    }
    PLAN.with(|p| *p.borrow_mut() = plan);
    let coll = step::Collection::<TW>::new().given(None, Regex::new("^log ").unwrap(), step_fn);
    let log: Rc<RefCell<Vec<String>>> = Rc::default();
    let r = runner::Basic::<TW>::default().steps(coll).max_concurrent_scenarios(Some(limit));
    let c = Cucumber::<TW, _, (), _, _, cli::Empty>::custom(VecParser(feats.into_iter().map(Ok).collect()), r, RecW(Rc::clone(&log)))
        .with_default_cli()
        .init_tracing();
    let _w = block_on(c.run(()));
    // events -> wire
    let (mut pe, mut _pe2) = (0usize, 0usize);
    let evs: Vec<String> = log.borrow().iter().map(|l| {
        // Log lines carry "<scen> <step> <k>" after the probe's `log`
        let t: Vec<&str> = l.split(' ').collect();
        if t.len() >= 9 && t[0] == "A" && t[5] == "log" {
            let msg = if t[6] == "?" { 999_999_999 } else { t[6].parse::<usize>().unwrap() * 10_000 + t[7].parse::<usize>().unwrap() * 100 + t[8].parse::<usize>().unwrap() };
            format!("A {} {} {} {} log {msg}", id_num(t[1]), if t[2] == "-" { "-".to_owned() } else { id_num(t[2]) }, id_num(t[3]), t[4].replace('/', " "))
        } else {
            let w = crate::fam_sched::label_of(&format!("TX {l}"), &mut pe, &mut _pe2);
            w.trim_start_matches("tx ").to_owned()
        }
    }).collect();
    println!(
        "mon.c20 {} {} {}",
        limit,
        show_list(&expected, |(s, st, n)| format!("{s} {st} {n}")),
        show_list(&evs, |e| e.clone()),
    );
}

fn id_num(name: &str) -> String {
    name.rsplit('-').next().unwrap_or("0").to_owned()
}

pub fn gen_trace(rng: &mut Rng, _idx: usize) -> Case {
    let seed = rng.next() % 1_000_000;
    let exe = std::env::current_exe().expect("current exe");
    let out = std::process::Command::new(exe).args(["--tracing-child", &seed.to_string()]).output().expect("spawn child");
    let stdout = String::from_utf8_lossy(&out.stdout);
    let line = stdout.lines().find(|l| l.starts_with("mon.c20 ")).map(str::to_owned);
    match line {
        Some(l) => {
            let n = l.matches(" log ").count();
            let conc = l.split(' ').nth(1).unwrap_or("?").to_owned();
            Case { req: l, imp: "ok".into(), class: format!("limit{conc}/logs{}", match n { 0 => "0", 1..=5 => "few", _ => "many" }), nontrivial: n > 0 }
        }
        None => Case {
            req: "harness.ended".into(),
            imp: format!("!tracing-child-failed status={:?} stderr={}", out.status.code(), hex(&String::from_utf8_lossy(&out.stderr).chars().take(300).collect::<String>())),
            class: "child-failed".into(),
            nontrivial: true,
        },
    }
}
