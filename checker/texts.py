"""Human-written MANIFEST texts per property."""
HOOK_COMMITS = []
NOT_APPLICABLE = {}
TEXTS = {
    "C15": {
        "level": "Lean 4 theorems over the executable model of TagOperation::eval and of the filter closure / feature surgery in Cucumber::filter_run: eval is the Boolean homomorphism (= truth-table semantics over tag membership, for every expression and tag list), precedence name-regex > tag-expression > closure, kept scenarios = exactly the accepted ones as a sublist (order preserved) per container, rules/background/tags untouched. Unbounded in expression depth, tag lists and feature sizes. The model is tied to the code by running the real Cucumber::filter_run (scripted parser, recording runner, every combination of the three filter sources) and TagOperation::eval against cuke-driver on generated cases.",
        "note": "Trusted: Lean kernel + {propext, Quot.sound}; driver compilation; harness generators. regex matching is an oracle column computed by the real regex crate; the gherkin tag-expression text parser is exercised (1/3 of expressions) but not modelled.",
        "technique": "Lean 4 proof (induction on TagOp, List.filter/Sublist lemmas) + pure-function differential vs real filter_run",
    },
    "C17": {
        "level": "Lean 4 theorems over the executable model of step::Collection (per-keyword map with HashMap::insert semantics, find over an arbitrary iteration order): keyword scoping, 0 matches => None, exactly 1 => that definition with whole match + all groups named in order and \"\" for non-participating groups, >= 2 => ambiguity listing exactly the matching keys sorted; the result is invariant under any permutation of the iteration order and, for pairwise distinct keys, of the registration order. No bound on the number of definitions or groups. Tied to the code by calling the real Collection::{given,when,then,find} on random collections (shared regexes, duplicate keys, nested/optional/named/multi-byte groups) registered in random order and invoking the returned fn pointer.",
        "note": "Trusted: Lean kernel + {propext, Quot.sound, Classical.choice}; driver; harness. Regex matching itself is an oracle (real regex crate output per definition); key order is the crate's Ord, applied by the harness when numbering keys.",
        "technique": "Lean 4 proof (List.Perm, mergeSort uniqueness) + pure-function differential vs real Collection::find",
    },
    "C18": {
        "level": "Lean 4 theorems over the executable, character-level model of RetryOptions::parse_from_tags and of the CLI/builder merge in Basic::run: the four documented tag shapes yield (N?, D?) for every numeral < 2^64 and every payload without ')', nearest tag wins (scenario, else rule, else feature; first retry-prefixed tag in a list), omitted parts fall back CLI -> builder -> (1, none), untagged scenarios are retried iff the tag filter (CLI over builder) holds on the inherited tags or, without filter, a count/delay is configured; concurrency = cli.or(builder), fail_fast = cli || builder; malformed payloads degrade as the code does. Tied to the code by running the real Basic runner (merge) with a retry_options hook that calls the real parse_from_tags and records its result, on generated tag placements x CLI x builder settings incl. malformed tags.",
        "note": "Trusted: Lean kernel + {propext, Quot.sound}; driver; harness. humantime::parse_duration is an oracle table; usize parsing is modelled (optional '+', ASCII digits, < 2^64). Concurrency/fail-fast resolution are theorems here; their behavioural tie to the code is exercised by the scheduler families of C06/C08.",
        "technique": "Lean 4 proof (structural lemmas on strip_prefix/split_once/parse) + pure-function differential vs real Basic::run + parse_from_tags",
    },
}
