import Cuke.Props.C05
import Cuke.Lemmas.Sched
import Cuke.Model.SchedLts
import Cuke.Props.C06
import Cuke.Lemmas.SchedLts
import Cuke.Lemmas.SchedExit
import Cuke.Lemmas.SchedTrip
/-!
# C08 — Fail-fast stops dispatching after the first final failure, yet closes cleanly
Model: `Cuke.tripFailFast`, `Cuke.Slots` (`brk`), `Cuke.getBatch`, `Cuke.isFinished`, `Cuke.finishAll`
and the `notif` / `brk` / `get` / `idle` labels of the scheduler LTS (classes FF, B, K).
-/
namespace Cuke.C08
open Cuke List

/-- fail-fast is on iff the CLI flag or the builder flag is set -/
theorem failfast_resolution (c : SCfg) : c.failFast = true ↔ c.cliFF = true ∨ c.builderFF = true := by
  simp [SCfg.failFast]

/-- The switch trips exactly for a failed attempt that is NOT going to be retried, and only with
    fail-fast on: a failed attempt that will be retried does not trigger it. -/
theorem trip_iff (ff failed retried : Bool) :
    tripFailFast ff failed retried = true ↔ ff = true ∧ failed = true ∧ retried = false := by
  simp [tripFailFast, and_assoc]

theorem retried_failure_no_trip (ff failed : Bool) : tripFailFast ff failed true = false := by
  simp [tripFailFast]

/-- Once tripped, `get` is asked for zero scenarios … -/
theorem brk_asks_zero : Slots.brk.ask = some 0 := rfl

/-- … and then returns nothing, whatever is queued and ready: **no further attempt is dispatched**. -/
theorem no_dispatch_when_tripped (ready : Entry → Bool) (q : Queues) :
    (getBatch ready Slots.brk.ask q).1 = [] ∧ (getBatch ready Slots.brk.ask q).2.1 = q := by
  simp [getBatch, Slots.ask]

/-- The tripped state is absorbing for the slot bookkeeping. -/
theorem brk_absorbing (n : Nat) : Slots.brk.onDispatch n = .brk ∧ Slots.brk.onConsume = .brk := ⟨rfl, rfl⟩

/-- After the trip the loop ends as soon as the parser is done and nothing is in flight, ignoring
    whatever is still queued. -/
theorem finished_ignores_queue_when_tripped (q : Queues) : isFinished true true q = true := by
  simp [isFinished]

/-- Without a trip the loop only ends when the queues are empty (and the parser is done). -/
theorem finished_needs_empty_queue (done : Bool) (q : Queues) :
    isFinished done false q = true ↔ done = true ∧ q.isEmpty = true := by
  simp [isFinished]

/-- At exit every still-open rule and feature bracket gets its Finished event (rules first). -/
theorem exit_closes_all (b : Brackets) :
    (finishAll b).1 = b.rules.map (fun e => Ev.ruleFinished e.1.1 e.1.2) ∧
    (finishAll b).2 = b.feats.map (fun e => Ev.featFinished e.1) := ⟨rfl, rfl⟩

/-- The LTS: a drained final failure under fail-fast arms the trip … -/
theorem notif_arms_trip (c : SCfg) (s : SState) (id : Nat) (k : ScenKey) (rest : List (Nat × ScenKey × Bool × Bool))
    (hn : s.notifs = (id, k, true, false) :: rest) (hff : c.failFast = true) :
    (stepL c s (.notif id true false)).tripDue = true := by
  simp only [stepL, inPhase_notifs, hn]
  simp [tripFailFast, hff]

/-- … and `brk` switches the slots to the absorbing state. -/
theorem brk_sets_slots (c : SCfg) (s : SState) : (stepL c s .brk).slots = .brk := by
  simp only [stepL]

/-- After the first parser error no later item is ingested under fail-fast: the LTS flags any. -/
theorem no_ingest_after_error (c : SCfg) (s : SState) (hff : c.failFast = true) :
    (stepL c s .pErr).parserStopped = true := by
  simp only [stepL, hff]

theorem ingest_after_stop_flagged (c : SCfg) (s : SState) (f : Nat) (h : s.parserStopped = true) :
    ∃ d ∈ (stepL c s (.pOk f)).dis, d.cls = .FF := by
  simp only [stepL, h, if_true]
  split
  · exact ⟨⟨.FF, s.pos + 1, "feature ingested after the parser loop should have stopped"⟩, by simp [SState.note], rfl⟩
  · exact ⟨⟨.FF, s.pos + 1, "feature ingested after the parser loop should have stopped"⟩, by simp [SState.note], rfl⟩

/-! ## Non-vacuity -/
example : tripFailFast true true false = true := rfl
example : (getBatch (fun _ => true) Slots.brk.ask ⟨[], [⟨1, ⟨0, none, 1⟩, false, none, none⟩]⟩).1 = [] := by decide

/-! ## Over whole runs of the scheduler LTS -/

open Cuke.SchedInv in
/-- **No dispatch while fail-fast is tripped, in every accepted run**: if the log is accepted without a
    K / I / Q disagreement, a dispatch that happens while the slot counter is `Break` dispatches nothing
    (`get(Some(0))` returned an empty batch) — whatever is queued, ready or retried at that moment. -/
theorem lts_no_dispatch_while_tripped (c : SCfg) (pre suf : List Label) (n : Nat) (sl : Slots)
    (hg : Good (accept c (pre ++ Label.disp n sl :: suf)) = true)
    (hbrk : (accept c pre).slots = .brk) : n = 0 := by
  -- Good up to and including the dispatch
  have hgd : Good (stepL c (accept c pre) (.disp n sl)) = true := by
    simp only [accept, foldl_append, foldl_cons] at hg
    exact Cuke.C06.good_foldl_mono c suf _ hg
  have hgp : Good (accept c pre) = true := good_step_mono c _ _ hgd
  have hinv := Cuke.C06.lts_slots_invariant c pre hgp
  -- peel the dispatch checks (stages of `stepL … (.disp …)`)
  rw [disp_eq] at hgd
  have hg5 : Good (disp5 (accept c pre) n sl) = true := hgd
  obtain ⟨_, hg4⟩ := good_chk _ _ _ _ (Or.inl rfl) hg5
  obtain ⟨hb4, hg3⟩ := good_chk _ _ _ _ (Or.inl rfl) hg4
  have hg1 : Good (disp1 (accept c pre)) = true := hg3
  obtain ⟨_, hph⟩ := good_mono_inPhase _ _ _ (good_ced _ _ hg1)
  have hphase : (accept c pre).phase = .afterGet2 := by
    simp only [List.contains_cons, List.contains_nil, Bool.or_false, beq_iff_eq] at hph; exact hph
  have hb := hinv.2.2 hphase 0 (by rw [hbrk]; rfl)
  have fb : (disp3 (accept c pre)).batch = (accept c pre).batch := by simp [disp3, disp1]
  have : n = (accept c pre).batch.length := by
    have := hb4; rw [fb] at this; simpa using this
  omega


/-! ## "… yet closes cleanly", over whole runs -/

open Cuke.SchedBr Cuke.BrL in
/-- **Every started feature and rule still gets its Finished** — also when fail-fast cut the run short: in every run
    replayed without a class-B disagreement, once the bookkeeping is empty (`finish_all_rules_and_features` ran at the
    exit) and nothing is owed any more, the stream that was sent has, per feature and per rule, as many Finished as
    Started events. (The bracket ledger of C03; nothing in it depends on whether fail-fast tripped.) -/
theorem lts_failfast_closes_brackets (c : SCfg) (ls : List Label) (hg : GoodB (accept c ls) = true)
    (hb : (accept c ls).br = Brackets.empty) (he : expEvents (accept c ls).expect = []) :
    (∀ f, cnt (.featStarted f) (accept c ls).out = cnt (.featFinished f) (accept c ls).out) ∧
    (∀ f r, cnt (.ruleStarted f r) (accept c ls).out = cnt (.ruleFinished f r) (accept c ls).out) := by
  have hbi : BInv (accept c ls) := foldl_binv c ls {} binv_init hg
  obtain ⟨hF, hR⟩ := hbi
  rw [hb] at hF hR
  have hh : hist (accept c ls) = (accept c ls).out := by simp [hist, he]
  rw [hh] at hF hR
  exact ⟨fun f => (hF.2 f).2 (by simp [keysF, Brackets.empty]), fun f r => (hR.2 f r).2 (by simp [keysR, Brackets.empty])⟩

open Cuke.SchedOrd Cuke.SchedExit in
/-- **… and nothing of a scenario follows the exit** (tripped or not): the closing brackets and run-Finished are the
    end of the stream's scenario-related part. -/
theorem lts_failfast_exit_is_final (c : SCfg) (pre post : List Label) (sl : Bool)
    (hc : Clean0 (accept c (pre ++ [.idle true sl] ++ post)) = true) :
    ∀ k ret se, Label.tx (.scen k ret se) ∉ post := by
  have hacc : accept c (pre ++ [.idle true sl] ++ post) = post.foldl (stepL c) (stepL c (accept c pre) (.idle true sl)) := by
    simp [accept, List.foldl_append]
  rw [hacc] at hc
  have hmono : ∀ (ls : List Label) (s : SState), Clean0 (ls.foldl (stepL c) s) = true → Clean0 s = true := by
    intro ls
    induction ls with
    | nil => intro s h; exact h
    | cons l rest ih2 => intro s h; exact clean0_step_mono c s l (ih2 _ h)
  exact exiting_run c post _ (idle_true_exiting c (accept c pre) sl (clean0_all _ (hmono post _ hc)).1) hc

/-! ## if nothing fails, fail-fast changes nothing -/

/-- a label that reports a FINAL failure (a failed attempt that is not retried) or a parser error -/
def isFailureLabel : Label → Bool
  | .pErr => true
  | .notif _ failed retried => failed && !retried
  | _ => false

/-- the same configuration with other fail-fast flags -/
def withFF (c : SCfg) (cli builder : Bool) : SCfg := { c with cliFF := cli, builderFF := builder }

/-- one label: unless it reports a final failure or a parser error, the scheduler's reaction does not depend on
    the fail-fast flags -/
theorem stepL_ff_irrelevant (c : SCfg) (x y : Bool) (s : SState) (l : Label) (h : isFailureLabel l = false) :
    stepL (withFF c x y) s l = stepL c s l := by
  cases l with
  | pErr => simp [isFailureLabel] at h
  | notif id f r =>
    simp only [isFailureLabel] at h
    have h1 : ∀ ff, tripFailFast ff f r = false := by intro ff; simp [tripFailFast]; cases ff <;> simp_all
    simp only [stepL, h1]
    rfl
  | _ => rfl

/-- **If nothing fails, a fail-fast run is a normal run.** For every log without a final failure and without a parser
    error (failed attempts that are retried are allowed), the scheduler model makes exactly the same decisions with
    fail-fast on as with fail-fast off: the same state after every label — the same batches handed out, the same
    events owed and sent, the same disagreements (none, if the log is a run of the real code). So the runs the code
    can make with `--fail-fast` when nothing fails are exactly the runs it can make without it. -/
theorem lts_failfast_transparent_if_nothing_fails (c : SCfg) (x y : Bool) (ls : List Label)
    (h : ∀ l ∈ ls, isFailureLabel l = false) : accept (withFF c x y) ls = accept c ls := by
  unfold accept
  generalize ({} : SState) = s0
  induction ls generalizing s0 with
  | nil => rfl
  | cons l rest ih =>
    simp only [foldl_cons]
    rw [stepL_ff_irrelevant c x y s0 l (h l mem_cons_self)]
    exact ih (fun l' hl' => h l' (mem_cons_of_mem _ hl')) _

/-- non-vacuity: the retry example run (a failed attempt that IS retried, then a pass) holds no failure label, is
    replayed without a disagreement, and with fail-fast switched on it is replayed to the very same state -/
example : (∀ l ∈ Cuke.C05.rlog, isFailureLabel l = false) ∧
    (finalChecks (accept (withFF Cuke.C05.rcfg true false) Cuke.C05.rlog)).dis.isEmpty = true := by decide +kernel

/-! ## Clause (i) over whole runs: nothing is dispatched after a final failure (Lemmas/SchedTrip.lean) -/

/-- **Fail-fast stops dispatching, whole runs.** Under fail-fast, in every log replayed without a disagreement — of any
    length, whatever the parser, the completions and the retries do —, once an attempt has ended as a FINAL failure
    (`END failed, not retried`, taken while `execute` awaits its scenarios, as every `END` of a real run is: monitor
    `endsWhileSelecting`), every later dispatch dispatches NOTHING: the attempts that may still begin are those
    dispatched together with the failing one. (The acceptor demands that every completion notification is drained
    before the next `features.get`, and that the trip follows the notification of the final failure at once.) -/
theorem lts_no_dispatch_after_final_failure (c : SCfg) (hff : c.failFast = true) (pre post : List Label) (id t n : Nat)
    (sl : Slots)
    (hc : SchedOrd.Clean0 (accept c (pre ++ [.endA id true false t] ++ post ++ [.disp n sl])) = true)
    (hsel : (accept c pre).phase = .selecting) : n = 0 := by
  have hsplit : accept c (pre ++ [Label.endA id true false t] ++ post ++ [Label.disp n sl]) =
      (post ++ [Label.disp n sl]).foldl (stepL c) (accept c (pre ++ [Label.endA id true false t])) := by
    simp [accept, List.foldl_append]
  rw [hsplit] at hc
  have hc1 : SchedOrd.Clean0 (accept c (pre ++ [.endA id true false t])) = true :=
    SchedSpin.clean0_foldl_mono c _ _ hc
  have ha := SchedTrip.ainv_after_final_end c pre id t hc1 hsel
  exact (SchedTrip.ainv_run c hff _ _ ha hc).2 n sl (by simp)

/-- **Tripped is absorbing over whole runs**: once the slot counter is `Break` (after the loop has started), it is `Break`
    after every continuation replayed without a disagreement — so `features.get` is asked for `Some(0)` for the rest of
    the run and `lts_no_dispatch_while_tripped` applies to every later dispatch. -/
theorem lts_tripped_stays_tripped (c : SCfg) (pre post : List Label) (hc : SchedOrd.Clean0 (accept c (pre ++ post)) = true)
    (hp : (accept c pre).phase ≠ .init) (hb : (accept c pre).slots = .brk) : (accept c (pre ++ post)).slots = .brk := by
  have hsplit : accept c (pre ++ post) = post.foldl (stepL c) (accept c pre) := by simp [accept, List.foldl_append]
  rw [hsplit] at hc ⊢
  exact (SchedTrip.tripped_run c post _ ⟨hp, hb⟩ hc).2

/-- the monitor's predicate is the theorem's hypothesis: where `endsWhileSelecting` holds, every `END` was taken in
    phase `selecting` -/
theorem endsWhileSelecting_spec (c : SCfg) (pre post : List Label) (id t : Nat) (f r : Bool)
    (h : SMon.endsWhileSelecting c (pre ++ [Label.endA id f r t] ++ post) = true) : (accept c pre).phase = .selecting := by
  have fst : ∀ (ls : List Label) (a : SState × Bool), (ls.foldl (SMon.ewsStep c) a).1 = ls.foldl (stepL c) a.1 := by
    intro ls
    induction ls with
    | nil => intro a; rfl
    | cons l rest ih => intro a; simp only [List.foldl_cons]; rw [ih]; rfl
  have sticky : ∀ (ls : List Label) (s : SState), (ls.foldl (SMon.ewsStep c) (s, false)).2 = false := by
    intro ls
    induction ls with
    | nil => intro s; rfl
    | cons l rest ih =>
      intro s
      simp only [List.foldl_cons]
      have : SMon.ewsStep c (s, false) l = (stepL c s l, false) := by cases l <;> simp [SMon.ewsStep]
      rw [this]; exact ih _
  unfold SMon.endsWhileSelecting at h
  simp only [List.foldl_append, List.foldl_cons, List.foldl_nil] at h
  cases hb : ((accept c pre).phase == Phase.selecting) with
  | true => simpa using hb
  | false =>
    exfalso
    have h1 : (pre.foldl (SMon.ewsStep c) (({} : SState), true)).1 = accept c pre := fst pre _
    have h2 : SMon.ewsStep c (pre.foldl (SMon.ewsStep c) (({} : SState), true)) (Label.endA id f r t) =
        (stepL c (accept c pre) (Label.endA id f r t), false) := by
      simp only [SMon.ewsStep, h1, hb, Bool.and_false]
    rw [h2, sticky] at h
    cases h

/-! non-vacuity: limit 2, fail-fast, three scenarios; two are dispatched together, the first fails finally while the
    second is in flight; the completion is consumed, the notification drained, the trip follows; the next dispatch
    dispatches nothing although scenario 3 is still queued — and a log that dispatched it is rejected -/
def fcfg : SCfg :=
  { builderConc := some (some 2), cliConc := none, builderFF := true, cliFF := false, builderRetries := none,
    cliRetries := none, builderAfter := none, cliAfter := none, customWhich := false, durTable := [],
    feats := [⟨0, [], [⟨1, [], 1⟩, ⟨2, [], 1⟩, ⟨3, [], 1⟩], []⟩] }
def fk (i : Nat) : ScenKey := ⟨0, none, i⟩
def fpre : List Label :=
  [.hookTake, .tx .started, .pOk 0, .ins 0 [] [⟨10, 1, none, none⟩, ⟨11, 2, none, none⟩, ⟨12, 3, none, none⟩], .pEnd,
   .tx (.parsingFinished 1 0 3 3 0), .pFinish,
   .get1 1 (some 2) 0 3, .get2 1 (.cont (some 2)) [10, 11] false 0, .tx (.featStarted 0), .disp 2 (.cont (some 0)),
   .tx (.scen (fk 1) none .started), .tx (.scen (fk 2) none .started), .tx (.scen (fk 1) none .finished)]
def fpost : List Label := [.cons true, .notif 10 true false, .brk, .get2 3 .brk [] false 1]

example : fcfg.failFast = true ∧ (accept fcfg fpre).phase = .selecting ∧
    SchedOrd.Clean0 (accept fcfg (fpre ++ [.endA 10 true false 2] ++ fpost ++ [.disp 0 .brk])) = true ∧
    SchedOrd.Clean0 (accept fcfg (fpre ++ [.endA 10 true false 2] ++ fpost ++ [.disp 1 .brk])) = false ∧
    SMon.endsWhileSelecting fcfg (fpre ++ [.endA 10 true false 2] ++ fpost ++ [.disp 0 .brk]) = true := by
  decide +kernel

end Cuke.C08
