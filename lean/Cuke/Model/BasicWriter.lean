import Cuke.Model.Reporters
/-
  Model of the plain-terminal reporter `writer::Basic` (src/writer/basic.rs) in NON-terminal mode
  (`Coloring::Never`, so `styles.is_present = false`: nothing is cleared and re-drawn, Started steps
  print nothing). Output = the sequence of printed blocks as structured records; the harness parses
  the real text back into the same records. The only state is the indentation counter
  (`indent`, moved by `+= 2 / += 4 / saturating_sub`).
-/
namespace Cuke.Rep
open Cuke

inductive BLine where
  /-- `Failed to parse: …` -/
  | parseErr (i : Nat)
  /-- `Feature: <name>` (always at column 0) -/
  | feature (f : Nat)
  /-- `<indent>Rule: <name>` -/
  | rule (indent : Nat) (r : Nat)
  /-- `<indent>Scenario: <name>[ | Retry attempt: c/t]` -/
  | scenario (indent : Nat) (scen : Nat) (retry : Option (Nat × Nat))
  /-- `✔` / `?` / `✘` block of a (background `>`) step; `loc` = the feature its `path:line:col`
      names (skipped / failed only) -/
  | step (indent : Nat) (bg : Bool) (idx : Nat) (r : StepRes) (loc : Option Nat)
  /-- `✘  Scenario's Before|After hook failed <path>:…` with the captured payload -/
  | hook (indent : Nat) (before : Bool) (payload : Nat) (loc : Nat)
  /-- `Scenario::Log` text, written raw -/
  | log (m : Nat)
  deriving Repr, DecidableEq

structure Basic where
  indent : Nat := 0
  deriving Repr, DecidableEq

/-- a step's result block: printed at `indent.saturating_sub(3)`, then `indent -= 4` -/
def Basic.stepResult (s : Basic) (k : ScenKey) (bg : Bool) (i : Nat) (r : StepRes) : Basic × List BLine :=
  match r with
  | .started => ({ indent := s.indent + 4 }, [])
  | .passed => ({ indent := s.indent - 4 }, [.step (s.indent - 3) bg i .passed none])
  | r => ({ indent := s.indent - 4 }, [.step (s.indent - 3) bg i r (some k.feat)])

/-- `Basic::handle_event` -/
def Basic.handle (s : Basic) : Ev → Basic × List BLine
  | .parseErr i => (s, [.parseErr i])
  | .featStarted f => (s, [.feature f])
  | .ruleStarted _ r => ({ indent := s.indent + 2 }, [.rule s.indent r])
  | .ruleFinished _ _ => ({ indent := s.indent - 2 }, [])
  | .scen k ret .started => ({ indent := s.indent + 2 }, [.scenario (s.indent + 2) k.scen (retryOf ret)])
  | .scen _ _ (.hook _ .started) => ({ indent := s.indent + 4 }, [])
  | .scen _ _ (.hook _ .passed) => ({ indent := s.indent - 4 }, [])
  | .scen k _ (.hook t (.failed p)) => ({ indent := s.indent - 4 }, [.hook (s.indent - 3) (t == .before) p k.feat])
  | .scen k _ (.bg i r) => s.stepResult k true i r
  | .scen k _ (.step i r) => s.stepResult k false i r
  | .scen _ _ (.log m) => (s, [.log m])
  | .scen _ _ .finished => ({ indent := s.indent - 2 }, [])
  | .started => (s, [])
  | .parsingFinished .. => (s, [])
  | .finished => (s, [])
  | .featFinished _ => (s, [])

def basicRun (evs : List Ev) : Basic × List BLine :=
  evs.foldl (fun (acc : Basic × List BLine) e => let r := acc.1.handle e; (r.1, acc.2 ++ r.2)) ({}, [])

/-! ## reading the report: which scenario a line stands under -/

/-- the header context while reading the report top to bottom -/
structure BCtx where
  feat : Option Nat := none
  rule : Option Nat := none
  scen : Option (Nat × Option (Nat × Nat)) := none
  deriving Repr, DecidableEq

/-- what a reader of the text learns: the facts, attributed to the headers they stand under.
    A `Rule:` header stays in force until the next `Feature:` (the text has no rule-end marker);
    the indentation tells whether a scenario is inside the rule: 4 columns deeper than a top-level one. -/
inductive BFact where
  | step (feat : Option Nat) (inRule : Option Nat) (scen : Option (Nat × Option (Nat × Nat))) (bg : Bool) (idx : Nat) (st : Status)
  | hookFailed (feat : Option Nat) (inRule : Option Nat) (scen : Option (Nat × Option (Nat × Nat))) (before : Bool)
  | parseErr (i : Nat)
  deriving Repr, DecidableEq

def readLine (c : BCtx) : BLine → BCtx × List BFact
  | .parseErr i => (c, [.parseErr i])
  | .feature f => ({ feat := some f, rule := none, scen := none }, [])
  | .rule _ r => ({ c with rule := some r, scen := none }, [])
  | .scenario ind s retry =>
    -- a top-level scenario is printed at column 2; one inside a rule at column 4
    ({ c with scen := some (s, retry), rule := if ind ≤ 2 then none else c.rule }, [])
  | .step _ bg idx r _ =>
    match statusOf r with
    | some st => (c, [.step c.feat c.rule c.scen bg idx st])
    | none => (c, [])
  | .hook _ before _ _ => (c, [.hookFailed c.feat c.rule c.scen before])
  | .log _ => (c, [])

def readReport (ls : List BLine) : List BFact :=
  (ls.foldl (fun (acc : BCtx × List BFact) l => let r := readLine acc.1 l; (r.1, acc.2 ++ r.2)) ({}, [])).2

/-- the same shape computed from the event stream directly -/
def bfactOf : Ev → Option BFact
  | .parseErr i => some (.parseErr i)
  | .scen k ret (.bg i r) => (statusOf r).map (BFact.step (some k.feat) k.rule (some (k.scen, retryOf ret)) true i)
  | .scen k ret (.step i r) => (statusOf r).map (BFact.step (some k.feat) k.rule (some (k.scen, retryOf ret)) false i)
  | .scen k ret (.hook t (.failed _)) => some (.hookFailed (some k.feat) k.rule (some (k.scen, retryOf ret)) (t == .before))
  | _ => none

end Cuke.Rep

namespace Cuke.Rep
open Cuke

/-! ## un-attributed facts (what a line states by itself) -/

inductive RawFact where
  | step (bg : Bool) (idx : Nat) (st : Status)
  | hookFailed (before : Bool)
  | parseErr (i : Nat)
  deriving Repr, DecidableEq

def rawOfLine : BLine → Option RawFact
  | .parseErr i => some (.parseErr i)
  | .step _ bg idx r _ => (statusOf r).map (RawFact.step bg idx)
  | .hook _ before _ _ => some (.hookFailed before)
  | _ => none

def rawOfEv : Ev → Option RawFact
  | .parseErr i => some (.parseErr i)
  | .scen _ _ (.bg i r) => (statusOf r).map (RawFact.step true i)
  | .scen _ _ (.step i r) => (statusOf r).map (RawFact.step false i)
  | .scen _ _ (.hook t (.failed _)) => some (.hookFailed (t == .before))
  | _ => none

/-! ## recogniser of normalized, canonical streams (what `Normalize` hands to the writer) -/

structure SeqSt where
  feat : Option Nat := none
  rule : Option Nat := none
  scen : Option (ScenKey × Option Retries) := none
  /-- a step / hook has Started and its result is still to come -/
  opened : Bool := false
  deriving Repr, DecidableEq

def SeqSt.inScen (q : SeqSt) (k : ScenKey) (ret : Option Retries) (opened : Bool) : Bool :=
  q.scen == some (k, ret) && q.opened == opened

def SeqSt.step (q : SeqSt) : Ev → Option SeqSt
  | .started => some q
  | .parsingFinished .. => some q
  | .parseErr _ => some q
  | .finished => some q
  | .featStarted f => if q.feat.isNone && q.rule.isNone && q.scen.isNone then some { feat := some f } else none
  | .featFinished f => if q.feat == some f && q.rule.isNone && q.scen.isNone then some {} else none
  | .ruleStarted f r => if q.feat == some f && q.rule.isNone && q.scen.isNone then some { q with rule := some r } else none
  | .ruleFinished f r => if q.feat == some f && q.rule == some r && q.scen.isNone then some { q with rule := none } else none
  | .scen k ret .started =>
    if q.feat == some k.feat && q.rule == k.rule && q.scen.isNone then some { q with scen := some (k, ret), opened := false } else none
  | .scen k ret .finished => if q.inScen k ret false then some { q with scen := none } else none
  | .scen k ret (.log _) => if q.scen == some (k, ret) then some q else none
  | .scen k ret (.hook _ .started) => if q.inScen k ret false then some { q with opened := true } else none
  | .scen k ret (.hook _ .passed) => if q.inScen k ret true then some { q with opened := false } else none
  | .scen k ret (.hook _ (.failed _)) => if q.inScen k ret true then some { q with opened := false } else none
  | .scen k ret (.bg _ .started) => if q.inScen k ret false then some { q with opened := true } else none
  | .scen k ret (.bg _ _) => if q.inScen k ret true then some { q with opened := false } else none
  | .scen k ret (.step _ .started) => if q.inScen k ret false then some { q with opened := true } else none
  | .scen k ret (.step _ _) => if q.inScen k ret true then some { q with opened := false } else none

def SeqOk : SeqSt → List Ev → Bool
  | _, [] => true
  | q, e :: es => match q.step e with
    | some q' => SeqOk q' es
    | none => false

end Cuke.Rep
