//! C14: built-in reporters parsed back. (work in progress: dump mode)

use std::{cell::RefCell, io, rc::Rc};

use cucumber::{cli, writer, Writer};
use futures::executor::block_on;

use crate::{common::*, evs::*, fam_pipe::gen_canonical_stream};

#[derive(Clone, Default)]
pub struct Sink(pub Rc<RefCell<Vec<u8>>>);
impl io::Write for Sink {
    fn write(&mut self, buf: &[u8]) -> io::Result<usize> {
        self.0.borrow_mut().extend_from_slice(buf);
        Ok(buf.len())
    }
    fn flush(&mut self) -> io::Result<()> {
        Ok(())
    }
}
impl Sink {
    pub fn text(&self) -> String {
        String::from_utf8_lossy(&self.0.borrow()).into_owned()
    }
}

pub fn dump(seed: u64) {
    let mut rng = Rng::new(seed);
    let specs = gen_catalog_specs(&mut rng, 2);
    let cat = Rc::new(Cat::new(&specs));
    let evs = gen_canonical_stream(&mut rng, &cat, false);
    for e in &evs { println!("EV {}", show_aev(e)); }
    let s1 = Sink::default();
    let mut lt = writer::Libtest::<PW, _>::raw(s1.clone());
    let lt_cli = writer::libtest::Cli::default();
    for e in &evs { block_on(lt.handle_event(cat.realize(e), &lt_cli)); }
    println!("=== LIBTEST\n{}", s1.text());
    let s2 = Sink::default();
    let mut js = writer::Json::raw(s2.clone());
    for e in &evs { block_on(Writer::<PW>::handle_event(&mut js, cat.realize(e), &cli::Empty)); }
    println!("=== JSON\n{}", s2.text());
    let s3 = Sink::default();
    let mut ju = writer::JUnit::<PW, _>::raw(s3.clone(), 0);
    let ju_cli = writer::junit::Cli { verbose: None };
    for e in &evs { block_on(ju.handle_event(cat.realize(e), &ju_cli)); }
    println!("=== JUNIT\n{}", s3.text());
    let s4 = Sink::default();
    let mut ba = writer::Basic::raw(s4.clone(), writer::Coloring::Never, 0);
    let ba_cli = writer::basic::Cli { verbose: 0, color: writer::Coloring::Never };
    for e in &evs { block_on(Writer::<PW>::handle_event(&mut ba, cat.realize(e), &ba_cli)); }
    println!("=== BASIC\n{}", s4.text());
}

// ---------------------------------------------------------------------------
// parse-back

use regex::Regex;

fn num_after<'a>(s: &'a str, pre: &str) -> Option<usize> {
    let i = s.find(pre)? + pre.len();
    let d: String = s[i..].chars().take_while(char::is_ascii_digit).collect();
    d.parse().ok()
}

/// `Feature: f-1 feat/f1.feature::1000: Rule: r-2::60: Scenario: s-3 | Retry attempt 1/2::61:  Given step 0`
fn parse_lt_name(name: &str) -> String {
    if let Some(rest) = name.strip_prefix("Feature: Parsing ") {
        return format!("!parse {}", num_after(rest, "p/").map_or_else(|| rest.to_owned(), |n| n.to_string()));
    }
    let parts: Vec<&str> = name.split("::").collect();
    let feat = num_after(parts[0], "Feature: f-").unwrap_or(usize::MAX);
    let feat_no = parts[0].rsplit(' ').next().and_then(|t| t.parse::<usize>().ok());
    let (rule, sc_part, step_part) = if parts.len() == 4 {
        (num_after(parts[1], "Rule: r-"), parts[2], parts[3])
    } else {
        (None, parts[1], parts[2])
    };
    let scen = num_after(sc_part, "Scenario: s-").unwrap_or(usize::MAX);
    let sc_line: usize = sc_part.split(':').next().and_then(|x| x.trim().parse().ok()).unwrap_or(0);
    let retry = Regex::new(r"Retry attempt (\d+)/(\d+)").unwrap().captures(sc_part).map(|c| format!("{} {}", &c[1], &c[2]));
    let step = if step_part == "Before hook" { "hb".to_owned() } else if step_part == "After hook" { "ha".to_owned() } else {
        let line: usize = step_part.split(':').next().and_then(|x| x.trim().parse().ok()).unwrap_or(0);
        if line >= BG_LINE { format!("bg {}", line - BG_LINE) } else { format!("st {}", line.wrapping_sub(sc_line + 1)) }
    };
    format!(
        "{feat} {} {} {scen} {} {step}",
        feat_no.map_or_else(|| "-".to_owned(), |n| n.to_string()),
        rule.map_or_else(|| "-".to_owned(), |n| n.to_string()),
        retry.unwrap_or_else(|| "-".to_owned()),
    )
}

pub fn parse_libtest(text: &str) -> String {
    let mut recs = vec![];
    for line in text.lines().filter(|l| !l.is_empty()) {
        let Ok(v) = serde_json::from_str::<serde_json::Value>(line) else { return format!("!malformed-json-line {}", hex(line)) };
        let ty = v["type"].as_str().unwrap_or("");
        let ev = v["event"].as_str().unwrap_or("");
        if ty == "suite" {
            recs.push(match ev {
                "started" => format!("SS {}", v["test_count"]),
                "ok" => format!("SO {} {} {}", v["passed"], v["failed"], v["ignored"]),
                "failed" => format!("SF {} {} {}", v["passed"], v["failed"], v["ignored"]),
                _ => format!("?{ev}"),
            });
        } else {
            let n = parse_lt_name(v["name"].as_str().unwrap_or(""));
            if let Some(id) = n.strip_prefix("!parse ") {
                recs.push(format!("{} {id}", if ev == "started" { "PS" } else { "PX" }));
            } else {
                recs.push(format!("{} {n}", match ev { "started" => "ST", "ok" => "OK", "failed" => "FL", "ignored" => "IG", _ => "??" }));
            }
        }
    }
    show_list(&recs, |r| r.clone())
}

pub fn parse_junit(xml: &str) -> String {
    if xml.is_empty() { return "0".to_owned(); }
    // well-formedness (coarse): every opened testsuite / testcase is closed
    let open_s = xml.matches("<testsuite ").count();
    let close_s = xml.matches("</testsuite>").count() + Regex::new(r"<testsuite [^>]*/>").unwrap().find_iter(xml).count();
    if open_s == 0 && xml.contains("<testsuites") { return "0".to_owned(); }
    if open_s != close_s || !xml.trim_end().ends_with("</testsuites>") {
        return format!("!malformed-xml {open_s} {close_s}");
    }
    let suite_re = Regex::new(r#"(?s)<testsuite [^>]*?name="([^"]*)"[^>]*?(?:/>|>(.*?)</testsuite>)"#).unwrap();
    let case_re = Regex::new(r#"(?s)<testcase name="([^"]*)"[^>]*?(?:/>|>(.*?)</testcase>)"#).unwrap();
    let mut suites = vec![];
    for s in suite_re.captures_iter(xml) {
        let name = &s[1];
        let body = s.get(2).map_or("", |m| m.as_str());
        if name == "Errors" {
            let c = case_re.captures(body).map(|c| c[1].to_owned()).unwrap_or_default();
            // "Feature: p/<id>.feature:<line>:1"
            suites.push(format!("E {}", num_after(&c, "p/").map_or_else(|| "?".to_owned(), |n| n.to_string())));
        } else {
            let f = num_after(name, "Feature: f-").unwrap_or(usize::MAX);
            let cases: Vec<String> = case_re.captures_iter(body).map(|c| {
                let cn = &c[1];
                let inner = c.get(2).map_or("", |m| m.as_str());
                let status = if inner.contains(r#"<failure type="Hook Panicked""#) { "failh" }
                    else if inner.contains(r#"<failure type="Step Panicked""#) { "fails" }
                    else if inner.contains("<skipped") { "skip" }
                    else if inner.contains("<failure") || inner.contains("<error") { "fail?" }
                    else { "ok" };
                format!("{} {} {status}", num_after(cn, "Rule: r-").map_or_else(|| "-".to_owned(), |n| n.to_string()), num_after(cn, "Scenario: s-").unwrap_or(usize::MAX))
            }).collect();
            suites.push(format!("F {f} {}", show_list(&cases, |c| c.clone())));
        }
    }
    show_list(&suites, |s| s.clone())
}

pub fn parse_json(text: &str) -> String {
    if text.is_empty() { return "0".to_owned(); }
    let Ok(v) = serde_json::from_str::<serde_json::Value>(text) else { return format!("!malformed-json {}", hex(&text.chars().take(80).collect::<String>())) };
    let st = |s: &serde_json::Value| match s["result"]["status"].as_str().unwrap_or("") {
        "passed" => "p", "skipped" => "s", "failed" => "f", "ambiguous" => "a", "undefined" => "u", _ => "?",
    };
    let mut feats = vec![];
    for f in v.as_array().map(Vec::as_slice).unwrap_or(&[]) {
        let name = f["name"].as_str().unwrap_or("");
        if name.is_empty() {
            let id = num_after(f["uri"].as_str().unwrap_or(""), "p/").map_or_else(|| "?".to_owned(), |n| n.to_string());
            feats.push(format!("E {id}"));
            continue;
        }
        let fid = num_after(f["uri"].as_str().unwrap_or(""), "twin").or_else(|| num_after(name, "f-")).unwrap_or(usize::MAX);
        let els: Vec<String> = f["elements"].as_array().map(Vec::as_slice).unwrap_or(&[]).iter().map(|el| {
            let en = el["name"].as_str().unwrap_or("");
            let rule = num_after(en, "r-");
            let scen = num_after(en, "s-").unwrap_or(usize::MAX);
            let bg = el["type"].as_str() == Some("background");
            let line = el["line"].as_u64().unwrap_or(0) as usize;
            let steps: Vec<String> = el["steps"].as_array().map(Vec::as_slice).unwrap_or(&[]).iter().map(|s| {
                let l = s["line"].as_u64().unwrap_or(0) as usize;
                let idx = if l >= BG_LINE { l - BG_LINE } else { l.wrapping_sub(line + 1) };
                format!("{idx} {}", st(s))
            }).collect();
            let hooks = |k: &str| -> Vec<String> {
                el[k].as_array().map(Vec::as_slice).unwrap_or(&[]).iter().map(|h| b(st(h) == "p").to_owned()).collect()
            };
            format!(
                "{} {scen} {} {} {} {}",
                rule.map_or_else(|| "-".to_owned(), |n| n.to_string()), b(bg),
                show_list(&steps, |s| s.clone()), show_list(&hooks("before"), |s| s.clone()), show_list(&hooks("after"), |s| s.clone()),
            )
        }).collect();
        feats.push(format!("F {fid} {}", show_list(&els, |e| e.clone())));
    }
    show_list(&feats, |f| f.clone())
}


/// Plain-terminal report (`writer::Basic`, coloring never) parsed back into block records:
/// `PE i | F f | R ind r | S ind scen retry | T ind bg idx res loc | H ind before payload loc | L m`.
/// What a terminal shows after `text` was written to it: SGR colour sequences dropped, `ESC[nA` / `ESC[nB` move the
/// cursor up / down, `\r` returns to column 0, `ESC[2K` clears the current line, text overwrites from the cursor.
pub fn emulate_terminal(text: &str) -> String {
    let mut lines: Vec<Vec<char>> = vec![vec![]];
    let (mut row, mut col) = (0usize, 0usize);
    let cs: Vec<char> = text.chars().collect();
    let mut i = 0;
    while i < cs.len() {
        let c = cs[i];
        if c == '\x1b' && cs.get(i + 1) == Some(&'[') {
            let mut j = i + 2;
            let mut num = String::new();
            while j < cs.len() && (cs[j].is_ascii_digit() || cs[j] == ';') { num.push(cs[j]); j += 1; }
            let fin = cs.get(j).copied().unwrap_or('m');
            let n: usize = num.split(';').next().and_then(|x| x.parse().ok()).unwrap_or(1);
            match fin {
                'A' => row = row.saturating_sub(n),
                'B' => { row += n; while lines.len() <= row { lines.push(vec![]); } }
                'K' => { if num == "2" { lines[row].clear(); } else { lines[row].truncate(col); } }
                _ => {}
            }
            i = j + 1;
            continue;
        }
        match c {
            '\r' => col = 0,
            '\n' => { row += 1; col = 0; while lines.len() <= row { lines.push(vec![]); } }
            _ => {
                while lines[row].len() < col { lines[row].push(' '); }
                if col < lines[row].len() { lines[row][col] = c; } else { lines[row].push(c); }
                col += 1;
            }
        }
        i += 1;
    }
    lines.iter().map(|l| l.iter().collect::<String>()).collect::<Vec<_>>().join("\n")
}

pub fn parse_basic(text: &str, payloads: &[String]) -> String {
    let loc_feat = |s: &str| -> String {
        Regex::new(r"feat/f(\d+)\.feature:\d+:\d+|f-(\d+):\d+:\d+").unwrap().captures(s)
            .and_then(|c| c.get(1).or(c.get(2)).map(|m| m.as_str().to_owned())).unwrap_or_else(|| "?".to_owned())
    };
    let pay = |s: &str| payloads.iter().position(|p| p == s).map_or_else(|| format!("?{}", hex(s)), |i| i.to_string());
    let lines: Vec<&str> = text.split('\n').collect();
    let mut recs: Vec<String> = vec![];
    let step_re = Regex::new(r"^( *)(✔|\?|✘)(>| ) Given (bg|step) (\d+)$").unwrap();
    let hook_re = Regex::new(r"^( *)✘  Scenario's (Before|After) hook failed (.*)$").unwrap();
    let scen_re = Regex::new(r"^( *)Scenario: s-(\d+)").unwrap();
    let retry_re = Regex::new(r" \| Retry attempt: (\d+)/(\d+)$").unwrap();
    let rule_re = Regex::new(r"^( *)Rule: r-(\d+)$").unwrap();
    let log_re = Regex::new(r"^log (\d+)").unwrap();
    let mut i = 0;
    while i < lines.len() {
        let mut l = lines[i];
        i += 1;
        // `Scenario::Log` is written raw (no newline of its own in the harness' messages)
        while let Some(c) = log_re.captures(l) {
            recs.push(format!("L {}", &c[1]));
            l = &l[c[0].len()..];
        }
        if l.is_empty() { continue; }
        // a World dump (`{:#?}` of the harness' World, verbosity >= ShowWorld): display, not a fact
        if l.trim_start().starts_with("PW {") {
            if !l.trim_end().ends_with('}') {
                while i < lines.len() && lines[i].trim_start() != "}" { i += 1; }
                i += 1;
            }
            continue;
        }
        if let Some(rest) = l.strip_prefix("Failed to parse: ") {
            recs.push(format!("PE {}", num_after(rest, "p/").map_or_else(|| "?".to_owned(), |n| n.to_string())));
        } else if let Some(rest) = l.strip_prefix("Feature: f-") {
            recs.push(format!("F {}", rest.chars().take_while(char::is_ascii_digit).collect::<String>()));
        } else if let Some(c) = rule_re.captures(l) {
            recs.push(format!("R {} {}", c[1].len(), &c[2]));
        } else if let Some(c) = scen_re.captures(l) {
            let retry = retry_re.captures(l).map_or_else(|| "-".to_owned(), |r| format!("{} {}", &r[1], &r[2]));
            recs.push(format!("S {} {} {retry}", c[1].len(), &c[2]));
        } else if let Some(c) = step_re.captures(l) {
            let (ind, bg, idx) = (c[1].len(), b(&c[3] == ">"), c[5].to_owned());
            if (&c[4] == "bg") != (&c[3] == ">") { recs.push(format!("?bg-marker {}", hex(l))); continue; }
            let cont = |i: usize, pre: &str| -> Option<String> {
                lines.get(i).and_then(|x| x.trim_start().strip_prefix(pre).map(str::to_owned))
            };
            match &c[2] {
                "✔" => recs.push(format!("T {ind} {bg} {idx} ok -")),
                "?" => {
                    // (a skipped BACKGROUND step is worded "Background step failed:" by the crate; the `?` marker is the status)
                    let Some(loc) = cont(i, if &c[3] == ">" { "Background step failed: " } else { "Step skipped: " }) else { recs.push(format!("?skip-without-location {}", hex(l))); continue; };
                    i += 1;
                    recs.push(format!("T {ind} {bg} {idx} skip {}", loc_feat(&loc)));
                }
                _ => {
                    if cont(i, "Step failed:").is_none() { recs.push(format!("?fail-without-header {}", hex(l))); continue; }
                    i += 1;
                    let Some(loc) = cont(i, "Defined: ") else { recs.push(format!("?fail-without-location {}", hex(l))); continue; };
                    i += 1;
                    if cont(i, "Matched: ").is_some() { i += 1; }
                    let res = if let Some(p) = cont(i, "Step panicked. Captured output: ") { i += 1; format!("fail pan {}", pay(&p)) }
                        else if lines.get(i).is_some_and(|x| x.trim_start() == "Step panicked. Captured output:") { i += 1; format!("fail pan {}", pay("")) }
                        else if cont(i, "Step match is ambiguous").is_some() { i += 1; "fail amb".to_owned() }
                        else if cont(i, "Step doesn't match any function").is_some() { i += 1; "fail nf".to_owned() }
                        else { format!("fail ?{}", hex(lines.get(i).copied().unwrap_or(""))) };
                    recs.push(format!("T {ind} {bg} {idx} {res} {}", loc_feat(&loc)));
                }
            }
        } else if let Some(c) = hook_re.captures(l) {
            let ind = c[1].len();
            let before = b(&c[2] == "Before");
            let loc = loc_feat(&c[3]);
            if !lines.get(i).is_some_and(|x| x.trim_start().starts_with("Captured output:")) { recs.push(format!("?hook-without-output {}", hex(l))); continue; }
            i += 1;
            // the payload line (absent for an empty payload): indented by ind + 3
            let is_block = |x: &str| x.is_empty() || step_re.is_match(x) || hook_re.is_match(x) || scen_re.is_match(x) || rule_re.is_match(x)
                || x.starts_with("Feature: ") || x.starts_with("Failed to parse: ") || log_re.is_match(x) || x.trim_start().starts_with("PW {");
            let p = match lines.get(i) {
                Some(x) if !is_block(x) => { i += 1; x.trim_start().to_owned() }
                _ => String::new(),
            };
            recs.push(format!("H {ind} {before} {} {loc}", pay(&p)));
        } else {
            recs.push(format!("?line {}", hex(l)));
        }
    }
    show_list(&recs, |r| r.clone())
}

/// names with characters that need escaping in JSON / XML (well-formedness is exercised; the ids the
/// parse-back needs stay recognisable)
fn decorate(specs: &mut [FeatSpec], rng: &mut Rng) {
    const DECO: &[&str] = &["", "", " \"q\"", " <&>", " ]]>", " \\ back", " ünï", " 'a'"];
    for f in specs.iter_mut() {
        for s in &mut f.scens { s.name = format!("{}{}", s.name, rng.pick(DECO)); }
        for r in &mut f.rules { for s in &mut r.scens { s.name = format!("{}{}", s.name, rng.pick(DECO)); } }
    }
}

pub fn gen_report(rng: &mut Rng, idx: usize) -> Case {
    let mut specs = gen_catalog_specs(rng, 3);
    // directed: a single path-less feature with one scenario with two steps (findings F-C14a / F-C14b)
    if idx == 0 {
        specs.truncate(1);
        specs[0].path = None;
    }
    decorate(&mut specs, rng);
    // two DIFFERENT features extracted from one source document: same path, different names
    let mut alias: Vec<(usize, usize)> = vec![];
    if idx != 0 && specs.len() >= 2 && rng.chance(1, 5) {
        let (i, j) = (0, rng.range(1, specs.len() - 1));
        if specs[i].path.is_some() && specs[j].path.is_some() {
            specs[j].path = specs[i].path.clone();
            alias.push((specs[j].id, specs[i].id));
        }
    }
    // two features with the SAME NAME whose source paths differ — the second one's path ENDS WITH the first one's
    // (`feat/f1.feature` and `twin7/feat/f1.feature`): identity of a feature is (path, name), not a suffix of it.
    // Only the Cucumber JSON document states the path of every feature, so only it is compared in this mode.
    let mut twin = false;
    if idx > 1 && alias.is_empty() && specs.len() >= 2 && rng.chance(1, 6) {
        let j = rng.range(1, specs.len() - 1);
        if let (Some(p0), true) = (specs[0].path.clone(), specs[j].path.is_some()) {
            specs[j].name = specs[0].name.clone();
            specs[j].path = Some(format!("/twin{}{}", specs[j].id, p0));
            twin = true;
        }
    }
    let cat = Rc::new(Cat::new(&specs));
    let cut = rng_cut(rng);
    // a third of the runs: the reporters sit behind `fail_on_skipped` (Failed(NotFound) steps)
    crate::fam_pipe::NOTFOUND_MODE.with(|m| m.set(idx != 0 && rng.chance(1, 3)));
    let mut evs = gen_canonical_stream(rng, &cat, cut);
    crate::fam_pipe::NOTFOUND_MODE.with(|m| m.set(false));
    // TRAILING logs: a log after the last step of an attempt (what an `after` hook that logs produces) — directed in
    // case 1 (together with the terminal mode of the plain writer: the defect fixed in /repo 64d1269), else 1 in 6
    let trailing = idx == 1 || rng.chance(1, 6);
    if trailing {
        let mut i = 0;
        while i < evs.len() {
            if let AEv::Scen(k, r, ASc::Finished) = &evs[i] {
                let (k, r) = (*k, *r);
                evs.insert(i, AEv::Scen(k, r, ASc::Log(1)));
                i += 1;
            }
            i += 1;
        }
    }
    let nopath: Vec<usize> = specs.iter().filter(|f| f.path.is_none()).map(|f| f.id).collect();

    let run = |w: &mut dyn FnMut(&AEv)| { for e in &evs { w(e); } };
    let s1 = Sink::default();
    let mut lt = writer::Libtest::<PW, _>::raw(s1.clone());
    // display options must not change any reported fact: `--show-output` attaches a stdout text to ok /
    // ignored entries, `--report-time` an execution time
    let lt_cli = writer::libtest::Cli {
        show_output: idx != 0 && rng.chance(1, 2),
        report_time: if idx != 0 && rng.chance(1, 3) { Some(writer::libtest::ReportTime::Plain) } else { None },
        ..writer::libtest::Cli::default()
    };
    run(&mut |e| block_on(lt.handle_event(cat.realize(e), &lt_cli)));
    let s2 = Sink::default();
    let mut js = writer::Json::raw(s2.clone());
    run(&mut |e| block_on(Writer::<PW>::handle_event(&mut js, cat.realize(e), &cli::Empty)));
    let s3 = Sink::default();
    let mut ju = writer::JUnit::<PW, _>::raw(s3.clone(), 0);
    let ju_cli = writer::junit::Cli { verbose: None };
    crate::fam_attempt::install_counting_hook();
    crate::fam_attempt::HOOK_QUIET.with(|q| q.set(true));
    let jr = std::panic::catch_unwind(std::panic::AssertUnwindSafe(|| run(&mut |e| block_on(ju.handle_event(cat.realize(e), &ju_cli)))));
    crate::fam_attempt::HOOK_QUIET.with(|q| q.set(false));

    // the plain terminal writer with random verbosity (constructor and CLI) and, half of the time, a World
    // attached to the Failed events: what it prints of the World is display — no fact may change
    let s4 = Sink::default();
    let ba_v0 = rng.below(3) as u8;
    let ba_v1 = rng.below(4) as u8;
    let ba_world = rng.chance(1, 2);
    // half of the time in TERMINAL mode (`Coloring::Always`: colours, and the lines of steps in progress are cleared and
    // re-drawn with cursor movements) — what a terminal would show afterwards is computed by `emulate_terminal`
    // (only when stdout is not a terminal itself: the writer then counts one screen line per text line)
    let ba_term_pick = rng.chance(1, 2) || idx == 1;
    let ba_term = ba_term_pick && !std::io::IsTerminal::is_terminal(&std::io::stdout());
    let ba_color = if ba_term { writer::Coloring::Always } else { writer::Coloring::Never };
    let mut ba = writer::Basic::raw(s4.clone(), ba_color, ba_v0);
    let ba_cli = writer::basic::Cli { verbose: ba_v1, color: ba_color };
    WITH_WORLD.with(|w| w.set(ba_world));
    LOG_NEWLINE.with(|w| w.set(ba_term));
    run(&mut |e| block_on(Writer::<PW>::handle_event(&mut ba, cat.realize(e), &ba_cli)));
    WITH_WORLD.with(|w| w.set(false));
    LOG_NEWLINE.with(|w| w.set(false));
    let ba_text = if ba_term { emulate_terminal(&s4.text()) } else { s4.text() };
    let ba_s = parse_basic(&ba_text, &cat.payloads);

    let (lt_s, ju_s, js_s) = (
        parse_libtest(&s1.text()),
        if jr.is_err() { "!panic".to_owned() } else { parse_junit(&s3.text()) },
        parse_json(&s2.text()),
    );
    let mut imp = format!("LT {lt_s} ; JU {ju_s} ; JS {js_s} ; BA {ba_s}");
    let mut req = format!(
        "report.run {} {} {}",
        show_list(&nopath, |n| n.to_string()), show_list(&alias, |(a, b)| format!("{a} {b}")), show_list(&evs, show_aev),
    );
    if twin {
        imp = format!("JS {js_s}");
        req = format!(
            "report.json {} {} {}",
            show_list(&nopath, |n| n.to_string()), show_list(&alias, |(a, b)| format!("{a} {b}")), show_list(&evs, show_aev),
        );
        return Case { req, imp, class: "twin-names".to_owned(), nontrivial: evs.len() > 6 };
    }
    if !imp.contains('!') {
        req.push_str(&format!(
            "\nmon.c14 {} {} {lt_s} {} {js_s}",
            show_list(&nopath, |n| n.to_string()), show_list(&evs, show_aev),
            if ju_s == "!panic" { "0".to_owned() } else { format!("1 {ju_s}") },
        ));
        imp.push_str("\nok");
    }
    let class = format!("{}{}{}", if nopath.is_empty() { "paths" } else { "nopath" }, if alias.is_empty() { "" } else { "/shared-path" }, if evs.iter().any(|e| matches!(e, AEv::Scen(_, Some((c, _)), _) if *c > 0)) { "/retried" } else { "" });
    Case { req, imp, class, nontrivial: evs.len() > 6 }
}

fn rng_cut(rng: &mut Rng) -> bool { rng.chance(1, 8) }
