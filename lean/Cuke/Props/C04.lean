import Cuke.Lemmas.Sched
import Cuke.Lemmas.SchedLts
import Cuke.Props.C06
import Cuke.Props.C05
/-!
# C04 — Every supplied scenario runs, nothing else runs, and the run always terminates
Model: `Cuke.newEntries`, `Cuke.insertInitial`, `Cuke.getBatch`, `Cuke.isFinished` and the idle branch
of the scheduler LTS (`idle`, `idleYield`, `idleSlept`, `idleContinue`; classes I, Q, R).
-/
namespace Cuke.C04
open Cuke List

/-! ## everything supplied is queued, nothing else is -/

/-- One queue entry per scenario of a delivered feature — top-level scenarios, then each rule's —
    and nothing else. -/
theorem newEntries_covers (c : SCfg) (f : SFeat) :
    (newEntries c f).map (·.key.scen) = f.scens.map (·.id) ++ f.rules.flatMap (fun r => r.scens.map (·.id)) := by
  simp [newEntries, featScenarios, map_flatMap, Function.comp_def]

/-- Inserting a feature's entries loses nothing and invents nothing: the queues afterwards hold exactly
    the old entries and the new ones. -/
theorem insertInitial_conserves (q : Queues) (ns nc : List Entry) :
    (insertInitial q ns nc).serial ++ (insertInitial q ns nc).conc ~ (q.serial ++ q.conc) ++ (ns ++ nc) := by
  unfold insertInitial
  by_cases h : ns.isEmpty = true
  · have : ns = [] := by simpa using h
    subst this
    simp [append_assoc]
  · simp only [h, Bool.false_eq_true, if_false]
    by_cases h2 : nc.isEmpty = true
    · have : nc = [] := by simpa using h2
      subst this
      simp only [isEmpty_nil, if_true, append_nil]
      rw [append_assoc]
      have : ns ++ (q.serial ++ q.conc) ~ (q.serial ++ q.conc) ++ ns := perm_append_comm
      simpa [append_assoc] using this
    · simp only [h2, Bool.false_eq_true, if_false]
      -- ns ++ serial ++ (nc ++ conc) ~ serial ++ conc ++ (ns ++ nc)
      have h1 : ns ++ q.serial ++ (nc ++ q.conc) ~ (q.serial ++ ns) ++ (q.conc ++ nc) :=
        perm_append_comm.append perm_append_comm
      refine h1.trans ?_
      simp only [append_assoc]
      refine Perm.append_left _ ?_
      rw [← append_assoc, ← append_assoc]
      exact perm_append_comm.append_right _

/-- A retried scenario is re-queued (never dropped): the queues hold one more entry, with its id. -/
theorem insertRetried_conserves (q : Queues) (e : Entry) (now : Nat) :
    ((insertRetried q e now).serial ++ (insertRetried q e now).conc).map (·.id) ~ e.id :: (q.serial ++ q.conc).map (·.id) := by
  unfold insertRetried
  by_cases h : e.serial = true
  · simp [h]
  · simp only [h, Bool.false_eq_true, if_false, map_append, map_cons]
    exact perm_middle

/-- `get` only hands out what is queued, and leaves the rest queued (C06.getBatch_conserves). -/
theorem get_conserves (ready : Entry → Bool) (ask : Option Nat) (q : Queues) :
    (getBatch ready ask q).1 ++ ((getBatch ready ask q).2.1.serial ++ (getBatch ready ask q).2.1.conc) ~
      q.serial ++ q.conc := C06.getBatch_conserves ready ask q

/-- Without fail-fast the loop ends only when the parser has finished AND both queues are empty:
    nothing supplied is left un-dispatched. -/
theorem exit_needs_empty_queues (done : Bool) (q : Queues) (h : isFinished done false q = true) :
    done = true ∧ q.serial = [] ∧ q.conc = [] := by
  simp [isFinished, Queues.isEmpty] at h
  exact h

/-! ## termination -/

/-- remaining work of an entry: attempts it can still cause -/
def weight (ret : Option RetryOptions) : Nat := (ret.map (·.retries.left)).getD 0 + 1

/-- Every retry strictly decreases the remaining work, so a scenario with budget `N` causes at most
    `N + 1` attempts (C05.attempts_values_and_bound) and the total number of dispatches is bounded. -/
theorem retry_weight_decreases (o o' : RetryOptions) (failed : Bool) (h : nextTry (some o) failed = some o') :
    weight (some o') < weight (some o) := by
  cases failed with
  | false => simp [nextTry] at h
  | true =>
    have := C05.retries_values o o' h
    simp [weight]; omega

/-- **No busy spin**: the LTS accepts `execute` re-entering its loop from the idle branch only after it
    has suspended (yielded, or slept for a retry delay); otherwise it records a class-I disagreement. -/
theorem idle_continue_requires_suspension (c : SCfg) (s : SState) (h : s.idleSuspended = false) :
    (stepL c s .idleContinue).dis.any (fun d => d.cls == .I) = true := by
  simp [stepL, h, SState.note, List.any_append]

theorem idle_then_not_suspended (c : SCfg) (s : SState) (fin sleep : Bool) :
    (stepL c s (.idle fin sleep)).idleSuspended = false := by
  simp only [stepL]
  split <;> split <;> split <;> simp [SState.note]

theorem yield_suspends (c : SCfg) (s : SState) : (stepL c s .idleYield).idleSuspended = true := by
  simp only [stepL]

theorem slept_suspends (c : SCfg) (s : SState) : (stepL c s .idleSlept).idleSuspended = true := by
  simp only [stepL]

/-- The behaviour of the code BEFORE the repair of F-C04 — parser answers Pending, nothing running:
    `get` → idle (not finished, no delay) → `continue`, with no suspension in between — is rejected. -/
def spinCfg : SCfg :=
  { builderConc := none, cliConc := none, builderFF := false, cliFF := false, builderRetries := none,
    cliRetries := none, builderAfter := none, cliAfter := none, customWhich := false, durTable := [], feats := [] }

def spinLog : List Label :=
  [.pPend, .hookTake, .tx .started, .get1 1 (some 64) 0 0, .get2 2 (.cont (some 64)) [] false 0,
   .idle false false, .idleContinue, .get1 3 (some 64) 0 0]

theorem prefix_spin_rejected : (accept spinCfg spinLog).dis.any (fun d => d.cls == .I) = true := by
  decide +kernel

/-- with the yield in place the same situation is accepted -/
theorem yield_loop_accepted :
    (accept spinCfg [.pPend, .hookTake, .tx .started, .get1 1 (some 64) 0 0, .get2 2 (.cont (some 64)) [] false 0,
      .idle false false, .idleYield, .idleContinue, .get1 3 (some 64) 0 0]).dis.isEmpty = true := by
  decide +kernel

end Cuke.C04
