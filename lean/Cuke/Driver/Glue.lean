import Cuke.Model.Wire
import Cuke.Model.Glue
/-! `glue.args`, `lit.match`, `zoo.reg` -/
namespace Cuke.Driver
open Cuke Cuke.Wire Cuke.Glue

def gs : P Str := do let s ← str; pure s.toList

def tyP : P ArgTy := do
  let t ← tok
  match t with
  | "s" => pure .str
  | "u" => pure .u32
  | _ => fail

def showL (s : Str) : String := encodeStr (String.ofList s)

/-- `glue.args <p|s> <types> <ret: u|ok|err> <matches>` -/
def handleGlueArgs : Toks → Option String :=
  fun ts => runAll (do
    let mode ← tok
    let tys ← list tyP
    let ret ← tok
    let ms ← list (do let n ← opt gs; let v ← gs; pure ((n, v) : Match))
    let raw : Option (List Str) :=
      if mode == "s" then some (slice ms) else positional tys.length ms
    let parsed : Option (List Str) :=
      match raw with
      | none => none
      | some vs =>
        if mode == "s" then
          -- all elements have the slice's element type
          parseAll (vs.map (fun _ => (tys.headD .str))) vs
        else parseAll tys vs
    pure (match parsed with
      | none => "!panic"
      | some vs => if ret == "err" then "!panic" else s!"ok {showList showL vs}")) ts

def handleLitMatch : Toks → Option String :=
  fun ts => runAll (do
    let l ← gs
    let t ← gs
    pure (showBool (literalMatches l t))) ts
  where literalMatches (l t : Str) : Bool := l == t

/-- the attributes of the zoo as written in `harness/src/zoo.rs`: (world, keyword, index of the attribute) -/
def zooTable : List String :=
  ["w1 given 0", "w1 given 1", "w1 given 14", "w1 given 18", "w1 given 4", "w1 given 7", "w1 given 8", "w1 then 10", "w1 then 13", "w1 then 16", "w1 then 3", "w1 then 6", "w1 when 11", "w1 when 12", "w1 when 15", "w1 when 17", "w1 when 2", "w1 when 5", "w1 when 9", "w2 given 19"]

def handleZooReg : Toks → Option String := fun _ => some (showList id zooTable)

end Cuke.Driver
