import Cuke.Model.Writers
/-
  Executable monitors: the properties' own wording evaluated on what the IMPLEMENTATION produced.
  They are run on every correspondence case; a failing monitor is an implementation-vs-oracle
  failure (reported separately from model-vs-implementation disagreements) and is matched against
  the cause patterns of the known findings (DESIGN Appendix C).
-/
namespace Cuke.Mon
open Cuke

/-! ## C01: verdict vs "failed finally" -/

def retLeftZero (ret : Option Retries) : Bool :=
  match ret with
  | none => true
  | some r => r.left == 0

/-- `FailedFinally` of the property, read off the event history. -/
def failedFinally (cat : Catalog) (fos : Bool) (evs : List Ev) : Bool :=
  evs.any (fun e =>
    match e with
    | .parseErr _ => true
    | .scen k ret se =>
      ((se.isStepFailed || se.isHookFailed) && retLeftZero ret) ||
      (fos && se.isStepSkipped && FosPred.default.eval cat k)
    | _ => false)

/-- Cause pattern of F-C01: every Hook-Failed event lies in an attempt with a retry left, and
    nothing else could explain a failed verdict. -/
def isFC01Pattern (cat : Catalog) (fos : Bool) (evs : List Ev) (verdict : Bool) (failedSteps parseErrs : Nat) : Bool :=
  verdict && !failedFinally cat fos evs && failedSteps == 0 && parseErrs == 0 &&
    evs.any (fun e => e.isHookFailed) &&
    evs.all (fun e => match e with
      | .scen _ ret se => !se.isHookFailed || !retLeftZero ret
      | _ => true)

def monC01 (cat : Catalog) (fos : Bool) (evs : List Ev) (verdict : Bool) (failedSteps parseErrs : Nat) : String :=
  if verdict == failedFinally cat fos evs then "ok"
  else if isFC01Pattern cat fos evs verdict failedSteps parseErrs then "!monitor F-C01"
  else s!"!monitor NEW verdict={verdict} failedFinally={failedFinally cat fos evs}"

/-! ## C12: scenario classification by the last attempt -/

inductive Res where
  | passed | skipped | failed
  deriving Repr, DecidableEq

def eventsOf (k : ScenKey) (evs : List Ev) : List (Option Retries × ScenEv) :=
  evs.filterMap (fun e => match e with
    | .scen k' ret se => if k' == k then some (ret, se) else none
    | _ => none)

def keysOf (evs : List Ev) : List ScenKey :=
  (evs.filterMap (fun e => match e with | .scen k _ _ => some k | _ => none)).eraseDups

/-- the events of the last attempt (the attempt whose `Started` comes last) -/
def lastAttempt (xs : List (Option Retries × ScenEv)) : List (Option Retries × ScenEv) :=
  match xs.reverse.find? (fun x => x.2 == ScenEv.started) with
  | none => []
  | some (ret, _) => xs.filter (fun x => x.1 == ret)

def attemptFinished (a : List (Option Retries × ScenEv)) : Bool := a.any (fun x => x.2 == ScenEv.finished)

/-- result of one attempt, as the property words it -/
def attemptRes (a : List (Option Retries × ScenEv)) : Res :=
  if a.any (fun x => x.2.isStepFailed || x.2.isHookFailed) then .failed
  else if a.any (fun x => x.2.isStepSkipped) then .skipped
  else .passed

def specContribution (xs : List (Option Retries × ScenEv)) : Stats :=
  let la := lastAttempt xs
  let s : Stats := {}
  let s := if attemptFinished la then
      match attemptRes la with
      | .passed => { s with passed := 1 }
      | .skipped => { s with skipped := 1 }
      | .failed => { s with failed := 1 }
    else s
  if xs.any (fun x => match x.2.stepRes? with
      | some (.failed err) => isRetriedFailure x.1 err
      | _ => false) then { s with retried := 1 } else s

/-- what the implementation's `Summarize` (= the model, by the `pipe.summ` correspondence) adds for
    one scenario: the scenario counters after feeding that scenario's events alone -/
def implContribution (cat : Catalog) (k : ScenKey) (xs : List (Option Retries × ScenEv)) : Stats :=
  (xs.foldl (fun (s : Summ) x => s.handleScenario cat k x.1 x.2) {}).scenarios

def Stats.addS (a b : Stats) : Stats :=
  ⟨a.passed + b.passed, a.skipped + b.skipped, a.failed + b.failed, a.retried + b.retried⟩

/-- F-C12a: a Hook-Failed event in an attempt with a retry left. -/
def patA (xs : List (Option Retries × ScenEv)) : Bool :=
  xs.any (fun x => x.2.isHookFailed && !retLeftZero x.1)

/-- F-C12b: an earlier retried step failure, and a last attempt whose only failure is a hook failure. -/
def patB (xs : List (Option Retries × ScenEv)) : Bool :=
  let la := lastAttempt xs
  xs.any (fun x => match x.2.stepRes? with | some (.failed err) => isRetriedFailure x.1 err | _ => false) &&
  la.any (fun x => x.2.isHookFailed) && !la.any (fun x => x.2.isStepFailed)

/-- F-C12c: an earlier retried step failure, and a last attempt in which no own step passed although
    it did not fail or skip in a step. -/
def patC (xs : List (Option Retries × ScenEv)) : Bool :=
  let la := lastAttempt xs
  xs.any (fun x => match x.2.stepRes? with | some (.failed err) => isRetriedFailure x.1 err | _ => false) &&
  !la.any (fun x => match x.2 with | .step _ .passed => true | _ => false) &&
  !la.any (fun x => x.2.isStepFailed || x.2.isStepSkipped)

def monC12 (cat : Catalog) (evs : List Ev) (impl : Stats) : String :=
  let keys := keysOf evs
  let contribs := keys.map (fun k => (k, eventsOf k evs))
  let implSum := contribs.foldl (fun acc kx => Stats.addS acc (implContribution cat kx.1 kx.2)) {}
  if implSum != impl then s!"!monitor NEW totals-not-additive"
  else
    let bad := contribs.filter (fun kx => implContribution cat kx.1 kx.2 != specContribution kx.2)
    if bad.isEmpty then "ok"
    else
      let unexplained := bad.filter (fun kx => !(patA kx.2 || patB kx.2 || patC kx.2))
      if !unexplained.isEmpty then
        s!"!monitor NEW scenario {(unexplained.map (fun kx => kx.1.scen))}"
      else
        let ids := (if bad.any (fun kx => patA kx.2) then ["F-C12a"] else []) ++
                   (if bad.any (fun kx => !patA kx.2 && patB kx.2) then ["F-C12b"] else []) ++
                   (if bad.any (fun kx => !patA kx.2 && !patB kx.2 && patC kx.2) then ["F-C12c"] else [])
        "!monitor " ++ " ".intercalate ids

end Cuke.Mon
