import Cuke.Lemmas.SchedOrder
import Cuke.Model.SchedSeq
/-!
  C05 over whole runs of the layered acceptor `stepN` (Model/SchedSeq.lean): **attempts of one scenario never
  overlap**. For every log replayed without a disagreement of either layer, at every moment:

  * the scenarios of the attempts in flight are pairwise distinct (`Rs` has no duplicates);
  * a scenario has at most one entry waiting in the queues / the batch handed out by `get`;
  * a scenario has a waiting entry AND an attempt in flight only between the `INS` of the successor and the
    `END` of that attempt (`reins`), and the successor is not dispatched before that `END`.

  The proof re-uses the conservation invariant `CInv` of Lemmas/SchedConserve.lean as a black box: it yields, for
  every label, how the multiset of scenario ids held by the scheduler changes.
-/
namespace Cuke.SchedSeq
open Cuke List Cuke.SchedL Cuke.SchedInv Cuke.SchedRetry Cuke.SchedCons Cuke.SchedOrd

set_option linter.unusedSimpArgs false
set_option linter.unusedVariables false

/-! ## the base acceptor is untouched -/

theorem stepN_base (c : SCfg) (n : NState) (l : Label) : (stepN c n l).base = stepL c n.base l := by
  unfold stepN
  simp only
  repeat' split
  all_goals simp [NState.note]

theorem foldl_base (c : SCfg) (ls : List Label) (n : NState) :
    (ls.foldl (stepN c) n).base = ls.foldl (stepL c) n.base := by
  induction ls generalizing n with
  | nil => rfl
  | cons l rest ih => simp only [foldl_cons]; rw [ih, stepN_base]

theorem acceptN_base (c : SCfg) (ls : List Label) : (acceptN c ls).base = accept c ls := foldl_base c ls {}

theorem ndis_prefix (c : SCfg) (n : NState) (l : Label) : n.ndis <+: (stepN c n l).ndis := by
  unfold stepN
  simp only
  repeat' split
  all_goals simp [NState.note]

/-- no disagreement in either layer -/
def NClean (n : NState) : Bool := Clean0 n.base && n.ndis.isEmpty

theorem nclean_step_mono (c : SCfg) (n : NState) (l : Label) (h : NClean (stepN c n l) = true) : NClean n = true := by
  simp only [NClean, Bool.and_eq_true] at h ⊢
  obtain ⟨h1, h2⟩ := h
  rw [stepN_base] at h1
  refine ⟨clean0_step_mono c _ l h1, ?_⟩
  obtain ⟨t, ht⟩ := ndis_prefix c n l
  have : (stepN c n l).ndis = [] := by simpa using h2
  rw [this] at ht
  cases hn : n.ndis with
  | nil => rfl
  | cons a as => rw [hn] at ht; cases ht

theorem nclean_foldl_mono (c : SCfg) (ls : List Label) (n : NState) (h : NClean (ls.foldl (stepN c) n) = true) :
    NClean n = true := by
  induction ls generalizing n with
  | nil => exact h
  | cons l rest ih => exact nclean_step_mono c n l (ih _ h)

/-! ## labels that touch neither the entries nor the pending feature -/

def SameCore (s s' : SState) : Prop :=
  s'.q = s.q ∧ s'.batch = s.batch ∧ s'.running = s.running ∧ s'.pendingFeat = s.pendingFeat

syntax "core_simp" : tactic
macro_rules
  | `(tactic| core_simp) => `(tactic|
      (simp only [stepL]
       repeat' split
       all_goals (first
         | (refine ⟨?_, ?_, ?_, ?_⟩ <;> simp [SState.note, SState.inPhase, SState.checkExpectDone, SState.followQueues] <;>
              (repeat' split) <;> simp [SState.note])
         | skip)))

theorem core_tx (c : SCfg) (s : SState) (e : Ev) : SameCore s (stepL c s (.tx e)) := by core_simp
theorem core_rx (c : SCfg) (s : SState) (e : Ev) : SameCore s (stepL c s (.rx e)) := by core_simp
theorem core_other (c : SCfg) (s : SState) : SameCore s (stepL c s .other) := by core_simp
theorem core_verdict (c : SCfg) (s : SState) (b : Bool) (x y z : Nat) : SameCore s (stepL c s (.verdict b x y z)) := by core_simp
theorem core_poll (c : SCfg) (s : SState) : SameCore s (stepL c s .poll) := by core_simp
theorem core_cbIn (c : SCfg) (s : SState) (a b t : Nat) : SameCore s (stepL c s (.cbIn a b t)) := by core_simp
theorem core_cbOut (c : SCfg) (s : SState) (a b t : Nat) : SameCore s (stepL c s (.cbOut a b t)) := by core_simp
theorem core_env (c : SCfg) (s : SState) : SameCore s (stepL c s .envMove) := by core_simp
theorem core_hookTake (c : SCfg) (s : SState) : SameCore s (stepL c s .hookTake) := by core_simp
theorem core_hookRestore (c : SCfg) (s : SState) : SameCore s (stepL c s .hookRestore) := by core_simp
theorem core_exit (c : SCfg) (s : SState) : SameCore s (stepL c s .exit) := by core_simp
theorem core_pPend (c : SCfg) (s : SState) : SameCore s (stepL c s .pPend) := by core_simp
theorem core_pWake (c : SCfg) (s : SState) : SameCore s (stepL c s .pWake) := by core_simp
theorem core_pErr (c : SCfg) (s : SState) : SameCore s (stepL c s .pErr) := by core_simp
theorem core_pEnd (c : SCfg) (s : SState) : SameCore s (stepL c s .pEnd) := by core_simp
theorem core_pFinish (c : SCfg) (s : SState) : SameCore s (stepL c s .pFinish) := by core_simp
theorem core_get1 (c : SCfg) (s : SState) (t : Nat) (ask : Option Nat) (ns nc : Nat) : SameCore s (stepL c s (.get1 t ask ns nc)) := by core_simp
theorem core_idle (c : SCfg) (s : SState) (f sl : Bool) : SameCore s (stepL c s (.idle f sl)) := by core_simp
theorem core_idleYield (c : SCfg) (s : SState) : SameCore s (stepL c s .idleYield) := by core_simp
theorem core_idleSlept (c : SCfg) (s : SState) : SameCore s (stepL c s .idleSlept) := by core_simp
theorem core_idleContinue (c : SCfg) (s : SState) : SameCore s (stepL c s .idleContinue) := by core_simp
theorem core_cons (c : SCfg) (s : SState) (b : Bool) : SameCore s (stepL c s (.cons b)) := by core_simp
theorem core_notif (c : SCfg) (s : SState) (id : Nat) (f r : Bool) : SameCore s (stepL c s (.notif id f r)) := by core_simp
theorem core_brk (c : SCfg) (s : SState) : SameCore s (stepL c s .brk) := by core_simp

/-! ## the invariant -/

def scenIds (ft : SFeat) : List Nat := (featScenarios ft).map (·.2.id)

/-- well-formed catalog: scenario ids are distinct inside a feature and features do not share scenario ids -/
structure WF (c : SCfg) : Prop where
  nodup : ∀ ft ∈ c.feats, (scenIds ft).Nodup
  disj : ∀ ft ∈ c.feats, ∀ ft' ∈ c.feats, ∀ x ∈ scenIds ft, x ∈ scenIds ft' → ft.id = ft'.id
  ids : ∀ ft ∈ c.feats, ∀ ft' ∈ c.feats, ft.id = ft'.id → ft = ft'

theorem scens_newEntries (c : SCfg) (ft : SFeat) : scens (newEntries c ft) = scenIds ft := by
  simp [scens, newEntries, scenIds, Function.comp_def]

/-- scenarios with an entry waiting (queues, or the batch `get` just handed out) -/
def Qs (s : SState) : List Nat := scens (s.q.serial ++ s.q.conc ++ s.batch)
/-- scenarios with an attempt in flight -/
def Rs (s : SState) : List Nat := scens s.running

theorem ents_scens (s : SState) : scens (ents s) = Qs s ++ Rs s := by
  simp [ents, Qs, Rs, scens_append, append_assoc]

structure NInv (c : SCfg) (n : NState) : Prop where
  qnd : (Qs n.base).Nodup
  rnd : (Rs n.base).Nodup
  both : ∀ x ∈ Qs n.base, x ∈ Rs n.base → x ∈ n.reins
  reinsR : ∀ x ∈ n.reins, x ∈ Rs n.base
  reinsQ : ∀ x ∈ n.reins, x ∈ Qs n.base
  reinsNd : n.reins.Nodup
  deliv : ∀ x, x ∈ Qs n.base ∨ x ∈ Rs n.base → ∀ ft ∈ c.feats, x ∈ scenIds ft →
    ft.id ∈ n.delivered ∧ n.base.pendingFeat ≠ some ft.id
  pend : ∀ f, n.base.pendingFeat = some f → f ∈ n.delivered

theorem ninv_init (c : SCfg) : NInv c {} := by
  refine ⟨?_, ?_, ?_, ?_, ?_, ?_, ?_, ?_⟩ <;> simp [Qs, Rs, scens, Queues.empty]

/-- how the multiset of held scenario ids changes, from the conservation invariant before and after -/
theorem held_perm (s s' : SState) (g : List Nat × List Nat) (a : List Nat)
    (h : CInv s g) (h' : CInv s' (g.1 ++ a, g.2)) : scens (ents s') ~ scens (ents s) ++ a := by
  have h1 := h.1
  have h2 := h'.1
  have : scens (ents s') ++ g.2 ~ (scens (ents s) ++ a) ++ g.2 := by
    refine h2.symm.trans ?_
    refine (Perm.append_right a h1).trans ?_
    simp only [append_assoc]
    exact Perm.append_left _ perm_append_comm
  exact (perm_append_right_iff _).mp this

/-- labels that leave the core alone keep the invariant (whatever happens to the other fields) -/
theorem ninv_same (c : SCfg) (n n' : NState) (h : NInv c n) (hc : SameCore n.base n'.base)
    (hr : n'.reins = n.reins) (hd : n'.delivered = n.delivered) : NInv c n' := by
  obtain ⟨h1, h2, h3, h4⟩ := hc
  have hq : Qs n'.base = Qs n.base := by simp [Qs, h1, h2]
  have hR : Rs n'.base = Rs n.base := by simp [Rs, h3]
  refine ⟨?_, ?_, ?_, ?_, ?_, ?_, ?_, ?_⟩
  · rw [hq]; exact h.qnd
  · rw [hR]; exact h.rnd
  · rw [hq, hR, hr]; exact h.both
  · rw [hr, hR]; exact h.reinsR
  · rw [hr, hq]; exact h.reinsQ
  · rw [hr]; exact h.reinsNd
  · rw [hq, hR, hd, h4]; exact h.deliv
  · rw [h4, hd]; exact h.pend

theorem stepN_simple (c : SCfg) (n : NState) (l : Label)
    (h1 : ∀ f, l ≠ .pOk f) (h2 : ∀ t a b, l ≠ .ins t a b) (h3 : ∀ i f r t, l ≠ .endA i f r t) (h4 : ∀ k sl, l ≠ .disp k sl) :
    (stepN c n l).reins = n.reins ∧ (stepN c n l).delivered = n.delivered := by
  cases l with
  | pOk f => exact absurd rfl (h1 f)
  | ins t a b => exact absurd rfl (h2 t a b)
  | endA i f r t => exact absurd rfl (h3 i f r t)
  | disp k sl => exact absurd rfl (h4 k sl)
  | _ => exact ⟨rfl, rfl⟩

/-! ## the parser delivers a feature -/

theorem pOk_core (c : SCfg) (s : SState) (f : Nat) :
    (stepL c s (.pOk f)).q = s.q ∧ (stepL c s (.pOk f)).batch = s.batch ∧ (stepL c s (.pOk f)).running = s.running ∧
    ((stepL c s (.pOk f)).pendingFeat = s.pendingFeat ∨ (stepL c s (.pOk f)).pendingFeat = some f) := by
  simp only [stepL]
  repeat' split
  all_goals simp [SState.note]

theorem pOk_ninv (c : SCfg) (n : NState) (f : Nat) (h : NInv c n) (hc : NClean (stepN c n (.pOk f)) = true) :
    NInv c (stepN c n (.pOk f)) := by
  obtain ⟨h1, h2, h3, h4⟩ := pOk_core c n.base f
  have hb := stepN_base c n (.pOk f)
  have hnew : f ∉ n.delivered ∧ (stepN c n (.pOk f)).delivered = f :: n.delivered ∧ (stepN c n (.pOk f)).reins = n.reins := by
    simp only [NClean, Bool.and_eq_true] at hc
    have hn := hc.2
    unfold stepN at hn ⊢
    simp only at hn ⊢
    split at hn
    · simp [NState.note] at hn
    · rename_i hcont
      split
      · rename_i h'; exact absurd h' hcont
      · exact ⟨by simpa using hcont, rfl, rfl⟩
  obtain ⟨hf, hd, hr⟩ := hnew
  have hq : Qs (stepN c n (.pOk f)).base = Qs n.base := by rw [hb]; simp [Qs, h1, h2]
  have hR : Rs (stepN c n (.pOk f)).base = Rs n.base := by rw [hb]; simp [Rs, h3]
  refine ⟨?_, ?_, ?_, ?_, ?_, ?_, ?_, ?_⟩
  · rw [hq]; exact h.qnd
  · rw [hR]; exact h.rnd
  · rw [hq, hR, hr]; exact h.both
  · rw [hr, hR]; exact h.reinsR
  · rw [hr, hq]; exact h.reinsQ
  · rw [hr]; exact h.reinsNd
  · rw [hq, hR, hd, hb]
    intro x hx ft hft hxf
    obtain ⟨d1, d2⟩ := h.deliv x hx ft hft hxf
    refine ⟨mem_cons_of_mem _ d1, ?_⟩
    rcases h4 with h4 | h4
    · rw [h4]; exact d2
    · rw [h4]
      intro heq
      have : f = ft.id := by simpa using heq
      exact hf (this ▸ d1)
  · rw [hd, hb]
    intro g hg
    rcases h4 with h4 | h4
    · rw [h4] at hg; exact mem_cons_of_mem _ (h.pend g hg)
    · rw [h4] at hg
      have : f = g := by simpa using hg
      exact this ▸ mem_cons_self

/-! ## re-arrangements of the waiting entries -/

/-- the waiting entries were permuted (a batch was cut out of the queues), nothing else changed -/
theorem ninv_perm_same (c : SCfg) (n n' : NState) (h : NInv c n) (hQ : Qs n'.base ~ Qs n.base)
    (hR : Rs n'.base = Rs n.base) (hp : n'.base.pendingFeat = n.base.pendingFeat)
    (hr : n'.reins = n.reins) (hd : n'.delivered = n.delivered) : NInv c n' := by
  refine ⟨?_, ?_, ?_, ?_, ?_, ?_, ?_, ?_⟩
  · exact hQ.nodup_iff.mpr h.qnd
  · rw [hR]; exact h.rnd
  · intro x hx hxr; rw [hr]; exact h.both x (hQ.mem_iff.mp hx) (hR ▸ hxr)
  · rw [hr, hR]; exact h.reinsR
  · rw [hr]; exact fun x hx => hQ.mem_iff.mpr (h.reinsQ x hx)
  · rw [hr]; exact h.reinsNd
  · intro x hx ft hft hxf
    rw [hd, hp]
    refine h.deliv x ?_ ft hft hxf
    rcases hx with hx | hx
    · exact Or.inl (hQ.mem_iff.mp hx)
    · exact Or.inr (hR ▸ hx)
  · rw [hp, hd]; exact h.pend

/-- entries `A` were added to the waiting ones; afterwards no feature is pending -/
theorem ninv_of_added (c : SCfg) (n n' : NState) (h : NInv c n) (A : List Nat)
    (hQ : Qs n'.base ~ Qs n.base ++ A) (hR : Rs n'.base = Rs n.base)
    (hAnd : A.Nodup) (hAQ : ∀ x ∈ A, x ∉ Qs n.base) (hAR : ∀ x ∈ A, x ∈ Rs n.base → x ∈ n'.reins)
    (hre : ∀ x ∈ n.reins, x ∈ n'.reins) (hre2 : ∀ x ∈ n'.reins, x ∈ Rs n.base)
    (hre3 : ∀ x ∈ n'.reins, x ∈ Qs n.base ∨ x ∈ A) (hnd : n'.reins.Nodup)
    (hdel : ∀ x ∈ A, ∀ ft ∈ c.feats, x ∈ scenIds ft → ft.id ∈ n'.delivered)
    (hd : ∀ f ∈ n.delivered, f ∈ n'.delivered) (hp : n'.base.pendingFeat = none) : NInv c n' := by
  refine ⟨?_, ?_, ?_, ?_, ?_, ?_, ?_, ?_⟩
  · refine hQ.nodup_iff.mpr ?_
    rw [nodup_append]
    refine ⟨h.qnd, hAnd, ?_⟩
    intro a ha b hb hab
    exact hAQ b hb (hab ▸ ha)
  · rw [hR]; exact h.rnd
  · intro x hx hxr
    rw [hR] at hxr
    rcases mem_append.mp (hQ.mem_iff.mp hx) with hx | hx
    · exact hre x (h.both x hx hxr)
    · exact hAR x hx hxr
  · intro x hx; rw [hR]; exact hre2 x hx
  · intro x hx; exact hQ.mem_iff.mpr (mem_append.mpr (hre3 x hx))
  · exact hnd
  · intro x hx ft hft hxf
    refine ⟨?_, by rw [hp]; simp⟩
    rcases hx with hx | hx
    · rcases mem_append.mp (hQ.mem_iff.mp hx) with hx | hx
      · exact hd _ (h.deliv x (Or.inl hx) ft hft hxf).1
      · exact hdel x hx ft hft hxf
    · rw [hR] at hx
      exact hd _ (h.deliv x (Or.inr hx) ft hft hxf).1
  · intro f hf; rw [hp] at hf; cases hf

/-! ## `INS` -/

theorem ins_pending (c : SCfg) (s : SState) (t : Nat) (ps pc : List QE) :
    (stepL c s (.ins t ps pc)).pendingFeat = none := by
  rw [ins_eq]
  unfold insR
  simp only
  split
  · unfold insFresh; simp only; split <;> simp [SState.note, SState.followQueues]
  · rename_i hn
    unfold insRetry
    simp only
    repeat' split
    all_goals simp [SState.note, SState.followQueues]
    all_goals exact hn

/-- what a re-insertion adds, in terms of the parent the second layer identifies -/
theorem insAdds_retry (c : SCfg) (s : SState) (ps pc : List QE) (hp : s.pendingFeat = none) :
    (retryParent s ps pc = none ∧ insAdds c s ps pc = []) ∨
    (∃ e, retryParent s ps pc = some e ∧ e ∈ s.running ∧
      insAdds c s ps pc = if (nextTry e.ret true).isSome then [e.key.scen] else []) := by
  unfold retryParent insAdds
  simp only [hp]
  split
  · rename_i b p hfresh
    simp only [hfresh]
    cases hf : s.running.find? (fun e => e.key.scen == p.scen) with
    | none => exact Or.inl ⟨rfl, rfl⟩
    | some e =>
      exact Or.inr ⟨e, rfl, mem_of_find?_eq_some hf, rfl⟩
  · rename_i hno
    refine Or.inl ⟨rfl, ?_⟩
    split
    · rename_i b p hfresh; exact absurd hfresh (hno b p)
    · rfl

theorem insAdds_fresh (c : SCfg) (s : SState) (ps pc : List QE) (f : Nat) (hp : s.pendingFeat = some f) :
    retryParent s ps pc = none ∧ insAdds c s ps pc = scenIds ((c.feat? f).getD ⟨f, [], [], []⟩) := by
  unfold retryParent insAdds
  simp only [hp, scens_newEntries]
  trivial

theorem scenIds_default (f : Nat) : scenIds ⟨f, [], [], []⟩ = [] := by simp [scenIds, featScenarios]

theorem feat?_spec (c : SCfg) (f : Nat) (ft : SFeat) (h : c.feat? f = some ft) : ft ∈ c.feats ∧ ft.id = f := by
  unfold SCfg.feat? at h
  refine ⟨mem_of_find?_eq_some h, ?_⟩
  have := find?_some h
  simpa using this

/-- the waiting entries after an `INS`, as a multiset -/
theorem ins_Qs (c : SCfg) (s : SState) (t : Nat) (ps pc : List QE) (g : List Nat × List Nat) (hci : CInv s g)
    (hc : Clean (stepL c s (.ins t ps pc)) = true) :
    Qs (stepL c s (.ins t ps pc)) ~ Qs s ++ insAdds c s ps pc ∧ Rs (stepL c s (.ins t ps pc)) = Rs s := by
  have hci' := step_cinv c s g (.ins t ps pc) hci hc
  have hp := held_perm s _ g _ hci hci'
  obtain ⟨_, frun, _, _, fb⟩ := frame_ins c s t ps pc
  have hR : Rs (stepL c s (.ins t ps pc)) = Rs s := by simp [Rs, frun]
  refine ⟨?_, hR⟩
  rw [ents_scens, ents_scens, hR] at hp
  have : Qs (stepL c s (.ins t ps pc)) ++ Rs s ~ (Qs s ++ insAdds c s ps pc) ++ Rs s := by
    refine hp.trans ?_
    simp only [append_assoc]
    exact Perm.append_left _ perm_append_comm
  exact (perm_append_right_iff _).mp this

/-- a re-insertion accepted by the base acceptor is within the budget of the attempt it succeeds -/
theorem ins_retry_budget (c : SCfg) (s : SState) (t : Nat) (ps pc : List QE) (e : Entry) (hp : s.pendingFeat = none)
    (hpar : retryParent s ps pc = some e) (hg : GoodRQ (stepL c s (.ins t ps pc)) = true) :
    (nextTry e.ret true).isSome = true := by
  rw [ins_eq] at hg
  unfold insR at hg
  simp only [hp] at hg
  unfold retryParent at hpar
  simp only [hp] at hpar
  unfold insRetry at hg
  simp only at hg
  split at hpar
  · rename_i b p hfresh
    simp only [hfresh, hpar] at hg
    cases hnt : nextTry e.ret true with
    | some o => rfl
    | none =>
      simp only [hnt, Option.map_none] at hg
      rw [not_good_follow _ c .R _ ps pc (Or.inl rfl)] at hg
      cases hg
  · cases hpar

theorem ins_ninv (c : SCfg) (hwf : WF c) (n : NState) (t : Nat) (ps pc : List QE) (g : List Nat × List Nat)
    (h : NInv c n) (hci : CInv n.base g) (hc : NClean (stepN c n (.ins t ps pc)) = true) :
    NInv c (stepN c n (.ins t ps pc)) := by
  have hb := stepN_base c n (.ins t ps pc)
  simp only [NClean, Bool.and_eq_true] at hc
  obtain ⟨hc0, hcn⟩ := hc
  rw [hb] at hc0
  obtain ⟨hQ, hR⟩ := ins_Qs c n.base t ps pc g hci (clean0_all _ hc0).2.2
  have hpn := ins_pending c n.base t ps pc
  cases hpf : n.base.pendingFeat with
  | some f =>
    obtain ⟨hpar, hadds⟩ := insAdds_fresh c n.base ps pc f hpf
    have hst : (stepN c n (.ins t ps pc)).reins = n.reins ∧ (stepN c n (.ins t ps pc)).delivered = n.delivered := by
      unfold stepN; simp only [hpar]; trivial
    rw [hadds] at hQ
    -- the scenario ids of the delivered feature
    have hA : (scenIds ((c.feat? f).getD ⟨f, [], [], []⟩)).Nodup ∧
        ∀ x ∈ scenIds ((c.feat? f).getD ⟨f, [], [], []⟩), ∃ ft0 ∈ c.feats, ft0.id = f ∧ x ∈ scenIds ft0 := by
      cases hft : c.feat? f with
      | none => simp [scenIds_default]
      | some ft0 =>
        obtain ⟨hm, hid⟩ := feat?_spec c f ft0 hft
        simp only [Option.getD_some]
        exact ⟨hwf.nodup ft0 hm, fun x hx => ⟨ft0, hm, hid, hx⟩⟩
    refine ninv_of_added c n _ h _ (by rw [hb]; exact hQ) (by rw [hb]; exact hR) hA.1 ?_ ?_ ?_ ?_ ?_ ?_ ?_ ?_ (by rw [hb]; exact hpn)
    · intro x hx hxq
      obtain ⟨ft0, hm, hid, hx0⟩ := hA.2 x hx
      exact (h.deliv x (Or.inl hxq) ft0 hm hx0).2 (by rw [hpf, hid])
    · intro x hx hxr
      obtain ⟨ft0, hm, hid, hx0⟩ := hA.2 x hx
      exact absurd (by rw [hpf, hid]) (h.deliv x (Or.inr hxr) ft0 hm hx0).2
    · rw [hst.1]; exact fun x hx => hx
    · rw [hst.1]; exact h.reinsR
    · rw [hst.1]; exact fun x hx => Or.inl (h.reinsQ x hx)
    · rw [hst.1]; exact h.reinsNd
    · intro x hx ft hft hxf
      obtain ⟨ft0, hm, hid, hx0⟩ := hA.2 x hx
      rw [hst.2, ← hwf.disj ft0 hm ft hft x hx0 hxf, hid]
      exact h.pend f hpf
    · rw [hst.2]; exact fun x hx => hx
  | none =>
    rcases insAdds_retry c n.base ps pc hpf with ⟨hpar, hadds⟩ | ⟨e, hpar, hmem, hadds⟩
    · have hst : (stepN c n (.ins t ps pc)).reins = n.reins ∧ (stepN c n (.ins t ps pc)).delivered = n.delivered := by
        unfold stepN; simp only [hpar]; trivial
      rw [hadds, append_nil] at hQ
      exact ninv_perm_same c n _ h (by rw [hb]; exact hQ) (by rw [hb]; exact hR) (by rw [hb, hpn, hpf]) hst.1 hst.2
    · -- a successor of the running attempt `e`
      have hxR : e.key.scen ∈ Rs n.base := by
        simp only [Rs, scens, mem_map]; exact ⟨e, hmem, rfl⟩
      have hst : e.key.scen ∉ n.reins ∧ (stepN c n (.ins t ps pc)).reins = e.key.scen :: n.reins ∧
          (stepN c n (.ins t ps pc)).delivered = n.delivered := by
        unfold stepN at hcn ⊢
        simp only [hpar] at hcn ⊢
        split at hcn
        · simp [NState.note] at hcn
        · rename_i hnot
          split
          · rename_i h'; exact absurd h' hnot
          · exact ⟨by simpa using hnot, rfl, rfl⟩
      obtain ⟨hnr, hre, hdl⟩ := hst
      have hxQ : e.key.scen ∉ Qs n.base := fun hq => hnr (h.both _ hq hxR)
      have hnt := ins_retry_budget c n.base t ps pc e hpf hpar (clean_good _ (clean0_all _ hc0).2.2).2
      have hadds' : insAdds c n.base ps pc = [e.key.scen] := by rw [hadds]; simp [hnt]
      rw [hadds'] at hQ
      refine ninv_of_added c n _ h _ (by rw [hb]; exact hQ) (by rw [hb]; exact hR) ?_ ?_ ?_ ?_ ?_ ?_ ?_ ?_ ?_ (by rw [hb]; exact hpn)
      · simp
      · intro x hx; rw [mem_singleton.mp hx]; exact hxQ
      · intro x hx _; rw [hre, mem_singleton.mp hx]; exact mem_cons_self
      · rw [hre]; exact fun x hx => mem_cons_of_mem _ hx
      · rw [hre]
        intro x hx
        rcases mem_cons.mp hx with rfl | hx
        · exact hxR
        · exact h.reinsR x hx
      · rw [hre]
        intro x hx
        rcases mem_cons.mp hx with rfl | hx
        · exact Or.inr mem_cons_self
        · exact Or.inl (h.reinsQ x hx)
      · rw [hre]; exact nodup_cons.mpr ⟨hnr, h.reinsNd⟩
      · intro x hx ft hft hxf
        rw [hdl]
        rw [mem_singleton.mp hx] at hxf
        exact (h.deliv _ (Or.inr hxR) ft hft hxf).1
      · rw [hdl]; exact fun x hx => hx

/-! ## `get` returns a batch -/

theorem get2_pending (c : SCfg) (s : SState) (t : Nat) (sl : Slots) (got : List Nat) (b : Bool) (r : Nat) :
    (stepL c s (.get2 t sl got b r)).pendingFeat = s.pendingFeat := by
  rw [get2_eq]
  have hg : ∀ (x : SState), (x.checkExpectDone "at loop top").pendingFeat = x.pendingFeat := by
    intro x; unfold SState.checkExpectDone; split <;> simp [SState.note]
  have ha : (get2a s).pendingFeat = s.pendingFeat := by
    simp only [get2a, SState.inPhase]
    repeat' split
    all_goals simp [SState.note]
  have hc : (get2c s).pendingFeat = s.pendingFeat := by simp only [get2c, hg]; exact ha
  have hd : (get2d s sl).pendingFeat = s.pendingFeat := by unfold get2d; split <;> simp [SState.note, hc]
  have he : (get2e s sl r).pendingFeat = s.pendingFeat := by unfold get2e; split <;> simp [SState.note, hd]
  unfold get2R
  simp only
  split
  · split <;> simp [SState.note, he]
  · simp [SState.note, he]

theorem get2_ninv (c : SCfg) (n : NState) (t : Nat) (sl : Slots) (got : List Nat) (b : Bool) (r : Nat)
    (g : List Nat × List Nat) (h : NInv c n) (hci : CInv n.base g)
    (hc : NClean (stepN c n (.get2 t sl got b r)) = true) : NInv c (stepN c n (.get2 t sl got b r)) := by
  have hb := stepN_base c n (.get2 t sl got b r)
  simp only [NClean, Bool.and_eq_true] at hc
  have hc0 := hc.1
  rw [hb] at hc0
  have hci' := step_cinv c n.base g (.get2 t sl got b r) hci (clean0_all _ hc0).2.2
  have hci'' : CInv (stepL c n.base (.get2 t sl got b r)) (g.1 ++ [], g.2) := by simpa [gstep] using hci'
  have hp := held_perm n.base _ g [] hci hci''
  have hR : Rs (stepL c n.base (.get2 t sl got b r)) = Rs n.base := by simp [Rs, run_get2]
  rw [ents_scens, ents_scens, hR, append_nil] at hp
  have hQ := (perm_append_right_iff _).mp hp
  exact ninv_perm_same c n _ h (by rw [hb]; exact hQ) (by rw [hb]; exact hR) (by rw [hb]; exact get2_pending ..) rfl rfl

/-! ## dispatch -/

theorem disp5_pending (s : SState) (k : Nat) (slots : Slots) : (disp5 s k slots).pendingFeat = s.pendingFeat := by
  have h1 : (disp1 s).pendingFeat = s.pendingFeat := by
    simp only [disp1, SState.inPhase, SState.checkExpectDone]
    repeat' split
    all_goals simp [SState.note]
  have hchk : ∀ (x : SState) (b : Bool) (cls : DClass) (m : String), (chk x b cls m).pendingFeat = x.pendingFeat := by
    intro x b cls m; unfold chk; split <;> simp [SState.note]
  rw [disp5, hchk, disp4, hchk, disp3]
  exact h1

theorem overlaps_false (batch running : List Entry) (h : overlaps batch running = false) :
    ∀ x ∈ scens batch, x ∉ scens running := by
  intro x hx hr
  simp only [scens, mem_map] at hx hr
  obtain ⟨e, he, rfl⟩ := hx
  obtain ⟨r, hr, hre⟩ := hr
  have : overlaps batch running = true := by
    simp only [overlaps, any_eq_true]
    exact ⟨e, he, r, hr, by simp [hre]⟩
  rw [h] at this
  cases this

theorem disp_ninv (c : SCfg) (n : NState) (k : Nat) (sl : Slots) (h : NInv c n)
    (hc : NClean (stepN c n (.disp k sl)) = true) : NInv c (stepN c n (.disp k sl)) := by
  have hb := stepN_base c n (.disp k sl)
  simp only [NClean, Bool.and_eq_true] at hc
  have hcn := hc.2
  have hst : overlaps n.base.batch n.base.running = false ∧ (stepN c n (.disp k sl)).reins = n.reins ∧
      (stepN c n (.disp k sl)).delivered = n.delivered := by
    unfold stepN at hcn ⊢
    simp only at hcn ⊢
    split at hcn
    · simp [NState.note] at hcn
    · rename_i hno
      split
      · rename_i h'; exact absurd h' hno
      · exact ⟨by simpa using hno, rfl, rfl⟩
  obtain ⟨hov, hre, hdl⟩ := hst
  have hdis := overlaps_false _ _ hov
  obtain ⟨f1, f2, f3⟩ := disp5_fields n.base k sl
  have hq : Qs (stepL c n.base (.disp k sl)) = scens (n.base.q.serial ++ n.base.q.conc) := by
    rw [disp_eq]; simp [Qs, dispR, f1]
  have hR : Rs (stepL c n.base (.disp k sl)) = Rs n.base ++ scens n.base.batch := by
    rw [disp_eq]; simp [Rs, dispR, f2, f3, scens_append]
  have hpf : (stepL c n.base (.disp k sl)).pendingFeat = n.base.pendingFeat := by
    rw [disp_eq]; simp [dispR, disp5_pending]
  have hQsplit : Qs n.base = scens (n.base.q.serial ++ n.base.q.conc) ++ scens n.base.batch := by
    simp [Qs, scens_append]
  have hqnd := h.qnd
  rw [hQsplit, nodup_append] at hqnd
  obtain ⟨hA, hB, hAB⟩ := hqnd
  refine ⟨?_, ?_, ?_, ?_, ?_, ?_, ?_, ?_⟩
  · rw [hb, hq]; exact hA
  · rw [hb, hR, nodup_append]
    refine ⟨h.rnd, hB, ?_⟩
    intro a ha b' hb' hab
    exact hdis b' hb' (hab ▸ ha)
  · rw [hb, hq, hR, hre]
    intro x hx hxr
    rcases mem_append.mp hxr with hxr | hxr
    · exact h.both x (by rw [hQsplit]; exact mem_append_left _ hx) hxr
    · exact absurd rfl (hAB x hx x hxr)
  · rw [hre, hb, hR]; exact fun x hx => mem_append_left _ (h.reinsR x hx)
  · rw [hre, hb, hq]
    intro x hx
    have hxq := h.reinsQ x hx
    rw [hQsplit] at hxq
    rcases mem_append.mp hxq with hxq | hxq
    · exact hxq
    · exact absurd (h.reinsR x hx) (hdis x hxq)
  · rw [hre]; exact h.reinsNd
  · rw [hb, hq, hR, hdl, hpf]
    intro x hx ft hft hxf
    refine h.deliv x ?_ ft hft hxf
    rcases hx with hx | hx
    · exact Or.inl (by rw [hQsplit]; exact mem_append_left _ hx)
    · rcases mem_append.mp hx with hx | hx
      · exact Or.inr hx
      · exact Or.inl (by rw [hQsplit]; exact mem_append_right _ hx)
  · rw [hb, hpf, hdl]; exact h.pend

/-! ## an attempt ends -/

theorem endA_ninv (c : SCfg) (n : NState) (id : Nat) (failed retried : Bool) (t : Nat) (h : NInv c n)
    (hc : NClean (stepN c n (.endA id failed retried t)) = true) : NInv c (stepN c n (.endA id failed retried t)) := by
  have hb := stepN_base c n (.endA id failed retried t)
  cases hf : n.base.running.find? (fun e => e.id == id) with
  | none =>
    have hst : (stepN c n (.endA id failed retried t)).reins = n.reins ∧
        (stepN c n (.endA id failed retried t)).delivered = n.delivered := by
      unfold stepN; simp only [hf]; trivial
    refine ninv_same c n _ h ?_ hst.1 hst.2
    rw [hb, endA_eq]
    unfold endR
    simp only [hf]
    exact ⟨rfl, rfl, rfl, rfl⟩
  | some e =>
    have hst : (stepN c n (.endA id failed retried t)).reins = n.reins.erase e.key.scen ∧
        (stepN c n (.endA id failed retried t)).delivered = n.delivered := by
      unfold stepN; simp only [hf]; split <;> simp [NState.note]
    obtain ⟨hre, hdl⟩ := hst
    have hfields : (stepL c n.base (.endA id failed retried t)).q = n.base.q ∧
        (stepL c n.base (.endA id failed retried t)).batch = n.base.batch ∧
        (stepL c n.base (.endA id failed retried t)).running = n.base.running.eraseP (fun x => x.id == id) ∧
        (stepL c n.base (.endA id failed retried t)).pendingFeat = n.base.pendingFeat := by
      rw [endA_eq]
      unfold endR
      simp only [hf]
      split <;> simp [SState.note]
    obtain ⟨g1, g2, g3, g4⟩ := hfields
    have hq : Qs (stepL c n.base (.endA id failed retried t)) = Qs n.base := by simp [Qs, g1, g2]
    have hperm : Rs n.base ~ e.key.scen :: Rs (stepL c n.base (.endA id failed retried t)) := by
      have := scens_perm _ _ (perm_eraseP_of_find _ _ _ hf)
      simpa [Rs, scens, g3] using this
    have hnd : (e.key.scen :: Rs (stepL c n.base (.endA id failed retried t))).Nodup := hperm.nodup_iff.mp h.rnd
    obtain ⟨hx, hnd'⟩ := nodup_cons.mp hnd
    refine ⟨?_, ?_, ?_, ?_, ?_, ?_, ?_, ?_⟩
    · rw [hb, hq]; exact h.qnd
    · rw [hb]; exact hnd'
    · rw [hb, hq, hre]
      intro y hy hyr
      have hyR : y ∈ Rs n.base := hperm.mem_iff.mpr (mem_cons_of_mem _ hyr)
      have hne : y ≠ e.key.scen := fun heq => hx (heq ▸ hyr)
      exact (h.reinsNd.mem_erase_iff).mpr ⟨hne, h.both y hy hyR⟩
    · rw [hre, hb]
      intro y hy
      obtain ⟨hne, hy'⟩ := (h.reinsNd.mem_erase_iff).mp hy
      rcases mem_cons.mp (hperm.mem_iff.mp (h.reinsR y hy')) with heq | hin
      · exact absurd heq hne
      · exact hin
    · rw [hre, hb, hq]
      exact fun y hy => h.reinsQ y (mem_of_mem_erase hy)
    · rw [hre]; exact h.reinsNd.erase _
    · rw [hb, hq, hdl, g4]
      intro y hy ft hft hyf
      refine h.deliv y ?_ ft hft hyf
      rcases hy with hy | hy
      · exact Or.inl hy
      · exact Or.inr (hperm.mem_iff.mpr (mem_cons_of_mem _ hy))
    · rw [hb, g4, hdl]; exact h.pend

/-! ## every label, every run -/

theorem step_ninv (c : SCfg) (hwf : WF c) (n : NState) (g : List Nat × List Nat) (l : Label) (h : NInv c n)
    (hci : CInv n.base g) (hc : NClean (stepN c n l) = true) : NInv c (stepN c n l) := by
  have hb := stepN_base c n l
  have simple : SameCore n.base (stepL c n.base l) → (stepN c n l).reins = n.reins ∧ (stepN c n l).delivered = n.delivered →
      NInv c (stepN c n l) := fun hs hr => ninv_same c n _ h (hb ▸ hs) hr.1 hr.2
  cases l with
  | pOk f => exact pOk_ninv c n f h hc
  | ins t a b => exact ins_ninv c hwf n t a b g h hci hc
  | get2 t sl gt b r => exact get2_ninv c n t sl gt b r g h hci hc
  | disp k sl => exact disp_ninv c n k sl h hc
  | endA id f r t => exact endA_ninv c n id f r t h hc
  | hookTake => exact simple (core_hookTake c _) ⟨rfl, rfl⟩
  | hookRestore => exact simple (core_hookRestore c _) ⟨rfl, rfl⟩
  | exit => exact simple (core_exit c _) ⟨rfl, rfl⟩
  | tx e => exact simple (core_tx c _ e) ⟨rfl, rfl⟩
  | pErr => exact simple (core_pErr c _) ⟨rfl, rfl⟩
  | pEnd => exact simple (core_pEnd c _) ⟨rfl, rfl⟩
  | pPend => exact simple (core_pPend c _) ⟨rfl, rfl⟩
  | pWake => exact simple (core_pWake c _) ⟨rfl, rfl⟩
  | pFinish => exact simple (core_pFinish c _) ⟨rfl, rfl⟩
  | get1 t a ns nc => exact simple (core_get1 c _ t a ns nc) ⟨rfl, rfl⟩
  | idle f sl => exact simple (core_idle c _ f sl) ⟨rfl, rfl⟩
  | idleContinue => exact simple (core_idleContinue c _) ⟨rfl, rfl⟩
  | idleYield => exact simple (core_idleYield c _) ⟨rfl, rfl⟩
  | idleSlept => exact simple (core_idleSlept c _) ⟨rfl, rfl⟩
  | cons b => exact simple (core_cons c _ b) ⟨rfl, rfl⟩
  | notif id f r => exact simple (core_notif c _ id f r) ⟨rfl, rfl⟩
  | brk => exact simple (core_brk c _) ⟨rfl, rfl⟩
  | rx e => exact simple (core_rx c _ e) ⟨rfl, rfl⟩
  | cbIn a b t => exact simple (core_cbIn c _ a b t) ⟨rfl, rfl⟩
  | cbOut a b t => exact simple (core_cbOut c _ a b t) ⟨rfl, rfl⟩
  | envMove => exact simple (core_env c _) ⟨rfl, rfl⟩
  | poll => exact simple (core_poll c _) ⟨rfl, rfl⟩
  | verdict b x y z => exact simple (core_verdict c _ b x y z) ⟨rfl, rfl⟩
  | other => exact simple (core_other c _) ⟨rfl, rfl⟩

theorem run_ninv (c : SCfg) (hwf : WF c) (ls : List Label) (n : NState) (g : List Nat × List Nat) (h : NInv c n)
    (hci : CInv n.base g) (hc : NClean (ls.foldl (stepN c) n) = true) : NInv c (ls.foldl (stepN c) n) := by
  induction ls generalizing n g with
  | nil => exact h
  | cons l rest ih =>
    simp only [foldl_cons] at hc ⊢
    have h1 : NClean (stepN c n l) = true := nclean_foldl_mono c rest _ hc
    have hcl : Clean (stepL c n.base l) = true := by
      simp only [NClean, Bool.and_eq_true] at h1
      have := h1.1
      rw [stepN_base] at this
      exact (clean0_all _ this).2.2
    refine ih (stepN c n l) (gstep c n.base g l) (step_ninv c hwf n g l h hci h1) ?_ hc
    rw [stepN_base]
    exact step_cinv c n.base g l hci hcl

/-- **the lineage invariant holds at every moment of every clean run** -/
theorem acceptN_ninv (c : SCfg) (hwf : WF c) (ls : List Label) (hc : NClean (acceptN c ls) = true) :
    NInv c (acceptN c ls) :=
  run_ninv c hwf ls {} ([], []) (ninv_init c) cinv_init hc

/-! ## how the waiting / in-flight scenarios change, label by label (re-used by Lemmas/SchedFin.lean) -/

theorem get2_QR (c : SCfg) (s : SState) (t : Nat) (sl : Slots) (got : List Nat) (b : Bool) (r : Nat)
    (g : List Nat × List Nat) (hci : CInv s g) (hc : Clean (stepL c s (.get2 t sl got b r)) = true) :
    Qs (stepL c s (.get2 t sl got b r)) ~ Qs s ∧ Rs (stepL c s (.get2 t sl got b r)) = Rs s := by
  have hci' := step_cinv c s g (.get2 t sl got b r) hci hc
  have hci'' : CInv (stepL c s (.get2 t sl got b r)) (g.1 ++ [], g.2) := by simpa [gstep] using hci'
  have hp := held_perm s _ g [] hci hci''
  have hR : Rs (stepL c s (.get2 t sl got b r)) = Rs s := by simp [Rs, run_get2]
  rw [ents_scens, ents_scens, hR, append_nil] at hp
  exact ⟨(perm_append_right_iff _).mp hp, hR⟩

theorem disp_QR (c : SCfg) (s : SState) (k : Nat) (sl : Slots) :
    Qs (stepL c s (.disp k sl)) = scens (s.q.serial ++ s.q.conc) ∧
    Rs (stepL c s (.disp k sl)) = Rs s ++ scens s.batch ∧
    Qs s = scens (s.q.serial ++ s.q.conc) ++ scens s.batch := by
  obtain ⟨f1, f2, f3⟩ := disp5_fields s k sl
  refine ⟨?_, ?_, ?_⟩
  · rw [disp_eq]; simp [Qs, dispR, f1]
  · rw [disp_eq]; simp [Rs, dispR, f2, f3, scens_append]
  · simp [Qs, scens_append]

theorem endA_QR (c : SCfg) (s : SState) (id : Nat) (failed retried : Bool) (t : Nat) (e : Entry)
    (hf : s.running.find? (fun x => x.id == id) = some e) :
    Qs (stepL c s (.endA id failed retried t)) = Qs s ∧
    Rs s ~ e.key.scen :: Rs (stepL c s (.endA id failed retried t)) := by
  have hfields : (stepL c s (.endA id failed retried t)).q = s.q ∧
      (stepL c s (.endA id failed retried t)).batch = s.batch ∧
      (stepL c s (.endA id failed retried t)).running = s.running.eraseP (fun x => x.id == id) := by
    rw [endA_eq]
    unfold endR
    simp only [hf]
    split <;> simp [SState.note]
  obtain ⟨g1, g2, g3⟩ := hfields
  refine ⟨by simp [Qs, g1, g2], ?_⟩
  have := scens_perm _ _ (perm_eraseP_of_find _ _ _ hf)
  simpa [Rs, scens, g3] using this

theorem endA_none_core (c : SCfg) (s : SState) (id : Nat) (failed retried : Bool) (t : Nat)
    (hf : s.running.find? (fun x => x.id == id) = none) : SameCore s (stepL c s (.endA id failed retried t)) := by
  rw [endA_eq]
  unfold endR
  simp only [hf]
  exact ⟨rfl, rfl, rfl, rfl⟩

end Cuke.SchedSeq
