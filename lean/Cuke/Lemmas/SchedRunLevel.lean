import Cuke.Lemmas.SchedTrip
/-!
  C03, the run-level brackets over WHOLE runs: in every log replayed without a disagreement, counting over the events
  sent so far and the events still owed (`hist`), there is exactly one run-`Started` from the moment `execute` takes the
  panic hook on, and exactly one run-`Finished` from the exit decision on — none before. With nothing owed at the end
  (`finalChecks`), the SENT stream of a complete run holds exactly one of each.
-/
namespace Cuke.SchedRunLevel
open Cuke List Cuke.BrL Cuke.SchedL Cuke.SchedInv Cuke.SchedOrd Cuke.SchedCons Cuke.SchedSpin Cuke.SchedBr

set_option linter.unusedSimpArgs false
set_option linter.unusedVariables false

/-- the two run-level bracket events -/
def isRunEv (x : Ev) : Prop := x = .started ∨ x = .finished

theorem cnt_brackets (x : Ev) (hx : isRunEv x) (l : List Ev) (h : ∀ e ∈ l, isBr e = true) : cnt x l = 0 := by
  apply cnt_zero_of_not_mem
  intro hm
  have := h x hm
  rcases hx with rfl | rfl <;> simp [isBr] at this

theorem startScenarios_isBr (b : Brackets) (l : List Entry) : ∀ e ∈ (startScenarios b l).2, isBr e = true := by
  intro e he
  simp only [startScenarios, mem_append, mem_map] at he
  rcases he with ⟨f, _, rfl⟩ | ⟨fr, _, rfl⟩ <;> rfl

theorem scenarioFinished_isBr (b : Brackets) (k : ScenKey) (r : Bool) (nR nF : Nat) (b' : Brackets) (evs : List Ev)
    (h : scenarioFinished b k r nR nF = some (b', evs)) : ∀ e ∈ evs, isBr e = true := by
  unfold scenarioFinished at h
  cases r with
  | true =>
    simp only [if_true, Option.some.injEq, Prod.mk.injEq] at h
    obtain ⟨_, hev⟩ := h; subst hev
    intro e he; cases he
  | false =>
    simp only [Bool.false_eq_true, if_false] at h
    cases hf : b.feats.find? (fun e => e.1 == k.feat) with
    | none =>
      cases hk : k.rule with
      | none => simp [hk, hf] at h
      | some rr =>
        cases hr : b.rules.find? (fun e => e.1 == (k.feat, rr)) with
        | none => simp [hk, hr] at h
        | some p =>
          obtain ⟨p1, c2⟩ := p
          by_cases hc : (nR == c2 + 1) = true <;> simp [hk, hr, hc, hf] at h
    | some q =>
      obtain ⟨q1, c⟩ := q
      cases hk : k.rule with
      | none =>
        by_cases hc : (nF == c + 1) = true
        · simp [hk, hf, hc] at h
          obtain ⟨_, hev⟩ := h; subst hev
          intro e he; simp only [mem_singleton] at he; rw [he]; rfl
        · simp [hk, hf, hc] at h
          obtain ⟨_, hev⟩ := h; subst hev
          intro e he; cases he
      | some rr =>
        cases hr : b.rules.find? (fun e => e.1 == (k.feat, rr)) with
        | none => simp [hk, hr] at h
        | some p =>
          obtain ⟨p1, c2⟩ := p
          by_cases hc2 : (nR == c2 + 1) = true <;> by_cases hc : (nF == c + 1) = true <;>
            simp [hk, hr, hc2, hf, hc] at h <;>
            (obtain ⟨_, hev⟩ := h; subst hev; intro e he; simp at he <;>
             (first | (rcases he with rfl | rfl <;> rfl) | (subst he; rfl)))

theorem finishAll_isBr (b : Brackets) : (∀ e ∈ (finishAll b).1, isBr e = true) ∧ (∀ e ∈ (finishAll b).2, isBr e = true) := by
  constructor <;> (intro e he; simp only [finishAll, mem_map] at he; obtain ⟨x, _, rfl⟩ := he; rfl)

/-! ### what each label does to `hist` (sent ++ owed) -/

theorem hist_same3 (s s' : SState) (h : Same3 s s') : hist s' = hist s := by
  unfold hist; rw [h.1, h.2.1]

theorem cnt_perm (x : Ev) (a b : List Ev) (h : a ~ b) : cnt x a = cnt x b := by
  unfold cnt; exact h.count_eq x

theorem rl_tx_core (s : SState) (e x : Ev) (cls : DClass) (msg : String) (hs : s.dis = []) (s' : SState)
    (hs' : s' = (match takeExp e s.expect with
        | some rest => ({ ({ s with pos := s.pos + 1 } : SState) with out := s.out ++ [e], expect := rest } : SState)
        | none => (({ ({ s with pos := s.pos + 1 } : SState) with out := s.out ++ [e] } : SState).note cls msg)))
    (hd : s'.dis = []) : cnt x (hist s') = cnt x (hist s) := by
  cases ht : takeExp e s.expect with
  | some rest =>
    rw [ht] at hs'
    subst hs'
    have hp := takeExp_perm e s.expect rest ht
    have h1 := cnt_perm x _ _ hp
    simp only [hist, cnt_append]
    simp only [cnt, count_cons, count_nil] at h1 ⊢
    omega
  | none =>
    rw [ht] at hs'
    subst hs'
    simp [SState.note, hs] at hd

/-- an event is sent: owed → sent, or a scenario event joins the sent ones -/
theorem rl_tx (c : SCfg) (s : SState) (e : Ev) (x : Ev) (hx : isRunEv x) (hs : s.dis = [])
    (hc : (stepL c s (.tx e)).dis = []) : cnt x (hist (stepL c s (.tx e))) = cnt x (hist s) := by
  cases e with
  | scen k ret se =>
    have : hist (stepL c s (.tx (.scen k ret se))) = s.out ++ [.scen k ret se] ++ expEvents s.expect := by
      simp only [stepL, hist]; split <;> simp [SState.note]
    rw [this]
    simp only [hist, cnt_append]
    have : cnt x [Ev.scen k ret se] = 0 := by
      apply cnt_zero_of_not_mem; rcases hx with rfl | rfl <;> simp
    omega
  | started => exact rl_tx_core s .started x .I _ hs _ rfl hc
  | finished => exact rl_tx_core s .finished x .I _ hs _ rfl hc
  | parsingFinished a b d f g => exact rl_tx_core s (.parsingFinished a b d f g) x .I _ hs _ rfl hc
  | parseErr i => exact rl_tx_core s (.parseErr i) x .I _ hs _ rfl hc
  | featStarted f => exact rl_tx_core s (.featStarted f) x .B _ hs _ rfl hc
  | featFinished f => exact rl_tx_core s (.featFinished f) x .B _ hs _ rfl hc
  | ruleStarted f r => exact rl_tx_core s (.ruleStarted f r) x .B _ hs _ rfl hc
  | ruleFinished f r => exact rl_tx_core s (.ruleFinished f r) x .B _ hs _ rfl hc

theorem ip_fields (s : SState) (ok : List Phase) (what : String) :
    ((({ s with pos := s.pos + 1 } : SState).inPhase ok what).out = s.out) ∧
    ((({ s with pos := s.pos + 1 } : SState).inPhase ok what).br = s.br) ∧
    ((({ s with pos := s.pos + 1 } : SState).inPhase ok what).expect = s.expect) := by
  unfold SState.inPhase; split <;> simp [SState.note]

theorem rl_owe (s s' : SState) (x y : Ev) (ho : s'.out = s.out) (he : s'.expect = s.expect ++ [.one y]) :
    cnt x (hist s') = cnt x (hist s) + cnt x [y] := by
  unfold hist; rw [ho, he, expEvents_append]; simp only [expEvents, cnt_append, append_nil]; omega

theorem rl_hookTake (c : SCfg) (s : SState) (x : Ev) :
    cnt x (hist (stepL c s .hookTake)) = cnt x (hist s) + cnt x [.started] := by
  have hf := ip_fields s [.init] "panic hook taken"
  exact rl_owe s _ x .started (by simp [stepL, hf.1]) (by simp [stepL, hf.2.2])

theorem rl_pErr (c : SCfg) (s : SState) (x : Ev) (hx : isRunEv x) :
    cnt x (hist (stepL c s .pErr)) = cnt x (hist s) := by
  have := rl_owe s (stepL c s .pErr) x (.parseErr s.nextPE) (by simp only [stepL]; split <;> simp [SState.note])
    (by simp only [stepL]; split <;> simp [SState.note])
  rw [this]
  have : cnt x [Ev.parseErr s.nextPE] = 0 := by apply cnt_zero_of_not_mem; rcases hx with rfl | rfl <;> simp
  omega

theorem rl_pEnd (c : SCfg) (s : SState) (x : Ev) (hx : isRunEv x) :
    cnt x (hist (stepL c s .pEnd)) = cnt x (hist s) := by
  have := rl_owe s (stepL c s .pEnd) x (.parsingFinished s.cFeatures s.cRules s.cScenarios s.cSteps s.cErrors) rfl rfl
  rw [this]
  have : cnt x [Ev.parsingFinished s.cFeatures s.cRules s.cScenarios s.cSteps s.cErrors] = 0 := by
    apply cnt_zero_of_not_mem; rcases hx with rfl | rfl <;> simp
  omega

/-- owing more BRACKET events changes no run-level count -/
theorem rl_owe_brackets (s s' : SState) (x : Ev) (hx : isRunEv x) (l : List Ev) (hl : ∀ e ∈ l, isBr e = true)
    (ho : s'.out = s.out) (he : s'.expect = s.expect ++ l.map Exp.one) : cnt x (hist s') = cnt x (hist s) := by
  unfold hist; rw [ho, he, expEvents_append, expEvents_map_one]
  simp only [cnt_append]
  have := cnt_brackets x hx l hl
  omega

theorem notifC_fields (s : SState) (id : Nat) (f r : Bool) (nid : Nat) (f' r' : Bool)
    (rest : List (Nat × ScenKey × Bool × Bool)) :
    (notifC (notif1 s) id f r nid f' r' rest).out = s.out ∧ (notifC (notif1 s) id f r nid f' r' rest).br = s.br ∧
    (notifC (notif1 s) id f r nid f' r' rest).expect = s.expect := by
  have h1 := ip_fields s [.draining] "notification drained"
  have hA : (notifA (notif1 s) id f r nid f' r').out = s.out ∧ (notifA (notif1 s) id f r nid f' r').br = s.br ∧
      (notifA (notif1 s) id f r nid f' r').expect = s.expect := by
    unfold notifA notif1
    split
    · exact h1
    · exact h1
  unfold notifC SState.checkExpectDone
  split
  · exact ⟨hA.1, hA.2.1, hA.2.2⟩
  · exact ⟨hA.1, hA.2.1, hA.2.2⟩

theorem rl_notif (c : SCfg) (s : SState) (id : Nat) (f r : Bool) (x : Ev) (hx : isRunEv x) :
    cnt x (hist (stepL c s (.notif id f r))) = cnt x (hist s) := by
  rw [notif_eq]
  have h1 := ip_fields s [.draining] "notification drained"
  unfold notifR
  split
  · -- nothing pending: only a note
    have : hist ((notif1 s).note .B s!"notification {id} drained but none pending") = hist s := by
      simp [hist, SState.note, notif1, h1]
    rw [this]
  · rename_i nid k f' r' rest hn
    obtain ⟨c1, c2, c3⟩ := notifC_fields s id f r nid f' r' rest
    unfold notifD
    rw [c2]
    cases hsf : scenarioFinished s.br k r (c.nRule k.feat (k.rule.getD 0)) (c.nFeat k.feat) with
    | none => simp only [hist, SState.note, c1, c3]
    | some p =>
      obtain ⟨br', evs⟩ := p
      exact rl_owe_brackets s _ x hx evs (scenarioFinished_isBr _ _ _ _ _ _ _ hsf) (by simp [c1]) (by simp [c3])

theorem rl_disp (c : SCfg) (s : SState) (n : Nat) (sl : Slots) (x : Ev) :
    cnt x (hist (stepL c s (.disp n sl))) = cnt x (hist s) := by
  have h1 := ip_fields s [.afterGet2] "dispatch"
  have hd1 : (disp1 s).out = s.out ∧ (disp1 s).expect = s.expect := by
    unfold disp1 SState.checkExpectDone; split <;> simp [SState.note, h1]
  have hd4 := chk_fields3 (disp3 s) (n == (disp3 s).batch.length) .K s!"dispatched {n}, batch {(disp3 s).batch.length}"
  have hd5 := chk_fields3 (disp4 s n) (sl == (disp4 s n).slots.onDispatch (disp4 s n).batch.length) .K
    s!"slots after dispatch {repr sl}, model {repr ((disp4 s n).slots.onDispatch (disp4 s n).batch.length)}"
  have : hist (stepL c s (.disp n sl)) = hist s := by
    rw [disp_eq]
    show (disp5 s n sl).out ++ expEvents (disp5 s n sl).expect = _
    have e1 : (disp5 s n sl).out = s.out := by
      unfold disp5; rw [hd5.1]; unfold disp4; rw [hd4.1]; exact hd1.1
    have e2 : (disp5 s n sl).expect = s.expect := by
      unfold disp5; rw [hd5.2.2]; unfold disp4; rw [hd4.2.2]; exact hd1.2
    rw [e1, e2]; rfl
  rw [this]

theorem rl_hookRestore (c : SCfg) (s : SState) (x : Ev) :
    cnt x (hist (stepL c s .hookRestore)) = cnt x (hist s) := by
  have h1 := ip_fields s [.exiting] "panic hook restored"
  have : hist (stepL c s .hookRestore) = hist s := by
    simp only [stepL, hist, SState.checkExpectDone]
    repeat' split
    all_goals simp [SState.note, h1]
  rw [this]

theorem rl_idle (c : SCfg) (s : SState) (fin sl : Bool) (x : Ev) (hx : isRunEv x) :
    cnt x (hist (stepL c s (.idle fin sl))) = cnt x (hist s) + (if fin then cnt x [.finished] else 0) := by
  rw [idle_eq]
  obtain ⟨f1, f2, f3⟩ := idle4_fields c s fin sl
  unfold idleR
  cases fin with
  | false => simp only [Bool.false_eq_true, if_false, hist, f1, f3, Nat.add_zero]
  | true =>
    simp only [if_true, hist, f1, f3, expEvents_append, cnt_append]
    have hb := finishAll_isBr (idle4 c s true sl).br
    have h1 := cnt_brackets x hx _ hb.1
    have h2 := cnt_brackets x hx _ hb.2
    simp only [expEvents, cnt_append, append_nil]
    omega

end Cuke.SchedRunLevel
