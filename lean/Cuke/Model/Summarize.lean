import Cuke.Model.Ev
/-
  Model of `writer::Summarize` (src/writer/summarize.rs:202-445): the counting state machine.
  The wrapped writer is handled in `Cuke/Model/Writers.lean`.
-/
namespace Cuke

inductive Indicator where
  | failed | skipped | retried
  deriving Repr, DecidableEq

structure Stats where
  passed : Nat := 0
  skipped : Nat := 0
  failed : Nat := 0
  retried : Nat := 0
  deriving Repr, DecidableEq

inductive SummState where
  | inProgress | finishedNotOutput | finishedOutput
  deriving Repr, DecidableEq

/-- `HandledScenarios`: a map keyed by the scenario path. -/
abbrev Handled := List (ScenKey × Indicator)

def Handled.get (h : Handled) (k : ScenKey) : Option Indicator :=
  (h.find? (fun e => e.1 == k)).map (·.2)

def Handled.remove (h : Handled) (k : ScenKey) : Handled := h.filter (fun e => !(e.1 == k))

def Handled.insert (h : Handled) (k : ScenKey) (i : Indicator) : Handled := (k, i) :: h.remove k

structure Summ where
  features : Nat := 0
  rules : Nat := 0
  scenarios : Stats := {}
  steps : Stats := {}
  parsingErrors : Nat := 0
  failedHooks : Nat := 0
  state : SummState := .inProgress
  handled : Handled := []
  deriving Repr

/-- `retries.filter(|r| r.left > 0 && !matches!(err, NotFound)).is_some()` -/
def isRetriedFailure (ret : Option Retries) (err : StepErr) : Bool :=
  match ret with
  | none => false
  | some r => decide (r.left > 0) && !(err == StepErr.notFound)

/-- `Summarize::handle_step`; `isLast` = "`scenario.steps.last()` equals this step". -/
def Summ.handleStep (s : Summ) (k : ScenKey) (isLast : Bool) (r : StepRes) (ret : Option Retries) : Summ :=
  match r with
  | .started => s
  | .passed =>
    let s := { s with steps := { s.steps with passed := s.steps.passed + 1 } }
    if isLast then { s with handled := s.handled.remove k } else s
  | .skipped =>
    { s with
      steps := { s.steps with skipped := s.steps.skipped + 1 }
      scenarios := { s.scenarios with skipped := s.scenarios.skipped + 1 }
      handled := s.handled.insert k .skipped }
  | .failed err =>
    if isRetriedFailure ret err then
      let before := s.handled.get k
      let s := { s with
        steps := { s.steps with retried := s.steps.retried + 1 }
        handled := s.handled.insert k .retried }
      if before.isNone then { s with scenarios := { s.scenarios with retried := s.scenarios.retried + 1 } } else s
    else
      { s with
        steps := { s.steps with failed := s.steps.failed + 1 }
        scenarios := { s.scenarios with failed := s.scenarios.failed + 1 }
        handled := s.handled.insert k .failed }

def Summ.handleHookFailed (s : Summ) (k : ScenKey) : Summ :=
  let s :=
    match s.handled.get k with
    | some .failed => s
    | some .retried => s
    | some .skipped =>
      { s with scenarios := { s.scenarios with skipped := s.scenarios.skipped - 1, failed := s.scenarios.failed + 1 } }
    | none =>
      { s with scenarios := { s.scenarios with failed := s.scenarios.failed + 1 }, handled := s.handled.insert k .failed }
  { s with failedHooks := s.failedHooks + 1 }

def Summ.handleScenFinished (s : Summ) (k : ScenKey) : Summ :=
  match s.handled.get k with
  | some .retried => s
  | some _ => { s with handled := s.handled.remove k }
  | none => { s with scenarios := { s.scenarios with passed := s.scenarios.passed + 1 } }

/-- `Summarize::handle_scenario` -/
def Summ.handleScenario (s : Summ) (cat : Catalog) (k : ScenKey) (ret : Option Retries) (e : ScenEv) : Summ :=
  match e with
  | .started => s
  | .log _ => s
  | .hook _ r => if r.isFailed then s.handleHookFailed k else s
  | .bg _ r => s.handleStep k false r ret
  | .step i r => s.handleStep k (decide (i + 1 = cat.nsteps k)) r ret
  | .finished => s.handleScenFinished k

/-- The counting part of `handle_event` while `state = InProgress`. -/
def Summ.count (s : Summ) (cat : Catalog) (e : Ev) : Summ :=
  match e with
  | .parseErr _ => { s with parsingErrors := s.parsingErrors + 1 }
  | .featStarted _ => { s with features := s.features + 1 }
  | .ruleStarted _ _ => { s with rules := s.rules + 1 }
  | .scen k ret se => s.handleScenario cat k ret se
  | .finished => { s with state := .finishedNotOutput }
  | .started => s
  | .parsingFinished .. => s
  | .featFinished _ => s
  | .ruleFinished _ _ => s

def Summ.isInProgress (s : Summ) : Bool := s.state == .inProgress
def Summ.needsOutput (s : Summ) : Bool := s.state == .finishedNotOutput

/-- first half of `handle_event` (before the inner writer is called) -/
def Summ.pre (s : Summ) (cat : Catalog) (e : Ev) : Summ :=
  if s.isInProgress then s.count cat e else s

/-- second half (after the inner writer returned): `some s'` when the summary is written now -/
def Summ.post (s : Summ) : Summ × Bool :=
  if s.needsOutput then ({ s with state := .finishedOutput }, true) else (s, false)

end Cuke
