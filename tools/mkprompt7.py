import sys,json
pid=sys.argv[1]
hints={
"C03":"src/runner/basic.rs (`Basic::run`, `insert_features` (ParsingFinished, parser errors), `execute` (run-Started, `send_event`, the final run-Finished), `FinishedRulesAndFeatures`: `rule_scenario_finished`, `feature_scenario_finished`, `finish_all_rules_and_features`, `start_scenarios`)",
"C05":"src/runner/basic.rs (`RetryOptions::next_try`, `Retries::next_try` in src/event.rs, `Executor::run_scenario` (the retry decision after the Finished event), `Features::insert_retried_scenario`, `insert_scenarios`, `with_deadline`, `left_until_retry`, `Features::get`)",
"C06":"src/runner/basic.rs (`Basic::run` where the limit is resolved, `execute` (the `started_scenarios` slot counter: `*sc -= runnable.len()`, `*sc += 1`), `Features::get` and its `drain` closure)",
"C08":"src/runner/basic.rs (`execute`: the `fail_fast && scenario_failed && !retried` switch, `ControlFlow::Break`, `features.is_finished(..)`, `finish_all_rules_and_features`; `insert_features`: the `|| fail_fast` break after a parser error; `Features::get` with `Some(0)`)",
"C11":"src/writer/normalize.rs (`Normalize::handle_event`, the `Queue` types `CucumberQueue`/`FeatureQueue`/`RulesQueue`/`ScenariosQueue`, their `emit`, `initial`, `FinishedState::take_to_emit`, `insert_scenario_event`)",
"C01":"src/writer/summarize.rs (`handle_step`, `handle_scenario`, Stats getters), src/writer/mod.rs (`Stats::execution_has_failed`), src/writer/tee.rs, src/writer/or.rs, src/writer/fail_on_skipped.rs, src/writer/repeat.rs, src/cucumber.rs (`filter_run_and_exit`)",
"C02":"src/runner/basic.rs (`Executor::run_scenario`, `run_before_hook`, `run_step`, `run_after_hook`, `emit_failed_events`, `emit_after_hook_events`)",
"C04":"src/runner/basic.rs (`insert_features`, `Features::insert`, `insert_scenarios`, `Features::get`, `is_finished`, `execute` incl. its idle branch with the sleep / yield), src/future.rs",
"C07":"src/runner/basic.rs (`Basic::default`'s `which_scenario` closure, `Features::insert` grouping by `ScenarioType`, `insert_scenarios`, `Features::get`: `drain(storage, Serial, Some(1))` before Concurrent)",
"C09":"src/runner/basic.rs (`run_before_hook`, `run_step` (lazy `W::new()`), `run_after_hook`, the `try_fold`s threading the World through background and scenario steps in `run_scenario`)",
"C10":"src/runner/basic.rs (`catch_unwind` sites in `run_before_hook`, `run_step`, `run_after_hook`; `panic::take_hook`/`set_hook` in `execute`; `coerce_into_info`), src/event.rs (`Info`)",
"C12":"src/writer/summarize.rs (`Summarize::handle_event`, `handle_step`, `handle_scenario`, the `State` machine InProgress/FinishedButNotOutput/FinishedAndOutput, `Styles::summary`)",
"C13":"src/writer/fail_on_skipped.rs, src/writer/repeat.rs, src/writer/tee.rs, src/writer/or.rs, src/writer/discard.rs, src/writer/normalize.rs (`AssertNormalized`)",
"C14":"src/writer/libtest.rs, src/writer/json.rs, src/writer/junit.rs, src/writer/basic.rs",
"C15":"src/cucumber.rs (`filter_run`: the composed filter closure and the `features.map(..)` surgery), src/tag.rs (`TagOperation::eval`)",
"C16":"src/feature.rs (`expand_examples`, `expand_scenario`, `TEMPLATE_REGEX`, `replace_templates`), src/parser/basic.rs",
"C17":"src/step.rs (`Collection::{given,when,then,find}`, `HashableRegex`, `AmbiguousMatchError`)",
"C18":"src/runner/basic.rs (`RetryOptions::parse_from_tags`, the `cli.x = cli.x.or(..)` merge at the top of `Basic::run`)",
"C19":"codegen/src/attribute.rs (`Step::expand`, `fn_arguments_and_additional_parsing`, `arg_ident_and_parse_code`, `gen_regex`), codegen/src/world.rs, src/codegen.rs, src/lib.rs (`World::collection`)",
"C20":"src/tracing.rs (`Collector::{start_scenarios, finish_scenario, emitted_logs, notify_about_closing_spans}`, `CollectorWriter`, `SpanCloseWaiter`), src/runner/basic.rs (`forward_logs` in `execute`, the `wait_for_span_close` calls)",
}
prop=open('/tmp/wt/prop_%s.txt'%pid).read()
print(f"""You are helping to evaluate a verification effort for the Rust crate `cucumber` (cucumber-rs). You work ONLY inside the scratch git worktree /tmp/wt/{pid} (a checkout of the crate). Do not read or touch /verif or /repo. The sandbox has no network: always use `cargo ... --offline` (and `CARGO_NET_OFFLINE=true`).

The property under study (read it carefully):

---
{prop}---

The relevant code is mostly in {hints[pid]}. Lines guarded by `#[cfg(cucumber_rs_cucumber_verif)]` are instrumentation: leave them exactly as they are (do not remove or edit them), but your change may be anywhere in the real code.

YOUR TASK: produce ONE realistic source change (a bug a developer could plausibly introduce in a refactoring or a "small optimisation"), which
  (a) still compiles,
  (b) still passes the existing test suite: `cd /tmp/wt/{pid} && cargo test --workspace --no-fail-fast --offline` must still be green (run it; it takes a few minutes),
  (c) BREAKS the property above — but only under something specific: a particular interleaving / completion order, a multi-step sequence of operations, an unusual input shape or configuration, a fault at a particular point, or two cooperating sites that each look fine alone. Do NOT produce changes that ordinary use would expose at once (the existing tests must keep passing).
Assume that somebody tests this crate by driving the real code with RANDOMLY GENERATED small inputs (a few features, a few scenarios, a few steps, small retry budgets, small concurrency limits, short ASCII names, a handful of tags, short delays) and compares the behaviour with a reference model. Produce a change whose violation such a generator is UNLIKELY to hit: it should need a specific value or boundary (e.g. exactly the default limit of 64, a budget or count above 9 or above 255, a zero duration, an empty or whitespace-only or non-ASCII name, a tag containing a parenthesis or a dot, a very long sequence, an exact coincidence of two counters, the 3rd or later occurrence of something, a particular order of three or more completions), or a rarely used but public configuration (custom closures / predicates, `with_cli`, `Cucumber::custom`, non-default `Coloring` / verbosity, libtest CLI flags, JUnit/JSON behind `tee`, …). The change must still be a plausible refactoring or optimisation, and must still break the property as stated.
Keep builds modest: export CARGO_BUILD_JOBS=4.

Write into /tmp/wt/{pid}/SEED/1/ :
  - patch.diff : `git diff` of the change against the worktree HEAD (only files under src/ or codegen/; apply-able with `git apply`),
  - a demonstration: a small Rust integration test file named demo.rs ( to be dropped into tests/ of the crate; it may use tokio/futures which are dev-dependencies, may define its own World, its own Parser / stream of features, its own Writer collecting events, or feed hand-made events to a writer) that FAILS with the change applied and PASSES on the unmodified checkout. Run it both ways yourself and record the two outcomes,
  - meta.json : {{"property": "{pid}", "what": "<one sentence: what was changed>", "needs": "<what is needed for the violation to manifest>", "ran": ["<commands you ran and their outcome>"]}}.
When you are done, make sure the worktree's tracked files are back to the unmodified state (`git -C /tmp/wt/{pid} checkout -- .`), leaving only the untracked SEED/ directory, and delete the build output (`rm -rf /tmp/wt/{pid}/target`) to save disk. Report briefly what the change is.""")
