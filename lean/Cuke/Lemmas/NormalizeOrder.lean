import Cuke.Lemmas.NormalizeInsert
/-!
  Order lemmas for the Normalize model (C11, "each scenario attempt's events … in their original
  relative order"): for every attempt key κ, the κ-events the queue owes are kept in arrival order.

  * emission pops a PREFIX of what is owed (`emitFeats_eq` is an equality), so it cannot reorder;
  * insertion appends the event at the end of its own attempt queue; nothing with the same key can
    sit behind that position because keys are pairwise distinct at every level (`NormD`, an invariant).
-/
namespace Cuke.NormL
open Cuke List

/-! ## projection on an attempt key -/

abbrev AKey := ScenKey × Option Retries

def evKey? : Ev → Option AKey
  | .scen k ret _ => some (k, ret)
  | _ => none

def proj (κ : AKey) (l : List Ev) : List Ev := l.filter (fun e => evKey? e == some κ)

@[simp] theorem proj_nil (κ : AKey) : proj κ [] = [] := rfl
@[simp] theorem proj_append (κ : AKey) (a b : List Ev) : proj κ (a ++ b) = proj κ a ++ proj κ b := by
  simp [proj]

theorem proj_eq_nil_of (κ : AKey) (l : List Ev) (h : ∀ e ∈ l, evKey? e ≠ some κ) : proj κ l = [] := by
  simp only [proj, filter_eq_nil_iff, beq_iff_eq]
  exact h

theorem proj_flatMap_nil {α} (κ : AKey) (buf : α → List Ev) (l : List α) (h : ∀ b ∈ l, proj κ (buf b) = []) :
    proj κ (l.flatMap buf) = [] := by
  induction l with
  | nil => simp
  | cons a rest ih =>
    simp only [flatMap_cons, proj_append, h a (by simp), nil_append]
    exact ih (fun b hb => h b (by simp [hb]))

theorem proj_nonscen (κ : AKey) (e : Ev) (h : evKey? e = none) : proj κ [e] = [] := by
  simp [proj, h]

/-- all events an attempt queue owes carry its own key -/
theorem bufAtt_keys (f : Nat) (r : Option Nat) (a : AttQ) : ∀ e ∈ bufAtt f r a, evKey? e = some (⟨f, r, a.scen⟩, a.ret) := by
  intro e he
  simp only [bufAtt, wrapAtt, mem_map] at he
  obtain ⟨se, _, rfl⟩ := he
  rfl

theorem proj_bufAtt_ne (κ : AKey) (f : Nat) (r : Option Nat) (a : AttQ) (h : ((⟨f, r, a.scen⟩ : ScenKey), a.ret) ≠ κ) :
    proj κ (bufAtt f r a) = [] := by
  apply proj_eq_nil_of
  intro e he
  rw [bufAtt_keys f r a e he]
  intro hc
  exact h (Option.some.inj hc)

/-! ## keys are pairwise distinct at every level -/

def attsD : List AttQ → Bool
  | [] => true
  | a :: rest => !(rest.any (AttQ.is a.scen a.ret)) && attsD rest

def itemsD : List Item → Bool
  | [] => true
  | .att a :: rest => !(rest.any (Item.isAtt a.scen a.ret)) && itemsD rest
  | .rule r q :: rest => !(rest.any (Item.isRule r)) && attsD q.atts && itemsD rest

def featsD : List (Nat × FeatQ) → Bool
  | [] => true
  | (f, q) :: rest => !(rest.any (fun e => e.1 == f)) && itemsD q.items && featsD rest

def NormD (n : Norm) : Prop := featsD n.feats = true

/-- elements behind the first match of `p` -/
def afterFirst {α} (p : α → Bool) : List α → List α
  | [] => []
  | a :: rest => if p a then rest else afterFirst p rest

/-! ## generic: updating the first match appends `x` to its buffer -/

theorem updFirst_proj {α} (p : α → Bool) (g : α → α) (buf : α → List Ev) (x : Ev) (κ : AKey) (l : List α)
    (hex : l.any p = true)
    (hg : ∀ a ∈ l, p a = true → proj κ (buf (g a)) = proj κ (buf a) ++ proj κ [x])
    (htail : proj κ [x] ≠ [] → ∀ b ∈ afterFirst p l, proj κ (buf b) = []) :
    proj κ ((updFirst p g l).flatMap buf) = proj κ (l.flatMap buf) ++ proj κ [x] := by
  induction l with
  | nil => simp at hex
  | cons a rest ih =>
    by_cases hp : p a = true
    · simp only [updFirst, hp, if_true, flatMap_cons, proj_append]
      rw [hg a (by simp) hp]
      by_cases hx : proj κ [x] = []
      · simp [hx]
      · have : proj κ (rest.flatMap buf) = [] :=
          proj_flatMap_nil κ buf rest (by
            have := htail hx
            simpa [afterFirst, hp] using this)
        simp [this]
    · have hp' : p a = false := by simpa using hp
      simp only [updFirst, hp', Bool.false_eq_true, if_false, flatMap_cons, proj_append]
      have hex' : rest.any p = true := by simpa [hp'] using hex
      rw [ih hex' (fun b hb => hg b (by simp [hb])) (by
        intro hx b hb
        have := htail hx
        simp only [afterFirst, hp', Bool.false_eq_true, if_false] at this
        exact this b hb)]
      simp [append_assoc]

/-! ## attempts inside a rule -/

theorem attsD_after (atts : List AttQ) (scen : Nat) (ret : Option Retries) (hd : attsD atts = true) :
    ∀ b ∈ afterFirst (AttQ.is scen ret) atts, b.is scen ret = false := by
  induction atts with
  | nil => simp [afterFirst]
  | cons a rest ih =>
    simp only [attsD, Bool.and_eq_true, Bool.not_eq_true', any_eq_false] at hd
    by_cases hp : a.is scen ret = true
    · obtain ⟨h1, h2⟩ := is_key scen ret a hp
      simp only [afterFirst, hp, if_true]
      intro b hb
      have := hd.1 b hb
      rw [h1, h2] at this
      simpa using this
    · have hp' : a.is scen ret = false := by simpa using hp
      simp only [afterFirst, hp', Bool.false_eq_true, if_false]
      exact ih hd.2

theorem any_is_updFirst (p : AttQ → Bool) (ev : ScenEv) (q : AttQ → Bool) (atts : List AttQ)
    (hq : ∀ a, q (a.push ev) = q a) : (updFirst p (AttQ.push ev) atts).any q = atts.any q := by
  induction atts with
  | nil => simp [updFirst]
  | cons a rest ih =>
    by_cases hp : p a = true
    · simp [updFirst, hp, hq]
    · have hp' : p a = false := by simpa using hp
      simp [updFirst, hp', ih]

theorem attsD_updFirst (p : AttQ → Bool) (ev : ScenEv) (atts : List AttQ) (hd : attsD atts = true) :
    attsD (updFirst p (AttQ.push ev) atts) = true := by
  induction atts with
  | nil => simp [updFirst, attsD]
  | cons a rest ih =>
    simp only [attsD, Bool.and_eq_true] at hd
    by_cases hp : p a = true
    · simp only [updFirst, hp, if_true, attsD, Bool.and_eq_true]
      exact ⟨by simpa [AttQ.push] using hd.1, hd.2⟩
    · have hp' : p a = false := by simpa using hp
      simp only [updFirst, hp', Bool.false_eq_true, if_false, attsD, Bool.and_eq_true]
      refine ⟨?_, ih hd.2⟩
      rw [any_is_updFirst p ev _ rest (by intro b; simp [AttQ.is, AttQ.push])]
      exact hd.1

theorem attsD_append_new (atts : List AttQ) (scen : Nat) (ret : Option Retries) (evs : List ScenEv)
    (hd : attsD atts = true) (hnew : atts.any (AttQ.is scen ret) = false) :
    attsD (atts ++ [{ scen, ret, evs }]) = true := by
  induction atts with
  | nil => simp [attsD]
  | cons a rest ih =>
    simp only [attsD, Bool.and_eq_true] at hd
    simp only [any_cons, Bool.or_eq_false_iff] at hnew
    simp only [cons_append, attsD, any_append, any_cons, any_nil, Bool.or_false, Bool.and_eq_true,
      Bool.not_eq_true', Bool.or_eq_false_iff]
    refine ⟨⟨by simpa using hd.1, ?_⟩, ih hd.2 hnew.2⟩
    have := hnew.1
    simp only [AttQ.is, Bool.and_eq_false_iff, beq_eq_false_iff_ne] at this ⊢
    rcases this with h | h
    · exact Or.inl (fun hc => h hc.symm)
    · exact Or.inr (fun hc => h hc.symm)

theorem pushAtt_proj (f r : Nat) (atts : List AttQ) (scen : Nat) (ret : Option Retries) (ev : ScenEv)
    (hd : attsD atts = true) (κ : AKey) :
    proj κ ((pushAtt atts scen ret ev).flatMap (bufAtt f (some r))) =
      proj κ (atts.flatMap (bufAtt f (some r))) ++ proj κ [Ev.scen ⟨f, some r, scen⟩ ret ev] ∧
    attsD (pushAtt atts scen ret ev) = true := by
  unfold pushAtt
  by_cases hex : atts.any (AttQ.is scen ret) = true
  · simp only [hex, if_true]
    refine ⟨?_, attsD_updFirst _ ev atts hd⟩
    apply updFirst_proj _ _ _ _ _ _ hex
    · intro a _ ha
      obtain ⟨h1, h2⟩ := is_key scen ret a ha
      rw [bufAtt_push, h1, h2, proj_append]
    · intro hx b hb
      have hb' := attsD_after atts scen ret hd b hb
      apply proj_bufAtt_ne
      intro hc
      -- κ is the key of the pushed event
      have hk : κ = (⟨f, some r, scen⟩, ret) := by
        by_cases h : evKey? (Ev.scen ⟨f, some r, scen⟩ ret ev) == some κ
        · simpa [evKey?] using (beq_iff_eq.mp h).symm
        · exact absurd (by simp [proj, h]) hx
      rw [hk] at hc
      simp only [Prod.mk.injEq, ScenKey.mk.injEq, true_and] at hc
      simp [AttQ.is, hc.1, hc.2] at hb'
  · have hex' : atts.any (AttQ.is scen ret) = false := by simpa using hex
    simp only [hex', Bool.false_eq_true, if_false, flatMap_append, proj_append]
    exact ⟨by simp [bufAtt, wrapAtt], attsD_append_new atts scen ret [ev] hd hex'⟩

/-! ## items of a feature -/

/-- keys of the scenario events an item owes -/
theorem bufItem_keys (f : Nat) (it : Item) : ∀ e ∈ bufItem f it, ∀ k ret, evKey? e = some (k, ret) →
    k.feat = f ∧ (match it with
      | .att a => k.rule = none ∧ k.scen = a.scen ∧ ret = a.ret
      | .rule r _ => k.rule = some r) := by
  intro e he k ret hk
  cases it with
  | att a =>
    simp only [bufItem] at he
    have := bufAtt_keys f none a e he
    rw [this] at hk
    simp only [Option.some.injEq, Prod.mk.injEq] at hk
    obtain ⟨rfl, rfl⟩ := hk
    exact ⟨rfl, rfl, rfl, rfl⟩
  | rule r q =>
    simp only [bufItem, bufRule, mem_append, mem_flatMap] at he
    rcases he with (he | ⟨a, _, he⟩) | he
    · split at he
      · simp only [mem_cons, not_mem_nil, or_false] at he; subst he; simp [evKey?] at hk
      · simp at he
    · have := bufAtt_keys f (some r) a e he
      rw [this] at hk
      simp only [Option.some.injEq, Prod.mk.injEq] at hk
      obtain ⟨rfl, rfl⟩ := hk
      exact ⟨rfl, rfl⟩
    · split at he
      · simp only [mem_cons, not_mem_nil, or_false] at he; subst he; simp [evKey?] at hk
      · simp at he

theorem proj_bufItem_nil (κ : AKey) (f : Nat) (it : Item)
    (h : ∀ k ret, (k, ret) = κ → k.feat = f → (match it with
      | .att a => k.rule = none ∧ k.scen = a.scen ∧ ret = a.ret
      | .rule r _ => k.rule = some r) → False) : proj κ (bufItem f it) = [] := by
  apply proj_eq_nil_of
  intro e he hc
  obtain ⟨k, ret⟩ := κ
  have := bufItem_keys f it e he k ret hc
  exact h k ret rfl this.1 this.2

theorem itemsD_after_rule (items : List Item) (r : Nat) (hd : itemsD items = true) :
    ∀ b ∈ afterFirst (Item.isRule r) items, b.isRule r = false := by
  induction items with
  | nil => simp [afterFirst]
  | cons it rest ih =>
    cases it with
    | att a =>
      simp only [itemsD, Bool.and_eq_true] at hd
      simp only [afterFirst, Item.isRule, Bool.false_eq_true, if_false]
      exact ih hd.2
    | rule r' q =>
      simp only [itemsD, Bool.and_eq_true, Bool.not_eq_true', any_eq_false] at hd
      by_cases hp : (r' == r) = true
      · have : r' = r := by simpa using hp
        subst this
        simp only [afterFirst, Item.isRule, beq_self_eq_true, if_true]
        intro b hb
        exact Bool.eq_false_iff.mpr (hd.1.1 b hb)
      · have hp' : (r' == r) = false := by simpa using hp
        simp only [afterFirst, Item.isRule, hp', Bool.false_eq_true, if_false]
        exact ih hd.2

theorem itemsD_after_att (items : List Item) (scen : Nat) (ret : Option Retries) (hd : itemsD items = true) :
    ∀ b ∈ afterFirst (Item.isAtt scen ret) items, b.isAtt scen ret = false := by
  induction items with
  | nil => simp [afterFirst]
  | cons it rest ih =>
    cases it with
    | rule r' q =>
      simp only [itemsD, Bool.and_eq_true] at hd
      simp only [afterFirst, Item.isAtt, Bool.false_eq_true, if_false]
      exact ih hd.2
    | att a =>
      simp only [itemsD, Bool.and_eq_true, Bool.not_eq_true', any_eq_false] at hd
      by_cases hp : (a.scen == scen && a.ret == ret) = true
      · simp only [Bool.and_eq_true, beq_iff_eq] at hp
        simp only [afterFirst, Item.isAtt, hp.1, hp.2, beq_self_eq_true, Bool.and_self, if_true]
        intro b hb
        have := hd.1 b hb
        rw [hp.1, hp.2] at this
        exact Bool.eq_false_iff.mpr this
      · have hp' : (a.scen == scen && a.ret == ret) = false := by simpa using hp
        simp only [afterFirst, Item.isAtt, hp', Bool.false_eq_true, if_false]
        exact ih hd.2

/-- an update of the first match that keeps every item's identity keeps the keys distinct -/
theorem itemsD_updFirst (p : Item → Bool) (g : Item → Item) (items : List Item) (hd : itemsD items = true)
    (hrule : ∀ r q, p (.rule r q) = true → ∃ q', g (.rule r q) = .rule r q' ∧ (attsD q.atts = true → attsD q'.atts = true))
    (hatt : ∀ a, p (.att a) = true → ∃ a', g (.att a) = .att a' ∧ a'.scen = a.scen ∧ a'.ret = a.ret) :
    itemsD (updFirst p g items) = true := by
  induction items with
  | nil => simp [updFirst, itemsD]
  | cons it rest ih =>
    by_cases hp : p it = true
    · simp only [updFirst, hp, if_true]
      cases it with
      | att a =>
        obtain ⟨a', ha', h1, h2⟩ := hatt a hp
        simp only [itemsD, Bool.and_eq_true] at hd
        rw [ha']
        simp only [itemsD, h1, h2, Bool.and_eq_true]
        exact hd
      | rule r q =>
        obtain ⟨q', hq', h1⟩ := hrule r q hp
        simp only [itemsD, Bool.and_eq_true] at hd
        rw [hq']
        simp only [itemsD, Bool.and_eq_true]
        exact ⟨⟨hd.1.1, h1 hd.1.2⟩, hd.2⟩
    · have hp' : p it = false := by simpa using hp
      simp only [updFirst, hp', Bool.false_eq_true, if_false]
      have hany : ∀ (q : Item → Bool), (∀ it', p it' = true → q (g it') = q it') →
          (updFirst p g rest).any q = rest.any q := by
        intro q hq
        clear ih hd
        induction rest with
        | nil => simp [updFirst]
        | cons b rest' ih' =>
          by_cases hb : p b = true
          · simp [updFirst, hb, hq b hb]
          · have hb' : p b = false := by simpa using hb
            simp [updFirst, hb', ih']
      cases it with
      | att a =>
        simp only [itemsD, Bool.and_eq_true] at hd ⊢
        refine ⟨?_, ih hd.2⟩
        rw [hany]
        · exact hd.1
        · intro it' hit'
          cases it' with
          | att a2 => obtain ⟨a', ha', h1, h2⟩ := hatt a2 hit'; rw [ha']; simp [Item.isAtt, h1, h2]
          | rule r2 q2 => obtain ⟨q', hq', _⟩ := hrule r2 q2 hit'; rw [hq']; simp [Item.isAtt]
      | rule r q =>
        simp only [itemsD, Bool.and_eq_true] at hd ⊢
        refine ⟨⟨?_, hd.1.2⟩, ih hd.2⟩
        rw [hany]
        · exact hd.1.1
        · intro it' hit'
          cases it' with
          | att a2 => obtain ⟨a', ha', _, _⟩ := hatt a2 hit'; rw [ha']; simp [Item.isRule]
          | rule r2 q2 => obtain ⟨q', hq', _⟩ := hrule r2 q2 hit'; rw [hq']; simp [Item.isRule]

theorem itemsD_append_att (items : List Item) (a : AttQ) (hd : itemsD items = true)
    (hnew : items.any (Item.isAtt a.scen a.ret) = false) : itemsD (items ++ [.att a]) = true := by
  induction items with
  | nil => simp [itemsD]
  | cons it rest ih =>
    simp only [any_cons, Bool.or_eq_false_iff] at hnew
    cases it with
    | att b =>
      simp only [itemsD, Bool.and_eq_true] at hd
      simp only [cons_append, itemsD, any_append, any_cons, any_nil, Bool.or_false, Bool.and_eq_true,
        Bool.not_eq_true', Bool.or_eq_false_iff]
      refine ⟨⟨by simpa using hd.1, ?_⟩, ih hd.2 hnew.2⟩
      have := hnew.1
      simp only [Item.isAtt, Bool.and_eq_false_iff, beq_eq_false_iff_ne] at this ⊢
      rcases this with h | h
      · exact Or.inl (fun hc => h hc.symm)
      · exact Or.inr (fun hc => h hc.symm)
    | rule r q =>
      simp only [itemsD, Bool.and_eq_true] at hd
      simp only [cons_append, itemsD, any_append, any_cons, any_nil, Bool.or_false, Bool.and_eq_true,
        Bool.not_eq_true', Bool.or_eq_false_iff]
      exact ⟨⟨⟨by simpa using hd.1.1, by simp [Item.isRule]⟩, hd.1.2⟩, ih hd.2 hnew.2⟩

theorem itemsD_append_rule (items : List Item) (r : Nat) (hd : itemsD items = true)
    (hnew : items.any (Item.isRule r) = false) : itemsD (items ++ [.rule r RuleQ.new]) = true := by
  induction items with
  | nil => simp [itemsD, attsD, RuleQ.new]
  | cons it rest ih =>
    simp only [any_cons, Bool.or_eq_false_iff] at hnew
    cases it with
    | att b =>
      simp only [itemsD, Bool.and_eq_true] at hd
      simp only [cons_append, itemsD, any_append, any_cons, any_nil, Bool.or_false, Bool.and_eq_true,
        Bool.not_eq_true', Bool.or_eq_false_iff]
      exact ⟨⟨by simpa using hd.1, by simp [Item.isAtt]⟩, ih hd.2 hnew.2⟩
    | rule r' q =>
      simp only [itemsD, Bool.and_eq_true] at hd
      simp only [cons_append, itemsD, any_append, any_cons, any_nil, Bool.or_false, Bool.and_eq_true,
        Bool.not_eq_true', Bool.or_eq_false_iff]
      refine ⟨⟨⟨by simpa using hd.1.1, ?_⟩, hd.1.2⟩, ih hd.2 hnew.2⟩
      have := hnew.1
      simp only [Item.isRule, beq_eq_false_iff_ne] at this ⊢
      exact fun hc => this hc.symm

theorem itemsD_rule_atts (items : List Item) (hd : itemsD items = true) (r : Nat) (rq : RuleQ)
    (hit : Item.rule r rq ∈ items) : attsD rq.atts = true := by
  induction items with
  | nil => simp at hit
  | cons b rest ih =>
    simp only [mem_cons] at hit
    cases b with
    | att a =>
      simp only [itemsD, Bool.and_eq_true] at hd
      rcases hit with hit | hit
      · cases hit
      · exact ih hd.2 hit
    | rule r2 q2 =>
      simp only [itemsD, Bool.and_eq_true] at hd
      rcases hit with hit | hit
      · cases hit; exact hd.1.2
      · exact ih hd.2 hit

/-- `insert_scenario_event` appends the event behind everything with its key that the feature owes -/
theorem insertScen_proj (f : Nat) (q q' : FeatQ) (rule : Option Nat) (scen : Nat) (ret : Option Retries) (ev : ScenEv)
    (hd : itemsD q.items = true) (h : q.insertScen rule scen ret ev = some q') (κ : AKey) :
    proj κ (bufFeat (f, q')) = proj κ (bufFeat (f, q)) ++ proj κ [Ev.scen ⟨f, rule, scen⟩ ret ev] ∧
    itemsD q'.items = true := by
  have hmark : ∀ (c : Prop) [Decidable c] (e : Ev), evKey? e = none → proj κ (if c then [e] else []) = [] := by
    intro c _ e he; split <;> simp [proj, he]
  have hkx : ∀ (x : Ev), proj κ [x] ≠ [] → evKey? x = some κ := by
    intro x hx
    by_cases h : evKey? x == some κ
    · exact beq_iff_eq.mp h
    · exact absurd (by simp [proj, h]) hx
  cases rule with
  | some r =>
    simp only [FeatQ.insertScen] at h
    split at h
    · rename_i hex
      simp only [Option.some.injEq] at h; subst h
      have hitems : proj κ ((updFirst (Item.isRule r) (Item.pushInRule scen ret ev) q.items).flatMap (bufItem f)) =
          proj κ (q.items.flatMap (bufItem f)) ++ proj κ [Ev.scen ⟨f, some r, scen⟩ ret ev] := by
        apply updFirst_proj _ _ _ _ _ _ hex
        · intro it hit hp
          obtain ⟨rq, rfl⟩ := isRule_cases r it hp
          have hdq : attsD rq.atts = true := itemsD_rule_atts q.items hd r rq hit
          have := (pushAtt_proj f r rq.atts scen ret ev hdq κ).1
          simp only [Item.pushInRule, bufItem, bufRule, proj_append, this]
          rw [hmark _ (Ev.ruleFinished f r) rfl]
          simp [append_assoc]
        · intro hx b hb
          have hk := hkx _ hx
          have hb' := itemsD_after_rule q.items r hd b hb
          apply proj_bufItem_nil
          intro k ret' hkk _ hm
          simp only [evKey?, Option.some.injEq] at hk
          rw [← hk] at hkk
          simp only [Prod.mk.injEq] at hkk
          obtain ⟨rfl, rfl⟩ := hkk
          cases b with
          | att a => simp at hm
          | rule r2 q2 =>
            simp only [Option.some.injEq] at hm
            subst hm
            simp [Item.isRule] at hb'
      refine ⟨?_, ?_⟩
      · simp only [bufFeat, proj_append, hitems]
        rw [hmark _ (Ev.featFinished f) rfl]
        simp [append_assoc]
      · apply itemsD_updFirst _ _ _ hd
        · intro r2 q2 _
          exact ⟨{ q2 with atts := pushAtt q2.atts scen ret ev }, rfl, fun h2 => (pushAtt_proj f r2 q2.atts scen ret ev h2 κ).2⟩
        · intro a ha; simp [Item.isRule] at ha
    · cases h
  | none =>
    simp only [FeatQ.insertScen] at h
    split at h
    · rename_i hex
      simp only [Option.some.injEq] at h; subst h
      have hitems : proj κ ((updFirst (Item.isAtt scen ret) (Item.pushAtt ev) q.items).flatMap (bufItem f)) =
          proj κ (q.items.flatMap (bufItem f)) ++ proj κ [Ev.scen ⟨f, none, scen⟩ ret ev] := by
        apply updFirst_proj _ _ _ _ _ _ hex
        · intro it _ hp
          obtain ⟨a, rfl, h1, h2⟩ := isAtt_cases scen ret it hp
          simp only [Item.pushAtt, bufItem, bufAtt_push, h1, h2, proj_append]
        · intro hx b hb
          have hk := hkx _ hx
          have hb' := itemsD_after_att q.items scen ret hd b hb
          apply proj_bufItem_nil
          intro k ret' hkk _ hm
          simp only [evKey?, Option.some.injEq] at hk
          rw [← hk] at hkk
          simp only [Prod.mk.injEq] at hkk
          obtain ⟨rfl, rfl⟩ := hkk
          cases b with
          | att a =>
            simp only at hm
            simp [Item.isAtt, ← hm.2.1, ← hm.2.2] at hb'
          | rule r2 q2 => simp at hm
      refine ⟨?_, ?_⟩
      · simp only [bufFeat, proj_append, hitems]
        rw [hmark _ (Ev.featFinished f) rfl]
        simp [append_assoc]
      · apply itemsD_updFirst _ _ _ hd
        · intro r2 q2 hp; simp [Item.isAtt] at hp
        · intro a _; exact ⟨a.push ev, rfl, rfl, rfl⟩
    · rename_i hex
      have hex' : q.items.any (Item.isAtt scen ret) = false := by simpa using hex
      simp only [Option.some.injEq] at h; subst h
      refine ⟨?_, itemsD_append_att q.items _ hd hex'⟩
      simp only [bufFeat, flatMap_append, proj_append, flatMap_cons, flatMap_nil, append_nil, bufItem, bufAtt, wrapAtt,
        map_cons, map_nil]
      rw [hmark _ (Ev.featFinished f) rfl]
      simp [append_assoc]

/-! ## features -/

theorem bufFeat_keys (fq : Nat × FeatQ) : ∀ e ∈ bufFeat fq, ∀ k ret, evKey? e = some (k, ret) → k.feat = fq.1 := by
  intro e he k ret hk
  simp only [bufFeat, mem_append, mem_flatMap] at he
  rcases he with (he | ⟨it, _, he⟩) | he
  · split at he
    · simp only [mem_cons, not_mem_nil, or_false] at he; subst he; simp [evKey?] at hk
    · simp at he
  · exact (bufItem_keys fq.1 it e he k ret hk).1
  · split at he
    · simp only [mem_cons, not_mem_nil, or_false] at he; subst he; simp [evKey?] at hk
    · simp at he

theorem proj_bufFeat_nil (κ : AKey) (fq : Nat × FeatQ) (h : κ.1.feat ≠ fq.1) : proj κ (bufFeat fq) = [] := by
  apply proj_eq_nil_of
  intro e he hc
  obtain ⟨k, ret⟩ := κ
  exact h (bufFeat_keys fq e he k ret hc)

theorem updFeat_ids (fs fs' : List (Nat × FeatQ)) (f : Nat) (g : FeatQ → Option FeatQ) (h : updFeat fs f g = some fs') :
    ∀ (x : Nat), fs'.any (fun e => e.1 == x) = fs.any (fun e => e.1 == x) := by
  induction fs generalizing fs' with
  | nil => simp [updFeat] at h
  | cons fq rest ih =>
    obtain ⟨f', q⟩ := fq
    simp only [updFeat] at h
    split at h
    · simp only [Option.map_eq_some_iff] at h
      obtain ⟨q', _, rfl⟩ := h
      intro x; simp
    · simp only [Option.map_eq_some_iff] at h
      obtain ⟨r, hr, rfl⟩ := h
      intro x; simp [ih r hr x]

/-- the per-feature statement lifts to the whole queue: nothing with the same key sits in a later feature -/
theorem updFeat_proj (fs fs' : List (Nat × FeatQ)) (f : Nat) (g : FeatQ → Option FeatQ) (x : Ev) (κ : AKey)
    (h : updFeat fs f g = some fs') (hd : featsD fs = true)
    (hg : ∀ q q', (fs.find? (fun e => e.1 == f)).map (·.2) = some q → g q = some q' → itemsD q.items = true →
      proj κ (bufFeat (f, q')) = proj κ (bufFeat (f, q)) ++ proj κ [x] ∧ itemsD q'.items = true)
    (hx : proj κ [x] ≠ [] → κ.1.feat = f) :
    proj κ (bufFeats fs') = proj κ (bufFeats fs) ++ proj κ [x] ∧ featsD fs' = true := by
  induction fs generalizing fs' with
  | nil => simp [updFeat] at h
  | cons fq rest ih =>
    obtain ⟨f', q⟩ := fq
    simp only [featsD, Bool.and_eq_true, Bool.not_eq_true'] at hd
    simp only [updFeat] at h
    by_cases hf : (f' == f) = true
    · have hff : f' = f := by simpa using hf
      subst hff
      simp only [beq_self_eq_true, if_true, Option.map_eq_some_iff] at h
      obtain ⟨q', hq', rfl⟩ := h
      obtain ⟨h1, h2⟩ := hg q q' (by simp [find?]) hq' hd.1.2
      refine ⟨?_, ?_⟩
      · simp only [bufFeats, flatMap_cons, proj_append, h1]
        by_cases hxx : proj κ [x] = []
        · simp [hxx]
        · have hk := hx hxx
          have : proj κ (rest.flatMap bufFeat) = [] := by
            apply proj_flatMap_nil
            intro b hb
            apply proj_bufFeat_nil
            rw [hk]
            intro hc
            have := any_eq_false.mp hd.1.1 b hb
            simp [hc] at this
          simp [this]
      · simp only [featsD, Bool.and_eq_true, Bool.not_eq_true']
        exact ⟨⟨hd.1.1, h2⟩, hd.2⟩
    · have hf' : (f' == f) = false := by simpa using hf
      simp only [hf', Bool.false_eq_true, if_false, Option.map_eq_some_iff] at h
      obtain ⟨r, hr, rfl⟩ := h
      obtain ⟨h1, h2⟩ := ih r hr hd.2 (fun q q' hq => hg q q' (by simp [find?, hf', hq]))
      refine ⟨?_, ?_⟩
      · simp only [bufFeats, flatMap_cons, proj_append] at h1 ⊢
        rw [h1, append_assoc]
      · simp only [featsD, Bool.and_eq_true, Bool.not_eq_true']
        exact ⟨⟨by rw [updFeat_ids rest r f g hr]; exact hd.1.1, hd.1.2⟩, h2⟩

theorem featsD_append_new (fs : List (Nat × FeatQ)) (f : Nat) (hd : featsD fs = true)
    (hnew : fs.any (fun e => e.1 == f) = false) : featsD (fs ++ [(f, FeatQ.new)]) = true := by
  induction fs with
  | nil => simp [featsD, itemsD, FeatQ.new]
  | cons fq rest ih =>
    obtain ⟨f', q⟩ := fq
    simp only [featsD, Bool.and_eq_true, Bool.not_eq_true'] at hd
    simp only [any_cons, Bool.or_eq_false_iff, beq_eq_false_iff_ne] at hnew
    simp only [cons_append, featsD, any_append, any_cons, any_nil, Bool.or_false, Bool.and_eq_true,
      Bool.not_eq_true', Bool.or_eq_false_iff, beq_eq_false_iff_ne]
    exact ⟨⟨⟨hd.1.1, fun hc => hnew.1 hc.symm⟩, hd.1.2⟩, ih hd.2 hnew.2⟩

/-- **Insertion keeps every attempt's events in arrival order**: for every key κ, what the queue owes
    under κ afterwards is what it owed before followed by the new event (if it has key κ). -/
theorem insert_proj (n n1 : Norm) (e : Ev) (hd : NormD n) (hs : Safe n e = true) (h : n.insert e = some n1) (κ : AKey) :
    proj κ (bufFeats n1.feats) = proj κ (bufFeats n.feats) ++ proj κ (queued e) ∧ NormD n1 := by
  unfold NormD at *
  have hmark : ∀ (c : Prop) [Decidable c] (e : Ev), evKey? e = none → proj κ (if c then [e] else []) = [] := by
    intro c _ e he; split <;> simp [proj, he]
  cases e with
  | started => simp only [Norm.insert, Option.some.injEq] at h; subst h; simp [queued, Ev.isRunLevel, hd]
  | parsingFinished a b c d g => simp only [Norm.insert, Option.some.injEq] at h; subst h; simp [queued, Ev.isRunLevel, hd]
  | parseErr i => simp only [Norm.insert, Option.some.injEq] at h; subst h; simp [queued, Ev.isRunLevel, hd]
  | finished => simp only [Norm.insert, Option.some.injEq] at h; subst h; simp [queued, Ev.isRunLevel, hd]
  | featStarted f =>
    simp only [Norm.insert, Option.some.injEq] at h; subst h
    simp only [Safe, Bool.not_eq_true'] at hs
    have hfil := filter_none (fun (e : Nat × FeatQ) => e.1 == f) n.feats hs
    simp only [hfil]
    refine ⟨?_, featsD_append_new n.feats f hd hs⟩
    simp [bufFeats, flatMap_append, bufFeat, FeatQ.new, queued, Ev.isRunLevel]
  | featFinished f =>
    simp only [Norm.insert, Option.map_eq_some_iff] at h
    obtain ⟨fs, hfs, rfl⟩ := h
    have := updFeat_proj n.feats fs f _ (Ev.featFinished f) κ hfs hd (by
      intro q q' _ hg hdq
      simp only [Option.some.injEq] at hg; subst hg
      refine ⟨?_, hdq⟩
      simp only [bufFeat, proj_append]
      rw [hmark _ (Ev.featFinished f) rfl, hmark _ (Ev.featFinished f) rfl]
      simp [proj_nonscen κ (Ev.featFinished f) rfl]) (by
      intro hx; exact absurd (proj_nonscen κ _ rfl) hx)
    exact ⟨by simpa [queued, Ev.isRunLevel] using this.1, this.2⟩
  | ruleStarted f r =>
    simp only [Norm.insert, Option.map_eq_some_iff] at h
    obtain ⟨fs, hfs, rfl⟩ := h
    simp only [Safe, featIn] at hs
    have := updFeat_proj n.feats fs f _ (Ev.ruleStarted f r) κ hfs hd (by
      intro q q' hq hg hdq
      simp only [Option.some.injEq] at hg; subst hg
      simp only [hq, Bool.and_eq_true, beq_iff_eq, Bool.not_eq_true'] at hs
      have hfil := filter_none (Item.isRule r) q.items hs.2
      refine ⟨?_, ?_⟩
      · simp only [bufFeat, FeatQ.newRule, hfil, flatMap_append, proj_append, flatMap_cons, flatMap_nil, append_nil,
          bufItem, bufRule, RuleQ.new]
        rw [hmark _ (Ev.featFinished f) rfl]
        simp [proj_nonscen κ (Ev.ruleStarted f r) rfl, proj]
      · simp only [FeatQ.newRule, hfil]
        exact itemsD_append_rule q.items r hdq hs.2) (by
      intro hx; exact absurd (proj_nonscen κ _ rfl) hx)
    exact ⟨by simpa [queued, Ev.isRunLevel] using this.1, this.2⟩
  | ruleFinished f r =>
    simp only [Norm.insert, Option.map_eq_some_iff] at h
    obtain ⟨fs, hfs, rfl⟩ := h
    have := updFeat_proj n.feats fs f _ (Ev.ruleFinished f r) κ hfs hd (by
      intro q q' _ hg hdq
      simp only [FeatQ.ruleFinished] at hg
      split at hg
      · rename_i hex
        simp only [Option.some.injEq] at hg; subst hg
        refine ⟨?_, ?_⟩
        · have hitems : proj κ ((updFirst (Item.isRule r) Item.finishRule q.items).flatMap (bufItem f)) =
              proj κ (q.items.flatMap (bufItem f)) ++ proj κ [Ev.ruleFinished f r] := by
            apply updFirst_proj _ _ _ _ _ _ hex
            · intro it _ hp
              obtain ⟨rq, rfl⟩ := isRule_cases r it hp
              simp only [Item.finishRule, bufItem, bufRule, proj_append]
              rw [hmark _ (Ev.ruleFinished f r) rfl, hmark _ (Ev.ruleFinished f r) rfl]
              simp [proj_nonscen κ (Ev.ruleFinished f r) rfl]
            · intro hx; exact absurd (proj_nonscen κ _ rfl) hx
          simp only [bufFeat, proj_append, hitems]
          simp [proj_nonscen κ (Ev.ruleFinished f r) rfl]
        · apply itemsD_updFirst _ _ _ hdq
          · intro r2 q2 _; exact ⟨{ q2 with fin := .pending }, rfl, fun h2 => h2⟩
          · intro a ha; simp [Item.isRule] at ha
      · cases hg) (by
      intro hx; exact absurd (proj_nonscen κ _ rfl) hx)
    exact ⟨by simpa [queued, Ev.isRunLevel] using this.1, this.2⟩
  | scen k ret ev =>
    simp only [Norm.insert, Option.map_eq_some_iff] at h
    obtain ⟨fs, hfs, rfl⟩ := h
    have := updFeat_proj n.feats fs k.feat _ (Ev.scen k ret ev) κ hfs hd (by
      intro q q' _ hg hdq
      have := insertScen_proj k.feat q q' k.rule k.scen ret ev hdq hg κ
      cases k; exact this) (by
      intro hx
      by_cases hk : evKey? (Ev.scen k ret ev) == some κ
      · have := beq_iff_eq.mp hk
        simp only [evKey?, Option.some.injEq] at this
        rw [← this]
      · exact absurd (by simp [proj, hk]) hx)
    exact ⟨by simpa [queued, Ev.isRunLevel] using this.1, this.2⟩

/-! ## emission keeps the keys distinct (it only removes entries or empties their buffers) -/

theorem emitAtts_D (f : Nat) (r : Option Nat) (atts : List AttQ) (hd : attsD atts = true) :
    attsD (emitAtts f r atts).2 = true := by
  induction atts with
  | nil => simp [emitAtts, attsD]
  | cons a rest ih =>
    simp only [attsD, Bool.and_eq_true, Bool.not_eq_true'] at hd
    simp only [emitAtts]
    split
    · exact ih hd.2
    · simp only [attsD, Bool.and_eq_true, Bool.not_eq_true']
      exact hd

theorem emitRule_atts_D (f r : Nat) (q : RuleQ) (hd : attsD q.atts = true) : attsD (emitRule f r q).2.2.atts = true := by
  simp only [emitRule]
  split <;> exact emitAtts_D f (some r) q.atts hd

theorem emitItems_D (f : Nat) (items : List Item) (hd : itemsD items = true) : itemsD (emitItems f items).2 = true := by
  induction items with
  | nil => simp [emitItems, itemsD]
  | cons it rest ih =>
    cases it with
    | att a =>
      simp only [itemsD, Bool.and_eq_true, Bool.not_eq_true'] at hd
      simp only [emitItems]
      split
      · exact ih hd.2
      · simp only [itemsD, Bool.and_eq_true, Bool.not_eq_true']
        exact hd
    | rule r rq =>
      simp only [itemsD, Bool.and_eq_true, Bool.not_eq_true'] at hd
      simp only [emitItems]
      split
      · exact ih hd.2
      · simp only [itemsD, Bool.and_eq_true, Bool.not_eq_true']
        exact ⟨⟨hd.1.1, emitRule_atts_D f r rq hd.1.2⟩, hd.2⟩

theorem emitFeats_D (fs : List (Nat × FeatQ)) (hd : featsD fs = true) : featsD (emitFeats fs).2 = true := by
  induction fs with
  | nil => simp [emitFeats, featsD]
  | cons fq rest ih =>
    obtain ⟨f, q⟩ := fq
    simp only [featsD, Bool.and_eq_true, Bool.not_eq_true'] at hd
    simp only [emitFeats]
    split
    · exact ih hd.2
    · simp only [featsD, Bool.and_eq_true, Bool.not_eq_true']
      exact ⟨⟨hd.1.1, emitItems_D f q.items hd.1.2⟩, hd.2⟩

end Cuke.NormL
