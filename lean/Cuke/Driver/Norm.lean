import Cuke.Driver.EvCodec
import Cuke.Model.Normalize
import Cuke.Model.Contract
import Cuke.Model.Monitors
import Cuke.Lemmas.NormalizeRun
/-! `norm.run <events>`: per-call outputs of the Normalize model, `!panic` where the code panics -/
namespace Cuke.Driver
open Cuke Cuke.Wire

def normOutputs : Norm → List Ev → List String
  | _, [] => []
  | n, e :: es =>
    match n.handle e with
    | none => ["!panic"]
    | some (n', out) => showList showEv out :: normOutputs n' es

def handleNormRun : Toks → Option String :=
  fun ts => runAll (do
    let evs ← list evP
    pure (" | ".intercalate (normOutputs Norm.init evs))) ts

/-- `mon.c11 <contract?> <events> <per-call outputs of the implementation>` -/
def handleMonC11 : Toks → Option String :=
  fun ts => runAll (do
    let contract ← bool
    let evs ← list evP
    let outs ← list (list evP)
    -- the hypotheses of the C11 theorems (SafeRun for T0/T1/T3/T4, StartsRun in addition for T2)
    pure (Mon.monC11 contract (C11.SafeRun Norm.init evs && C11.StartsRun Norm.init evs) (Contract evs) evs outs)) ts

end Cuke.Driver
