import Cuke.Lemmas.NormalizeOrder
import Cuke.Model.Monitors
/-!
  T2 for the Normalize model (C11): the forwarded stream is SEQUENTIAL — accepted by the strict automaton
  `Cuke.Mon.seqStep` (one feature open at a time, one rule or top-level attempt inside it, one attempt inside
  a rule, brackets nested).

  Idea: the automaton state after everything forwarded so far is a function of the queue (`stOf`): which
  brackets of the HEAD entries have been emitted is recorded by the `initial` flags, and whether the head
  attempt's `Started` has been emitted is visible from its buffer (a buffer that has never been emitted from
  starts with `Started`). Insertion does not change `stOf`; emission runs the automaton from `stOf` before to
  `stOf` after.
-/
namespace Cuke.NormL
open Cuke List Cuke.Mon

/-! ## running the automaton -/

def seqRun (s : SeqSt) (evs : List Ev) : Option SeqSt := evs.foldl (fun (o : Option SeqSt) e => o.bind (fun s => seqStep s e)) (some s)

theorem seqRun_nil (s : SeqSt) : seqRun s [] = some s := rfl

theorem seqRun_none (evs : List Ev) : evs.foldl (fun (o : Option SeqSt) e => o.bind (fun s => seqStep s e)) none = none := by
  induction evs with
  | nil => rfl
  | cons e es ih => simpa using ih

theorem seqRun_cons (s : SeqSt) (e : Ev) (es : List Ev) :
    seqRun s (e :: es) = (seqStep s e).bind (fun s' => seqRun s' es) := by
  simp only [seqRun, foldl_cons, Option.bind_some]
  cases h : seqStep s e with
  | none => simp [seqRun_none]
  | some s' => simp

theorem seqRun_append (s : SeqSt) (a b : List Ev) :
    seqRun s (a ++ b) = (seqRun s a).bind (fun s' => seqRun s' b) := by
  induction a generalizing s with
  | nil => simp [seqRun_nil]
  | cons e es ih =>
    rw [cons_append, seqRun_cons, seqRun_cons]
    cases h : seqStep s e with
    | none => simp
    | some s' => simp [ih]

theorem seqOk_iff (evs : List Ev) : seqOk evs = (seqRun {} evs).isSome := rfl

/-! ## attempt buffers -/

/-- never emitted from: starts with `Started`, no other `Started` -/
def attFresh (a : AttQ) : Bool :=
  a.evs.head? == some .started && a.evs.tail.all (fun e => e != .started)

/-- partially emitted (its `Started` is out): no `Started` left -/
def attPartial (a : AttQ) : Bool := a.evs.all (fun e => e != .started)

def attKey (f : Nat) (r : Option Nat) (a : AttQ) : ScenKey × Option Retries := (⟨f, r, a.scen⟩, a.ret)

/-- inside feature `f` / rule `r`, attempt open or not -/
def inAtt (f : Nat) (r : Option Nat) (att : Option (ScenKey × Option Retries)) : SeqSt :=
  { feat := some f, rule := r, att := att, finished := false }

/-- events of an open attempt that are neither Started nor Finished keep it open -/
theorem seqRun_mid (f : Nat) (r : Option Nat) (a : AttQ) (evs : List ScenEv)
    (h : evs.all (fun e => e != .started && e != .finished) = true) :
    seqRun (inAtt f r (some (attKey f r a))) (wrapAtt f r a evs) = some (inAtt f r (some (attKey f r a))) := by
  induction evs with
  | nil => rfl
  | cons e es ih =>
    simp only [all_cons, Bool.and_eq_true, bne_iff_ne, ne_eq] at h
    simp only [wrapAtt, map_cons]
    rw [seqRun_cons]
    have : seqStep (inAtt f r (some (attKey f r a))) (Ev.scen ⟨f, r, a.scen⟩ a.ret e) = some (inAtt f r (some (attKey f r a))) := by
      cases e <;> simp_all [seqStep, inAtt, attKey]
    rw [this]
    simpa [wrapAtt] using ih h.2

/-- splitting a clean buffer: everything before a trailing `Finished` is "middle" -/
theorem clean_split (evs : List ScenEv) (hc : evs.dropLast.all (fun e => e != .finished) = true) :
    (evs.getLast? = some .finished ∧ ∃ mid, evs = mid ++ [.finished] ∧ mid.all (fun e => e != .finished) = true) ∨
    (evs.getLast? ≠ some .finished ∧ evs.all (fun e => e != .finished) = true) := by
  by_cases hl : evs.getLast? = some .finished
  · left
    refine ⟨hl, evs.dropLast, ?_, hc⟩
    have hne : evs ≠ [] := by intro h0; simp [h0] at hl
    have := dropLast_concat_getLast hne
    rw [getLast?_eq_some_getLast hne, Option.some.injEq] at hl
    rw [hl] at this
    exact this.symm
  · right
    refine ⟨hl, ?_⟩
    have : (evs.getLast? == some ScenEv.finished) = false := by simpa using hl
    exact clean_incomplete_no_finished evs hc this

/-- **one attempt buffer through the automaton**: from "attempt open" (partial buffer) or "no attempt open"
    (fresh buffer), emitting the whole buffer is accepted; the attempt is closed iff the buffer ended with
    `Finished`, and stays open otherwise -/
theorem seqRun_att (f : Nat) (r : Option Nat) (a : AttQ) (hc : attClean a = true)
    (h : (attFresh a = true) ∨ (attPartial a = true)) :
    seqRun (inAtt f r (if attFresh a then none else some (attKey f r a))) (wrapAtt f r a a.evs) =
      some (inAtt f r (if attComplete a then none else some (attKey f r a))) := by
  have hfin : ∀ (mid : List ScenEv), mid.all (fun e => e != .started && e != .finished) = true →
      seqRun (inAtt f r (some (attKey f r a))) (wrapAtt f r a (mid ++ [.finished])) = some (inAtt f r none) := by
    intro mid hm
    simp only [wrapAtt, map_append, map_cons, map_nil]
    rw [seqRun_append]
    have := seqRun_mid f r a mid hm
    simp only [wrapAtt] at this
    rw [this]
    simp [seqRun_cons, seqRun_nil, seqStep, inAtt, attKey]
  simp only [attClean] at hc
  rcases h with hf | hp
  · -- fresh: Started first
    simp only [hf, if_true]
    simp only [attFresh, Bool.and_eq_true, beq_iff_eq] at hf
    cases hevs : a.evs with
    | nil => simp [hevs] at hf
    | cons e0 rest =>
      rw [hevs] at hf hc
      simp only [head?_cons, Option.some.injEq, tail_cons] at hf
      obtain ⟨rfl, hrest⟩ := hf
      simp only [wrapAtt, map_cons]
      rw [seqRun_cons]
      have hst : seqStep (inAtt f r none) (Ev.scen ⟨f, r, a.scen⟩ a.ret .started) = some (inAtt f r (some (attKey f r a))) := by
        simp [seqStep, inAtt, attKey]
      rw [hst]
      simp only [Option.bind_some]
      -- the rest: middle events, possibly a trailing Finished
      have hcl : rest.dropLast.all (fun e => e != .finished) = true := by
        cases rest with
        | nil => simp
        | cons e1 r1 => simpa [dropLast_cons₂] using hc
      have hcomp : attComplete a = (rest.getLast? == some .finished) := by
        simp only [attComplete, hevs]
        cases rest with
        | nil => simp
        | cons e1 r1 => simp [getLast?_cons_cons]
      rw [hcomp]
      rcases clean_split rest hcl with ⟨hl, mid, rfl, hm⟩ | ⟨hl, hall⟩
      · simp only [hl, beq_self_eq_true, if_true]
        have := hfin mid (by
          simp only [all_append, Bool.and_eq_true] at hrest
          simp only [all_eq_true, Bool.and_eq_true] at hm hrest ⊢
          intro x hx; exact ⟨hrest.1 x hx, hm x hx⟩)
        simpa [wrapAtt] using this
      · have hl' : (rest.getLast? == some ScenEv.finished) = false := by simpa using hl
        simp only [hl', Bool.false_eq_true, if_false]
        have := seqRun_mid f r a rest (by
          simp only [all_eq_true, Bool.and_eq_true] at hall hrest ⊢
          intro x hx; exact ⟨hrest x hx, hall x hx⟩)
        simpa [wrapAtt] using this
  · -- partial: no Started left
    have hnf : attFresh a = false := by
      simp only [attFresh, Bool.and_eq_false_iff]
      left
      simp only [attPartial, all_eq_true, bne_iff_ne, ne_eq] at hp
      cases hevs : a.evs with
      | nil => simp
      | cons e0 rest =>
        have := hp e0 (by simp [hevs])
        simpa using this
    simp only [hnf, Bool.false_eq_true, if_false]
    simp only [attPartial] at hp
    rcases clean_split a.evs hc with ⟨hl, mid, hmid, hm⟩ | ⟨hl, hall⟩
    · have hcomp : attComplete a = true := by simp [attComplete, hl]
      simp only [hcomp, if_true]
      rw [hmid]
      apply hfin
      rw [hmid] at hp
      simp only [all_append, Bool.and_eq_true] at hp
      simp only [all_eq_true, Bool.and_eq_true] at hm hp ⊢
      intro x hx; exact ⟨hp.1 x hx, hm x hx⟩
    · have hcomp : attComplete a = false := by simpa [attComplete] using hl
      simp only [hcomp, Bool.false_eq_true, if_false]
      apply seqRun_mid
      simp only [all_eq_true, Bool.and_eq_true] at hall hp ⊢
      intro x hx; exact ⟨hp x hx, hall x hx⟩

/-! ## attempts of a rule -/

/-- which attempt is open, as visible from the queue -/
def attsSt (f : Nat) (r : Option Nat) : List AttQ → Option (ScenKey × Option Retries)
  | [] => none
  | a :: _ => if attFresh a then none else some (attKey f r a)

/-- only the head attempt may have been emitted from -/
def attsWF : List AttQ → Bool
  | [] => true
  | a :: rest => (attFresh a || attPartial a) && rest.all attFresh

theorem attsSt_fresh (f : Nat) (r : Option Nat) (atts : List AttQ) (h : atts.all attFresh = true) : attsSt f r atts = none := by
  cases atts with
  | nil => rfl
  | cons a rest => simp only [all_cons, Bool.and_eq_true] at h; simp [attsSt, h.1]

theorem attsWF_fresh (atts : List AttQ) (h : atts.all attFresh = true) : attsWF atts = true := by
  cases atts with
  | nil => rfl
  | cons a rest => simp only [all_cons, Bool.and_eq_true] at h; simp [attsWF, h.1, h.2]

theorem emitAtts_seq (f : Nat) (r : Option Nat) (atts : List AttQ) (hc : atts.all attClean = true) (hw : attsWF atts = true) :
    seqRun (inAtt f r (attsSt f r atts)) (emitAtts f r atts).1 = some (inAtt f r (attsSt f r (emitAtts f r atts).2)) ∧
    attsWF (emitAtts f r atts).2 = true := by
  induction atts with
  | nil => simp [emitAtts, seqRun_nil, attsWF]
  | cons a rest ih =>
    simp only [all_cons, Bool.and_eq_true] at hc
    simp only [attsWF, Bool.and_eq_true, Bool.or_eq_true] at hw
    obtain ⟨h1, h2⟩ := emitAtt_clean a.evs hc.1
    have hatt := seqRun_att f r a hc.1 hw.1
    simp only [emitAtts]
    by_cases hf : (emitAtt a.evs).2 = true
    · have hcomp : attComplete a = true := by simpa [attComplete] using h2.mp hf
      simp only [hf, if_true]
      rw [h1, seqRun_append]
      simp only [attsSt]
      rw [hatt, hcomp]
      simp only [if_true, Option.bind_some]
      have := ih hc.2 (attsWF_fresh rest hw.2)
      rw [attsSt_fresh f r rest hw.2] at this
      exact this
    · have hcomp : attComplete a = false := by
        cases hx : attComplete a with
        | false => rfl
        | true => exact absurd (h2.mpr (by simpa [attComplete] using hx)) hf
      simp only [hf, Bool.false_eq_true, if_false]
      rw [h1]
      simp only [attsSt]
      rw [hatt, hcomp]
      simp [attFresh, attsWF, attPartial, attKey, hw.2]

/-! ## rules -/

/-- automaton state inside feature `f` as a function of a rule queue at the head of the items -/
def ruleSt (f r : Nat) (q : RuleQ) : SeqSt :=
  if q.initial then inAtt f none none else inAtt f (some r) (attsSt f (some r) q.atts)

def ruleWF (q : RuleQ) : Bool := if q.initial then q.atts.all attFresh else attsWF q.atts

/-- a rule nothing of which has been emitted -/
def ruleFresh (q : RuleQ) : Bool := q.initial && q.atts.all attFresh

theorem emitRule_seq (f r : Nat) (q : RuleQ) (hok : ruleOk q = true) (hw : ruleWF q = true) :
    seqRun (ruleSt f r q) (emitRule f r q).1 =
      some (if (emitRule f r q).2.1 then inAtt f none none else ruleSt f r (emitRule f r q).2.2) ∧
    ruleWF (emitRule f r q).2.2 = true := by
  simp only [ruleOk, Bool.and_eq_true, Bool.or_eq_true] at hok
  have hw' : attsWF q.atts = true := by
    simp only [ruleWF] at hw
    split at hw
    · exact attsWF_fresh _ hw
    · exact hw
  obtain ⟨hs, hwf⟩ := emitAtts_seq f (some r) q.atts hok.1 hw'
  obtain ⟨_, _, e3⟩ := emitAtts_eq f (some r) q.atts hok.1
  -- the opening bracket (if still owed) leads into the rule
  have hpre : seqRun (ruleSt f r q) (if q.initial then [Ev.ruleStarted f r] else []) =
      some (inAtt f (some r) (attsSt f (some r) q.atts)) := by
    simp only [ruleSt]
    by_cases hi : q.initial = true
    · simp only [hi, if_true, ruleWF] at hw ⊢
      rw [attsSt_fresh f (some r) q.atts hw]
      simp [seqRun_cons, seqRun_nil, seqStep, inAtt]
    · have hi' : q.initial = false := by simpa using hi
      simp [hi', seqRun_nil]
  by_cases hp : q.fin = .pending
  · have hall : q.atts.all attComplete = true := by
      rcases hok.2 with h2 | h2
      · rw [hp] at h2; cases h2
      · exact h2
    have hnil := e3 hall
    simp only [emitRule, hp, beq_self_eq_true, if_true]
    refine ⟨?_, by simp [ruleWF, hnil, attsWF]⟩
    rw [seqRun_append, seqRun_append, hpre]
    simp only [Option.bind_some]
    rw [hs, hnil]
    simp [attsSt, seqRun_cons, seqRun_nil, seqStep, inAtt]
  · have hp' : (q.fin == Fin.pending) = false := by simpa using hp
    simp only [emitRule, hp', Bool.false_eq_true, if_false]
    refine ⟨?_, by simpa [ruleWF] using hwf⟩
    rw [seqRun_append, hpre]
    simp only [Option.bind_some]
    rw [hs]
    simp [ruleSt]

/-! ## items of a feature -/

def itemsSt (f : Nat) : List Item → SeqSt
  | [] => inAtt f none none
  | .att a :: _ => inAtt f none (if attFresh a then none else some (attKey f none a))
  | .rule r q :: _ => ruleSt f r q

def itemFresh : Item → Bool
  | .att a => attFresh a
  | .rule _ q => ruleFresh q

def itemsWF : List Item → Bool
  | [] => true
  | .att a :: rest => (attFresh a || attPartial a) && rest.all itemFresh
  | .rule _ q :: rest => ruleWF q && rest.all itemFresh

theorem itemsSt_fresh (f : Nat) (items : List Item) (h : items.all itemFresh = true) : itemsSt f items = inAtt f none none := by
  cases items with
  | nil => rfl
  | cons it rest =>
    simp only [all_cons, Bool.and_eq_true] at h
    cases it with
    | att a => simp only [itemFresh] at h; simp [itemsSt, h.1]
    | rule r q =>
      simp only [itemFresh, ruleFresh, Bool.and_eq_true] at h
      simp [itemsSt, ruleSt, h.1.1]

theorem itemsWF_fresh (items : List Item) (h : items.all itemFresh = true) : itemsWF items = true := by
  cases items with
  | nil => rfl
  | cons it rest =>
    simp only [all_cons, Bool.and_eq_true] at h
    cases it with
    | att a => simp only [itemFresh] at h; simp [itemsWF, h.1, h.2]
    | rule r q =>
      simp only [itemFresh, ruleFresh, Bool.and_eq_true] at h
      simp [itemsWF, ruleWF, h.1.1, h.1.2, h.2]

/-- no rule bracket of the feature has been closed-and-emitted yet (such entries are removed at once) -/
def itemsLive (items : List Item) : Bool := items.all (fun it => match it with | .rule _ q => q.fin != .emitted | _ => true)

theorem emitItems_seq (f : Nat) (items : List Item) (hok : items.all itemOk = true) (hw : itemsWF items = true) :
    seqRun (itemsSt f items) (emitItems f items).1 = some (itemsSt f (emitItems f items).2) ∧
    itemsWF (emitItems f items).2 = true := by
  induction items with
  | nil => simp [emitItems, seqRun_nil, itemsWF]
  | cons it rest ih =>
    simp only [all_cons, Bool.and_eq_true] at hok
    cases it with
    | att a =>
      simp only [itemsWF, Bool.and_eq_true, Bool.or_eq_true] at hw
      obtain ⟨h1, h2⟩ := emitAtt_clean a.evs hok.1
      have hatt := seqRun_att f none a hok.1 hw.1
      simp only [emitItems]
      by_cases hf : (emitAtt a.evs).2 = true
      · have hcomp : attComplete a = true := by simpa [attComplete] using h2.mp hf
        simp only [hf, if_true]
        rw [h1, seqRun_append]
        simp only [itemsSt]
        rw [hatt, hcomp]
        simp only [if_true, Option.bind_some]
        have := ih hok.2 (itemsWF_fresh rest hw.2)
        rw [itemsSt_fresh f rest hw.2] at this
        exact this
      · have hcomp : attComplete a = false := by
          cases hx : attComplete a with
          | false => rfl
          | true => exact absurd (h2.mpr (by simpa [attComplete] using hx)) hf
        simp only [hf, Bool.false_eq_true, if_false]
        rw [h1]
        simp only [itemsSt]
        rw [hatt, hcomp]
        simp [attFresh, itemsWF, attPartial, attKey, hw.2]
    | rule r q =>
      simp only [itemsWF, Bool.and_eq_true] at hw
      simp only [itemOk] at hok
      obtain ⟨hs, hwf⟩ := emitRule_seq f r q hok.1 hw.1
      simp only [emitItems]
      by_cases hf : (emitRule f r q).2.1 = true
      · simp only [hf, if_true] at hs ⊢
        rw [seqRun_append]
        simp only [itemsSt]
        rw [hs]
        simp only [Option.bind_some]
        have := ih hok.2 (itemsWF_fresh rest hw.2)
        rw [itemsSt_fresh f rest hw.2] at this
        exact this
      · simp only [hf, Bool.false_eq_true, if_false] at hs ⊢
        simp only [itemsSt]
        rw [hs]
        simp [itemsWF, hwf, hw.2]

/-! ## features -/

def featSt (fq : Nat × FeatQ) : SeqSt := if fq.2.initial then {} else itemsSt fq.1 fq.2.items

def featsSt : List (Nat × FeatQ) → SeqSt
  | [] => {}
  | fq :: _ => featSt fq

def featFresh (fq : Nat × FeatQ) : Bool := fq.2.initial && fq.2.items.all itemFresh

def featWF (fq : Nat × FeatQ) : Bool := if fq.2.initial then fq.2.items.all itemFresh else itemsWF fq.2.items

def featsWF : List (Nat × FeatQ) → Bool
  | [] => true
  | fq :: rest => featWF fq && rest.all featFresh

theorem featsSt_fresh (fs : List (Nat × FeatQ)) (h : fs.all featFresh = true) : featsSt fs = {} := by
  cases fs with
  | nil => rfl
  | cons fq rest =>
    simp only [all_cons, Bool.and_eq_true, featFresh] at h
    simp [featsSt, featSt, h.1.1]

theorem featsWF_fresh (fs : List (Nat × FeatQ)) (h : fs.all featFresh = true) : featsWF fs = true := by
  cases fs with
  | nil => rfl
  | cons fq rest =>
    simp only [all_cons, Bool.and_eq_true, featFresh] at h
    simp [featsWF, featWF, h.1.1, h.1.2, h.2, featFresh]

/-- **Emission is sequential**: from the automaton state that the queue shows, everything `emit` forwards
    is accepted, and the automaton ends in the state the remaining queue shows. -/
theorem emitFeats_seq (fs : List (Nat × FeatQ)) (hok : fs.all featOk = true) (hw : featsWF fs = true) :
    seqRun (featsSt fs) (emitFeats fs).1 = some (featsSt (emitFeats fs).2) ∧ featsWF (emitFeats fs).2 = true := by
  induction fs with
  | nil => simp [emitFeats, seqRun_nil, featsWF]
  | cons fq rest ih =>
    obtain ⟨f, q⟩ := fq
    simp only [all_cons, Bool.and_eq_true] at hok
    simp only [featsWF, Bool.and_eq_true] at hw
    have hq := hok.1
    simp only [featOk, Bool.and_eq_true, Bool.or_eq_true] at hq
    have hiw : itemsWF q.items = true := by
      have := hw.1
      simp only [featWF] at this
      split at this
      · exact itemsWF_fresh _ this
      · exact this
    obtain ⟨hs, hwf⟩ := emitItems_seq f q.items hq.1 hiw
    obtain ⟨_, _, e3⟩ := emitItems_eq f q.items hq.1
    have hpre : seqRun (featSt (f, q)) (if q.initial then [Ev.featStarted f] else []) = some (itemsSt f q.items) := by
      simp only [featSt]
      by_cases hi : q.initial = true
      · have hfr : q.items.all itemFresh = true := by simpa [featWF, hi] using hw.1
        simp only [hi, if_true]
        rw [itemsSt_fresh f q.items hfr]
        simp [seqRun_cons, seqRun_nil, seqStep, inAtt]
      · have hi' : q.initial = false := by simpa using hi
        simp [hi', seqRun_nil]
    simp only [emitFeats]
    by_cases hp : q.fin = .pending
    · have hall : q.items.all itemComplete = true := by
        rcases hq.2 with h2 | h2
        · rw [hp] at h2; cases h2
        · exact h2
      have hnil := e3 hall
      simp only [hp, beq_self_eq_true, if_true]
      have hrest := ih hok.2 (featsWF_fresh rest hw.2)
      rw [featsSt_fresh rest hw.2] at hrest
      refine ⟨?_, hrest.2⟩
      simp only [featsSt]
      rw [seqRun_append, seqRun_append, seqRun_append, hpre]
      simp only [Option.bind_some]
      rw [hs, hnil]
      simp only [itemsSt, Option.bind_some]
      have : seqRun (inAtt f none none) [Ev.featFinished f] = some {} := by
        simp [seqRun_cons, seqRun_nil, seqStep, inAtt]
      rw [this]
      exact hrest.1
    · have hp' : (q.fin == Fin.pending) = false := by simpa using hp
      simp only [hp', Bool.false_eq_true, if_false]
      refine ⟨?_, ?_⟩
      · simp only [featsSt]
        rw [seqRun_append, hpre]
        simp only [Option.bind_some]
        rw [hs]
        simp [featSt]
      · simp [featsWF, featWF, hwf, hw.2]

/-! ## insertion does not change what the queue shows -/

theorem updFirst_all_eq {α} (p : α → Bool) (g : α → α) (P : α → Bool) (l : List α)
    (hg : ∀ a ∈ l, p a = true → P (g a) = P a) : (updFirst p g l).all P = l.all P := by
  induction l with
  | nil => rfl
  | cons a rest ih =>
    by_cases hp : p a = true
    · simp [updFirst, hp, hg a (by simp) hp]
    · have hp' : p a = false := by simpa using hp
      simp [updFirst, hp', ih (fun b hb => hg b (by simp [hb]))]

theorem attFresh_push (a : AttQ) (ev : ScenEv) (h : ev ≠ .started) : attFresh (a.push ev) = attFresh a := by
  simp only [attFresh, AttQ.push]
  cases hevs : a.evs with
  | nil => simp [h]
  | cons e0 rest =>
    have : (ev != ScenEv.started) = true := by simpa using h
    simp [all_append, this]

theorem attPartial_push (a : AttQ) (ev : ScenEv) (h : ev ≠ .started) : attPartial (a.push ev) = attPartial a := by
  simp [attPartial, AttQ.push, all_append, h]

/-- the extra clause of the Runner contract T2 needs: an attempt's first event is `Started`, and `Started`
    is not sent twice for an attempt that is still queued -/
def startsRight (atts : List AttQ) (scen : Nat) (ret : Option Retries) (ev : ScenEv) : Bool :=
  atts.any (AttQ.is scen ret) != (ev == .started)

theorem pushAtt_seq (f : Nat) (r : Option Nat) (atts : List AttQ) (scen : Nat) (ret : Option Retries) (ev : ScenEv)
    (hc : startsRight atts scen ret ev = true) :
    (atts.all attFresh = true → (pushAtt atts scen ret ev).all attFresh = true) ∧
    (attsWF atts = true → attsWF (pushAtt atts scen ret ev) = true) ∧
    attsSt f r (pushAtt atts scen ret ev) = attsSt f r atts := by
  unfold pushAtt
  by_cases hex : atts.any (AttQ.is scen ret) = true
  · have hev : ev ≠ .started := by
      intro h0; simp [startsRight, hex, h0] at hc
    simp only [hex, if_true]
    have hall : ∀ (P : AttQ → Bool), (∀ a, P (a.push ev) = P a) →
        (updFirst (AttQ.is scen ret) (AttQ.push ev) atts).all P = atts.all P :=
      fun P hP => updFirst_all_eq _ _ P atts (fun a _ _ => hP a)
    refine ⟨fun h => by rw [hall attFresh (fun a => attFresh_push a ev hev)]; exact h, ?_, ?_⟩
    · intro hw
      cases atts with
      | nil => simp at hex
      | cons a rest =>
        simp only [attsWF, Bool.and_eq_true, Bool.or_eq_true] at hw
        by_cases hp : a.is scen ret = true
        · simp only [updFirst, hp, if_true, attsWF, attFresh_push a ev hev, attPartial_push a ev hev, Bool.and_eq_true,
            Bool.or_eq_true]
          exact hw
        · have hp' : a.is scen ret = false := by simpa using hp
          simp only [updFirst, hp', Bool.false_eq_true, if_false, attsWF, Bool.and_eq_true, Bool.or_eq_true]
          refine ⟨hw.1, ?_⟩
          rw [updFirst_all_eq _ _ attFresh rest (fun b _ _ => attFresh_push b ev hev)]
          exact hw.2
    · cases atts with
      | nil => simp at hex
      | cons a rest =>
        by_cases hp : a.is scen ret = true
        · have hfp := attFresh_push a ev hev
          simp only [updFirst, hp, if_true, attsSt, hfp]
          rfl
        · have hp' : a.is scen ret = false := by simpa using hp
          simp [updFirst, hp', attsSt]
  · have hex' : atts.any (AttQ.is scen ret) = false := by simpa using hex
    have hev : ev = .started := by
      by_cases h0 : ev = .started
      · exact h0
      · simp [startsRight, hex', h0] at hc
    subst hev
    simp only [hex', Bool.false_eq_true, if_false]
    have hnew : attFresh { scen := scen, ret := ret, evs := [ScenEv.started] } = true := by simp [attFresh]
    refine ⟨fun h => by simp [all_append, h, hnew], ?_, ?_⟩
    · intro hw
      cases atts with
      | nil => simp [attsWF, hnew]
      | cons a rest =>
        simp only [attsWF, Bool.and_eq_true] at hw
        simp [attsWF, hw.1, all_append, hw.2, hnew]
    · cases atts with
      | nil => simp [attsSt, hnew]
      | cons a rest => simp [attsSt]

/-- generic: updating the first match with a function that keeps its "view" keeps the list's view -/
theorem updFirst_view {α σ} (p : α → Bool) (g : α → α) (fresh wfHead : α → Bool) (headSt : α → σ) (l : List α)
    (hfresh : ∀ a, l.find? p = some a → fresh a = true → fresh (g a) = true)
    (hwf : ∀ a, l.find? p = some a → wfHead a = true → wfHead (g a) = true)
    (hst : ∀ a, l.find? p = some a → headSt (g a) = headSt a) :
    (l.all fresh = true → (updFirst p g l).all fresh = true) ∧
    (∀ a rest, l = a :: rest → wfHead a = true → rest.all fresh = true →
      ∃ a' rest', updFirst p g l = a' :: rest' ∧ wfHead a' = true ∧ rest'.all fresh = true ∧ headSt a' = headSt a) := by
  have hallfresh : ∀ (l : List α), (∀ a, l.find? p = some a → fresh a = true → fresh (g a) = true) →
      l.all fresh = true → (updFirst p g l).all fresh = true := by
    intro l
    induction l with
    | nil => intros; rfl
    | cons a rest ih =>
      intro hf hall
      simp only [all_cons, Bool.and_eq_true] at hall
      by_cases hp : p a = true
      · simp only [updFirst, hp, if_true, all_cons, Bool.and_eq_true]
        exact ⟨hf a (by simp [find?, hp]) hall.1, hall.2⟩
      · have hp' : p a = false := by simpa using hp
        simp only [updFirst, hp', Bool.false_eq_true, if_false, all_cons, Bool.and_eq_true]
        exact ⟨hall.1, ih (fun b hb => hf b (by simp [find?, hp', hb])) hall.2⟩
  refine ⟨hallfresh l hfresh, ?_⟩
  intro a rest hl hwa hrest
  subst hl
  by_cases hp : p a = true
  · exact ⟨g a, rest, by simp [updFirst, hp], hwf a (by simp [find?, hp]) hwa, hrest, hst a (by simp [find?, hp])⟩
  · have hp' : p a = false := by simpa using hp
    refine ⟨a, updFirst p g rest, by simp [updFirst, hp'], hwa, ?_, rfl⟩
    exact hallfresh rest (fun b hb => hfresh b (by simp [find?, hp', hb])) hrest

/-- the T2 clause of the contract at feature level -/
def startsRightF (q : FeatQ) (rule : Option Nat) (scen : Nat) (ret : Option Retries) (ev : ScenEv) : Bool :=
  match rule with
  | some r =>
    match q.items.find? (Item.isRule r) with
    | some (.rule _ rq) => startsRight rq.atts scen ret ev
    | _ => true
  | none => q.items.any (Item.isAtt scen ret) != (ev == .started)

def itemWFHead : Item → Bool
  | .att a => attFresh a || attPartial a
  | .rule _ q => ruleWF q

def itemHeadSt (f : Nat) : Item → SeqSt
  | .att a => inAtt f none (if attFresh a then none else some (attKey f none a))
  | .rule r q => ruleSt f r q

theorem itemsWF_cons (it : Item) (rest : List Item) : itemsWF (it :: rest) = (itemWFHead it && rest.all itemFresh) := by
  cases it <;> rfl

theorem itemsSt_cons (f : Nat) (it : Item) (rest : List Item) : itemsSt f (it :: rest) = itemHeadSt f it := by
  cases it <;> rfl

theorem insertScen_seq (f : Nat) (q q' : FeatQ) (rule : Option Nat) (scen : Nat) (ret : Option Retries) (ev : ScenEv)
    (h : q.insertScen rule scen ret ev = some q') (hc : startsRightF q rule scen ret ev = true) :
    (q.items.all itemFresh = true → q'.items.all itemFresh = true) ∧
    (itemsWF q.items = true → itemsWF q'.items = true) ∧
    itemsSt f q'.items = itemsSt f q.items ∧ q'.initial = q.initial ∧ q'.fin = q.fin := by
  -- from the generic lemma to the three list-level facts
  have lift : ∀ (p : Item → Bool) (g : Item → Item),
      (∀ a, q.items.find? p = some a → itemFresh a = true → itemFresh (g a) = true) →
      (∀ a, q.items.find? p = some a → itemWFHead a = true → itemWFHead (g a) = true) →
      (∀ a, q.items.find? p = some a → itemHeadSt f (g a) = itemHeadSt f a) →
      q.items.any p = true →
      (q.items.all itemFresh = true → (updFirst p g q.items).all itemFresh = true) ∧
      (itemsWF q.items = true → itemsWF (updFirst p g q.items) = true) ∧
      itemsSt f (updFirst p g q.items) = itemsSt f q.items := by
    intro p g h1 h2 h3 hex
    obtain ⟨ha, hb⟩ := updFirst_view p g itemFresh itemWFHead (itemHeadSt f) q.items h1 h2 h3
    refine ⟨ha, ?_, ?_⟩
    · intro hw
      cases hi : q.items with
      | nil => simp [hi] at hex
      | cons it rest =>
        rw [hi, itemsWF_cons, Bool.and_eq_true] at hw
        obtain ⟨a', rest', he, hw', hr', _⟩ := hb it rest hi hw.1 hw.2
        rw [hi] at he
        rw [he, itemsWF_cons, hw', hr']; rfl
    · cases hi : q.items with
      | nil => simp [hi] at hex
      | cons it rest =>
        by_cases hp : p it = true
        · have := h3 it (by simp [hi, find?, hp])
          simp [updFirst, hp, itemsSt_cons, this]
        · have hp' : p it = false := by simpa using hp
          simp [updFirst, hp', itemsSt_cons]
  cases rule with
  | some r =>
    simp only [FeatQ.insertScen] at h
    split at h
    · rename_i hex
      simp only [Option.some.injEq] at h; subst h
      have hfind : ∀ a, q.items.find? (Item.isRule r) = some a → ∃ rq, a = .rule r rq ∧ startsRight rq.atts scen ret ev = true := by
        intro a ha
        obtain ⟨rq, rfl⟩ := isRule_cases r a (find?_some ha)
        refine ⟨rq, rfl, ?_⟩
        simpa [startsRightF, ha] using hc
      obtain ⟨l1, l2, l3⟩ := lift (Item.isRule r) (Item.pushInRule scen ret ev)
        (by
          intro a ha hfr
          obtain ⟨rq, rfl, hsr⟩ := hfind a ha
          simp only [itemFresh, ruleFresh, Bool.and_eq_true] at hfr
          simp only [Item.pushInRule, itemFresh, ruleFresh, Bool.and_eq_true]
          exact ⟨hfr.1, (pushAtt_seq f (some r) rq.atts scen ret ev hsr).1 hfr.2⟩)
        (by
          intro a ha hwf
          obtain ⟨rq, rfl, hsr⟩ := hfind a ha
          simp only [itemWFHead, ruleWF] at hwf
          simp only [Item.pushInRule, itemWFHead, ruleWF]
          split
          · rename_i hi; simp only [hi, if_true] at hwf
            exact (pushAtt_seq f (some r) rq.atts scen ret ev hsr).1 hwf
          · rename_i hi; simp only [hi, Bool.false_eq_true, if_false] at hwf
            exact (pushAtt_seq f (some r) rq.atts scen ret ev hsr).2.1 hwf)
        (by
          intro a ha
          obtain ⟨rq, rfl, hsr⟩ := hfind a ha
          simp only [Item.pushInRule, itemHeadSt, ruleSt]
          rw [(pushAtt_seq f (some r) rq.atts scen ret ev hsr).2.2])
        hex
      exact ⟨l1, l2, l3, rfl, rfl⟩
    · cases h
  | none =>
    simp only [FeatQ.insertScen] at h
    split at h
    · rename_i hex
      simp only [Option.some.injEq] at h; subst h
      have hev : ev ≠ .started := by
        intro h0; simp [startsRightF, hex, h0] at hc
      have hfind : ∀ a, q.items.find? (Item.isAtt scen ret) = some a → ∃ x, a = .att x := by
        intro a ha
        obtain ⟨x, rfl, _, _⟩ := isAtt_cases scen ret a (find?_some ha)
        exact ⟨x, rfl⟩
      obtain ⟨l1, l2, l3⟩ := lift (Item.isAtt scen ret) (Item.pushAtt ev)
        (by
          intro a ha hfr
          obtain ⟨x, rfl⟩ := hfind a ha
          simpa [Item.pushAtt, itemFresh, attFresh_push x ev hev] using hfr)
        (by
          intro a ha hwf
          obtain ⟨x, rfl⟩ := hfind a ha
          simpa [Item.pushAtt, itemWFHead, attFresh_push x ev hev, attPartial_push x ev hev] using hwf)
        (by
          intro a ha
          obtain ⟨x, rfl⟩ := hfind a ha
          simp only [Item.pushAtt, itemHeadSt, attFresh_push x ev hev]
          rfl)
        hex
      exact ⟨l1, l2, l3, rfl, rfl⟩
    · rename_i hex
      have hex' : q.items.any (Item.isAtt scen ret) = false := by simpa using hex
      have hev : ev = .started := by
        by_cases h0 : ev = .started
        · exact h0
        · simp [startsRightF, hex', h0] at hc
      subst hev
      simp only [Option.some.injEq] at h; subst h
      have hnew : attFresh { scen := scen, ret := ret, evs := [ScenEv.started] } = true := by simp [attFresh]
      refine ⟨fun h => by simp [all_append, h, itemFresh, hnew], ?_, ?_, rfl, rfl⟩
      · intro hw
        cases hi : q.items with
        | nil => simp [itemsWF, hnew]
        | cons it rest =>
          rw [hi, itemsWF_cons, Bool.and_eq_true] at hw
          simp [itemsWF_cons, hw.1, all_append, hw.2, itemFresh, hnew]
      · cases hi : q.items with
        | nil => simp [itemsSt, hnew]
        | cons it rest => simp [itemsSt_cons]

/-! ## the whole queue -/

/-- what a per-feature update has to preserve -/
def FeatViewKept (f : Nat) (q q' : FeatQ) : Prop :=
  (featFresh (f, q) = true → featFresh (f, q') = true) ∧ (featWF (f, q) = true → featWF (f, q') = true) ∧
  featSt (f, q') = featSt (f, q)

theorem featView_of_items (f : Nat) (q q' : FeatQ) (hi : q'.initial = q.initial)
    (h1 : q.items.all itemFresh = true → q'.items.all itemFresh = true)
    (h2 : itemsWF q.items = true → itemsWF q'.items = true) (h3 : itemsSt f q'.items = itemsSt f q.items) :
    FeatViewKept f q q' := by
  refine ⟨?_, ?_, ?_⟩
  · simp only [featFresh, hi, Bool.and_eq_true]
    exact fun h => ⟨h.1, h1 h.2⟩
  · simp only [featWF, hi]
    split
    · exact h1
    · exact h2
  · simp only [featSt, hi, h3]

theorem updFeat_view (fs fs' : List (Nat × FeatQ)) (f : Nat) (g : FeatQ → Option FeatQ) (h : updFeat fs f g = some fs')
    (hg : ∀ q q', (fs.find? (fun e => e.1 == f)).map (·.2) = some q → g q = some q' → FeatViewKept f q q') :
    (fs.all featFresh = true → fs'.all featFresh = true) ∧ (featsWF fs = true → featsWF fs' = true) ∧
    featsSt fs' = featsSt fs := by
  induction fs generalizing fs' with
  | nil => simp [updFeat] at h
  | cons fq rest ih =>
    obtain ⟨f', q⟩ := fq
    simp only [updFeat] at h
    by_cases hf : (f' == f) = true
    · have hff : f' = f := by simpa using hf
      subst hff
      simp only [beq_self_eq_true, if_true, Option.map_eq_some_iff] at h
      obtain ⟨q', hq', rfl⟩ := h
      obtain ⟨k1, k2, k3⟩ := hg q q' (by simp [find?]) hq'
      refine ⟨?_, ?_, ?_⟩
      · simp only [all_cons, Bool.and_eq_true]
        exact fun h => ⟨k1 h.1, h.2⟩
      · simp only [featsWF, Bool.and_eq_true]
        exact fun h => ⟨k2 h.1, h.2⟩
      · simp [featsSt, k3]
    · have hf' : (f' == f) = false := by simpa using hf
      simp only [hf', Bool.false_eq_true, if_false, Option.map_eq_some_iff] at h
      obtain ⟨r, hr, rfl⟩ := h
      obtain ⟨i1, _, _⟩ := ih r hr (fun q q' hq => hg q q' (by simp [find?, hf', hq]))
      refine ⟨?_, ?_, ?_⟩
      · simp only [all_cons, Bool.and_eq_true]
        exact fun h => ⟨h.1, i1 h.2⟩
      · simp only [featsWF, Bool.and_eq_true]
        exact fun h => ⟨h.1, i1 h.2⟩
      · simp [featsSt]

/-- the T2 clause of the Runner contract, relative to the queue -/
def startsRightN (n : Norm) : Ev → Bool
  | .scen k ret ev =>
    match featIn n k.feat with
    | some q => startsRightF q k.rule k.scen ret ev
    | none => true
  | _ => true

/-- **Insertion does not change the automaton state the queue shows**, and keeps "only head entries have
    been emitted from". -/
theorem insert_seq (n n1 : Norm) (e : Ev) (hs : Safe n e = true) (hc : startsRightN n e = true)
    (hw : featsWF n.feats = true) (h : n.insert e = some n1) :
    featsSt n1.feats = featsSt n.feats ∧ featsWF n1.feats = true := by
  cases e with
  | started => simp only [Norm.insert, Option.some.injEq] at h; subst h; exact ⟨rfl, hw⟩
  | parsingFinished a b c d g => simp only [Norm.insert, Option.some.injEq] at h; subst h; exact ⟨rfl, hw⟩
  | parseErr i => simp only [Norm.insert, Option.some.injEq] at h; subst h; exact ⟨rfl, hw⟩
  | finished => simp only [Norm.insert, Option.some.injEq] at h; subst h; exact ⟨rfl, hw⟩
  | featStarted f =>
    simp only [Norm.insert, Option.some.injEq] at h; subst h
    simp only [Safe, Bool.not_eq_true'] at hs
    have hfil := filter_none (fun (e : Nat × FeatQ) => e.1 == f) n.feats hs
    simp only [hfil]
    have hnew : featFresh (f, FeatQ.new) = true := by simp [featFresh, FeatQ.new]
    cases hfs : n.feats with
    | nil => simp [featsSt, featSt, FeatQ.new, featsWF, featWF]
    | cons fq rest =>
      rw [hfs] at hw
      simp only [featsWF, Bool.and_eq_true] at hw
      simp [featsSt, featsWF, hw.1, all_append, hw.2, hnew]
  | featFinished f =>
    simp only [Norm.insert, Option.map_eq_some_iff] at h
    obtain ⟨fs, hfs, rfl⟩ := h
    obtain ⟨_, k2, k3⟩ := updFeat_view n.feats fs f _ hfs (by
      intro q q' _ hg
      simp only [Option.some.injEq] at hg; subst hg
      exact featView_of_items f q { q with fin := .pending } rfl id id rfl)
    exact ⟨k3, k2 hw⟩
  | ruleStarted f r =>
    simp only [Norm.insert, Option.map_eq_some_iff] at h
    obtain ⟨fs, hfs, rfl⟩ := h
    simp only [Safe, featIn] at hs
    obtain ⟨_, k2, k3⟩ := updFeat_view n.feats fs f _ hfs (by
      intro q q' hq hg
      simp only [Option.some.injEq] at hg; subst hg
      simp only [hq, Bool.and_eq_true, beq_iff_eq, Bool.not_eq_true'] at hs
      have hfil := filter_none (Item.isRule r) q.items hs.2
      have hnew : itemFresh (.rule r RuleQ.new) = true := by simp [itemFresh, ruleFresh, RuleQ.new]
      refine featView_of_items f q (q.newRule r) rfl ?_ ?_ ?_
      · intro h; simp [FeatQ.newRule, hfil, all_append, h, hnew]
      · intro h
        simp only [FeatQ.newRule, hfil]
        cases hi : q.items with
        | nil => simp [itemsWF, ruleWF, RuleQ.new]
        | cons it rest =>
          rw [hi, itemsWF_cons, Bool.and_eq_true] at h
          simp [itemsWF_cons, h.1, all_append, h.2, hnew]
      · simp only [FeatQ.newRule, hfil]
        cases hi : q.items with
        | nil => simp [itemsSt, ruleSt, RuleQ.new]
        | cons it rest => simp [itemsSt_cons])
    exact ⟨k3, k2 hw⟩
  | ruleFinished f r =>
    simp only [Norm.insert, Option.map_eq_some_iff] at h
    obtain ⟨fs, hfs, rfl⟩ := h
    obtain ⟨_, k2, k3⟩ := updFeat_view n.feats fs f _ hfs (by
      intro q q' _ hg
      simp only [FeatQ.ruleFinished] at hg
      split at hg
      · rename_i hex
        simp only [Option.some.injEq] at hg; subst hg
        have hfr : ∀ it, itemFresh (Item.finishRule it) = itemFresh it := by
          intro it; cases it <;> simp [Item.finishRule, itemFresh, ruleFresh]
        have hwh : ∀ it, itemWFHead (Item.finishRule it) = itemWFHead it := by
          intro it; cases it <;> simp [Item.finishRule, itemWFHead, ruleWF]
        have hst : ∀ it, itemHeadSt f (Item.finishRule it) = itemHeadSt f it := by
          intro it; cases it <;> simp [Item.finishRule, itemHeadSt, ruleSt]
        obtain ⟨ha, hb⟩ := updFirst_view (Item.isRule r) Item.finishRule itemFresh itemWFHead (itemHeadSt f) q.items
          (fun a _ h => by rw [hfr]; exact h) (fun a _ h => by rw [hwh]; exact h) (fun a _ => hst a)
        refine featView_of_items f q { q with items := updFirst (Item.isRule r) Item.finishRule q.items } rfl ha ?_ ?_
        · intro hw
          cases hi : q.items with
          | nil => simp [hi] at hex
          | cons it rest =>
            rw [hi, itemsWF_cons, Bool.and_eq_true] at hw
            obtain ⟨a', rest', he, hw', hr', _⟩ := hb it rest hi hw.1 hw.2
            simp only
            rw [hi] at he
            rw [he, itemsWF_cons, hw', hr']; rfl
        · cases hi : q.items with
          | nil => simp [hi] at hex
          | cons it rest =>
            by_cases hp : Item.isRule r it = true
            · simp [updFirst, hp, itemsSt_cons, hst]
            · have hp' : Item.isRule r it = false := by simpa using hp
              simp [updFirst, hp', itemsSt_cons]
      · cases hg)
    exact ⟨k3, k2 hw⟩
  | scen k ret ev =>
    simp only [Norm.insert, Option.map_eq_some_iff] at h
    obtain ⟨fs, hfs, rfl⟩ := h
    simp only [startsRightN, featIn] at hc
    obtain ⟨_, k2, k3⟩ := updFeat_view n.feats fs k.feat _ hfs (by
      intro q q' hq hg
      simp only [hq] at hc
      obtain ⟨a1, a2, a3, a4, _⟩ := insertScen_seq k.feat q q' k.rule k.scen ret ev hg hc
      exact featView_of_items k.feat q q' a4 a1 a2 a3)
    exact ⟨k3, k2 hw⟩

/-! ## a sequential stream passes through unchanged -/

set_option linter.unusedSimpArgs false

/-- the queue that shows automaton state `s` with nothing buffered -/
def canonItems (rule : Option Nat) (att : Option (ScenKey × Option Retries)) : List Item :=
  match rule, att with
  | none, none => []
  | none, some (k, ret) => [.att { scen := k.scen, ret := ret, evs := [] }]
  | some r, none => [.rule r { initial := false, fin := .no, atts := [] }]
  | some r, some (k, ret) => [.rule r { initial := false, fin := .no, atts := [{ scen := k.scen, ret := ret, evs := [] }] }]

def canon (s : SeqSt) : List (Nat × FeatQ) :=
  match s.feat with
  | none => []
  | some f => [(f, { initial := false, fin := .no, items := canonItems s.rule s.att })]

/-- reachable automaton states -/
def stOk (s : SeqSt) : Bool :=
  match s.feat with
  | none => s.rule.isNone && s.att.isNone
  | some f => match s.att with
    | none => true
    | some (k, _) => k.feat == f && k.rule == s.rule

theorem canon_step (s s' : SeqSt) (e : Ev) (hok : stOk s = true) (hf : s.finished = false)
    (h : seqStep s e = some s') (hne : e ≠ .finished) :
    ({ feats := canon s, fin := .no } : Norm).handle e = some ({ feats := canon s', fin := .no }, [e]) ∧ stOk s' = true ∧
    s'.finished = false := by
  obtain ⟨feat, rule, att, fin⟩ := s
  simp only at hf
  subst hf
  cases e with
  | started =>
    simp only [seqStep, Bool.false_eq_true, if_false, Option.some.injEq] at h; subst h
    refine ⟨?_, hok, rfl⟩
    cases feat <;> cases rule <;> cases att <;> simp_all [Norm.handle, Norm.insert, canon, canonItems, emitFeats, emitItems, emitRule, emitAtts, emitAtt, Ev.isRunLevel, stOk, wrapAtt]
  | parsingFinished a b c d g =>
    simp only [seqStep, Bool.false_eq_true, if_false, Option.some.injEq] at h; subst h
    refine ⟨?_, hok, rfl⟩
    cases feat <;> cases rule <;> cases att <;> simp_all [Norm.handle, Norm.insert, canon, canonItems, emitFeats, emitItems, emitRule, emitAtts, emitAtt, Ev.isRunLevel, stOk, wrapAtt]
  | parseErr i =>
    simp only [seqStep, Bool.false_eq_true, if_false, Option.some.injEq] at h; subst h
    refine ⟨?_, hok, rfl⟩
    cases feat <;> cases rule <;> cases att <;> simp_all [Norm.handle, Norm.insert, canon, canonItems, emitFeats, emitItems, emitRule, emitAtts, emitAtt, Ev.isRunLevel, stOk, wrapAtt]
  | finished => exact absurd rfl hne
  | featStarted f =>
    simp only [seqStep, Bool.false_eq_true, if_false] at h
    split at h
    · rename_i hc
      simp only [Option.some.injEq] at h; subst h
      cases feat with
      | some x => simp at hc
      | none =>
        simp only [stOk, Bool.and_eq_true, Option.isNone_iff_eq_none] at hok
        obtain ⟨rfl, rfl⟩ := hok
        simp [Norm.handle, Norm.insert, canon, canonItems, emitFeats, emitItems, FeatQ.new, Ev.isRunLevel, stOk]
    · cases h
  | featFinished f =>
    simp only [seqStep, Bool.false_eq_true, if_false] at h
    split at h
    · rename_i hc
      simp only [Option.some.injEq] at h; subst h
      simp only [Bool.and_eq_true, beq_iff_eq, Option.isNone_iff_eq_none] at hc
      obtain ⟨⟨rfl, rfl⟩, rfl⟩ := hc
      simp [Norm.handle, Norm.insert, updFeat, canon, canonItems, emitFeats, emitItems, emitRule, emitAtts, emitAtt, Ev.isRunLevel, stOk, wrapAtt, FeatQ.newRule, FeatQ.ruleFinished, FeatQ.insertScen, updFirst, Item.isRule, Item.isAtt, Item.finishRule, Item.pushInRule, Item.pushAtt, pushAtt, AttQ.is, AttQ.push, RuleQ.new, FeatQ.new]
    · cases h
  | ruleStarted f r =>
    simp only [seqStep, Bool.false_eq_true, if_false] at h
    split at h
    · rename_i hc
      simp only [Option.some.injEq] at h; subst h
      simp only [Bool.and_eq_true, beq_iff_eq, Option.isNone_iff_eq_none] at hc
      obtain ⟨⟨rfl, rfl⟩, rfl⟩ := hc
      simp [Norm.handle, Norm.insert, updFeat, canon, canonItems, emitFeats, emitItems, emitRule, emitAtts, emitAtt, Ev.isRunLevel, stOk, wrapAtt, FeatQ.newRule, FeatQ.ruleFinished, FeatQ.insertScen, updFirst, Item.isRule, Item.isAtt, Item.finishRule, Item.pushInRule, Item.pushAtt, pushAtt, AttQ.is, AttQ.push, RuleQ.new, FeatQ.new]
    · cases h
  | ruleFinished f r =>
    simp only [seqStep, Bool.false_eq_true, if_false] at h
    split at h
    · rename_i hc
      simp only [Option.some.injEq] at h; subst h
      simp only [Bool.and_eq_true, beq_iff_eq, Option.isNone_iff_eq_none] at hc
      obtain ⟨⟨rfl, rfl⟩, rfl⟩ := hc
      simp [Norm.handle, Norm.insert, updFeat, canon, canonItems, emitFeats, emitItems, emitRule, emitAtts, emitAtt, Ev.isRunLevel, stOk, wrapAtt, FeatQ.newRule, FeatQ.ruleFinished, FeatQ.insertScen, updFirst, Item.isRule, Item.isAtt, Item.finishRule, Item.pushInRule, Item.pushAtt, pushAtt, AttQ.is, AttQ.push, RuleQ.new, FeatQ.new]
    · cases h
  | scen k ret se =>
    obtain ⟨kf, kr, ks⟩ := k
    simp only [seqStep, Bool.false_eq_true, if_false] at h
    split at h
    · rename_i hc
      simp only [Bool.and_eq_true, beq_iff_eq] at hc
      obtain ⟨rfl, rfl⟩ := hc
      cases se with
      | started =>
        simp only at h
        split at h
        · rename_i ha
          simp only [Option.isNone_iff_eq_none] at ha
          subst ha
          simp only [Option.some.injEq] at h; subst h
          cases rule <;> simp [Norm.handle, Norm.insert, updFeat, canon, canonItems, emitFeats, emitItems, emitRule, emitAtts, emitAtt, Ev.isRunLevel, stOk, wrapAtt, FeatQ.newRule, FeatQ.ruleFinished, FeatQ.insertScen, updFirst, Item.isRule, Item.isAtt, Item.finishRule, Item.pushInRule, Item.pushAtt, pushAtt, AttQ.is, AttQ.push, RuleQ.new, FeatQ.new]
        · cases h
      | finished =>
        simp only at h
        split at h
        · rename_i ha
          simp only [beq_iff_eq] at ha
          subst ha
          simp only [Option.some.injEq] at h; subst h
          cases rule <;> simp [Norm.handle, Norm.insert, updFeat, canon, canonItems, emitFeats, emitItems, emitRule, emitAtts, emitAtt, Ev.isRunLevel, stOk, wrapAtt, FeatQ.newRule, FeatQ.ruleFinished, FeatQ.insertScen, updFirst, Item.isRule, Item.isAtt, Item.finishRule, Item.pushInRule, Item.pushAtt, pushAtt, AttQ.is, AttQ.push, RuleQ.new, FeatQ.new]
        · cases h
      | hook t r =>
        simp only at h
        split at h
        · rename_i ha
          simp only [beq_iff_eq] at ha
          subst ha
          simp only [Option.some.injEq] at h; subst h
          cases rule <;> simp [Norm.handle, Norm.insert, updFeat, canon, canonItems, emitFeats, emitItems, emitRule, emitAtts, emitAtt, Ev.isRunLevel, stOk, wrapAtt, FeatQ.newRule, FeatQ.ruleFinished, FeatQ.insertScen, updFirst, Item.isRule, Item.isAtt, Item.finishRule, Item.pushInRule, Item.pushAtt, pushAtt, AttQ.is, AttQ.push, RuleQ.new, FeatQ.new]
        · cases h
      | bg i r =>
        simp only at h
        split at h
        · rename_i ha
          simp only [beq_iff_eq] at ha
          subst ha
          simp only [Option.some.injEq] at h; subst h
          cases rule <;> simp [Norm.handle, Norm.insert, updFeat, canon, canonItems, emitFeats, emitItems, emitRule, emitAtts, emitAtt, Ev.isRunLevel, stOk, wrapAtt, FeatQ.newRule, FeatQ.ruleFinished, FeatQ.insertScen, updFirst, Item.isRule, Item.isAtt, Item.finishRule, Item.pushInRule, Item.pushAtt, pushAtt, AttQ.is, AttQ.push, RuleQ.new, FeatQ.new]
        · cases h
      | step i r =>
        simp only at h
        split at h
        · rename_i ha
          simp only [beq_iff_eq] at ha
          subst ha
          simp only [Option.some.injEq] at h; subst h
          cases rule <;> simp [Norm.handle, Norm.insert, updFeat, canon, canonItems, emitFeats, emitItems, emitRule, emitAtts, emitAtt, Ev.isRunLevel, stOk, wrapAtt, FeatQ.newRule, FeatQ.ruleFinished, FeatQ.insertScen, updFirst, Item.isRule, Item.isAtt, Item.finishRule, Item.pushInRule, Item.pushAtt, pushAtt, AttQ.is, AttQ.push, RuleQ.new, FeatQ.new]
        · cases h
      | log m =>
        simp only at h
        split at h
        · rename_i ha
          simp only [beq_iff_eq] at ha
          subst ha
          simp only [Option.some.injEq] at h; subst h
          cases rule <;> simp [Norm.handle, Norm.insert, updFeat, canon, canonItems, emitFeats, emitItems, emitRule, emitAtts, emitAtt, Ev.isRunLevel, stOk, wrapAtt, FeatQ.newRule, FeatQ.ruleFinished, FeatQ.insertScen, updFirst, Item.isRule, Item.isAtt, Item.finishRule, Item.pushInRule, Item.pushAtt, pushAtt, AttQ.is, AttQ.push, RuleQ.new, FeatQ.new]
        · cases h
    · cases h

theorem canon_finished (s s' : SeqSt) (hf : s.finished = false) (h : seqStep s .finished = some s') :
    ({ feats := canon s, fin := .no } : Norm).handle .finished = some ({ feats := [], fin := .emitted }, [.finished]) ∧
    s'.finished = true := by
  obtain ⟨feat, rule, att, fin⟩ := s
  simp only at hf
  subst hf
  simp only [seqStep, Bool.false_eq_true, if_false] at h
  split at h
  · rename_i hc
    simp only [Bool.and_eq_true, Option.isNone_iff_eq_none] at hc
    obtain ⟨⟨rfl, rfl⟩, rfl⟩ := hc
    simp only [Option.some.injEq] at h; subst h
    simp [Norm.handle, Norm.insert, canon, emitFeats, Ev.isRunLevel]
  · cases h

theorem seqRun_finished_nil (s s' : SeqSt) (evs : List Ev) (hf : s.finished = true) (h : seqRun s evs = some s') : evs = [] := by
  cases evs with
  | nil => rfl
  | cons e es =>
    rw [seqRun_cons] at h
    simp [seqStep, hf] at h

/-- a sequential stream passes through the canonical queue event by event -/
theorem passthrough_from (s0 s : SeqSt) (evs : List Ev) (hok : stOk s0 = true) (hf : s0.finished = false)
    (h : seqRun s0 evs = some s) :
    ∃ n', normRun { feats := canon s0, fin := .no } evs = some (n', evs.map (fun e => [e])) := by
  induction evs generalizing s0 with
  | nil => exact ⟨_, rfl⟩
  | cons e es ih =>
    rw [seqRun_cons] at h
    cases hs : seqStep s0 e with
    | none => simp [hs] at h
    | some s1 =>
      simp only [hs, Option.bind_some] at h
      by_cases he : e = .finished
      · subst he
        obtain ⟨hh, hfin⟩ := canon_finished s0 s1 hf hs
        have := seqRun_finished_nil s1 s es hfin h
        subst this
        exact ⟨{ feats := [], fin := .emitted }, by simp [normRun, hh]⟩
      · obtain ⟨hh, hok1, hf1⟩ := canon_step s0 s1 e hok hf hs he
        obtain ⟨n', hn'⟩ := ih s1 hok1 hf1 h
        exact ⟨n', by simp [normRun, hh, hn']⟩


/-! ## events of the head entity are forwarded at once -/

/-- after an emission the buffers of the entries at the head of the output are empty: everything that
    could be forwarded has been -/
def attsDrained : List AttQ → Bool
  | [] => true
  | a :: _ => a.evs.isEmpty

def itemsDrained : List Item → Bool
  | [] => true
  | .att a :: _ => a.evs.isEmpty
  | .rule _ rq :: _ => rq.initial || attsDrained rq.atts

def headDrained : List (Nat × FeatQ) → Bool
  | [] => true
  | (_, q) :: _ => q.initial || itemsDrained q.items

theorem emitAtts_drained (f : Nat) (r : Option Nat) (atts : List AttQ) : attsDrained (emitAtts f r atts).2 = true := by
  induction atts with
  | nil => rfl
  | cons a rest ih =>
    simp only [emitAtts]
    split
    · exact ih
    · rfl

theorem emitItems_drained (f : Nat) (items : List Item) : itemsDrained (emitItems f items).2 = true := by
  induction items with
  | nil => rfl
  | cons it rest ih =>
    cases it with
    | att a =>
      simp only [emitItems]
      split
      · exact ih
      · rfl
    | rule r q =>
      simp only [emitItems]
      split
      · exact ih
      · simp only [itemsDrained, emitRule]
        split <;> simp [emitAtts_drained]

theorem emitFeats_drained (fs : List (Nat × FeatQ)) : headDrained (emitFeats fs).2 = true := by
  induction fs with
  | nil => rfl
  | cons fq rest ih =>
    obtain ⟨f, q⟩ := fq
    simp only [emitFeats]
    split
    · exact ih
    · simp [headDrained, emitItems_drained]


/-- **T4b**: an event of the attempt that the queue shows as OPEN at the head of the output is forwarded by
    the very call that receives it, first — it does not wait for the attempt (or anything else) to finish. -/
theorem head_event_forwarded (n n' : Norm) (k : ScenKey) (ret : Option Retries) (ev : ScenEv) (out : List Ev)
    (hno : n.fin = .no) (hd : headDrained n.feats = true)
    (hst : featsSt n.feats = inAtt k.feat k.rule (some (k, ret)))
    (h : n.handle (.scen k ret ev) = some (n', out)) : out.head? = some (.scen k ret ev) := by
  obtain ⟨kf, kr, ks⟩ := k
  obtain ⟨feats, nfin⟩ := n
  simp only at hno hd hst
  subst hno
  cases feats with
  | nil => simp [featsSt, inAtt] at hst
  | cons fq rest =>
    obtain ⟨f, ⟨qi, qf, qitems⟩⟩ := fq
    simp only [featsSt, featSt] at hst
    cases qi with
    | true => simp [inAtt] at hst
    | false =>
      simp only [Bool.false_eq_true, if_false] at hst
      simp only [headDrained, Bool.false_or] at hd
      cases qitems with
      | nil => simp [itemsSt, inAtt] at hst
      | cons it items =>
        cases it with
        | att a =>
          obtain ⟨as, aret, aevs⟩ := a
          simp only [itemsSt, inAtt, SeqSt.mk.injEq, Option.some.injEq] at hst
          obtain ⟨hf, hr, ha, _⟩ := hst
          subst hf
          have hr' : kr = none := hr.symm
          subst hr'
          simp only [itemsDrained, List.isEmpty_iff] at hd
          subst hd
          have hkey : as = ks ∧ aret = ret := by
            split at ha
            · cases ha
            · simpa [attKey] using ha
          obtain ⟨rfl, rfl⟩ := hkey
          simp only [Norm.handle, Norm.insert, updFeat, FeatQ.insertScen, updFirst, Item.isAtt, Item.pushAtt, AttQ.push,
            emitFeats, emitItems, emitAtt, Ev.isRunLevel, wrapAtt, beq_self_eq_true, Bool.and_self, any_cons, Bool.true_or,
            if_true, Option.map_some, nil_append, map_cons, map_nil, show (Fin.no == Fin.emitted) = false from rfl,
            Bool.false_eq_true, if_false] at h
          by_cases hfin : ev = .finished
          · subst hfin
            simp only [beq_self_eq_true, if_true] at h
            split at h <;> (split at h <;> (simp only [Option.some.injEq, Prod.mk.injEq] at h; rw [← h.2]; simp))
          · have hfin' : (ev == ScenEv.finished) = false := by simpa using hfin
            simp only [hfin', Bool.false_eq_true, if_false] at h
            split at h <;> (split at h <;> (simp only [Option.some.injEq, Prod.mk.injEq] at h; rw [← h.2]; simp))
        | rule r rq =>
          obtain ⟨ri, rf, ratts⟩ := rq
          simp only [itemsSt, ruleSt] at hst
          cases ri with
          | true => simp [inAtt] at hst
          | false =>
            simp only [Bool.false_eq_true, if_false, inAtt, SeqSt.mk.injEq, Option.some.injEq] at hst
            obtain ⟨hf, hr, ha, _⟩ := hst
            subst hf
            have hr' : kr = some r := hr.symm
            subst hr'
            simp only [itemsDrained, Bool.false_or] at hd
            cases ratts with
            | nil => simp [attsSt] at ha
            | cons a atts =>
              obtain ⟨as, aret, aevs⟩ := a
              simp only [attsDrained, List.isEmpty_iff] at hd
              subst hd
              simp only [attsSt] at ha
              have hkey : as = ks ∧ aret = ret := by
                split at ha
                · cases ha
                · simpa [attKey] using ha
              obtain ⟨rfl, rfl⟩ := hkey
              simp only [Norm.handle, Norm.insert, updFeat, FeatQ.insertScen, updFirst, Item.isRule, Item.pushInRule, pushAtt,
                AttQ.is, AttQ.push, emitFeats, emitItems, emitRule, emitAtts, emitAtt, Ev.isRunLevel, wrapAtt, beq_self_eq_true,
                Bool.and_self, any_cons, Bool.true_or, if_true, Option.map_some, nil_append, map_cons, map_nil,
                show (Fin.no == Fin.emitted) = false from rfl, Bool.false_eq_true, if_false] at h
              by_cases hfin : ev = .finished
              · subst hfin
                simp only [beq_self_eq_true, if_true] at h
                repeat' split at h
                all_goals (simp only [Option.some.injEq, Prod.mk.injEq] at h; rw [← h.2]; simp)
              · have hfin' : (ev == ScenEv.finished) = false := by simpa using hfin
                simp only [hfin', Bool.false_eq_true, if_false] at h
                repeat' split at h
                all_goals (simp only [Option.some.injEq, Prod.mk.injEq] at h; rw [← h.2]; simp)


end Cuke.NormL
