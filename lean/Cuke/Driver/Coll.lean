import Cuke.Driver.EvCodec
import Cuke.Model.Tracing
/-! `trace.coll <ops>`: an operation sequence through the collector protocol model `Cuke.Tr`; one output per
    `forward_logs` turn: the events of every forwarded log (sorted inside one log: the broadcast to all active
    scenarios iterates a hash map), and the callbacks fired during the turn (sorted) -/
namespace Cuke.Driver
open Cuke Cuke.Wire Cuke.Tr

inductive COp where
  | start (sid : Nat) (k : ScenKey) (ret : Option Retries)
  | finish (sid : Nat)
  | emit (sid : Option Nat) (msg : Nat)
  | close (span : Nat)
  | wait (span cb : Nat)
  | turn

def copP : P COp := do
  let t ← tok
  match t with
  | "S" => do let sid ← nat; let k ← keyP; let r ← retP; pure (.start sid k r)
  | "F" => do let sid ← nat; pure (.finish sid)
  | "E" => do let sid ← opt nat; let m ← nat; pure (.emit sid m)
  | "C" => do let s ← nat; pure (.close s)
  | "W" => do let s ← nat; let cb ← nat; pure (.wait s cb)
  | "T" => pure .turn
  | _ => fail

/-- `while let Some(logs) = emitted_logs()`: the per-log event lists of one turn -/
def turnLogs : Nat → Coll → List (List Ev) → Coll × List (List Ev)
  | 0, c, acc => (c, acc)
  | fuel + 1, c, acc =>
    match emittedLogs c with
    | (c', none) => (c', acc)
    | (c', some evs) => turnLogs fuel c' (acc ++ [evs])

def sortStrs (l : List String) : List String := (l.toArray.qsort (· < ·)).toList
def sortNats (l : List Nat) : List Nat := (l.toArray.qsort (· < ·)).toList

def collRun : Coll → List COp → List String
  | _, [] => []
  | c, op :: rest =>
    match op with
    | .start sid k r => collRun (startScenario c sid k r) rest
    | .finish sid => collRun (finishScenario c sid) rest
    | .emit sid m => collRun (emitLog c sid m) rest
    | .close s => collRun (closeSpan c s) rest
    | .wait s cb => collRun (waitFor c s cb) rest
    | .turn =>
      let r := turnLogs (c.logs.length + 1) c []
      let fired := r.1.fired.drop c.fired.length
      (showList (fun evs => showList id (sortStrs (evs.map showEv))) r.2 ++ " ; " ++ showList toString (sortNats fired))
        :: collRun r.1 rest

def handleTraceColl : Toks → Option String :=
  fun ts => runAll (do
    let ops ← list copP
    pure (" | ".intercalate (collRun Coll.init ops))) ts

end Cuke.Driver
