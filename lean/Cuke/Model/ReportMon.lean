import Cuke.Model.Reporters
import Cuke.Model.Monitors
/-
  C14 monitor: the property's wording evaluated on the PARSED-BACK output of the real reporters.
-/
namespace Cuke.RepMon
open Cuke Cuke.Rep

def ltName? : LtRec → Option LtName
  | .started n => some n | .ok n => some n | .failed n => some n | .ignored n => some n
  | _ => none

def isResult : LtRec → Bool
  | .ok _ => true | .failed _ => true | .ignored _ => true | .parseFailed _ => true
  | _ => false

def isStart : LtRec → Bool
  | .started _ => true | .parseStarted _ => true
  | _ => false

def resultMatches (st r : LtRec) : Bool :=
  match st, r with
  | .started n, r => isResult r && ltName? r == some n
  | .parseStarted i, .parseFailed j => i == j
  | _, _ => false

/-- every `started` record is followed, before the next `started`, by exactly one result record with the
    same name. Returns the offending pairs. -/
def pairing (recs : List LtRec) : List (LtRec × Option LtRec) :=
  let r := recs.foldl (fun (acc : Option LtRec × List (LtRec × Option LtRec)) r =>
    match acc.1 with
    | some st =>
      if isResult r then (if resultMatches st r then (none, acc.2) else (none, acc.2 ++ [(st, some r)]))
      else if isStart r then (some r, acc.2 ++ [(st, none)]) else acc
    | none => if isStart r then (some r, acc.2) else acc) (none, [])
  r.2 ++ (match r.1 with | some st => [(st, none)] | none => [])

/-- the pattern of the (fixed) finding F-C14a: the names differ only in the running number of a feature without path;
    kept for the replay files of old runs, no longer tolerated by `monC14` -/
def onlyNumberDiffers (nopath : List Nat) (p : LtRec × Option LtRec) : Bool :=
  match ltName? p.1, p.2.bind ltName? with
  | some a, some b => nopath.contains a.feat && { a with featNo := none } == { b with featNo := none } && (p.2.map isResult).getD false
  | _, _ => false

structure Key where
  k : ScenKey
  retry : Option (Nat × Nat)
  step : LtStep
  cls : Nat
  deriving DecidableEq, Repr

def recKey : LtRec → Option Key
  | .ok n => some ⟨⟨n.feat, n.rule, n.scen⟩, n.retry, n.step, 0⟩
  | .failed n => some ⟨⟨n.feat, n.rule, n.scen⟩, n.retry, n.step, 1⟩
  | .ignored n => some ⟨⟨n.feat, n.rule, n.scen⟩, n.retry, n.step, 2⟩
  | _ => none

def resCls : StepRes → Option Nat
  | .passed => some 0 | .failed _ => some 1 | .skipped => some 2 | .started => none

def evKey : Ev → Option Key
  | .scen k ret (.hook t (.failed _)) => some ⟨k, retryOf ret, .hook (t == .before), 1⟩
  | .scen k ret (.bg i r) => (resCls r).map (fun c => ⟨k, retryOf ret, .step true i, c⟩)
  | .scen k ret (.step i r) => (resCls r).map (fun c => ⟨k, retryOf ret, .step false i, c⟩)
  | _ => none

def countOf [BEq α] (x : α) (l : List α) : Nat := (l.filter (· == x)).length
def sameMultiset [BEq α] (a b : List α) : Bool := a.length == b.length && a.all (fun x => countOf x a == countOf x b)

/-- step facts of the JSON document / of the stream, without attempt identity -/
def jsonStepFacts (doc : List JFeat) : List (Nat × Option Nat × Nat × Bool × Nat × Status) :=
  doc.flatMap (fun f => match f with
    | .errors _ => []
    | .feature fid els => els.flatMap (fun e => e.steps.map (fun s => (fid, e.rule, e.scen, e.bg, s.1, s.2))))

def evStepFacts (evs : List Ev) : List (Nat × Option Nat × Nat × Bool × Nat × Status) :=
  evs.filterMap (fun e => match e with
    | .scen k _ (.bg i r) => (statusOf r).map (fun s => (k.feat, k.rule, k.scen, true, i, s))
    | .scen k _ (.step i r) => (statusOf r).map (fun s => (k.feat, k.rule, k.scen, false, i, s))
    | _ => none)

def jsonHookFails (doc : List JFeat) : Nat :=
  (doc.map (fun f => match f with
    | .errors _ => 0
    | .feature _ els => (els.map (fun e => (e.before.filter (!·)).length + (e.after.filter (!·)).length)).sum)).sum

def featIdsOf (doc : List JFeat) : List Nat := doc.filterMap (fun f => match f with | .feature fid _ => some fid | _ => none)

/-- expected JUnit cases: one per finished attempt, by whether it holds a failure / a skip -/
def expectedCases (evs : List Ev) : List (Nat × Option Nat × Nat × String) :=
  let keys := Mon.attKeys evs
  keys.filterMap (fun κ =>
    let es := (Mon.projAtt κ evs).filterMap (fun e => match e with | .scen _ _ se => some se | _ => none)
    if !es.contains .finished then none
    else
      let st := if es.any (fun e => e.isStepFailed || e.isHookFailed) then "fail"
                else if es.any (fun e => e.isStepSkipped) then "skip" else "ok"
      some (κ.1.feat, κ.1.rule, κ.1.scen, st))

def junitCases (r : List JSuite) : List (Nat × Option Nat × Nat × String) :=
  r.flatMap (fun s => match s with
    | .errors _ => []
    | .feature f cs => cs.map (fun c => (f, c.rule, c.scen, match c.status with | .success => "ok" | .skipped => "skip" | .failure _ => "fail")))

def junitBad (ju : Option (List JSuite)) (evs pre : List Ev) : Bool :=
  match ju with
  | some r => evs.any Ev.isFinished && junitCases r != (expectedCases pre).filter (fun c => (junitCases r).any (fun x => x.1 == c.1))
  | none => false

def monC14 (nopath : List Nat) (evs : List Ev) (lt : List LtRec) (ju : Option (List JSuite)) (js : List JFeat) : String :=
  let pre := evs.takeWhile (fun e => !e.isFinished)
  let hasPF := evs.any (fun e => match e with | .parsingFinished .. => true | _ => false)
  let bad := pairing lt
  -- (F-C14a is fixed in /repo: an unpaired `started` record is a NEW violation whatever the feature)
  let unknownBad := bad
  let oks := (lt.filter (fun r => match r with | .ok _ => true | _ => false)).length
  let igs := (lt.filter (fun r => match r with | .ignored _ => true | _ => false)).length
  let fls := (lt.filter (fun r => match r with | .failed _ => true | .parseFailed _ => true | _ => false)).length
  let suite := lt.filterMap (fun r => match r with | .suiteOk p f i => some (true, p, f, i) | .suiteFailed p f i => some (false, p, f, i) | _ => none)
  let nPE := (evs.filter Ev.isParseErr).length
  let dupFeat := (featIdsOf js).filter (fun f => countOf f (featIdsOf js) > 1)
  if hasPF && !unknownBad.isEmpty then s!"!monitor NEW libtest: started record without a result of the same name: {repr (unknownBad.take 1)}"
  else if hasPF && lt.filterMap recKey != evs.filterMap evKey then "!monitor NEW libtest: result records differ from the facts of the stream"
  else if hasPF && (lt.filter (fun r => match r with | .parseFailed _ => true | _ => false)).length != nPE then "!monitor NEW libtest: parser errors not reported exactly once"
  else if hasPF && suite.any (fun s => s.2.1 != oks || s.2.2.2 != igs || s.2.2.1 > fls || (s.1 != (s.2.2.1 == 0))) then "!monitor NEW libtest: suite totals / verdict disagree with the entries"
  else if !sameMultiset (jsonStepFacts js) (evStepFacts pre) && evs.any Ev.isFinished then "!monitor NEW json: step results differ from the facts of the stream"
  else if evs.any Ev.isFinished && jsonHookFails js != (pre.filter Ev.isHookFailed).length then "!monitor NEW json: failed hooks differ from the stream"
  else if !dupFeat.all (fun f => nopath.contains f) then "!monitor NEW json: duplicated feature object"
  else if junitBad ju evs pre then "!monitor NEW junit: test cases differ from the finished attempts"
  else
    let known := (if !dupFeat.isEmpty then ["F-C14b"] else [])
    if known.isEmpty then "ok" else "!monitor " ++ " ".intercalate known

end Cuke.RepMon
