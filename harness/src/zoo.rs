//! C19: a zoo of functions annotated with the REAL `#[given]` / `#[when]` / `#[then]` macros.
//! Attribute indices (see `ATTRS`) are mirrored by `zooTable` in lean/Cuke/Driver/Glue.lean.

use std::str::FromStr;

use cucumber::{codegen::WorldInventory, gherkin::Step, given, then, when, Parameter, World};
use futures::executor::block_on;
use gherkin::StepType;
use regex::Regex;

use crate::common::*;

#[derive(Debug, Default, World)]
pub struct ZW {
    pub log: Vec<String>,
}

#[derive(Debug, Default, World)]
pub struct ZW2 {
    pub log: Vec<String>,
}

/// custom parameter with TWO capturing groups
#[derive(Debug, Parameter)]
#[param(name = "mp", regex = r"(a\d)|(b\d)")]
pub struct MP(String);
impl FromStr for MP {
    type Err = String;
    fn from_str(s: &str) -> Result<Self, String> {
        Ok(Self(s.to_owned()))
    }
}

/// custom parameter whose TWO groups are non-empty at the same time: the FIRST non-empty group goes to `FromStr`
#[derive(Debug, Parameter)]
#[param(name = "ver", regex = r"(\d+)\.(\d+)")]
pub struct Ver(String);
impl FromStr for Ver {
    type Err = String;
    fn from_str(s: &str) -> Result<Self, String> {
        Ok(Self(s.to_owned()))
    }
}

/// what the attributes are, as written below: (keyword, kind, text, fn id, mode, arg types, ret)
pub struct Attr {
    pub kw: StepType,
    pub kind: &'static str,
    pub text: &'static str,
    pub func: &'static str,
    pub mode: &'static str,
    pub tys: &'static str,
}

pub const ATTRS: &[Attr] = &[
    /* 0 */ Attr { kw: StepType::Given, kind: "lit", text: "a literal step", func: "lit1", mode: "p", tys: "" },
    /* 1 */ Attr { kw: StepType::Given, kind: "lit", text: "price is $5.00 (approx.)", func: "lit2", mode: "p", tys: "" },
    /* 2 */ Attr { kw: StepType::When, kind: "re", text: r"^I eat (\d+) (\w+)$", func: "eat", mode: "p", tys: "us" },
    /* 3 */ Attr { kw: StepType::Then, kind: "re", text: r"^opt (a)?(b)?$", func: "opt", mode: "p", tys: "ss" },
    /* 4 */ Attr { kw: StepType::Given, kind: "expr", text: "{word} cucumbers and {string}", func: "expr1", mode: "p", tys: "ss" },
    /* 5 */ Attr { kw: StepType::When, kind: "re", text: r"^all (\d+) (\S+) (\d+)$", func: "slice", mode: "s", tys: "u" },
    /* 6 */ Attr { kw: StepType::Then, kind: "re", text: r"^ctx (\w+)$", func: "with_step", mode: "p", tys: "s" },
    /* 7 */ Attr { kw: StepType::Given, kind: "re", text: r"^res (ok|err)$", func: "res", mode: "p", tys: "s" },
    /* 8 */ Attr { kw: StepType::Given, kind: "lit", text: "two attrs A", func: "two", mode: "p", tys: "" },
    /* 9 */ Attr { kw: StepType::When, kind: "lit", text: "two attrs B", func: "two", mode: "p", tys: "" },
    /* 10 */ Attr { kw: StepType::Then, kind: "expr", text: "custom {mp}", func: "custom", mode: "p", tys: "s" },
    /* 11 */ Attr { kw: StepType::When, kind: "re", text: r"^typed (\S+)$", func: "typed", mode: "p", tys: "u" },
    /* 12 */ Attr { kw: StepType::When, kind: "re", text: r"^alias (ok|err)$", func: "res_alias", mode: "p", tys: "s" },
    /* 13 */ Attr { kw: StepType::Then, kind: "re", text: r"^aalias (ok|err)$", func: "res_async_alias", mode: "p", tys: "s" },
    /* 14 */ Attr { kw: StepType::Given, kind: "expr", text: "copy {string} to {string}", func: "copy", mode: "p", tys: "ss" },
    /* 15 */ Attr { kw: StepType::When, kind: "expr", text: "set {string} to {int}", func: "set", mode: "p", tys: "su" },
    /* 16 */ Attr { kw: StepType::Then, kind: "expr", text: "box {mp} has {int} items", func: "boxf", mode: "p", tys: "su" },
    /* 17 */ Attr { kw: StepType::When, kind: "expr", text: "release {ver} now", func: "ver", mode: "p", tys: "s" },
    /* 18 */ Attr { kw: StepType::Given, kind: "re", text: r"(\d+) cukes", func: "cukes", mode: "p", tys: "u" },
    /* 19 (second World) */ Attr { kw: StepType::Given, kind: "lit", text: "a literal step", func: "other_world", mode: "p", tys: "" },
];

/// index of the second World's attribute (the last one)
const W2: usize = 19;

/// a `Result` spelled through aliases: the glue must still fail the step on `Err`
pub type StepResult = Result<(), String>;
pub mod outcome {
    pub type Fallible = std::result::Result<(), String>;
}

/// (sample text, text prefix) of the expression attributes
fn expr_probe(func: &str) -> (&'static str, &'static str) {
    match func {
        "expr1" => ("12 cucumbers and \"x\"", ""),
        "custom" => ("custom a1", "custom "),
        "copy" => ("copy \"a\" to 'b'", "copy "),
        "set" => ("set 'k' to 7", "set "),
        "ver" => ("release 3.7 now", "release "),
        _ => ("box a1 has 3 items", "box "),
    }
}
fn expr_home(func: &str, text: &str) -> bool {
    if func == "expr1" { text.contains("cucumbers and") } else { text.starts_with(expr_probe(func).1) }
}

#[given("a literal step")]
fn lit1(w: &mut ZW) {
    w.log.push("lit1".into());
}

#[given("price is $5.00 (approx.)")]
fn lit2(w: &mut ZW) {
    w.log.push("lit2".into());
}

#[when(regex = r"^I eat (\d+) (\w+)$")]
fn eat(w: &mut ZW, n: u32, what: String) {
    w.log.push(format!("eat|{n}|{what}"));
}

#[then(regex = r"^opt (a)?(b)?$")]
async fn opt(w: &mut ZW, a: String, b: String) {
    w.log.push(format!("opt|{a}|{b}"));
}

#[given(expr = "{word} cucumbers and {string}")]
async fn expr1(w: &mut ZW, n: String, s: String) {
    w.log.push(format!("expr1|{n}|{s}"));
}

#[when(regex = r"^all (\d+) (\S+) (\d+)$")]
fn slice(w: &mut ZW, v: &[u32]) {
    w.log.push(format!("slice|{}", v.iter().map(ToString::to_string).collect::<Vec<_>>().join("|")));
}

#[then(regex = r"^ctx (\w+)$")]
fn with_step(w: &mut ZW, #[step] st: &Step, x: String) {
    w.log.push(format!("with_step|{x}"));
    w.log.push(format!("STEP {}", st.value));
}

#[given(regex = r"^res (ok|err)$")]
fn res(w: &mut ZW, x: String) -> Result<(), String> {
    w.log.push(format!("res|{x}"));
    if x == "err" { Err("boom".into()) } else { Ok(()) }
}

#[given("two attrs A")]
#[when("two attrs B")]
fn two(w: &mut ZW) {
    w.log.push("two".into());
}

#[then(expr = "custom {mp}")]
fn custom(w: &mut ZW, p: MP) {
    w.log.push(format!("custom|{}", p.0));
}

#[when(regex = r"^typed (\S+)$")]
fn typed(w: &mut ZW, n: u32) {
    w.log.push(format!("typed|{n}"));
}

#[when(regex = r"^alias (ok|err)$")]
fn res_alias(w: &mut ZW, x: String) -> StepResult {
    w.log.push(format!("res_alias|{x}"));
    if x == "err" { Err("boom".into()) } else { Ok(()) }
}

#[then(regex = r"^aalias (ok|err)$")]
async fn res_async_alias(w: &mut ZW, x: String) -> outcome::Fallible {
    w.log.push(format!("res_async_alias|{x}"));
    if x == "err" { Err("boom".into()) } else { Ok(()) }
}

#[given(expr = "copy {string} to {string}")]
fn copy(w: &mut ZW, a: String, b: String) {
    w.log.push(format!("copy|{a}|{b}"));
}

#[when(expr = "set {string} to {int}")]
fn set(w: &mut ZW, k: String, n: u32) {
    w.log.push(format!("set|{k}|{n}"));
}

/// an UNANCHORED regex: the match may start anywhere in the step text
#[given(regex = r"(\d+) cukes")]
fn cukes(w: &mut ZW, n: u32) {
    w.log.push(format!("cukes|{n}"));
}

#[when(expr = "release {ver} now")]
fn ver(w: &mut ZW, v: Ver) {
    w.log.push(format!("ver|{}", v.0));
}

#[then(expr = "box {mp} has {int} items")]
fn boxf(w: &mut ZW, p: MP, n: u32) {
    w.log.push(format!("boxf|{}|{n}", p.0));
}

#[given("a literal step")]
fn other_world(w: &mut ZW2) {
    w.log.push("other_world".into());
}

fn kw_name(k: StepType) -> &'static str {
    match k { StepType::Given => "given", StepType::When => "when", StepType::Then => "then" }
}

/// which attribute a registered regex belongs to
fn attr_index(world: u8, kw: StepType, re: &str) -> Option<usize> {
    ATTRS.iter().enumerate().position(|(i, a)| {
        let w = if i == W2 { 2 } else { 1 };
        w == world && a.kw == kw && match a.kind {
            "lit" => re == format!("^{}$", regex::escape(a.text)),
            "re" => re == a.text,
            _ => {
                // expression: behavioural identification through a sample text
                let sample = expr_probe(a.func).0;
                Regex::new(re).map(|r| r.is_match(sample) && !re.starts_with("^I") && !re.contains("ctx") ).unwrap_or(false)
                    && !ATTRS.iter().any(|b| (b.kind == "re" && re == b.text) || (b.kind == "lit" && re == format!("^{}$", regex::escape(b.text))))
            }
        }
    })
}

/// the regex each attribute of the first World was registered with (attribute index -> regex text)
fn registered_regexes() -> Vec<(usize, String)> {
    let mut v = vec![];
    macro_rules! collect {
        ($assoc:ident, $kw:expr) => {
            for s in inventory::iter::<<ZW as WorldInventory>::$assoc> {
                let (_loc, regex, _f) = cucumber::codegen::StepConstructor::<ZW>::inner(s);
                let re = regex();
                if let Some(i) = attr_index(1, $kw, re.as_str()) { v.push((i, re.as_str().to_owned())); }
            }
        };
    }
    collect!(Given, StepType::Given);
    collect!(When, StepType::When);
    collect!(Then, StepType::Then);
    v
}

/// the capture groups "as written": what the `regex` crate yields for the registered regex on the step
/// text (whole match first, a group that did not take part gives ""), computed WITHOUT `Collection::find`
fn groups_as_written(re: &str, text: &str) -> Vec<(Option<String>, String)> {
    let re = Regex::new(re).unwrap();
    let Some(c) = re.captures(text) else { return vec![] };
    re.capture_names().enumerate().map(|(i, n)| (n.map(str::to_owned), c.get(i).map_or(String::new(), |m| m.as_str().to_owned()))).collect()
}

pub fn gen_reg(_rng: &mut Rng, _idx: usize) -> Case {
    let mut rows: Vec<String> = vec![];
    macro_rules! collect {
        ($w:ty, $wid:expr, $assoc:ident, $kw:expr) => {
            for s in inventory::iter::<<$w as WorldInventory>::$assoc> {
                let (_loc, regex, _f) = cucumber::codegen::StepConstructor::<$w>::inner(s);
                let re = regex();
                rows.push(format!(
                    "w{} {} {}", $wid, kw_name($kw),
                    attr_index($wid, $kw, re.as_str()).map_or_else(|| format!("?{}", hex(re.as_str())), |i| i.to_string())
                ));
            }
        };
    }
    collect!(ZW, 1, Given, StepType::Given);
    collect!(ZW, 1, When, StepType::When);
    collect!(ZW, 1, Then, StepType::Then);
    collect!(ZW2, 2, Given, StepType::Given);
    collect!(ZW2, 2, When, StepType::When);
    collect!(ZW2, 2, Then, StepType::Then);
    rows.sort();
    // `World::collection()` must contain them all: every sample text finds exactly its function
    Case { req: "zoo.reg".into(), imp: show_list(&rows, |r| r.clone()), class: "registration".into(), nontrivial: true }
}

const TEXTS: &[&str] = &[
    "a literal step", "a literal step ", "A literal step", "a literal ste", "xa literal step",
    "price is $5.00 (approx.)", "price is $5x00 (approx.)", "price is $5.00 approx.", "price is 5.00 (approx.)",
    "I eat 12 apples", "I eat 0 x", "I eat 99999999999 pears", "I eat +3 plums", "I eat 3  plums", "I eat three plums",
    "opt ab", "opt a", "opt b", "opt ", "opt",
    "12 cucumbers and \"x y\"", "0 cucumbers and ''", "7 cucumbers and 'q'", "many cucumbers and \"\"", "1 cucumbers and x",
    "all 1 2 3", "all 10 x 30", "all 1 2", "all 4294967296 1 1", "all 1 +2 3",
    "ctx hello", "ctx ü", "ctx", "res ok", "res err", "res other",
    "two attrs A", "two attrs B", "two attrs C",
    "custom a1", "custom b2", "custom c3", "custom a12",
    "typed 5", "typed x", "typed 4294967295", "typed 4294967296", "typed +7", "typed",
    "alias ok", "alias err", "alias no", "aalias ok", "aalias err",
    "copy \"a.txt\" to \"b.txt\"", "copy 'a' to 'b'", "copy \"\" to 'x'", "copy 'p q' to \"r\"", "copy a to b",
    "set 'k' to 7", "set \"k\" to 7", "set \"k\" to -7", "set \"\" to 0", "set k to 7",
    "I have 5 cukes", "12 cukes", "there are 300 cukes left", "é 7 cukes", "no cukes",
    "release 3.7 now", "release 10.0 now", "release 3. now", "release x.1 now", "release 12.345 now",
    "box a1 has 3 items", "box b2 has 3 items", "box b2 has -1 items", "box c3 has 3 items", "box a1 has x items",
];

/// dispatch: for a generated (keyword, text) find the function through the real `World::collection()`,
/// call it, and report what it received
pub fn gen_dispatch(rng: &mut Rng, _idx: usize) -> Case {
    let text = *rng.pick(TEXTS);
    // two thirds of the time use the keyword of the attribute the text was written for
    let home = ATTRS[..W2].iter().find(|a| match a.kind {
        "lit" => text.starts_with(&a.text[..a.text.len().min(6)]),
        "re" => text.split(' ').next() == a.text.trim_start_matches('^').split(' ').next() || (a.func == "cukes" && text.contains("cukes")),
        _ => expr_home(a.func, text),
    });
    let kw = match home {
        Some(a) if rng.chance(2, 3) => a.kw,
        _ => *rng.pick(&[StepType::Given, StepType::When, StepType::Then]),
    };
    let step = mk_step(&StepSpec { ty: kw, value: text.to_owned() }, 1);
    let coll = ZW::collection();
    let found = coll.find(&step);
    let (req, imp, class);
    match found {
        Err(_) => {
            req = "harness.ended".to_owned();
            imp = "!ambiguous-in-zoo".to_owned();
            class = "ambiguous".to_owned();
        }
        Ok(None) => {
            // no definition matched: literal attributes of this keyword must all differ from the text
            let lits: Vec<&Attr> = ATTRS[..W2].iter().filter(|a| a.kind == "lit" && a.kw == kw).collect();
            let mut rq = vec![];
            let mut im = vec![];
            for a in lits {
                rq.push(format!("lit.match {} {}", hex(a.text), hex(text)));
                im.push("0".to_owned());
            }
            if rq.is_empty() { rq.push("harness.ended".into()); im.push("ok".into()); }
            req = rq.join("\n");
            imp = im.join("\n");
            class = "nomatch".to_owned();
        }
        Ok(Some((f, _caps, _loc, ctx))) => {
            // which attribute?  (identify by calling the function)
            let mut w = ZW::default();
            crate::fam_attempt::install_counting_hook();
            crate::fam_attempt::HOOK_QUIET.with(|q| q.set(true));
            let r = std::panic::catch_unwind(std::panic::AssertUnwindSafe(|| block_on(f(&mut w, ctx.clone()))));
            crate::fam_attempt::HOOK_QUIET.with(|q| q.set(false));
            // the attribute that matched: the unique one of this keyword whose regex matches
            let idx = ATTRS[..W2].iter().position(|a| a.kw == kw && match a.kind {
                "lit" => a.text == text,
                "re" => Regex::new(a.text).unwrap().is_match(text),
                _ => expr_home(a.func, text),
            });
            let Some(idx) = idx else {
                return Case { req: "harness.ended".into(), imp: "!matched-but-no-attribute".into(), class: "bug".into(), nontrivial: true };
            };
            let a = &ATTRS[idx];
            if a.kind == "lit" {
                req = format!("lit.match {} {}", hex(a.text), hex(text));
                imp = b(r.is_ok() && w.log.first().is_some_and(|l| l == a.func)).to_owned();
                class = "literal".to_owned();
            } else {
                let ret = if a.func.starts_with("res") { if text.ends_with("err") { "err" } else { "ok" } } else { "u" };
                let tys: Vec<String> = a.tys.chars().map(|c| c.to_string()).collect();
                // the model is fed the groups as the regex crate gives them for the REGISTERED regex, not
                // `ctx.matches`: a change in how `find` builds the matches shows as a wrong argument
                let regs = registered_regexes();
                let own = regs.iter().find(|(i, _)| *i == idx).map(|(_, r)| groups_as_written(r, text));
                let Some(own) = own else {
                    return Case { req: "harness.ended".into(), imp: "!attribute-not-registered".into(), class: "bug".into(), nontrivial: true };
                };
                req = format!(
                    "glue.args {} {} {} {}",
                    a.mode, show_list(&tys, |t| t.clone()), ret,
                    show_list(&own, |(n, v)| format!("{} {}", show_opt(n.as_ref(), |s| hex(s)), hex(v))),
                );
                imp = match r {
                    Err(_) => "!panic".to_owned(),
                    Ok(()) => {
                        let first = w.log.first().cloned().unwrap_or_default();
                        let mut parts: Vec<&str> = first.split('|').collect();
                        let name = parts.remove(0);
                        if name != a.func {
                            format!("!wrong-function {name}")
                        } else if a.func == "with_step" && w.log.get(1).map(String::as_str) != Some(&format!("STEP {text}")) {
                            "!step-argument-wrong".to_owned()
                        } else {
                            format!("ok {}", show_list(&parts, |p| hex(p)))
                        }
                    }
                };
                class = format!("dispatch:{}", a.func);
            }
        }
    }
    Case { req, imp, class, nontrivial: true }
}
