import Cuke.Model.Tag
/-
  Model of `RetryOptions::parse_from_tags` (src/runner/basic.rs:142-195), of the
  CLI/builder merge at the top of `Basic::run` (basic.rs:762-766) and of
  `Retries::{initial,next_try}` (src/event.rs).

  Strings are `List Char`. `humantime::parse_duration` is a parameter `dur`
  (an oracle: the harness sends the table the real function produced).
-/
namespace Cuke

/-- `str::strip_prefix` -/
def stripPrefix : List Char → List Char → Option (List Char)
  | [], s => some s
  | _ :: _, [] => none
  | p :: ps, c :: cs => if p = c then stripPrefix ps cs else none

/-- `str::split_once(c)`: split at the first occurrence of `c`. -/
def splitOnce (c : Char) : List Char → Option (List Char × List Char)
  | [] => none
  | x :: xs =>
    if x = c then some ([], xs)
    else match splitOnce c xs with
      | some (a, b) => some (x :: a, b)
      | none => none

def retryPfx : List Char := ['r', 'e', 't', 'r', 'y']
def afterPfx : List Char := ['.', 'a', 'f', 't', 'e', 'r']

def isDigit (c : Char) : Bool := '0' ≤ c && c ≤ '9'

/-- positional value of a digit string, most significant first -/
def digitsValue (ds : List Char) : Nat :=
  ds.foldl (fun acc c => acc * 10 + (c.toNat - '0'.toNat)) 0

def usizeMax : Nat := 2 ^ 64

def stripPlus : List Char → List Char
  | '+' :: r => r
  | s => s

/-- `str::parse::<usize>()`: optional leading `+`, at least one ASCII digit, no overflow. -/
def parseUsize (s : List Char) : Option Nat :=
  let body := stripPlus s
  if body.isEmpty then none
  else if body.all isDigit then
    let v := digitsValue body
    if v < usizeMax then some v else none
  else none

/-- The `(num, rest)` part of `parse_tags`: `retries.strip_prefix('(').and_then(|s| { let (num, rest) =
    s.split_once(')')?; num.parse::<usize>().ok().map(|num| (Some(num), rest)) }).unwrap_or((None, retries))`. -/
def parseCount (retries : List Char) : Option Nat × List Char :=
  match stripPrefix ['('] retries with
  | none => (none, retries)
  | some s =>
    match splitOnce ')' s with
    | none => (none, retries)
    | some (num, rest) =>
      match parseUsize num with
      | some n => (some n, rest)
      | none => (none, retries)

/-- `rest.strip_prefix(".after").and_then(|after| { let after = after.strip_prefix('(')?;
    let (dur, _) = after.split_once(')')?; humantime::parse_duration(dur).ok() })` -/
def parseAfter (dur : List Char → Option Nat) (rest : List Char) : Option Nat :=
  match stripPrefix afterPfx rest with
  | none => none
  | some a =>
    match stripPrefix ['('] a with
    | none => none
    | some a' =>
      match splitOnce ')' a' with
      | none => none
      | some (d, _) => dur d

/-- The closure `parse_tags` applied to ONE tag: `none` when the tag does not start with `retry`. -/
def parseRetryTag (dur : List Char → Option Nat) (tag : List Char) : Option (Option Nat × Option Nat) :=
  match stripPrefix retryPfx tag with
  | none => none
  | some retries => some ((parseCount retries).1, parseAfter dur (parseCount retries).2)

/-- `tags.iter().find_map(..)` -/
def parseRetryTags (dur : List Char → Option Nat) (tags : List String) : Option (Option Nat × Option Nat) :=
  tags.findSome? (fun t => parseRetryTag dur t.toList)

/-- The runner's (already merged) CLI as `parse_from_tags` sees it. Durations in ns. -/
structure RetryCli where
  retry : Option Nat
  retryAfter : Option Nat
  filter : Option TagOp
  deriving Repr

structure Retries where
  current : Nat
  left : Nat
  deriving Repr, DecidableEq

structure RetryOptions where
  retries : Retries
  after : Option Nat
  deriving Repr, DecidableEq

def Retries.initial (left : Nat) : Retries := { current := 0, left }

/-- `Retries::next_try`: `left.checked_sub(1).map(..)` -/
def Retries.nextTry (r : Retries) : Option Retries :=
  if r.left = 0 then none else some { current := r.current + 1, left := r.left - 1 }

def RetryOptions.nextTry (o : RetryOptions) : Option RetryOptions :=
  match o.retries.nextTry with
  | some r => some { retries := r, after := o.after }
  | none => none

def cliMatched (cli : RetryCli) (scTags ruleTags featTags : List String) : Bool :=
  match cli.filter with
  | none => cli.retry.isSome || cli.retryAfter.isSome
  | some op => op.eval (scTags ++ ruleTags ++ featTags)

/-- `RetryOptions::parse_from_tags`; `ruleTags = none` when the scenario is not inside a rule. -/
def parseFromTags (dur : List Char → Option Nat) (cli : RetryCli)
    (scTags : List String) (ruleTags : Option (List String)) (featTags : List String) : Option RetryOptions :=
  let fromTags : Option (Option Nat × Option Nat) :=
    (parseRetryTags dur scTags).or
      (((ruleTags.bind (parseRetryTags dur))).or (parseRetryTags dur featTags))
  let matched := cliMatched cli scTags (ruleTags.getD []) featTags
  if fromTags.isSome || matched then
    some {
      retries := Retries.initial (((fromTags.bind (·.1)).or cli.retry).getD 1)
      after := (fromTags.bind (·.2)).or cli.retryAfter }
  else none

/-- Builder-side settings of `runner::Basic`. -/
structure Builder where
  retries : Option Nat
  retryAfter : Option Nat
  retryFilter : Option TagOp
  maxConcurrent : Option Nat
  failFast : Bool
  deriving Repr

/-- `runner::basic::Cli`. -/
structure RunnerCli where
  concurrency : Option Nat
  failFast : Bool
  retry : Option Nat
  retryAfter : Option Nat
  retryTagFilter : Option TagOp
  deriving Repr

/-- top of `Basic::run`: `cli.x = cli.x.or(builder.x)` -/
def mergeCli (cli : RunnerCli) (b : Builder) : RetryCli :=
  { retry := cli.retry.or b.retries
    retryAfter := cli.retryAfter.or b.retryAfter
    filter := cli.retryTagFilter.or b.retryFilter }

def resolveConcurrency (cli : RunnerCli) (b : Builder) : Option Nat := cli.concurrency.or b.maxConcurrent
def resolveFailFast (cli : RunnerCli) (b : Builder) : Bool := cli.failFast || b.failFast

end Cuke
