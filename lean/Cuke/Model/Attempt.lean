import Cuke.Model.Ev
/-
  Model of one scenario attempt: `Executor::run_scenario`, `run_before_hook`, `run_step`,
  `run_after_hook`, `emit_failed_events`, `emit_after_hook_events` (src/runner/basic.rs:1165-1827).

  User code is a set of outcome parameters (a panic is an outcome VALUE: `catch_unwind`).
  Two logs are produced: the scenario events (C02, C10) and the user-code calls with the World
  they received (C09).
-/
namespace Cuke

/-- What `Collection::find` + the step function do for one step. -/
inductive StepOut where
  | pass
  | noMatch
  | ambiguous
  | panic (p : Nat)
  deriving Repr, DecidableEq, Inhabited

/-- Outcome of `World::new()`. Payload ids: see the harness' payload pool. -/
inductive InitOut where
  | ok
  | err (p : Nat)
  | panic (p : Nat)
  deriving Repr, DecidableEq, Inhabited

inductive HookOut where
  | pass
  | panic (p : Nat)
  deriving Repr, DecidableEq, Inhabited

/-- `event::ScenarioFinished` as passed to the after hook -/
inductive FinReason where
  | stepPassed | stepSkipped | stepFailed | beforeHookFailed
  deriving Repr, DecidableEq, Inhabited

structure AttemptSpec where
  hasBefore : Bool
  hasAfter : Bool
  /-- feature background ++ rule background, in declaration order -/
  nbg : Nat
  nsteps : Nat
  init : InitOut
  before : HookOut
  after : HookOut
  bgOut : Nat → StepOut
  stepOut : Nat → StepOut

/-- user-code invocations; `w` = id of the World instance received, `seen` = its mutation counter on entry -/
inductive Call where
  | worldNew (out : InitOut)
  | before (w : Nat) (seen : Nat)
  | step (bg : Bool) (i : Nat) (w : Nat) (seen : Nat)
  | after (reason : FinReason) (w : Option (Nat × Nat))
  deriving Repr, DecidableEq, Inhabited

/-- message ids for a failed `World::new`: the crate formats "failed to initialize World: {e}" -/
def initFailPayload : InitOut → Nat
  | .ok => 0
  | .err p => 1000 + p      -- formatted error
  | .panic p => p           -- the panic payload itself

/-- running state of the attempt -/
structure ASt where
  /-- `(world id, mutation counter)` once created -/
  world : Option (Nat × Nat)
  evs : List ScenEv
  calls : List Call
  deriving Repr

inductive Stop where
  | none
  | skipped
  | failed (ev : ScenEv)          -- the deferred failure event
  | beforeFailed (ev : ScenEv)
  deriving Repr, DecidableEq

def stepEv (bg : Bool) (i : Nat) (r : StepRes) : ScenEv := if bg then .bg i r else .step i r

def outOf (sp : AttemptSpec) (bg : Bool) (i : Nat) : StepOut := if bg then sp.bgOut i else sp.stepOut i

/-- `let mut world = if let Some(w) = world_opt { w } else { W::new().await ... }`:
    returns the state and whether a World is now available -/
def ensureWorld (sp : AttemptSpec) (wid : Nat) (st : ASt) : ASt × Bool :=
  match st.world with
  | some _ => (st, true)
  | none =>
    let st := { st with calls := st.calls ++ [Call.worldNew sp.init] }
    match sp.init with
    | .ok => ({ st with world := some (wid, 0) }, true)
    | _ => (st, false)

/-- the step function is called on the World -/
def callStep (st : ASt) (bg : Bool) (i : Nat) : ASt :=
  match st.world with
  | none => st -- unreachable after a successful `ensureWorld`
  | some (w, c) => { st with calls := st.calls ++ [Call.step bg i w c], world := some (w, c + 1) }

/-- `run_step` for one step, given that nothing stopped the attempt so far. `wid` is the id a newly
    created World gets. -/
def runStep (sp : AttemptSpec) (wid : Nat) (st : ASt) (bg : Bool) (i : Nat) : ASt × Stop :=
  let st := { st with evs := st.evs ++ [stepEv bg i .started] }
  match outOf sp bg i with
  | .noMatch => ({ st with evs := st.evs ++ [stepEv bg i .skipped] }, .skipped)
  | .ambiguous => (st, .failed (stepEv bg i (.failed .ambiguous)))
  | .pass =>
    let (st, ok) := ensureWorld sp wid st
    if ok then
      let st := callStep st bg i
      ({ st with evs := st.evs ++ [stepEv bg i .passed] }, .none)
    else (st, .failed (stepEv bg i (.failed (.panic (initFailPayload sp.init)))))
  | .panic p =>
    let (st, ok) := ensureWorld sp wid st
    if ok then (callStep st bg i, .failed (stepEv bg i (.failed (.panic p))))
    else (st, .failed (stepEv bg i (.failed (.panic (initFailPayload sp.init)))))

/-- the `try_fold`s over feature background, rule background and own steps -/
def runSteps (sp : AttemptSpec) (wid : Nat) : List (Bool × Nat) → ASt → ASt × Stop
  | [], st => (st, .none)
  | (bg, i) :: rest, st =>
    match runStep sp wid st bg i with
    | (st', .none) => runSteps sp wid rest st'
    | r => r

/-- declaration order: background steps, then own steps -/
def stepList (sp : AttemptSpec) : List (Bool × Nat) :=
  (List.range sp.nbg).map (fun i => (true, i)) ++ (List.range sp.nsteps).map (fun i => (false, i))

/-- `run_before_hook` -/
def runBefore (sp : AttemptSpec) (wid : Nat) (st : ASt) : ASt × Stop :=
  if sp.hasBefore then
    let st := { st with evs := st.evs ++ [.hook .before .started], calls := st.calls ++ [Call.worldNew sp.init] }
    match sp.init with
    | .ok =>
      let st := { st with calls := st.calls ++ [Call.before wid 0], world := some (wid, 1) }
      match sp.before with
      | .pass => ({ st with evs := st.evs ++ [.hook .before .passed] }, .none)
      | .panic p => (st, .beforeFailed (.hook .before (.failed p)))
    | o => (st, .beforeFailed (.hook .before (.failed (initFailPayload o))))
  else (st, .none)

def reasonOf : Stop → FinReason
  | .none => .stepPassed
  | .skipped => .stepSkipped
  | .failed _ => .stepFailed
  | .beforeFailed _ => .beforeHookFailed

def Stop.deferred : Stop → List ScenEv
  | .failed e => [e]
  | .beforeFailed e => [e]
  | _ => []

def Stop.isFailure : Stop → Bool
  | .failed _ => true
  | .beforeFailed _ => true
  | _ => false

structure AttemptResult where
  events : List ScenEv
  calls : List Call
  failed : Bool
  reason : FinReason
  deriving Repr

def st0 : ASt := { world := none, evs := [.started], calls := [] }

/-- before hook, then (if it did not fail) the steps -/
def runBody (sp : AttemptSpec) (wid : Nat) : ASt × Stop :=
  match (runBefore sp wid st0).2 with
  | .none => runSteps sp wid (stepList sp) (runBefore sp wid st0).1
  | s => ((runBefore sp wid st0).1, s)

def afterEvents (sp : AttemptSpec) : List ScenEv :=
  if sp.hasAfter then
    [.hook .after .started,
     match sp.after with
     | .pass => .hook .after .passed
     | .panic p => .hook .after (.failed p)]
  else []

def afterFailed (sp : AttemptSpec) : Bool := sp.hasAfter && (sp.after != .pass)

/-- `Executor::run_scenario` up to (not including) the retry decision: the after hook runs first
    (no events yet), then the deferred failure is emitted, then the hook events, then Finished. -/
def runAttempt (sp : AttemptSpec) (wid : Nat) : AttemptResult :=
  { events := (runBody sp wid).1.evs ++ (runBody sp wid).2.deferred ++ afterEvents sp ++ [.finished]
    calls := if sp.hasAfter then (runBody sp wid).1.calls ++ [Call.after (reasonOf (runBody sp wid).2) (runBody sp wid).1.world]
             else (runBody sp wid).1.calls
    failed := (runBody sp wid).2.isFailure || afterFailed sp
    reason := reasonOf (runBody sp wid).2 }

/-- `retries.filter(|_| is_failed).and_then(RetryOptions::next_try)` -/
def nextTry (ret : Option RetryOptions) (failed : Bool) : Option RetryOptions :=
  match ret with
  | none => none
  | some o => if failed then o.nextTry else none

end Cuke
