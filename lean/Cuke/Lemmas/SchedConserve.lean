import Cuke.Lemmas.SchedRetry
import Cuke.Lemmas.SchedSerial
/-!
  C04 over whole runs of the scheduler LTS: ATTEMPTS ARE CONSERVED. Two ghost logs are kept alongside the
  replay — the scenario ids of every entry `Features::insert` / `insert_retried_scenario` created (`ins`), and the
  scenario ids of every attempt whose END was seen (`ended`). For every log replayed without a disagreement of the
  classes R, Q, K, I:      ins  ~  (queued ++ handed out ++ running) ++ ended      (as multisets).
  So when the run exits with empty queues and nothing in flight, every entry ever created has run to its end —
  every scenario of every delivered feature at least once, every granted retry exactly once — and nothing else.
-/
namespace Cuke.SchedCons
open Cuke List Cuke.SchedL Cuke.SchedInv Cuke.SchedRetry

set_option linter.unusedSimpArgs false
set_option linter.unusedVariables false

/-- no disagreement of the classes the conservation argument depends on -/
def Clean (s : SState) : Bool :=
  s.dis.all (fun d => d.cls != .R && d.cls != .Q && d.cls != .K && d.cls != .I)

theorem clean_good (s : SState) (h : Clean s = true) : Good s = true ∧ GoodRQ s = true := by
  simp only [Clean, Good, GoodRQ, all_eq_true, Bool.and_eq_true] at h ⊢
  exact ⟨fun d hd => ⟨⟨(h d hd).1.2, (h d hd).2⟩, (h d hd).1.1.2⟩, fun d hd => ⟨(h d hd).1.1.1, (h d hd).1.1.2⟩⟩

theorem clean_of_prefix (s s' : SState) (h : s.dis <+: s'.dis) (hg : Clean s' = true) : Clean s = true := by
  obtain ⟨t, ht⟩ := h
  simp only [Clean, ← ht, all_append, Bool.and_eq_true] at hg
  exact hg.1

theorem clean_step_mono (c : SCfg) (s : SState) (l : Label) (hg : Clean (stepL c s l) = true) : Clean s = true :=
  clean_of_prefix s _ (dis_prefix c s l) hg

def scens (l : List Entry) : List Nat := l.map (·.key.scen)

/-- the scenario ids of the entries an `INS` label creates (what the model computes in its accepting branches) -/
def insAdds (c : SCfg) (s : SState) (ps pc : List QE) : List Nat :=
  match s.pendingFeat with
  | some f => scens (newEntries c ((c.feat? f).getD ⟨f, [], [], []⟩))
  | none =>
    let known := (s.q.serial ++ s.q.conc).map (·.id)
    let fresh := (ps.map (fun p => (true, p)) ++ pc.map (fun p => (false, p))).filter (fun p => !known.contains p.2.id)
    match fresh with
    | [(_, p)] =>
      match s.running.find? (fun e => e.key.scen == p.scen) with
      | some e => if (nextTry e.ret true).isSome then [e.key.scen] else []
      | none => []
    | _ => []

def endAdds (s : SState) (id : Nat) : List Nat :=
  match s.running.find? (fun e => e.id == id) with
  | some e => [e.key.scen]
  | none => []

/-- the ghost logs: (created, ended) -/
def gstep (c : SCfg) (s : SState) (g : List Nat × List Nat) : Label → List Nat × List Nat
  | .ins _ ps pc => (g.1 ++ insAdds c s ps pc, g.2)
  | .endA id _ _ _ => (g.1, g.2 ++ endAdds s id)
  | _ => g

def runG (c : SCfg) (ls : List Label) (sg : SState × (List Nat × List Nat)) : SState × (List Nat × List Nat) :=
  ls.foldl (fun sg l => (stepL c sg.1 l, gstep c sg.1 sg.2 l)) sg

theorem runG_state (c : SCfg) (ls : List Label) (sg : SState × (List Nat × List Nat)) :
    (runG c ls sg).1 = ls.foldl (stepL c) sg.1 := by
  induction ls generalizing sg with
  | nil => rfl
  | cons l rest ih => simp only [runG, foldl_cons] at ih ⊢; exact ih _

/-- created ~ held ++ ended, and nothing is handed out unless `execute` is between `get` and dispatch -/
def CInv (s : SState) (g : List Nat × List Nat) : Prop :=
  g.1 ~ scens (ents s) ++ g.2 ∧ (s.phase ≠ .afterGet2 → s.batch = [])

theorem scens_append (a b : List Entry) : scens (a ++ b) = scens a ++ scens b := by simp [scens]

theorem scens_perm (a b : List Entry) (h : a ~ b) : scens a ~ scens b := h.map _

/-! ## labels that move no entry -/

/-- `gstep` leaves the ghost logs alone except for `ins` / `endA` -/
theorem gstep_other (c : SCfg) (s : SState) (g : List Nat × List Nat) (l : Label)
    (h1 : ∀ t a b, l ≠ .ins t a b) (h2 : ∀ id f r t, l ≠ .endA id f r t) : gstep c s g l = g := by
  cases l <;> first | rfl | (exact absurd rfl (h1 _ _ _)) | (exact absurd rfl (h2 _ _ _ _))

theorem cinv_frame (s s' : SState) (g : List Nat × List Nat) (he : ents s' = ents s) (hf : FrameOK s s')
    (h : CInv s g) : CInv s' g := by
  obtain ⟨_, _, _, h4, h5⟩ := hf
  exact ⟨by rw [he]; exact h.1, by rw [h4, h5]; exact h.2⟩

syntax "wrongphase2_simp" : tactic
macro_rules
  | `(tactic| wrongphase2_simp) => `(tactic|
      (intro hsel
       simp only [stepL]; repeat' split
       all_goals (simp [SState.note, SState.inPhase, SState.checkExpectDone, hsel, List.any_append] <;> (repeat' split) <;>
         simp [SState.note, List.any_append])))

theorem w2_get1 (c : SCfg) (s : SState) (t : Nat) (ask : Option Nat) (ns nc : Nat) :
    s.phase = .afterGet2 → (stepL c s (.get1 t ask ns nc)).dis.any (fun d => d.cls == .I) = true := by wrongphase2_simp
theorem w2_idleYield (c : SCfg) (s : SState) :
    s.phase = .afterGet2 → (stepL c s .idleYield).dis.any (fun d => d.cls == .I) = true := by wrongphase2_simp
theorem w2_idleSlept (c : SCfg) (s : SState) :
    s.phase = .afterGet2 → (stepL c s .idleSlept).dis.any (fun d => d.cls == .I) = true := by wrongphase2_simp
theorem w2_idleContinue (c : SCfg) (s : SState) :
    s.phase = .afterGet2 → (stepL c s .idleContinue).dis.any (fun d => d.cls == .I) = true := by wrongphase2_simp
theorem w2_exit (c : SCfg) (s : SState) :
    s.phase = .afterGet2 → (stepL c s .exit).dis.any (fun d => d.cls == .I) = true := by wrongphase2_simp
theorem w2_hookTake (c : SCfg) (s : SState) :
    s.phase = .afterGet2 → (stepL c s .hookTake).dis.any (fun d => d.cls == .I) = true := by wrongphase2_simp
theorem w2_brk (c : SCfg) (s : SState) :
    s.phase = .afterGet2 → (stepL c s .brk).dis.any (fun d => d.cls == .I) = true := by wrongphase2_simp

syntax "batch_simp" : tactic
macro_rules
  | `(tactic| batch_simp) => `(tactic|
      (simp only [stepL]
       repeat' split
       all_goals (first
         | rfl
         | (simp [SState.note, SState.inPhase, SState.checkExpectDone] <;> (repeat' split) <;> simp [SState.note]))))

theorem b_get1 (c : SCfg) (s : SState) (t : Nat) (ask : Option Nat) (ns nc : Nat) : (stepL c s (.get1 t ask ns nc)).batch = s.batch := by batch_simp
theorem b_idleYield (c : SCfg) (s : SState) : (stepL c s .idleYield).batch = s.batch := by batch_simp
theorem b_idleSlept (c : SCfg) (s : SState) : (stepL c s .idleSlept).batch = s.batch := by batch_simp
theorem b_idleContinue (c : SCfg) (s : SState) : (stepL c s .idleContinue).batch = s.batch := by batch_simp
theorem b_exit (c : SCfg) (s : SState) : (stepL c s .exit).batch = s.batch := by batch_simp
theorem b_hookTake (c : SCfg) (s : SState) : (stepL c s .hookTake).batch = s.batch := by batch_simp
theorem b_brk (c : SCfg) (s : SState) : (stepL c s .brk).batch = s.batch := by batch_simp
theorem b_idle (c : SCfg) (s : SState) (f sl : Bool) : (stepL c s (.idle f sl)).batch = s.batch := by batch_simp
theorem b_cons (c : SCfg) (s : SState) (b : Bool) : (stepL c s (.cons b)).batch = s.batch := by batch_simp

/-- a label that moves no entry and may only be taken outside phase `afterGet2` -/
theorem cinv_phase (s s' : SState) (g : List Nat × List Nat) (he : ents s' = ents s) (hb : s'.batch = s.batch)
    (hw : s.phase = .afterGet2 → s'.dis.any (fun d => d.cls == .I) = true) (hg : Good s' = true)
    (h : CInv s g) : CInv s' g := by
  refine ⟨by rw [he]; exact h.1, fun _ => ?_⟩
  rw [hb]
  apply h.2
  intro hp
  have := hw hp
  rw [good_no_I s' hg] at this
  cases this

theorem w2_cons (c : SCfg) (s : SState) (b : Bool) :
    s.phase = .afterGet2 → (stepL c s (.cons b)).dis.any (fun d => d.cls == .I) = true := by wrongphase2_simp

/-! ### stages of the idle branch -/
def idleA (s : SState) : SState := ({ s with pos := s.pos + 1 } : SState).inPhase [.afterGet2] "idle branch"
def idleB (s : SState) (fin : Bool) : SState := { idleA s with phase := if fin then .exiting else .idle1 }
def idleC (s : SState) (fin : Bool) : SState :=
  chk (idleB s fin) ((idleB s fin).running.isEmpty && (idleB s fin).endedUnconsumed == 0 && (idleB s fin).batch.isEmpty) .I
    "idle branch taken although something is running or runnable"
def idleD (s : SState) (fin : Bool) : SState :=
  chk (idleC s fin) (fin == isFinished (idleC s fin).parserDone (idleC s fin).slots.isBrk (idleC s fin).q) .I
    s!"is_finished = {fin}, model {isFinished (idleC s fin).parserDone (idleC s fin).slots.isBrk (idleC s fin).q}"

theorem idle_dis' (c : SCfg) (s : SState) (fin sleep : Bool) : (stepL c s (.idle fin sleep)).dis = (idleD s fin).dis := by
  cases fin <;> rfl

theorem idle_needs_empty_batch (c : SCfg) (s : SState) (f sl : Bool) (hb : s.batch.isEmpty = false) :
    (stepL c s (.idle f sl)).dis.any (fun d => d.cls == .I) = true := by
  rw [idle_dis']
  have hB : (idleB s f).batch = s.batch := by
    simp only [idleB, idleA, SState.inPhase]; split <;> simp [SState.note]
  have hC : (idleC s f).dis.any (fun d => d.cls == .I) = true := by
    unfold idleC chk
    rw [hB, hb]
    simp [SState.note, List.any_append]
  exact SchedSerial.any_of_prefix _ _ (SchedSerial.chk_prefix _ _ _ _) hC

/-! ## the four labels that move entries -/

theorem perm_eraseP_of_find {α} (p : α → Bool) (l : List α) (a : α) (h : l.find? p = some a) : l ~ a :: l.eraseP p := by
  induction l with
  | nil => simp at h
  | cons b rest ih =>
    by_cases hp : p b = true
    · simp only [find?, hp, Option.some.injEq] at h
      subst h
      simp [eraseP_cons, hp]
    · have hp' : p b = false := by simpa using hp
      simp only [find?, hp'] at h
      simp only [eraseP_cons, hp', Bool.false_eq_true, if_false]
      exact ((ih h).cons b).trans (Perm.swap a b _)

theorem getBatch_perm (ready : Entry → Bool) (ask : Option Nat) (q : Queues) :
    (getBatch ready ask q).1 ++ ((getBatch ready ask q).2.1.serial ++ (getBatch ready ask q).2.1.conc) ~
      q.serial ++ q.conc := by
  unfold getBatch
  by_cases h0 : (ask == some 0) = true
  · simp [h0]
  · simp only [h0, Bool.false_eq_true, if_false]
    have hs := drainQ_perm ready (some 1) q.serial
    have hc := drainQ_perm ready ask q.conc
    split
    · simp only
      rw [← append_assoc]
      exact hs.append_right _
    · rename_i hne
      have hnil : (drainQ ready (some 1) q.serial).1 = [] := by simpa using hne
      rw [hnil] at hs
      simp only [nil_append] at hs
      simp only
      have : (drainQ ready ask q.conc).1 ++ ((drainQ ready (some 1) q.serial).2.1 ++ (drainQ ready ask q.conc).2.1) ~
          (drainQ ready (some 1) q.serial).2.1 ++ ((drainQ ready ask q.conc).1 ++ (drainQ ready ask q.conc).2.1) := by
        rw [← append_assoc, ← append_assoc]
        exact perm_append_comm.append_right _
      exact this.trans (hs.append hc)

theorem insertInitial_perm (q : Queues) (ns nc : List Entry) :
    (insertInitial q ns nc).serial ++ (insertInitial q ns nc).conc ~ (q.serial ++ q.conc) ++ (ns ++ nc) := by
  unfold insertInitial
  by_cases h : ns.isEmpty = true
  · have : ns = [] := by simpa using h
    subst this
    simp [append_assoc]
  · simp only [h, Bool.false_eq_true, if_false]
    by_cases h2 : nc.isEmpty = true
    · have : nc = [] := by simpa using h2
      subst this
      simp only [isEmpty_nil, if_true, append_nil]
      rw [append_assoc]
      have : ns ++ (q.serial ++ q.conc) ~ (q.serial ++ q.conc) ++ ns := perm_append_comm
      simpa [append_assoc] using this
    · simp only [h2, Bool.false_eq_true, if_false]
      have h1 : ns ++ q.serial ++ (nc ++ q.conc) ~ (q.serial ++ ns) ++ (q.conc ++ nc) :=
        perm_append_comm.append perm_append_comm
      refine h1.trans ?_
      simp only [append_assoc]
      refine Perm.append_left _ ?_
      rw [← append_assoc, ← append_assoc]
      exact perm_append_comm.append_right _

theorem insertRetried_perm (q : Queues) (e : Entry) (now : Nat) :
    scens ((insertRetried q e now).serial ++ (insertRetried q e now).conc) ~ e.key.scen :: scens (q.serial ++ q.conc) := by
  unfold insertRetried
  by_cases h : e.serial = true
  · simp [h, scens]
  · simp only [h, Bool.false_eq_true, if_false, scens, map_append, map_cons]
    exact perm_middle

theorem scens_adoptIds (model : List Entry) (probe : List QE) (h : model.length = probe.length) :
    scens (adoptIds model probe) = scens model := by
  induction model generalizing probe with
  | nil => simp [adoptIds, scens]
  | cons m ms ih =>
    cases probe with
    | nil => simp at h
    | cons p ps =>
      simp only [length_cons, Nat.add_right_cancel_iff] at h
      have := ih ps h
      simp only [adoptIds, scens, zip_cons_cons, map_cons] at this ⊢
      rw [this]

theorem sameShapes_length (model : List Entry) (probe : List QE) (b : Bool) (h : sameShapes model probe b = true) :
    model.length = probe.length := by
  simp only [sameShapes, Bool.and_eq_true, beq_iff_eq] at h
  exact h.1

theorem disp_cinv (c : SCfg) (s : SState) (n : Nat) (sl : Slots) (g : List Nat × List Nat) (h : CInv s g) :
    CInv (stepL c s (.disp n sl)) g := by
  rw [disp_eq]
  obtain ⟨h1, h2, h3⟩ := disp5_fields s n sl
  refine ⟨?_, fun _ => rfl⟩
  refine h.1.trans (Perm.append_right _ (scens_perm _ _ ?_))
  simp only [ents, dispR, h1, h2, h3, append_nil, append_assoc]
  exact Perm.append_left _ (Perm.append_left _ perm_append_comm)

theorem endA_cinv (c : SCfg) (s : SState) (id : Nat) (failed retried : Bool) (t : Nat) (g : List Nat × List Nat)
    (h : CInv s g) : CInv (stepL c s (.endA id failed retried t)) (gstep c s g (.endA id failed retried t)) := by
  rw [endA_eq]
  simp only [gstep, endAdds]
  unfold endR
  simp only
  cases hf : s.running.find? (fun e => e.id == id) with
  | none =>
    simp only [hf, append_nil]
    exact ⟨by simpa [ents, SState.note] using h.1, by simpa [SState.note] using h.2⟩
  | some e =>
    have hperm := perm_eraseP_of_find _ _ _ hf
    have key : ∀ s1 : SState, s1.q = s.q → s1.batch = s.batch → s1.running = s.running → s1.phase = s.phase →
        CInv ({ s1 with running := s1.running.eraseP (fun x => x.id == id), endedUnconsumed := s1.endedUnconsumed + 1,
                        notifs := s1.notifs ++ [(id, e.key, failed, retried)] } : SState) (g.1, g.2 ++ [e.key.scen]) := by
      intro s1 e1 e2 e3 e4
      refine ⟨?_, by simpa [e2, e4] using h.2⟩
      have : scens (ents s) ~ e.key.scen :: scens (s.q.serial ++ s.q.conc ++ s.batch ++ s.running.eraseP (fun x => x.id == id)) := by
        simp only [ents, scens, map_append]
        have hp := (hperm.map (·.key.scen))
        simp only [map_cons] at hp
        exact (Perm.append_left _ hp).trans perm_middle
      simp only [ents, e1, e2, e3]
      refine h.1.trans ?_
      refine (this.append_right g.2).trans ?_
      simp only [cons_append]
      rw [← append_assoc]
      exact (perm_append_singleton _ _).symm
    simp only [hf]
    split
    · exact key _ rfl rfl rfl rfl
    · exact key _ rfl rfl rfl rfl

theorem get2a_note2 (s : SState) (hsel : s.phase = .afterGet2) : (get2a s).dis.any (fun d => d.cls == .I) = true := by
  simp [get2a, hsel, SState.inPhase, SState.note, List.any_append]

theorem get2_cinv (c : SCfg) (s : SState) (t2 : Nat) (slots : Slots) (got : List Nat) (sleep : Bool) (running : Nat)
    (g : List Nat × List Nat) (h : CInv s g) (hc : Clean (stepL c s (.get2 t2 slots got sleep running)) = true) :
    CInv (stepL c s (.get2 t2 slots got sleep running)) g := by
  obtain ⟨hgood, hrq⟩ := clean_good _ hc
  have hph : s.phase ≠ .afterGet2 := by
    intro hp
    have h1 := SchedSerial.any_of_prefix _ _ (SchedSerial.get2_chain s t2 slots got sleep running) (get2a_note2 s hp)
    rw [get2_eq] at hgood
    rw [good_no_I _ hgood] at h1
    cases h1
  have hb := h.2 hph
  rw [get2_eq] at hrq ⊢
  obtain ⟨f1, f2, f3⟩ := get2e_fields s slots running
  have hperm := getBatch_perm (get2ready (get2e s slots running) t2 got) (get2e s slots running).slots.ask s.q
  -- the accepting branch
  have key : ∀ (s6 : SState) (r1 : List Entry) (r2 : Queues) (br : Brackets) (ex : List Exp),
      r1 ++ (r2.serial ++ r2.conc) ~ s.q.serial ++ s.q.conc → s6.running = s.running → s6.phase = .afterGet2 →
      CInv ({ s6 with q := r2, batch := r1, lastGet1 := none, br := br, expect := ex } : SState) g := by
    intro s6 r1 r2 br ex hp e3 e4
    refine ⟨?_, fun hp' => absurd e4 hp'⟩
    refine h.1.trans (Perm.append_right _ (scens_perm _ _ ?_))
    simp only [ents, hb, append_nil, e3]
    refine Perm.append_right _ ?_
    refine hp.symm.trans ?_
    rw [append_assoc]
    exact perm_append_comm.trans (by simp [append_assoc])
  have p5 : (get2e s slots running).phase = .afterGet2 := by
    have hc' : (get2c s).phase = .afterGet2 := by
      simp only [get2c, SState.checkExpectDone]; split <;> simp [SState.note]
    have hd : (get2d s slots).phase = (get2c s).phase := by unfold get2d; split <;> simp [SState.note]
    have he : (get2e s slots running).phase = (get2d s slots).phase := by unfold get2e; split <;> simp [SState.note]
    rw [he, hd, hc']
  unfold get2R at hrq ⊢
  simp only at hrq ⊢
  rw [f1] at hrq ⊢
  split
  · split
    · exact key _ _ _ _ _ hperm f3 p5
    · exact key _ _ _ _ _ hperm (by simp [SState.note, f3]) (by simp [SState.note, p5])
  · rename_i hne
    simp only [hne, Bool.false_eq_true, if_false] at hrq
    exact absurd rfl (goodRQ_note _ _ _ (show GoodRQ ((get2e s slots running).note .Q _) = true from hrq)).2.2

theorem perm_insert (g1 A A' B G E : List Nat) (h : g1 ~ A ++ B ++ G) (hA : A' ~ A ++ E) :
    g1 ++ E ~ A' ++ B ++ G := by
  have h1 : g1 ++ E ~ A ++ B ++ G ++ E := h.append_right E
  have h2 : A ++ B ++ G ++ E ~ A ++ E ++ B ++ G := by
    simp only [append_assoc]
    exact Perm.append_left A (perm_append_comm (l₁ := B ++ G) (l₂ := E) |>.trans (by simp [append_assoc]) |> fun x => by
      simpa [append_assoc] using x)
  exact (h1.trans h2).trans ((hA.symm.append_right B).append_right G)

theorem filter_partition_perm (p : Entry → Bool) (l : List Entry) :
    l.filter p ++ l.filter (fun e => !p e) ~ l := filter_append_perm p l

theorem ins_cinv (c : SCfg) (s : SState) (t : Nat) (ps pc : List QE) (g : List Nat × List Nat) (h : CInv s g)
    (hg : GoodRQ (stepL c s (.ins t ps pc)) = true) :
    CInv (stepL c s (.ins t ps pc)) (g.1 ++ insAdds c s ps pc, g.2) := by
  rw [ins_eq] at hg ⊢
  have hfr := frame_ins c s t ps pc
  rw [ins_eq] at hfr
  obtain ⟨_, _, _, fph, fb⟩ := hfr
  refine ⟨?_, by rw [fph, fb]; exact h.2⟩
  have hbase : g.1 ~ scens (s.q.serial ++ s.q.conc) ++ (scens s.batch ++ scens s.running) ++ g.2 := by
    have := h.1
    simpa [ents, scens_append, append_assoc] using this
  generalize hX : insR c s t ps pc = X at hg ⊢
  unfold insR at hX
  simp only at hX
  split at hX
  · -- a delivered feature
    rename_i f hpf
    have hadds : insAdds c s ps pc = scens (newEntries c ((c.feat? f).getD ⟨f, [], [], []⟩)) := by
      unfold insAdds
      have : s.pendingFeat = some f := hpf
      simp only [this]
    unfold insFresh at hX
    simp only at hX
    split at hX
    · rename_i hok
      subst hX
      simp only [Bool.and_eq_true] at hok
      have l1 := sameShapes_length _ _ _ hok.1
      have l2 := sameShapes_length _ _ _ hok.2
      have hq := insertInitial_perm s.q ((newEntries c ((c.feat? f).getD ⟨f, [], [], []⟩)).filter (·.serial))
        ((newEntries c ((c.feat? f).getD ⟨f, [], [], []⟩)).filter (fun e => !e.serial))
      let Q' := insertInitial s.q ((newEntries c ((c.feat? f).getD ⟨f, [], [], []⟩)).filter (·.serial))
        ((newEntries c ((c.feat? f).getD ⟨f, [], [], []⟩)).filter (fun e => !e.serial))
      have hA : scens (adoptIds Q'.serial ps) ++ scens (adoptIds Q'.conc pc) ~
          scens (s.q.serial ++ s.q.conc) ++ scens (newEntries c ((c.feat? f).getD ⟨f, [], [], []⟩)) := by
        rw [scens_adoptIds _ _ l1, scens_adoptIds _ _ l2, ← scens_append]
        refine (scens_perm _ _ hq).trans ?_
        rw [scens_append]
        exact Perm.append_left _ (scens_perm _ _ (filter_partition_perm _ _))
      rw [hadds]
      have := perm_insert g.1 _ _ (scens s.batch ++ scens s.running) g.2 _ hbase hA
      simpa [ents, scens_append, append_assoc] using this
    · subst hX
      rw [not_good_follow _ c .Q _ ps pc (Or.inr rfl)] at hg
      cases hg
  · -- a retried scenario
    rename_i hpf
    unfold insRetry at hX
    simp only at hX
    split at hX
    · rename_i ser p hfresh
      split at hX
      · subst hX
        rw [not_good_follow _ c .R _ ps pc (Or.inl rfl)] at hg
        cases hg
      · rename_i e0r hrun
        split at hX
        · subst hX
          rw [not_good_follow _ c .R _ ps pc (Or.inl rfl)] at hg
          cases hg
        · rename_i ne hne
          split at hX
          · rename_i hok
            subst hX
            simp only [Option.map_eq_some_iff] at hne
            obtain ⟨o, ho, rfl⟩ := hne
            have hadds : insAdds c s ps pc = [e0r.key.scen] := by
              unfold insAdds
              have h1 : s.pendingFeat = none := hpf
              simp only [h1]
              simp only [hfresh]
              have h3 : s.running.find? (fun e => e.key.scen == p.scen) = some e0r := hrun
              simp only [h3, ho, Option.isSome_some, if_true]
            simp only [Bool.and_eq_true] at hok
            have l1 := sameShapes_length _ _ _ hok.1.1
            have l2 := sameShapes_length _ _ _ hok.1.2
            have hq := insertRetried_perm s.q { e0r with id := p.id, ret := some o } t
            let Q' := insertRetried s.q { e0r with id := p.id, ret := some o } t
            have hA : scens (adoptIds Q'.serial ps) ++ scens (adoptIds Q'.conc pc) ~ scens (s.q.serial ++ s.q.conc) ++ [e0r.key.scen] := by
              rw [scens_adoptIds _ _ l1, scens_adoptIds _ _ l2, ← scens_append]
              exact hq.trans (perm_append_singleton _ _).symm
            rw [hadds]
            have := perm_insert g.1 _ _ (scens s.batch ++ scens s.running) g.2 _ hbase hA
            simpa [ents, scens_append, append_assoc] using this
          · subst hX
            rw [not_good_follow _ c .Q _ ps pc (Or.inr rfl)] at hg
            cases hg
    · subst hX
      rw [not_good_follow _ c .Q _ ps pc (Or.inr rfl)] at hg
      cases hg

/-- **one label keeps the conservation invariant** -/
theorem step_cinv (c : SCfg) (s : SState) (g : List Nat × List Nat) (l : Label) (h : CInv s g)
    (hc : Clean (stepL c s l) = true) : CInv (stepL c s l) (gstep c s g l) := by
  obtain ⟨hgood, hrq⟩ := clean_good _ hc
  cases l with
  | hookTake => exact cinv_phase s _ g (ents_hookTake c s) (b_hookTake c s) (w2_hookTake c s) hgood h
  | hookRestore => exact cinv_frame s _ g (ents_hookRestore c s) (frame_hookRestore c s) h
  | exit => exact cinv_phase s _ g (ents_exit c s) (b_exit c s) (w2_exit c s) hgood h
  | tx e => exact cinv_frame s _ g (ents_tx c s e) (frame_tx c s e) h
  | pOk f => exact cinv_frame s _ g (ents_pOk c s f) (frame_pOk c s f) h
  | pErr => exact cinv_frame s _ g (ents_pErr c s) (frame_pErr c s) h
  | pEnd => exact cinv_frame s _ g (ents_pEnd c s) (frame_pEnd c s) h
  | pPend => exact cinv_frame s _ g (ents_pPend c s) (frame_pPend c s) h
  | pWake => exact cinv_frame s _ g (ents_pWake c s) (frame_pWake c s) h
  | pFinish => exact cinv_frame s _ g (ents_pFinish c s) (frame_pFinish c s) h
  | ins t a b => exact ins_cinv c s t a b g h hrq
  | get1 t a ns nc => exact cinv_phase s _ g (ents_get1 c s t a ns nc) (b_get1 c s t a ns nc) (w2_get1 c s t a ns nc) hgood h
  | get2 t sl gt b r => exact get2_cinv c s t sl gt b r g h hc
  | idle f sl =>
    refine ⟨by rw [ents_idle]; exact h.1, fun _ => ?_⟩
    rw [b_idle]
    cases hb : s.batch with
    | nil => rfl
    | cons x xs =>
      exfalso
      have := idle_needs_empty_batch c s f sl (by simp [hb])
      rw [good_no_I _ hgood] at this
      cases this
  | idleContinue => exact cinv_phase s _ g (ents_idleContinue c s) (b_idleContinue c s) (w2_idleContinue c s) hgood h
  | idleYield => exact cinv_phase s _ g (ents_idleYield c s) (b_idleYield c s) (w2_idleYield c s) hgood h
  | idleSlept => exact cinv_phase s _ g (ents_idleSlept c s) (b_idleSlept c s) (w2_idleSlept c s) hgood h
  | disp n sl => exact disp_cinv c s n sl g h
  | cons b => exact cinv_phase s _ g (ents_cons c s b) (b_cons c s b) (w2_cons c s b) hgood h
  | notif id f r => exact cinv_frame s _ g (ents_notif c s id f r) (frame_notif c s id f r) h
  | brk => exact cinv_phase s _ g (ents_brk c s) (b_brk c s) (w2_brk c s) hgood h
  | endA id f r t => exact endA_cinv c s id f r t g h
  | rx e => exact cinv_frame s _ g (ents_rx c s e) (frame_rx c s e) h
  | cbIn a b t => exact cinv_frame s _ g (ents_cbIn c s a b t) (frame_cbIn c s a b t) h
  | cbOut a b t => exact cinv_frame s _ g (ents_cbOut c s a b t) (frame_cbOut c s a b t) h
  | envMove => exact cinv_frame s _ g (ents_env c s) (frame_env c s) h
  | poll => exact cinv_frame s _ g (ents_poll c s) (frame_poll c s) h
  | verdict b x y z => exact cinv_frame s _ g (ents_verdict c s b x y z) (frame_verdict c s b x y z) h
  | other => exact cinv_frame s _ g (ents_other c s) (frame_other c s) h

theorem runG_cinv (c : SCfg) (ls : List Label) (sg : SState × (List Nat × List Nat)) (h : CInv sg.1 sg.2)
    (hc : Clean (runG c ls sg).1 = true) : CInv (runG c ls sg).1 (runG c ls sg).2 := by
  induction ls generalizing sg with
  | nil => exact h
  | cons l rest ih =>
    have hmono : ∀ (ls : List Label) (s : SState), Clean (ls.foldl (stepL c) s) = true → Clean s = true := by
      intro ls
      induction ls with
      | nil => intro s h; exact h
      | cons l rest ih2 => intro s h; exact clean_step_mono c s l (ih2 _ h)
    have hstate : (runG c (l :: rest) sg).1 = rest.foldl (stepL c) (stepL c sg.1 l) := by
      rw [runG_state]; rfl
    have h1 : Clean (stepL c sg.1 l) = true := hmono rest _ (by rw [← hstate]; exact hc)
    have := ih (stepL c sg.1 l, gstep c sg.1 sg.2 l) (step_cinv c sg.1 sg.2 l h h1) (by
      have : runG c rest (stepL c sg.1 l, gstep c sg.1 sg.2 l) = runG c (l :: rest) sg := rfl
      rw [this]; exact hc)
    exact this

theorem cinv_init : CInv {} ([], []) := ⟨by simp [ents, scens, Queues.empty], fun _ => rfl⟩

end Cuke.SchedCons
