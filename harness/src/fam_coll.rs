//! C20 (collector protocol): `trace.coll` — random operation sequences through a REAL tracing `Collector`
//! (cfg hook `cucumber::tracing::VerifCollector`), compared with the Lean protocol model `Cuke.Tr`.
//! Operations: start / finish a scenario, a log message (with / without / with an unregistered scenario id),
//! a span close, a waiter registration, and a `forward_logs` turn (`emitted_logs` until `None`).

use std::rc::Rc;

use cucumber::{event::Retries, runner::basic::RetryOptions, tracing::VerifCollector, Event};

use crate::{
    common::{show_list, show_opt, Case, Rng},
    evs::{gen_catalog_specs, show_aev, show_key, Cat, Key, PW},
};

enum Op {
    Start(u64, Key, Option<(usize, usize)>),
    Finish(u64),
    Emit(Option<u64>, usize),
    Close(u64),
    Wait(u64, u64),
    Turn,
}

fn show_op(o: &Op) -> String {
    match o {
        Op::Start(id, k, r) => format!("S {id} {} {}", show_key(k), show_opt(r.as_ref(), |(c, l)| format!("{c} {l}"))),
        Op::Finish(id) => format!("F {id}"),
        Op::Emit(id, m) => format!("E {} {m}", show_opt(id.as_ref(), |i| i.to_string())),
        Op::Close(s) => format!("C {s}"),
        Op::Wait(s, cb) => format!("W {s} {cb}"),
        Op::Turn => "T".to_owned(),
    }
}

pub fn gen_coll(rng: &mut Rng, _idx: usize) -> Case {
    let specs = gen_catalog_specs(rng, 2);
    let cat = Rc::new(Cat::new(&specs));
    if cat.scens.is_empty() {
        return Case { req: "harness.ended".into(), imp: "ok".into(), class: "empty-catalog".into(), nontrivial: false };
    }
    let nops = rng.range(3, 30);
    let mut ops: Vec<Op> = vec![];
    let mut next_cb = 0u64;
    let mut next_msg = 0usize;
    // few ids / spans, so that operations collide: re-registration, closes before / after waiters, unknown ids
    let ids: Vec<u64> = (1..=4).collect();
    let spans: Vec<u64> = (1..=3).collect();
    for _ in 0..nops {
        let op = match rng.below(12) {
            0..=2 => {
                let s = rng.pick(&cat.scens);
                let ret = if rng.chance(1, 3) { Some((rng.below(3), rng.below(3))) } else { None };
                Op::Start(*rng.pick(&ids), s.key, ret)
            }
            3 => Op::Finish(*rng.pick(&ids)),
            4..=6 => {
                next_msg += 1;
                let id = match rng.below(4) { 0 => None, 1 => Some(9), _ => Some(*rng.pick(&ids)) };
                Op::Emit(id, next_msg)
            }
            7 => Op::Close(*rng.pick(&spans)),
            8..=9 => {
                next_cb += 1;
                Op::Wait(*rng.pick(&spans), next_cb)
            }
            _ => Op::Turn,
        };
        ops.push(op);
    }
    ops.push(Op::Turn);
    ops.push(Op::Turn);

    // the real collector
    let mut vc = VerifCollector::new();
    let mut outs: Vec<String> = vec![];
    let (mut n_logs, mut n_bcast, mut n_fired) = (0usize, 0usize, 0usize);
    for o in &ops {
        match o {
            Op::Start(id, k, r) => {
                let sc = cat.scen(k);
                let f = cat.feat(k.feat);
                let rule = k.rule.map(|r| cat.rule(k.feat, r).src.clone());
                let ro = r.map(|(c, l)| RetryOptions { retries: Retries { current: c, left: l }, after: None });
                vc.start(*id, f.src.clone(), rule, sc.src.clone(), ro);
            }
            Op::Finish(id) => vc.finish(*id),
            Op::Emit(id, m) => vc.emit(*id, format!("log {m}")),
            Op::Close(s) => vc.close(*s),
            Op::Wait(s, cb) => vc.wait(*s, *cb),
            Op::Turn => {
                let mut per_log: Vec<String> = vec![];
                while let Some(evs) = vc.emitted_logs::<PW>() {
                    n_logs += 1;
                    if evs.len() > 1 { n_bcast += 1; }
                    let mut shown: Vec<String> = evs.into_iter().map(|e| show_aev(&cat.abstract_ev(&Ok(Event::new(e))))).collect();
                    shown.sort();
                    per_log.push(show_list(&shown, |s| s.clone()));
                }
                let mut fired = vc.fired();
                fired.sort_unstable();
                n_fired += fired.len();
                outs.push(format!("{} ; {}", show_list(&per_log, |s| s.clone()), show_list(&fired, |c| c.to_string())));
            }
        }
    }
    Case {
        req: format!("trace.coll {}", show_list(&ops, show_op)),
        imp: outs.join(" | "),
        class: format!("ops{}/logs{}{}{}", match ops.len() { 0..=10 => "<=10", 11..=20 => "<=20", _ => ">20" },
            match n_logs { 0 => "0", 1..=3 => "few", _ => "many" }, if n_bcast > 0 { "/broadcast" } else { "" }, if n_fired > 0 { "/fired" } else { "" }),
        nontrivial: n_logs + n_fired > 0,
    }
}
