import Cuke.Model.Sched
/-!
  The bracket bookkeeping of the runner (`FinishedRulesAndFeatures`: `start_scenarios`,
  `rule_scenario_finished` / `feature_scenario_finished`, `finish_all_rules_and_features`) as a LEDGER:
  for every feature (rule), #Started = #Finished + [it is still in the map] — for every sequence of
  dispatches and drained completions whatsoever (C03).
-/
set_option linter.unusedSimpArgs false
namespace Cuke.BrL
open Cuke List

def keysF (b : Brackets) : List Nat := b.feats.map (·.1)

def cnt (e : Ev) (evs : List Ev) : Nat := evs.count e

/-- per-feature ledger: every Started is matched by a Finished, except for the features still open -/
def FeatLedger (b : Brackets) (evs : List Ev) : Prop :=
  (keysF b).Nodup ∧ ∀ f, (f ∈ keysF b → cnt (.featStarted f) evs = cnt (.featFinished f) evs + 1) ∧
    (f ∉ keysF b → cnt (.featStarted f) evs = cnt (.featFinished f) evs)

/-- the feature part / the rule part of `start_scenarios` -/
def addFeats {α} [BEq α] (fs : List α) (acc : List (α × Nat) × List α) : List (α × Nat) × List α :=
  fs.foldl (fun (acc : List (α × Nat) × List α) f =>
    if acc.1.any (fun e => e.1 == f) then acc else (acc.1 ++ [(f, 0)], acc.2 ++ [f])) acc

theorem addFeats_spec {α} [BEq α] [LawfulBEq α] (fs : List α) (feats : List (α × Nat)) (new : List α)
    (hnd : (feats.map (fun (e : α × Nat) => e.1)).Nodup) :
    ((addFeats fs (feats, new)).1.map (fun (e : α × Nat) => e.1)).Nodup ∧
    ∃ added : List α, (addFeats fs (feats, new)).2 = new ++ added ∧ added.Nodup ∧
      (∀ f ∈ added, f ∉ feats.map (fun (e : α × Nat) => e.1)) ∧
      (addFeats fs (feats, new)).1.map (fun (e : α × Nat) => e.1) = feats.map (fun (e : α × Nat) => e.1) ++ added := by
  induction fs generalizing feats new with
  | nil => exact ⟨hnd, [], by simp [addFeats], by simp, by simp, by simp [addFeats]⟩
  | cons f rest ih =>
    simp only [addFeats, foldl_cons]
    by_cases hin : feats.any (fun e => e.1 == f) = true
    · simp only [hin, if_true]
      exact ih feats new hnd
    · have hin' : feats.any (fun e => e.1 == f) = false := by
        cases h : feats.any (fun e => e.1 == f) with
        | true => exact absurd h hin
        | false => rfl
      have hnot : f ∉ feats.map (fun (e : α × Nat) => e.1) := by
        simp only [any_eq_false, beq_iff_eq] at hin'
        simp only [mem_map, not_exists, not_and]
        intro x hx heq; exact hin' x hx heq
      simp only [hin', Bool.false_eq_true, if_false]
      have hnd' : ((feats ++ [(f, 0)]).map (fun (e : α × Nat) => e.1)).Nodup := by
        simp only [map_append, map_cons, map_nil]
        rw [nodup_append]
        refine ⟨hnd, by simp, ?_⟩
        intro a ha b hb
        simp only [mem_cons, not_mem_nil, or_false] at hb
        subst hb
        intro heq; subst heq
        exact hnot ha
      obtain ⟨h1, added, h2, h3, h4, h5⟩ := ih (feats ++ [(f, 0)]) (new ++ [f]) hnd'
      refine ⟨h1, f :: added, ?_, ?_, ?_, ?_⟩
      · have : addFeats rest (feats ++ [(f, 0)], new ++ [f]) = foldl _ (feats ++ [(f, 0)], new ++ [f]) rest := rfl
        rw [← this, h2]; simp
      · rw [nodup_cons]
        refine ⟨?_, h3⟩
        intro hm
        exact h4 f hm (by simp)
      · intro x hx
        simp only [mem_cons] at hx
        rcases hx with rfl | hx
        · exact hnot
        · intro hm; exact h4 x hx (by simp [hm])
      · have : addFeats rest (feats ++ [(f, 0)], new ++ [f]) = foldl _ (feats ++ [(f, 0)], new ++ [f]) rest := rfl
        rw [← this, h5]; simp


def batchFeats (batch : List Entry) : List Nat := dedupAdj (batch.map (·.key.feat))

def batchRules (batch : List Entry) : List (Nat × Nat) :=
  dedupAdj (batch.filterMap (fun e => e.key.rule.map (fun r => (e.key.feat, r))))

def keysR (b : Brackets) : List (Nat × Nat) := b.rules.map (·.1)

/-- per-rule ledger -/
def RuleLedger (b : Brackets) (evs : List Ev) : Prop :=
  (keysR b).Nodup ∧ ∀ f r, ((f, r) ∈ keysR b → cnt (.ruleStarted f r) evs = cnt (.ruleFinished f r) evs + 1) ∧
    ((f, r) ∉ keysR b → cnt (.ruleStarted f r) evs = cnt (.ruleFinished f r) evs)

theorem startScenarios_parts (b : Brackets) (batch : List Entry) :
    (startScenarios b batch).1.feats = (addFeats (batchFeats batch) (b.feats, [])).1 ∧
    (startScenarios b batch).1.rules = (addFeats (batchRules batch) (b.rules, [])).1 ∧
    (startScenarios b batch).2 = (addFeats (batchFeats batch) (b.feats, [])).2.map Ev.featStarted ++
      (addFeats (batchRules batch) (b.rules, [])).2.map (fun fr => Ev.ruleStarted fr.1 fr.2) := ⟨rfl, rfl, rfl⟩

theorem cnt_append (e : Ev) (a b : List Ev) : cnt e (a ++ b) = cnt e a + cnt e b := by simp [cnt]

theorem cnt_zero_of_not_mem (e : Ev) (l : List Ev) (h : e ∉ l) : cnt e l = 0 := by
  simp [cnt, count_eq_zero, h]

theorem cnt_map_featStarted (f : Nat) (l : List Nat) (hnd : l.Nodup) :
    (f ∈ l → cnt (.featStarted f) (l.map Ev.featStarted) = 1) ∧ (f ∉ l → cnt (.featStarted f) (l.map Ev.featStarted) = 0) := by
  induction l with
  | nil => simp [cnt]
  | cons a rest ih =>
    rw [nodup_cons] at hnd
    obtain ⟨i1, i2⟩ := ih hnd.2
    simp only [map_cons, cnt, count_cons, mem_cons, beq_iff_eq, Ev.featStarted.injEq] at i1 i2 ⊢
    by_cases hfa : a = f
    · subst hfa
      have := i2 hnd.1
      refine ⟨fun _ => by simp [this], fun h => absurd (Or.inl rfl) h⟩
    · refine ⟨fun h => ?_, fun h => ?_⟩
      · rcases h with h | h
        · exact absurd h.symm hfa
        · simp [i1 h, hfa]
      · have : f ∉ rest := fun hm => h (Or.inr hm)
        simp [i2 this, hfa]

theorem cnt_map_ruleStarted (f r : Nat) (l : List (Nat × Nat)) (hnd : l.Nodup) :
    ((f, r) ∈ l → cnt (.ruleStarted f r) (l.map (fun fr => Ev.ruleStarted fr.1 fr.2)) = 1) ∧
    ((f, r) ∉ l → cnt (.ruleStarted f r) (l.map (fun fr => Ev.ruleStarted fr.1 fr.2)) = 0) := by
  induction l with
  | nil => simp [cnt]
  | cons a rest ih =>
    rw [nodup_cons] at hnd
    obtain ⟨a1, a2⟩ := a
    obtain ⟨i1, i2⟩ := ih hnd.2
    simp only [map_cons, cnt, count_cons, mem_cons, beq_iff_eq, Ev.ruleStarted.injEq, Prod.mk.injEq] at i1 i2 ⊢
    by_cases hfa : a1 = f ∧ a2 = r
    · obtain ⟨rfl, rfl⟩ := hfa
      have := i2 hnd.1
      refine ⟨fun _ => by simp [this], fun h => absurd (Or.inl ⟨rfl, rfl⟩) h⟩
    · refine ⟨fun h => ?_, fun h => ?_⟩
      · rcases h with h | h
        · exact absurd ⟨h.1.symm, h.2.symm⟩ hfa
        · simp [i1 h, hfa]
      · have : (f, r) ∉ rest := fun hm => h (Or.inr hm)
        simp [i2 this, hfa]

/-- `start_scenarios` keeps both ledgers: exactly the features / rules that become open get a Started -/
theorem startScenarios_ledgers (b : Brackets) (batch : List Entry) (evs : List Ev)
    (hF : FeatLedger b evs) (hR : RuleLedger b evs) :
    FeatLedger (startScenarios b batch).1 (evs ++ (startScenarios b batch).2) ∧
    RuleLedger (startScenarios b batch).1 (evs ++ (startScenarios b batch).2) := by
  obtain ⟨hf, hr, hev⟩ := startScenarios_parts b batch
  obtain ⟨f1, addedF, f2, f3, f4, f5⟩ := addFeats_spec (batchFeats batch) b.feats [] hF.1
  obtain ⟨r1, addedR, r2, r3, r4, r5⟩ := addFeats_spec (batchRules batch) b.rules [] hR.1
  rw [hev, f2, r2, nil_append, nil_append]
  have hkF : keysF (startScenarios b batch).1 = keysF b ++ addedF := by simp [keysF, hf, f5]
  have hkR : keysR (startScenarios b batch).1 = keysR b ++ addedR := by simp [keysR, hr, r5]
  refine ⟨⟨by rw [hkF]; simpa [keysF, hf, f5] using f1, fun f => ?_⟩, ⟨by rw [hkR]; simpa [keysR, hr, r5] using r1, fun f r => ?_⟩⟩
  · have z1 : cnt (.featStarted f) (addedR.map (fun fr => Ev.ruleStarted fr.1 fr.2)) = 0 := cnt_zero_of_not_mem _ _ (by simp)
    have z2 : cnt (.featFinished f) (addedR.map (fun fr => Ev.ruleStarted fr.1 fr.2)) = 0 := cnt_zero_of_not_mem _ _ (by simp)
    have z3 : cnt (.featFinished f) (addedF.map Ev.featStarted) = 0 := cnt_zero_of_not_mem _ _ (by simp)
    obtain ⟨c1, c2⟩ := cnt_map_featStarted f addedF f3
    obtain ⟨l1, l2⟩ := hF.2 f
    rw [hkF]
    simp only [cnt_append, z1, z2, z3, mem_append]
    refine ⟨fun h => ?_, fun h => ?_⟩
    · rcases h with h | h
      · have hna : f ∉ addedF := fun hm => f4 f hm (by simpa [keysF] using h)
        rw [l1 h, c2 hna]
      · have hnb : f ∉ keysF b := fun hm => f4 f h (by simpa [keysF] using hm)
        rw [l2 hnb, c1 h]
    · have hnb : f ∉ keysF b := fun hm => h (Or.inl hm)
      have hna : f ∉ addedF := fun hm => h (Or.inr hm)
      rw [l2 hnb, c2 hna]
  · have z1 : cnt (.ruleStarted f r) (addedF.map Ev.featStarted) = 0 := cnt_zero_of_not_mem _ _ (by simp)
    have z2 : cnt (.ruleFinished f r) (addedF.map Ev.featStarted) = 0 := cnt_zero_of_not_mem _ _ (by simp)
    have z3 : cnt (.ruleFinished f r) (addedR.map (fun fr => Ev.ruleStarted fr.1 fr.2)) = 0 := cnt_zero_of_not_mem _ _ (by simp)
    obtain ⟨c1, c2⟩ := cnt_map_ruleStarted f r addedR r3
    obtain ⟨l1, l2⟩ := hR.2 f r
    rw [hkR]
    simp only [cnt_append, z1, z2, z3, mem_append]
    refine ⟨fun h => ?_, fun h => ?_⟩
    · rcases h with h | h
      · have hna : (f, r) ∉ addedR := fun hm => r4 _ hm (by simpa [keysR] using h)
        rw [l1 h, c2 hna]
      · have hnb : (f, r) ∉ keysR b := fun hm => r4 _ h (by simpa [keysR] using hm)
        rw [l2 hnb, c1 h]
    · have hnb : (f, r) ∉ keysR b := fun hm => h (Or.inl hm)
      have hna : (f, r) ∉ addedR := fun hm => h (Or.inr hm)
      rw [l2 hnb, c2 hna]


/-! ### removing / updating one key of a counter map -/

theorem keys_update {α} [BEq α] (l : List (α × Nat)) (x : α) (c : Nat) :
    (l.map (fun e => if e.1 == x then (e.1, c + 1) else e)).map (fun (e : α × Nat) => e.1) = l.map (fun (e : α × Nat) => e.1) := by
  induction l with
  | nil => rfl
  | cons a rest ih => simp only [map_cons, ih]; split <;> rfl

theorem keys_remove {α} [BEq α] [LawfulBEq α] (l : List (α × Nat)) (x : α) :
    (l.filter (fun e => !(e.1 == x))).map (fun (e : α × Nat) => e.1) = (l.map (fun (e : α × Nat) => e.1)).filter (fun y => !(y == x)) := by
  induction l with
  | nil => rfl
  | cons a rest ih =>
    simp only [filter_cons, map_cons]
    split <;> simp [ih]

theorem find_mem_keys {α} [BEq α] [LawfulBEq α] (l : List (α × Nat)) (x : α) (v : α × Nat)
    (h : l.find? (fun e => e.1 == x) = some v) : x ∈ l.map (fun (e : α × Nat) => e.1) := by
  have hm := mem_of_find?_eq_some h
  have hk : v.1 = x := by simpa using find?_some h
  exact mem_map.mpr ⟨v, hm, hk⟩

theorem mem_filter_ne {α} [BEq α] [LawfulBEq α] (l : List α) (x y : α) : y ∈ l.filter (fun z => !(z == x)) ↔ y ∈ l ∧ y ≠ x := by
  simp [mem_filter]

theorem cnt_single_ne (e e' : Ev) (h : e ≠ e') : cnt e [e'] = 0 := cnt_zero_of_not_mem _ _ (by simp [h])
theorem cnt_single_eq (e : Ev) : cnt e [e] = 1 := by simp [cnt]

/-- the feature part of a drained notification keeps the feature ledger -/
theorem featPart_ledger (b : Brackets) (k : ScenKey) (nFeat : Nat) (evs evR : List Ev) (rules : List ((Nat × Nat) × Nat))
    (b' : Brackets) (evs' : List Ev) (hF : FeatLedger b evs)
    (hz : ∀ f, cnt (.featStarted f) evR = 0 ∧ cnt (.featFinished f) evR = 0)
    (hs : (match b.feats.find? (fun e => e.1 == k.feat) with
      | none => none
      | some (_, c) =>
        if nFeat == c + 1 then
          some (({ feats := b.feats.filter (fun e => !(e.1 == k.feat)), rules } : Brackets), evR ++ [Ev.featFinished k.feat])
        else some (({ feats := b.feats.map (fun e => if e.1 == k.feat then (e.1, c + 1) else e), rules } : Brackets), evR)) =
      some (b', evs')) :
    FeatLedger b' (evs ++ evs') ∧ b'.rules = rules ∧ ∃ tail, evs' = evR ++ tail ∧ ∀ e ∈ tail, ∃ f, e = Ev.featFinished f := by
  obtain ⟨hnd, hl⟩ := hF
  cases hfind : b.feats.find? (fun e => e.1 == k.feat) with
  | none => simp [hfind] at hs
  | some v =>
    obtain ⟨vk, c⟩ := v
    simp only [hfind] at hs
    have hmem : k.feat ∈ keysF b := find_mem_keys b.feats k.feat _ hfind
    split at hs
    · simp only [Option.some.injEq, Prod.mk.injEq] at hs
      obtain ⟨rfl, rfl⟩ := hs
      refine ⟨⟨?_, fun f => ?_⟩, rfl, [Ev.featFinished k.feat], rfl, by simp⟩
      · simp only [keysF]; rw [keys_remove]; exact hnd.filter _
      · obtain ⟨z1, z2⟩ := hz f
        obtain ⟨l1, l2⟩ := hl f
        simp only [keysF, keys_remove, mem_filter_ne, cnt_append, z1, z2]
        by_cases hfk : f = k.feat
        · subst hfk
          refine ⟨fun h => absurd rfl h.2, fun _ => ?_⟩
          rw [l1 hmem, cnt_single_ne _ _ (by simp), cnt_single_eq]
        · have n1 : cnt (.featStarted f) [Ev.featFinished k.feat] = 0 := cnt_single_ne _ _ (by simp)
          have n2 : cnt (.featFinished f) [Ev.featFinished k.feat] = 0 := cnt_single_ne _ _ (by simp [hfk])
          rw [n1, n2]
          refine ⟨fun h => by simpa using l1 h.1, fun h => ?_⟩
          have : f ∉ keysF b := fun hm => h ⟨hm, hfk⟩
          simpa using l2 this
    · simp only [Option.some.injEq, Prod.mk.injEq] at hs
      obtain ⟨rfl, rfl⟩ := hs
      refine ⟨⟨?_, fun f => ?_⟩, rfl, [], by simp, by simp⟩
      · simp only [keysF]; rw [keys_update]; exact hnd
      · obtain ⟨z1, z2⟩ := hz f
        obtain ⟨l1, l2⟩ := hl f
        simp only [keysF, keys_update, cnt_append, z1, z2]
        exact ⟨fun h => by simpa using l1 h, fun h => by simpa using l2 h⟩


/-- the rule part of a drained notification keeps the rule ledger -/
theorem rulePart_ledger (b : Brackets) (k : ScenKey) (nRule : Nat) (evs evR : List Ev) (rules : List ((Nat × Nat) × Nat))
    (hR : RuleLedger b evs)
    (hrp : (match k.rule with
      | none => some (b.rules, ([] : List Ev))
      | some r =>
        match b.rules.find? (fun e => e.1 == (k.feat, r)) with
        | none => none
        | some (_, c) =>
          if nRule == c + 1 then some (b.rules.filter (fun e => !(e.1 == (k.feat, r))), [Ev.ruleFinished k.feat r])
          else some (b.rules.map (fun e => if e.1 == (k.feat, r) then (e.1, c + 1) else e), [])) = some (rules, evR)) :
    RuleLedger { b with rules := rules } (evs ++ evR) ∧ (∀ e ∈ evR, ∃ f r, e = Ev.ruleFinished f r) := by
  obtain ⟨hnd, hl⟩ := hR
  cases hkr : k.rule with
  | none =>
    simp only [hkr, Option.some.injEq, Prod.mk.injEq] at hrp
    obtain ⟨rfl, rfl⟩ := hrp
    exact ⟨⟨hnd, by simpa [keysR] using hl⟩, by simp⟩
  | some r =>
    simp only [hkr] at hrp
    cases hfind : b.rules.find? (fun e => e.1 == (k.feat, r)) with
    | none => simp [hfind] at hrp
    | some v =>
      obtain ⟨vk, c⟩ := v
      simp only [hfind] at hrp
      have hmem : (k.feat, r) ∈ keysR b := find_mem_keys b.rules (k.feat, r) _ hfind
      split at hrp
      · simp only [Option.some.injEq, Prod.mk.injEq] at hrp
        obtain ⟨rfl, rfl⟩ := hrp
        refine ⟨⟨?_, fun f r' => ?_⟩, by simp⟩
        · simp only [keysR]; rw [keys_remove]; exact hnd.filter _
        · obtain ⟨l1, l2⟩ := hl f r'
          simp only [keysR, keys_remove, mem_filter_ne, cnt_append]
          by_cases hfk : (f, r') = (k.feat, r)
          · simp only [Prod.mk.injEq] at hfk
            obtain ⟨rfl, rfl⟩ := hfk
            refine ⟨fun h => absurd rfl h.2, fun _ => ?_⟩
            rw [l1 hmem, cnt_single_ne _ _ (by simp), cnt_single_eq]
          · have hne : ¬ (f = k.feat ∧ r' = r) := fun h => hfk (by simp [h.1, h.2])
            have n1 : cnt (.ruleStarted f r') [Ev.ruleFinished k.feat r] = 0 := cnt_single_ne _ _ (by simp)
            have n2 : cnt (.ruleFinished f r') [Ev.ruleFinished k.feat r] = 0 := cnt_single_ne _ _ (by simpa using hne)
            rw [n1, n2]
            refine ⟨fun h => by simpa using l1 h.1, fun h => ?_⟩
            have : (f, r') ∉ keysR b := fun hm => h ⟨hm, hfk⟩
            simpa using l2 this
      · simp only [Option.some.injEq, Prod.mk.injEq] at hrp
        obtain ⟨rfl, rfl⟩ := hrp
        refine ⟨⟨?_, fun f r' => ?_⟩, by simp⟩
        · simp only [keysR]; rw [keys_update]; exact hnd
        · obtain ⟨l1, l2⟩ := hl f r'
          simp only [keysR, keys_update, append_nil]
          exact ⟨l1, l2⟩

/-- a drained completion notification keeps both ledgers -/
theorem scenarioFinished_ledgers (b b' : Brackets) (k : ScenKey) (retried : Bool) (nRule nFeat : Nat) (evs evs' : List Ev)
    (hF : FeatLedger b evs) (hR : RuleLedger b evs)
    (hs : scenarioFinished b k retried nRule nFeat = some (b', evs')) :
    FeatLedger b' (evs ++ evs') ∧ RuleLedger b' (evs ++ evs') := by
  unfold scenarioFinished at hs
  cases retried with
  | true =>
    simp only [if_true, Option.some.injEq, Prod.mk.injEq] at hs
    obtain ⟨rfl, rfl⟩ := hs
    simpa using ⟨hF, hR⟩
  | false =>
    simp only [Bool.false_eq_true, if_false] at hs
    split at hs
    · cases hs
    · rename_i rules evR hrp
      obtain ⟨hR', hevR⟩ := rulePart_ledger b k nRule evs evR rules hR hrp
      have hz : ∀ f, cnt (.featStarted f) evR = 0 ∧ cnt (.featFinished f) evR = 0 := by
        intro f
        constructor <;> (apply cnt_zero_of_not_mem; intro hm; obtain ⟨f', r', he⟩ := hevR _ hm; cases he)
      obtain ⟨hF', hrules, tail, htail, htl⟩ := featPart_ledger b k nFeat evs evR rules b' evs' hF hz hs
      refine ⟨hF', ?_⟩
      -- the feature part only appends featFinished events and keeps the rule map
      obtain ⟨rnd, rl⟩ := hR'
      refine ⟨by simpa [keysR, hrules] using rnd, fun f r => ?_⟩
      obtain ⟨l1, l2⟩ := rl f r
      have t1 : cnt (.ruleStarted f r) tail = 0 := cnt_zero_of_not_mem _ _ (by
        intro hm; obtain ⟨f', he⟩ := htl _ hm; cases he)
      have t2 : cnt (.ruleFinished f r) tail = 0 := cnt_zero_of_not_mem _ _ (by
        intro hm; obtain ⟨f', he⟩ := htl _ hm; cases he)
      rw [htail, ← append_assoc, cnt_append, cnt_append (.ruleFinished f r), t1, t2]
      simp only [keysR, hrules] at l1 l2 ⊢
      exact ⟨fun h => by simpa using l1 h, fun h => by simpa using l2 h⟩


/-! ### whole sequences of bracket operations -/

/-- what `execute` does to the bracket bookkeeping: a dispatched batch, or a drained completion -/
inductive BOp where
  | start (batch : List Entry)
  | fin (k : ScenKey) (retried : Bool) (nRule nFeat : Nat)

def brStep (b : Brackets) : BOp → Option (Brackets × List Ev)
  | .start batch => some (startScenarios b batch)
  | .fin k retried nRule nFeat => scenarioFinished b k retried nRule nFeat

def brRun : Brackets → List BOp → Option (Brackets × List Ev)
  | b, [] => some (b, [])
  | b, op :: ops =>
    match brStep b op with
    | none => none
    | some (b1, e1) =>
      match brRun b1 ops with
      | none => none
      | some (b2, e2) => some (b2, e1 ++ e2)

theorem brRun_ledgers (b b' : Brackets) (ops : List BOp) (evs out : List Ev)
    (hF : FeatLedger b evs) (hR : RuleLedger b evs) (h : brRun b ops = some (b', out)) :
    FeatLedger b' (evs ++ out) ∧ RuleLedger b' (evs ++ out) := by
  induction ops generalizing b evs out with
  | nil =>
    simp only [brRun, Option.some.injEq, Prod.mk.injEq] at h
    obtain ⟨rfl, rfl⟩ := h
    simpa using ⟨hF, hR⟩
  | cons op ops ih =>
    simp only [brRun] at h
    cases hs : brStep b op with
    | none => simp [hs] at h
    | some r1 =>
      obtain ⟨b1, e1⟩ := r1
      simp only [hs] at h
      cases hr : brRun b1 ops with
      | none => simp [hr] at h
      | some r2 =>
        obtain ⟨b2, e2⟩ := r2
        simp only [hr, Option.some.injEq, Prod.mk.injEq] at h
        obtain ⟨rfl, rfl⟩ := h
        have hstep : FeatLedger b1 (evs ++ e1) ∧ RuleLedger b1 (evs ++ e1) := by
          cases op with
          | start batch =>
            simp only [brStep, Option.some.injEq] at hs
            have := startScenarios_ledgers b batch evs hF hR
            rw [hs] at this
            exact this
          | fin k retried nRule nFeat =>
            exact scenarioFinished_ledgers b b1 k retried nRule nFeat evs e1 hF hR hs
        have := ih b1 (evs ++ e1) e2 hstep.1 hstep.2 hr
        simpa [append_assoc] using this

theorem cnt_map_featFinished (f : Nat) (l : List Nat) (hnd : l.Nodup) :
    (f ∈ l → cnt (.featFinished f) (l.map Ev.featFinished) = 1) ∧ (f ∉ l → cnt (.featFinished f) (l.map Ev.featFinished) = 0) := by
  induction l with
  | nil => simp [cnt]
  | cons a rest ih =>
    rw [nodup_cons] at hnd
    obtain ⟨i1, i2⟩ := ih hnd.2
    simp only [map_cons, cnt, count_cons, mem_cons, beq_iff_eq, Ev.featFinished.injEq] at i1 i2 ⊢
    by_cases hfa : a = f
    · subst hfa
      have := i2 hnd.1
      refine ⟨fun _ => by simp [this], fun h => absurd (Or.inl rfl) h⟩
    · refine ⟨fun h => ?_, fun h => ?_⟩
      · rcases h with h | h
        · exact absurd h.symm hfa
        · simp [i1 h, hfa]
      · have : f ∉ rest := fun hm => h (Or.inr hm)
        simp [i2 this, hfa]

theorem cnt_map_ruleFinished (f r : Nat) (l : List (Nat × Nat)) (hnd : l.Nodup) :
    ((f, r) ∈ l → cnt (.ruleFinished f r) (l.map (fun fr => Ev.ruleFinished fr.1 fr.2)) = 1) ∧
    ((f, r) ∉ l → cnt (.ruleFinished f r) (l.map (fun fr => Ev.ruleFinished fr.1 fr.2)) = 0) := by
  induction l with
  | nil => simp [cnt]
  | cons a rest ih =>
    rw [nodup_cons] at hnd
    obtain ⟨a1, a2⟩ := a
    obtain ⟨i1, i2⟩ := ih hnd.2
    simp only [map_cons, cnt, count_cons, mem_cons, beq_iff_eq, Ev.ruleFinished.injEq, Prod.mk.injEq] at i1 i2 ⊢
    by_cases hfa : a1 = f ∧ a2 = r
    · obtain ⟨rfl, rfl⟩ := hfa
      have := i2 hnd.1
      refine ⟨fun _ => by simp [this], fun h => absurd (Or.inl ⟨rfl, rfl⟩) h⟩
    · refine ⟨fun h => ?_, fun h => ?_⟩
      · rcases h with h | h
        · exact absurd ⟨h.1.symm, h.2.symm⟩ hfa
        · simp [i1 h, hfa]
      · have : (f, r) ∉ rest := fun hm => h (Or.inr hm)
        simp [i2 this, hfa]

theorem finishAll_eq (b : Brackets) :
    (finishAll b).1 = (keysR b).map (fun fr => Ev.ruleFinished fr.1 fr.2) ∧ (finishAll b).2 = (keysF b).map Ev.featFinished := by
  simp [finishAll, keysR, keysF]

/-- `finish_all_rules_and_features` closes exactly what is still open: afterwards every Started has its Finished -/
theorem finishAll_balances (b : Brackets) (evs : List Ev) (hF : FeatLedger b evs) (hR : RuleLedger b evs) :
    (∀ f, cnt (.featStarted f) (evs ++ (finishAll b).1 ++ (finishAll b).2) = cnt (.featFinished f) (evs ++ (finishAll b).1 ++ (finishAll b).2)) ∧
    (∀ f r, cnt (.ruleStarted f r) (evs ++ (finishAll b).1 ++ (finishAll b).2) = cnt (.ruleFinished f r) (evs ++ (finishAll b).1 ++ (finishAll b).2)) := by
  obtain ⟨e1, e2⟩ := finishAll_eq b
  rw [e1, e2]
  refine ⟨fun f => ?_, fun f r => ?_⟩
  · obtain ⟨l1, l2⟩ := hF.2 f
    obtain ⟨c1, c2⟩ := cnt_map_featFinished f (keysF b) hF.1
    have z1 : cnt (.featStarted f) ((keysR b).map (fun fr => Ev.ruleFinished fr.1 fr.2)) = 0 := cnt_zero_of_not_mem _ _ (by simp)
    have z2 : cnt (.featFinished f) ((keysR b).map (fun fr => Ev.ruleFinished fr.1 fr.2)) = 0 := cnt_zero_of_not_mem _ _ (by simp)
    have z3 : cnt (.featStarted f) ((keysF b).map Ev.featFinished) = 0 := cnt_zero_of_not_mem _ _ (by simp)
    simp only [cnt_append, z1, z2, z3]
    by_cases hm : f ∈ keysF b
    · rw [l1 hm, c1 hm]
    · rw [l2 hm, c2 hm]
  · obtain ⟨l1, l2⟩ := hR.2 f r
    obtain ⟨c1, c2⟩ := cnt_map_ruleFinished f r (keysR b) hR.1
    have z1 : cnt (.ruleStarted f r) ((keysR b).map (fun fr => Ev.ruleFinished fr.1 fr.2)) = 0 := cnt_zero_of_not_mem _ _ (by simp)
    have z2 : cnt (.ruleStarted f r) ((keysF b).map Ev.featFinished) = 0 := cnt_zero_of_not_mem _ _ (by simp)
    have z3 : cnt (.ruleFinished f r) ((keysF b).map Ev.featFinished) = 0 := cnt_zero_of_not_mem _ _ (by simp)
    simp only [cnt_append, z1, z2, z3]
    by_cases hm : (f, r) ∈ keysR b
    · rw [l1 hm, c1 hm]
    · rw [l2 hm, c2 hm]

end Cuke.BrL
