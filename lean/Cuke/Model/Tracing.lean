import Cuke.Model.Ev
/-
  Model of the log-forwarding protocol of the tracing integration (src/tracing.rs `Collector`,
  `CollectorWriter`, `RecordScenarioId::on_close`, `SpanCloseWaiter`) together with the biased
  `forward_logs` loop of `execute` (src/runner/basic.rs).

  Three FIFO channels: logs `(scenario id?, message)`, closed span ids, waiters `(span id, callback)`.
  `tracing-subscriber` itself (calling the writer once per event, `on_close` on drop) is outside the model.
-/
namespace Cuke.Tr

structure Coll where
  /-- registered attempts: scenario id ↦ (scenario key, retries) -/
  scenarios : List (Nat × ScenKey × Option Retries)
  logs : List (Option Nat × Nat)            -- channel: (scenario id?, message id)
  closes : List Nat                         -- channel: closed span ids
  waits : List (Nat × Nat)                  -- channel: (span id, callback id)
  /-- `span_events`: span ↦ (callbacks registered so far, close received) -/
  spanEvents : List (Nat × List Nat × Bool)
  fired : List Nat                          -- callbacks that were sent `()`
  out : List Ev                             -- Log events forwarded so far
  deriving Repr

def Coll.init : Coll := ⟨[], [], [], [], [], [], []⟩

def setClosed (se : List (Nat × List Nat × Bool)) (id : Nat) : List (Nat × List Nat × Bool) :=
  if se.any (fun e => e.1 == id) then se.map (fun e => if e.1 == id then (e.1, e.2.1, true) else e)
  else se ++ [(id, [], true)]

def addWaiter (se : List (Nat × List Nat × Bool)) (id cb : Nat) : List (Nat × List Nat × Bool) :=
  if se.any (fun e => e.1 == id) then se.map (fun e => if e.1 == id then (e.1, e.2.1 ++ [cb], e.2.2) else e)
  else se ++ [(id, [cb], false)]

/-- `notify_about_closing_spans`: ONE close id, ALL waiters, then fire the complete entries.
    (an entry fires when it has at least one registered callback list and the close was received) -/
def notify (c : Coll) : Coll :=
  let (se, closes) := match c.closes with
    | [] => (c.spanEvents, [])
    | id :: rest => (setClosed c.spanEvents id, rest)
  let se := c.waits.foldl (fun se w => addWaiter se w.1 w.2) se
  let ready := se.filter (fun e => !e.2.1.isEmpty && e.2.2)
  { c with spanEvents := se.filter (fun e => !(!e.2.1.isEmpty && e.2.2)), closes := closes, waits := [],
           fired := c.fired ++ ready.flatMap (fun e => e.2.1) }

/-- the events one log message becomes: its own scenario if the id is registered, otherwise EVERY
    registered scenario (unknown / missing id) -/
def logEventsS (scs : List (Nat × ScenKey × Option Retries)) (l : Option Nat × Nat) : List Ev :=
  match l.1.bind (fun k => scs.find? (fun s => s.1 == k)) with
  | some s => [Ev.scen s.2.1 s.2.2 (.log l.2)]
  | none => scs.map (fun s => Ev.scen s.2.1 s.2.2 (.log l.2))

def logEvents (c : Coll) (l : Option Nat × Nat) : List Ev := logEventsS c.scenarios l

/-- `emitted_logs`: notify, then take one log; `none` when the channel is empty -/
def emittedLogs (c : Coll) : Coll × Option (List Ev) :=
  let c := notify c
  match c.logs with
  | [] => (c, none)
  | l :: rest => ({ c with logs := rest }, some (logEvents c l))

/-- one turn of `forward_logs`: `while let Some(logs) = emitted_logs() { send_all(logs) }`, then yield.
    Fuel = number of queued logs + 1. -/
def turnF : Nat → Coll → Coll
  | 0, c => c
  | fuel + 1, c =>
    match emittedLogs c with
    | (c', none) => c'
    | (c', some evs) => turnF fuel { c' with out := c'.out ++ evs }

def turn (c : Coll) : Coll := turnF (c.logs.length + 1) c

/-! environment / runner actions -/
def emitLog (c : Coll) (sid : Option Nat) (msg : Nat) : Coll := { c with logs := c.logs ++ [(sid, msg)] }
def closeSpan (c : Coll) (id : Nat) : Coll := { c with closes := c.closes ++ [id] }
def waitFor (c : Coll) (id cb : Nat) : Coll := { c with waits := c.waits ++ [(id, cb)] }
def startScenario (c : Coll) (sid : Nat) (k : ScenKey) (ret : Option Retries) : Coll :=
  { c with scenarios := c.scenarios.filter (fun s => !(s.1 == sid)) ++ [(sid, k, ret)] }
def finishScenario (c : Coll) (sid : Nat) : Coll := { c with scenarios := c.scenarios.filter (fun s => !(s.1 == sid)) }

end Cuke.Tr
