import Cuke.Lemmas.Sched
import Cuke.Model.SchedLts
import Cuke.Props.C10
/-!
# C05 — Retries: re-run exactly on failure within budget, fresh, sequential, delayed
Model: `Cuke.nextTry`, `Cuke.Retries.nextTry`, `Cuke.insertRetried`, `Cuke.leftUntilRetry`,
`Cuke.drainQ` and the `endA` / `ins` labels of the scheduler LTS (classes R, Q).
-/
namespace Cuke.C05
open Cuke List Cuke.SchedL

/-- **Retry decision**: a next attempt exists exactly when the attempt failed and a retry is left. -/
theorem retry_iff_failed_and_budget (o : RetryOptions) (failed : Bool) :
    (nextTry (some o) failed).isSome = true ↔ failed = true ∧ 0 < o.retries.left := by
  unfold nextTry RetryOptions.nextTry Retries.nextTry
  cases failed <;> simp
  split <;> simp_all <;> omega

/-- No retry options at all (no tag, no CLI/builder setting): never retried. -/
theorem no_options_never_retried (failed : Bool) : nextTry none failed = none := rfl

/-- A passed or merely skipped attempt (`failed = false`) is never retried. -/
theorem not_failed_never_retried (ret : Option RetryOptions) : nextTry ret false = none := by
  cases ret <;> simp [nextTry]

/-- "Failed" is: failed step, failed hook, or failed World creation — i.e. some Failed event (C10). -/
theorem failed_means_failure_event (sp : AttemptSpec) (wid : Nat) :
    (runAttempt sp wid).failed = true ↔ ∃ e ∈ (runAttempt sp wid).events, C10.isFailureEv e = true :=
  C10.failed_iff_failure_event sp wid

/-- **Counter values**: the next attempt carries `current + 1`, `left - 1`, and the same delay. -/
theorem retries_values (o o' : RetryOptions) (h : nextTry (some o) true = some o') :
    o'.retries.current = o.retries.current + 1 ∧ o'.retries.left + 1 = o.retries.left ∧ o'.after = o.after := by
  unfold nextTry RetryOptions.nextTry Retries.nextTry at h
  simp only [if_true] at h
  by_cases hl : o.retries.left = 0
  · simp [hl] at h
  · simp only [hl, if_false, Option.some.injEq] at h
    subst h
    simp; omega

/-- the k-th attempt of a scenario with budget `N`: `current = k`, `left = N - k` -/
def iterTry : Nat → RetryOptions → Option RetryOptions
  | 0, o => some o
  | k + 1, o => (iterTry k o).bind (fun x => nextTry (some x) true)

/-- **current = k, left = N - k, and at most N + 1 attempts.** Starting from `Retries::initial(N)`,
    attempt `k` exists iff `k ≤ N` and then carries exactly these values. -/
theorem attempts_values_and_bound (N : Nat) (after : Option Nat) (k : Nat) :
    iterTry k ⟨Retries.initial N, after⟩ =
      if k ≤ N then some ⟨⟨k, N - k⟩, after⟩ else none := by
  induction k with
  | zero => simp [iterTry, Retries.initial]
  | succ k ih =>
    simp only [iterTry, ih]
    by_cases h : k ≤ N
    · simp only [h, if_true, Option.bind_some, nextTry, RetryOptions.nextTry, Retries.nextTry]
      by_cases h2 : N - k = 0
      · have : ¬ (k + 1 ≤ N) := by omega
        simp [h2, this]
      · have : k + 1 ≤ N := by omega
        simp [h2, this]; omega
    · have : ¬ (k + 1 ≤ N) := by omega
      simp [h, this]

/-- A retried entry is put at the FRONT of its queue and, if it has a delay, stamped with the clock
    reading taken at that moment (after the failed attempt's Finished event). -/
theorem insertRetried_front (q : Queues) (e : Entry) (now : Nat) :
    (e.serial = true → ∃ e', (insertRetried q e now).serial = e' :: q.serial ∧ (insertRetried q e now).conc = q.conc ∧
        e'.id = e.id ∧ e'.ret = e.ret ∧ e'.t0 = (e.ret.bind (·.after)).map (fun _ => now)) ∧
    (e.serial = false → ∃ e', (insertRetried q e now).conc = e' :: q.conc ∧ (insertRetried q e now).serial = q.serial ∧
        e'.id = e.id ∧ e'.ret = e.ret ∧ e'.t0 = (e.ret.bind (·.after)).map (fun _ => now)) := by
  unfold insertRetried
  constructor <;> intro h <;> simp [h]

/-- **Delay respected**: an entry with delay `d` stamped at `t0` is ready only when strictly more than
    `d` has elapsed on the clock `get` reads. -/
theorem delay_respected (e : Entry) (o : RetryOptions) (d t0 now : Nat)
    (hr : e.ret = some o) (hd : o.after = some d) (ht : e.t0 = some t0) :
    e.ready now = true ↔ d < now - t0 := by
  simp [Entry.ready, leftUntilRetry, hr, hd, ht]
  omega

/-- Entries without a delay, and first attempts, are always ready. -/
theorem no_delay_always_ready (e : Entry) (now : Nat)
    (h : e.t0 = none ∨ e.ret = none ∨ ∃ o, e.ret = some o ∧ o.after = none) : e.ready now = true := by
  unfold Entry.ready leftUntilRetry
  rcases h with h | h | ⟨o, h1, h2⟩
  · cases hr : e.ret with
    | none => simp
    | some o => cases ha : o.after <;> simp [h, ha]
  · simp [h]
  · simp [h1, h2]

/-- Only ready entries are dispatched (so a delayed retry does not start early) … -/
theorem dispatched_are_ready (now : Nat) (ask : Option Nat) (q : Queues) :
    ∀ e ∈ (getBatch (fun e => e.ready now) ask q).1, e.ready now = true := by
  unfold getBatch
  by_cases h0 : (ask == some 0) = true
  · simp [h0]
  · simp only [h0, Bool.false_eq_true, if_false]
    split
    · exact drainQ_all_ready _ _ _
    · exact drainQ_all_ready _ _ _

/-- … while other scenarios keep running meanwhile: a waiting (not ready) entry at the head of a queue
    does not block the ready entries behind it. -/
theorem others_not_blocked (ready : Entry → Bool) (cnt : Option Nat) (e : Entry) (rest : List Entry)
    (h0 : cnt ≠ some 0) (hr : ready e = false) :
    (drainQ ready cnt (e :: rest)).1 = (drainQ ready cnt rest).1 :=
  drainQ_skip_not_ready ready cnt e rest h0 hr

/-- The LTS accepts an attempt's end only with the model's retry verdict: any other `retried` flag is a
    class-R disagreement. -/
theorem end_label_checked (c : SCfg) (s : SState) (id : Nat) (failed retried : Bool) (t : Nat) (e : Entry)
    (he : s.running.find? (fun x => x.id == id) = some e)
    (hbad : retried ≠ (nextTry e.ret failed).isSome) :
    ∃ d ∈ (stepL c s (.endA id failed retried t)).dis, d.cls = .R := by
  simp only [stepL, he]
  have : (retried == (nextTry e.ret failed).isSome) = false := by simpa using hbad
  simp [this, SState.note]

/-! ## Non-vacuity -/
example : nextTry (some ⟨⟨0, 2⟩, some 5⟩) true = some ⟨⟨1, 1⟩, some 5⟩ := by decide
example : iterTry 2 ⟨Retries.initial 2, none⟩ = some ⟨⟨2, 0⟩, none⟩ := by decide
example : iterTry 3 ⟨Retries.initial 2, none⟩ = none := by decide

end Cuke.C05
