import Cuke.Model.Wire
import Cuke.Model.Outline
/-! `outline.expand <feature>` -/
namespace Cuke.Driver
open Cuke Cuke.Wire

def sP : P Str := do let s ← str; pure s.toList
def tableP : P (Option (List (List Str))) := opt (list (list sP))

def ostepP : P OStep := do
  let value ← sP; let doc ← opt sP; let table ← tableP; let line ← nat; let col ← nat
  pure { value, doc, table, line, col }

def oexP : P OExamples := do
  let table ← tableP; let tags ← list sP; let line ← nat; let col ← nat
  pure { table, tags, line, col }

def oscenP : P OScen := do
  let name ← sP; let tags ← list sP; let steps ← list ostepP; let examples ← list oexP
  let line ← nat; let col ← nat
  pure { name, tags, steps, examples, line, col }

def ofeatP : P OFeat := do
  let scens ← list oscenP
  let rules ← list (list oscenP)
  pure { scens, rules }

def showS (s : Str) : String := encodeStr (String.ofList s)
def showTable : Option (List (List Str)) → String
  | none => "-"
  | some rows => showList (fun r => showList showS r) rows

def showOStep (s : OStep) : String :=
  s!"{showS s.value} {showOpt showS s.doc} {showTable s.table} {s.line} {s.col}"
def showOEx (e : OExamples) : String := s!"{showTable e.table} {showList showS e.tags} {e.line} {e.col}"
def showOScen (s : OScen) : String :=
  s!"{showS s.name} {showList showS s.tags} {showList showOStep s.steps} {showList showOEx s.examples} {s.line} {s.col}"
def showOFeat (f : OFeat) : String :=
  s!"{showList showOScen f.scens} {showList (fun r => showList showOScen r) f.rules}"

def handleOutlineExpand : Toks → Option String :=
  fun ts => runAll (do
    let f ← ofeatP
    pure (match expandFeature f with
      | .ok f' => "ok " ++ showOFeat f'
      | .error e => s!"err {showS e.name} {e.line} {e.col}")) ts

end Cuke.Driver
