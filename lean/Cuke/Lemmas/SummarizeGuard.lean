import Cuke.Model.Summarize
/-!
  The guard of the one truncated subtraction in the Summarize model.

  `Summarize::handle_scenario` does `self.scenarios.skipped -= 1` when a `Hook::Failed` arrives for a scenario whose
  indicator is `Skipped` (and leaves the indicator at `Skipped`). In the code this is an arithmetic underflow when
  `skipped = 0` (a panic with overflow checks, a wrap without); the model's `Nat` subtraction would silently give 0.
  Here: on every stream in which no scenario path has more than one failed hook — in particular on every Runner
  stream — the decrement is never reached with `skipped = 0`, so the model's subtraction is exact there.
-/
namespace Cuke.SummG
open Cuke List

set_option linter.unusedSimpArgs false
set_option linter.unusedVariables false

def step (cat : Catalog) (s : Summ) (e : Ev) : Summ := ((s.pre cat e).post).1

/-- the scenario path of a failed-hook event -/
def hookFailedKey? : Ev → Option ScenKey
  | .scen k _ (.hook _ r) => if r.isFailed then some k else none
  | _ => none

def hookFailedKeys (evs : List Ev) : List ScenKey := evs.filterMap hookFailedKey?

/-- the decrement is only reached with something to decrement -/
def guardOk (s : Summ) (e : Ev) : Bool :=
  match hookFailedKey? e with
  | some k => !(s.isInProgress && s.handled.get k == some .skipped) || decide (0 < s.scenarios.skipped)
  | none => true

def guardRun (cat : Catalog) : Summ → List Ev → Bool
  | _, [] => true
  | s, e :: es => guardOk s e && guardRun cat (step cat s e) es

/-! ## the invariant -/

def keys (h : Handled) : List ScenKey := h.map (·.1)

/-- entries marked Skipped whose path has not had a failed hook yet -/
def openSkipped (h : Handled) (seen : List ScenKey) : Nat :=
  (h.filter (fun e => e.2 == .skipped && !seen.contains e.1)).length

def GInv (s : Summ) (seen : List ScenKey) : Prop :=
  (keys s.handled).Nodup ∧ openSkipped s.handled seen ≤ s.scenarios.skipped

theorem keys_remove (h : Handled) (k : ScenKey) : keys (h.remove k) = (keys h).filter (fun x => !(x == k)) := by
  simp [keys, Handled.remove, filter_map, Function.comp_def]

theorem nodup_remove (h : Handled) (k : ScenKey) (hn : (keys h).Nodup) : (keys (h.remove k)).Nodup := by
  rw [keys_remove]; exact hn.filter _

theorem not_mem_remove (h : Handled) (k : ScenKey) : k ∉ keys (h.remove k) := by
  rw [keys_remove]; simp

theorem nodup_insert (h : Handled) (k : ScenKey) (i : Indicator) (hn : (keys h).Nodup) : (keys (h.insert k i)).Nodup := by
  simp only [Handled.insert, keys, map_cons, nodup_cons]
  exact ⟨not_mem_remove h k, nodup_remove h k hn⟩

theorem filter_length_mono {α} (l : List α) (p q : α → Bool) (h : ∀ a, p a = true → q a = true) :
    (l.filter p).length ≤ (l.filter q).length := by
  induction l with
  | nil => simp
  | cons a rest ih =>
    simp only [filter_cons]
    by_cases hp : p a = true
    · simp only [hp, h a hp, if_true, length_cons]; omega
    · have hp' : p a = false := by simpa using hp
      simp only [hp', Bool.false_eq_true, if_false]
      split
      · simp only [length_cons]; omega
      · exact ih

theorem openSkipped_remove_le (h : Handled) (k : ScenKey) (seen : List ScenKey) :
    openSkipped (h.remove k) seen ≤ openSkipped h seen := by
  simp only [openSkipped, Handled.remove, filter_filter]
  apply filter_length_mono
  intro e he
  simp only [Bool.and_eq_true] at he ⊢
  exact he.1

theorem openSkipped_insert_le (h : Handled) (k : ScenKey) (i : Indicator) (seen : List ScenKey) :
    openSkipped (h.insert k i) seen ≤ openSkipped h seen + 1 := by
  simp only [Handled.insert, openSkipped, filter_cons]
  split
  · simp only [length_cons]
    exact Nat.succ_le_succ (openSkipped_remove_le h k seen)
  · exact Nat.le_succ_of_le (openSkipped_remove_le h k seen)

theorem openSkipped_insert_other (h : Handled) (k : ScenKey) (i : Indicator) (seen : List ScenKey) (hi : i ≠ .skipped) :
    openSkipped (h.insert k i) seen ≤ openSkipped h seen := by
  simp only [Handled.insert, openSkipped, filter_cons]
  have : ((i == Indicator.skipped) && !seen.contains k) = false := by
    cases i <;> simp_all
  simp only [this, Bool.false_eq_true, if_false]
  exact openSkipped_remove_le h k seen

theorem openSkipped_seen_le (h : Handled) (k : ScenKey) (seen : List ScenKey) :
    openSkipped h (k :: seen) ≤ openSkipped h seen := by
  simp only [openSkipped]
  apply filter_length_mono
  intro e he
  simp only [Bool.and_eq_true, Bool.not_eq_true', contains_cons, Bool.or_eq_false_iff] at he ⊢
  exact ⟨he.1, he.2.2⟩

/-- if `k` is marked Skipped and has not had a failed hook, it is counted — and marking it seen uncounts exactly it -/
theorem openSkipped_take (h : Handled) (k : ScenKey) (seen : List ScenKey) (hn : (keys h).Nodup)
    (hg : h.get k = some .skipped) (hk : k ∉ seen) :
    openSkipped h (k :: seen) + 1 = openSkipped h seen := by
  induction h with
  | nil => simp [Handled.get] at hg
  | cons e rest ih =>
    simp only [keys, map_cons, nodup_cons] at hn
    by_cases hek : (e.1 == k) = true
    · have hek' : e.1 = k := by simpa using hek
      have hi : e.2 = .skipped := by
        simp only [Handled.get, find?, hek, Option.map_some, Option.some.injEq] at hg
        exact hg
      -- `k` does not occur in the rest
      have hrest : ∀ x ∈ rest, (x.1 == k) = false := by
        intro x hx
        have : x.1 ≠ e.1 := fun hc => hn.1 (by rw [← hc]; exact mem_map.mpr ⟨x, hx, rfl⟩)
        rw [hek'] at this
        simpa using this
      have hsame : rest.filter (fun e => e.2 == .skipped && !(e.1 == k || seen.contains e.1)) =
          rest.filter (fun e => e.2 == .skipped && !seen.contains e.1) := by
        apply filter_congr
        intro x hx
        have := hrest x hx
        simp only [this, Bool.false_or]
      have hkc : seen.contains k = false := by simpa using hk
      simp only [openSkipped, filter_cons, hi, hek', beq_self_eq_true, Bool.true_and, contains_cons, Bool.true_or,
        Bool.not_true, Bool.false_eq_true, if_false, hkc, Bool.not_false, if_true, length_cons, hsame]
    · have hek' : (e.1 == k) = false := by simpa using hek
      have hg' : Handled.get rest k = some .skipped := by
        simp only [Handled.get, find?, hek'] at hg ⊢
        exact hg
      have := ih hn.2 hg'
      simp only [openSkipped, filter_cons, contains_cons, hek', Bool.false_or] at this ⊢
      split
      · simp only [length_cons]; omega
      · exact this

/-! ## the stream condition: at most one failed hook after a skipped step, per attempt

A ghost that reads ONLY the stream: `sk` = the paths with a skipped step since their last `Scenario::Finished`,
`used` = those of them that have had a failed hook since. The condition is violated (`none`) exactly when a failed
hook arrives for a path that is in both. Every Runner stream satisfies it: a skipped step ends the attempt's steps,
then the After hook runs once, then Finished; a failed Before hook precedes any step. A stream in which no path has
two failed hooks at all satisfies it trivially (`ghost_of_nodup`). -/

structure Ghost where
  sk : List ScenKey := []
  used : List ScenKey := []

def ghostStep (g : Ghost) : Ev → Option Ghost
  | .scen k _ (.hook _ r) =>
    if r.isFailed then
      if g.sk.contains k then (if g.used.contains k then none else some { g with used := k :: g.used })
      else some g
    else some g
  | .scen k _ (.bg _ .skipped) => some { sk := k :: g.sk.filter (fun x => !(x == k)), used := g.used.filter (fun x => !(x == k)) }
  | .scen k _ (.step _ .skipped) => some { sk := k :: g.sk.filter (fun x => !(x == k)), used := g.used.filter (fun x => !(x == k)) }
  | .scen k _ .finished => some { sk := g.sk.filter (fun x => !(x == k)), used := g.used.filter (fun x => !(x == k)) }
  | _ => some g

def ghostRun : Ghost → List Ev → Bool
  | _, [] => true
  | g, e :: es => match ghostStep g e with
    | some g' => ghostRun g' es
    | none => false

/-- the stream never has a second failed hook after a skipped step within one attempt -/
def OneFailedHookPerSkip (evs : List Ev) : Bool := ghostRun {} evs

/-! ## one event -/

def GInv2 (s : Summ) (g : Ghost) : Prop :=
  (keys s.handled).Nodup ∧ openSkipped s.handled g.used ≤ s.scenarios.skipped ∧
  (∀ k, s.handled.get k = some .skipped → k ∈ g.sk)

theorem contains_filter_ne (l : List ScenKey) (k x : ScenKey) (h : (x == k) = false) :
    (l.filter (fun y => !(y == k))).contains x = l.contains x := by
  rw [Bool.eq_iff_iff]
  simp only [contains_iff_mem, mem_filter, Bool.not_eq_true']
  constructor
  · exact fun hh => hh.1
  · exact fun hh => ⟨hh, h⟩

theorem get_cons (e : ScenKey × Indicator) (rest : Handled) (x : ScenKey) :
    Handled.get (e :: rest) x = if e.1 == x then some e.2 else Handled.get rest x := by
  simp only [Handled.get, find?_cons]
  split <;> simp_all

theorem remove_cons (e : ScenKey × Indicator) (rest : Handled) (k : ScenKey) :
    Handled.remove (e :: rest) k = if e.1 == k then Handled.remove rest k else e :: Handled.remove rest k := by
  simp only [Handled.remove, filter_cons]
  split <;> simp_all

theorem get_remove_ne (h : Handled) (k x : ScenKey) (hx : (x == k) = false) : (h.remove k).get x = h.get x := by
  induction h with
  | nil => rfl
  | cons e rest ih =>
    rw [remove_cons, get_cons]
    by_cases he : (e.1 == k) = true
    · have hek : e.1 = k := by simpa using he
      have hxe : (e.1 == x) = false := by
        rw [hek]
        have : x ≠ k := by simpa using hx
        simpa using fun hc : k = x => this hc.symm
      simp only [he, if_true, hxe, Bool.false_eq_true, if_false]
      exact ih
    · have he' : (e.1 == k) = false := by simpa using he
      simp only [he', Bool.false_eq_true, if_false]
      rw [get_cons]
      split
      · rfl
      · exact ih

theorem get_of_mem_nodup (h : Handled) (hn : (keys h).Nodup) (e : ScenKey × Indicator) (he : e ∈ h) :
    h.get e.1 = some e.2 := by
  induction h with
  | nil => cases he
  | cons a rest ih =>
    simp only [keys, map_cons, nodup_cons] at hn
    rw [get_cons]
    rcases mem_cons.mp he with rfl | hm
    · simp
    · have hne : (a.1 == e.1) = false := by
        have : a.1 ≠ e.1 := fun hc => hn.1 (by rw [hc]; exact mem_map.mpr ⟨e, hm, rfl⟩)
        simpa using this
      simp only [hne, Bool.false_eq_true, if_false]
      exact ih hn.2 hm

theorem get_remove_self' (h : Handled) (k : ScenKey) : (h.remove k).get k = none := by
  induction h with
  | nil => rfl
  | cons e rest ih =>
    rw [remove_cons]
    by_cases he : (e.1 == k) = true
    · simp only [he, if_true]; exact ih
    · have he' : (e.1 == k) = false := by simpa using he
      simp only [he', Bool.false_eq_true, if_false]
      rw [get_cons]
      simp only [he', Bool.false_eq_true, if_false]
      exact ih

theorem get_insert_self' (h : Handled) (k : ScenKey) (i : Indicator) : (h.insert k i).get k = some i := by
  simp only [Handled.insert]; rw [get_cons]; simp

theorem get_insert_ne (h : Handled) (k x : ScenKey) (i : Indicator) (hx : (x == k) = false) :
    (h.insert k i).get x = h.get x := by
  have hkx : (k == x) = false := by
    have : x ≠ k := by simpa using hx
    simpa using fun hc : k = x => this hc.symm
  simp only [Handled.insert]
  rw [get_cons]
  simp only [hkx, Bool.false_eq_true, if_false]
  exact get_remove_ne h k x hx

/-- counting against `used` with `k` taken out: only `k`'s own entry can be counted in addition -/
theorem openSkipped_filter_other (h : Handled) (k : ScenKey) (used : List ScenKey) (hk : k ∉ keys h) :
    openSkipped h (used.filter (fun x => !(x == k))) = openSkipped h used := by
  simp only [openSkipped]
  congr 1
  apply filter_congr
  intro e he
  have : (e.1 == k) = false := by
    have : e.1 ≠ k := fun hc => hk (by rw [← hc]; exact mem_map.mpr ⟨e, he, rfl⟩)
    simpa using this
  rw [contains_filter_ne used k e.1 this]

theorem openSkipped_remove_filter (h : Handled) (k : ScenKey) (used : List ScenKey) :
    openSkipped (h.remove k) (used.filter (fun x => !(x == k))) ≤ openSkipped h used := by
  rw [openSkipped_filter_other _ k used (not_mem_remove h k)]
  exact openSkipped_remove_le h k used

theorem ginv2_frame (s s' : Summ) (g : Ghost) (hh : s'.handled = s.handled)
    (hs : s'.scenarios.skipped = s.scenarios.skipped) (h : GInv2 s g) : GInv2 s' g := by
  unfold GInv2; rw [hh, hs]; exact h

/-- a step result that is not Skipped: the ghost does not move -/
theorem handleStep_ginv2 (s : Summ) (k : ScenKey) (isLast : Bool) (r : StepRes) (ret : Option Retries) (g : Ghost)
    (hr : r ≠ .skipped) (h : GInv2 s g) : GInv2 (s.handleStep k isLast r ret) g := by
  have other : ∀ (i : Indicator) (s1 : Summ), i ≠ .skipped → s1.handled = s.handled.insert k i →
      s1.scenarios.skipped = s.scenarios.skipped → GInv2 s1 g := by
    intro i s1 hi h1 h2
    refine ⟨by rw [h1]; exact nodup_insert _ k _ h.1, by rw [h1, h2]; exact Nat.le_trans (openSkipped_insert_other _ k _ _ hi) h.2.1, ?_⟩
    intro x hx
    rw [h1] at hx
    by_cases hxk : (x == k) = true
    · have : x = k := by simpa using hxk
      subst this
      rw [get_insert_self'] at hx
      exact absurd (Option.some.inj hx) hi
    · have hxk' : (x == k) = false := by simpa using hxk
      rw [get_insert_ne _ _ _ _ hxk'] at hx
      exact h.2.2 x hx
  cases r with
  | started => exact h
  | skipped => exact absurd rfl hr
  | passed =>
    simp only [Summ.handleStep]
    split
    · refine ⟨nodup_remove _ k h.1, Nat.le_trans (openSkipped_remove_le _ k _) h.2.1, ?_⟩
      intro x hx
      by_cases hxk : (x == k) = true
      · have : x = k := by simpa using hxk
        subst this
        rw [get_remove_self'] at hx; cases hx
      · have hxk' : (x == k) = false := by simpa using hxk
        rw [get_remove_ne _ _ _ hxk'] at hx
        exact h.2.2 x hx
    · exact ginv2_frame s _ g rfl rfl h
  | failed err =>
    simp only [Summ.handleStep]
    split
    · split
      · exact other .retried _ (by decide) rfl rfl
      · exact other .retried _ (by decide) rfl rfl
    · exact other .failed _ (by decide) rfl rfl

/-- a Skipped step: a fresh indicator, counted once more; the ghost forgets an earlier failed hook of that path -/
theorem handleStep_skipped_ginv2 (s : Summ) (k : ScenKey) (isLast : Bool) (ret : Option Retries) (g : Ghost) (h : GInv2 s g) :
    GInv2 (s.handleStep k isLast .skipped ret)
      { sk := k :: g.sk.filter (fun x => !(x == k)), used := g.used.filter (fun x => !(x == k)) } := by
  simp only [Summ.handleStep]
  refine ⟨nodup_insert _ k _ h.1, ?_, ?_⟩
  · show openSkipped (s.handled.insert k .skipped) (g.used.filter (fun x => !(x == k))) ≤ s.scenarios.skipped + 1
    simp only [Handled.insert, openSkipped, filter_cons]
    have hrest := openSkipped_remove_filter s.handled k g.used
    have h21 := h.2.1
    simp only [openSkipped] at hrest h21
    split
    · simp only [length_cons]; omega
    · omega
  · intro x hx
    by_cases hxk : (x == k) = true
    · have : x = k := by simpa using hxk
      subst this; simp
    · have hxk' : (x == k) = false := by simpa using hxk
      rw [get_insert_ne _ _ _ _ hxk'] at hx
      have := h.2.2 x hx
      simp only [mem_cons, mem_filter, Bool.not_eq_true']
      exact Or.inr ⟨this, hxk'⟩

theorem handleScenFinished_ginv2 (s : Summ) (k : ScenKey) (g : Ghost) (h : GInv2 s g) :
    GInv2 (s.handleScenFinished k) { sk := g.sk.filter (fun x => !(x == k)), used := g.used.filter (fun x => !(x == k)) } := by
  have keepsk : ∀ x, (x == k) = false → x ∈ g.sk → x ∈ g.sk.filter (fun y => !(y == k)) := by
    intro x hx hm; simp only [mem_filter, Bool.not_eq_true']; exact ⟨hm, hx⟩
  simp only [Summ.handleScenFinished]
  cases hg : s.handled.get k with
  | none =>
    simp only []
    -- `k` is not a key of the map
    have hk : k ∉ keys s.handled := by
      intro hm
      simp only [keys, mem_map] at hm
      obtain ⟨e, he, hek⟩ := hm
      have : (s.handled.find? (fun e => e.1 == k)).isSome = true := by
        rw [find?_isSome]; exact ⟨e, he, by simp [hek]⟩
      simp only [Handled.get, Option.map_eq_none_iff] at hg
      rw [hg] at this; cases this
    refine ⟨h.1, by rw [openSkipped_filter_other _ k _ hk]; exact h.2.1, ?_⟩
    intro x hx
    by_cases hxk : (x == k) = true
    · have : x = k := by simpa using hxk
      subst this; rw [hg] at hx; cases hx
    · exact keepsk x (by simpa using hxk) (h.2.2 x hx)
  | some i =>
    cases i with
    | retried =>
      simp only []
      refine ⟨h.1, ?_, ?_⟩
      · -- `k`'s entry is Retried: not counted, whatever `used` says about `k`
        simp only [openSkipped]
        refine Nat.le_trans (Nat.le_of_eq ?_) h.2.1
        congr 1
        apply filter_congr
        intro e he
        by_cases hek : (e.1 == k) = true
        · have hekk : e.1 = k := by simpa using hek
          -- nodup keys: this entry is the one `get` finds, so it is Retried
          have hfind := get_of_mem_nodup s.handled h.1 e he
          rw [hekk, hg] at hfind
          have h2 : e.2 = .retried := (Option.some.inj hfind).symm
          rw [h2]
          rfl
        · have hek' : (e.1 == k) = false := by simpa using hek
          rw [contains_filter_ne g.used k e.1 hek']
      · intro x hx
        by_cases hxk : (x == k) = true
        · have : x = k := by simpa using hxk
          subst this; rw [hg] at hx; cases hx
        · exact keepsk x (by simpa using hxk) (h.2.2 x hx)
    | failed =>
      simp only []
      refine ⟨nodup_remove _ k h.1, Nat.le_trans (openSkipped_remove_filter _ k _) h.2.1, ?_⟩
      intro x hx
      by_cases hxk : (x == k) = true
      · have : x = k := by simpa using hxk
        subst this; rw [get_remove_self'] at hx; cases hx
      · have hxk' : (x == k) = false := by simpa using hxk
        rw [get_remove_ne _ _ _ hxk'] at hx
        exact keepsk x hxk' (h.2.2 x hx)
    | skipped =>
      simp only []
      refine ⟨nodup_remove _ k h.1, Nat.le_trans (openSkipped_remove_filter _ k _) h.2.1, ?_⟩
      intro x hx
      by_cases hxk : (x == k) = true
      · have : x = k := by simpa using hxk
        subst this; rw [get_remove_self'] at hx; cases hx
      · have hxk' : (x == k) = false := by simpa using hxk
        rw [get_remove_ne _ _ _ hxk'] at hx
        exact keepsk x hxk' (h.2.2 x hx)

theorem ginv2_more_used (s : Summ) (g : Ghost) (k : ScenKey) (h : GInv2 s g) : GInv2 s { g with used := k :: g.used } :=
  ⟨h.1, Nat.le_trans (openSkipped_seen_le _ k g.used) h.2.1, h.2.2⟩

/-- a failed hook, when the stream condition allows it: the decrement is guarded, and the invariant moves on -/
theorem handleHookFailed_ginv2 (s : Summ) (k : ScenKey) (ret : Option Retries) (t : HookTy) (r : HookRes) (g g' : Ghost)
    (hf : r.isFailed = true) (h : GInv2 s g) (hgs : ghostStep g (.scen k ret (.hook t r)) = some g') :
    (s.handled.get k = some .skipped → 0 < s.scenarios.skipped) ∧ GInv2 (s.handleHookFailed k) g' := by
  simp only [ghostStep, hf, if_true] at hgs
  -- what the ghost says about `k`
  have hcase : (g.sk.contains k = true ∧ g.used.contains k = false ∧ g' = { g with used := k :: g.used }) ∨
      (g.sk.contains k = false ∧ g' = g) := by
    by_cases h1 : g.sk.contains k = true
    · simp only [h1, if_true] at hgs
      by_cases h2 : g.used.contains k = true
      · simp only [h2, if_true] at hgs
        cases hgs
      · have h2' : g.used.contains k = false := by simpa using h2
        simp only [h2', Bool.false_eq_true, if_false, Option.some.injEq] at hgs
        exact Or.inl ⟨h1, h2', hgs.symm⟩
    · have h1' : g.sk.contains k = false := by simpa using h1
      simp only [h1', Bool.false_eq_true, if_false, Option.some.injEq] at hgs
      exact Or.inr ⟨h1', hgs.symm⟩
  have hguardk : s.handled.get k = some .skipped → k ∉ g.used ∧ g' = { g with used := k :: g.used } := by
    intro hg
    have hsk := h.2.2 k hg
    rcases hcase with ⟨_, h2, h3⟩ | ⟨h1, _⟩
    · exact ⟨by simpa using h2, h3⟩
    · have : g.sk.contains k = true := by simpa using hsk
      rw [h1] at this; cases this
  constructor
  · intro hg
    obtain ⟨hk, _⟩ := hguardk hg
    have := openSkipped_take s.handled k g.used h.1 hg hk
    have := h.2.1
    omega
  · -- the ghost after: `g` or `g` with `k` used
    have hmono : ∀ s1 : Summ, GInv2 s1 g → GInv2 s1 g' := by
      intro s1 h1
      rcases hcase with ⟨_, _, h3⟩ | ⟨_, h3⟩
      · rw [h3]; exact ginv2_more_used s1 g k h1
      · rw [h3]; exact h1
    simp only [Summ.handleHookFailed]
    cases hg : s.handled.get k with
    | none =>
      apply hmono
      refine ⟨nodup_insert _ k _ h.1, Nat.le_trans (openSkipped_insert_other _ k _ _ (by decide)) h.2.1, ?_⟩
      intro x hx
      by_cases hxk : (x == k) = true
      · have : x = k := by simpa using hxk
        subst this
        rw [get_insert_self'] at hx; cases hx
      · have hxk' : (x == k) = false := by simpa using hxk
        rw [get_insert_ne _ _ _ _ hxk'] at hx
        exact h.2.2 x hx
    | some i =>
      cases i with
      | failed => exact hmono _ (ginv2_frame s _ g rfl rfl h)
      | retried => exact hmono _ (ginv2_frame s _ g rfl rfl h)
      | skipped =>
        obtain ⟨hk, hg'⟩ := hguardk hg
        rw [hg']
        have ht := openSkipped_take s.handled k g.used h.1 hg hk
        refine ⟨h.1, ?_, h.2.2⟩
        have := h.2.1
        show openSkipped s.handled (k :: g.used) ≤ s.scenarios.skipped - 1
        omega

theorem step_handled (cat : Catalog) (s : Summ) (e : Ev) :
    (step cat s e).handled = (s.pre cat e).handled ∧ (step cat s e).scenarios = (s.pre cat e).scenarios := by
  simp only [step, Summ.post]; split <;> exact ⟨rfl, rfl⟩

theorem step_ginv2 (cat : Catalog) (s : Summ) (e : Ev) (g g' : Ghost) (h : GInv2 s g) (hgs : ghostStep g e = some g')
    (hip : s.isInProgress = true) :
    guardOk s e = true ∧ GInv2 (step cat s e) g' := by
  obtain ⟨hh, hs⟩ := step_handled cat s e
  have lift : ∀ g1, GInv2 (s.pre cat e) g1 → GInv2 (step cat s e) g1 := fun g1 hp =>
    ginv2_frame _ _ g1 hh (by rw [hs]) hp
  · have hpre : s.pre cat e = s.count cat e := by simp [Summ.pre, hip]
    rw [hpre] at lift
    have same : ∀ (hk : hookFailedKey? e = none) (heq : g' = g) (hc : GInv2 (s.count cat e) g),
        guardOk s e = true ∧ GInv2 (step cat s e) g' := by
      intro hk heq hc
      exact ⟨by simp [guardOk, hk], by rw [heq]; exact lift g hc⟩
    cases e with
    | scen k ret se =>
      cases se with
      | hook t r =>
        by_cases hf : r.isFailed = true
        · have hkey : hookFailedKey? (.scen k ret (.hook t r)) = some k := by simp [hookFailedKey?, hf]
          obtain ⟨hguard, hinv⟩ := handleHookFailed_ginv2 s k ret t r g g' hf h hgs
          refine ⟨?_, ?_⟩
          · simp only [guardOk, hkey, hip, Bool.true_and, Bool.or_eq_true, Bool.not_eq_true', decide_eq_true_eq]
            cases hg : s.handled.get k with
            | none => left; simp
            | some i =>
              cases i with
              | skipped => right; exact hguard hg
              | failed => left; simp
              | retried => left; simp
          · apply lift
            simpa [Summ.count, Summ.handleScenario, hf] using hinv
        · have hf' : r.isFailed = false := by simpa using hf
          have hg' : g' = g := by simp [ghostStep, hf'] at hgs; exact hgs.symm
          exact same (by simp [hookFailedKey?, hf']) hg' (by simpa [Summ.count, Summ.handleScenario, hf'] using h)
      | started => exact same rfl (by simp [ghostStep] at hgs; exact hgs.symm) (by simpa [Summ.count, Summ.handleScenario] using h)
      | log m => exact same rfl (by simp [ghostStep] at hgs; exact hgs.symm) (by simpa [Summ.count, Summ.handleScenario] using h)
      | bg i r =>
        cases r with
        | skipped =>
          simp only [ghostStep, Option.some.injEq] at hgs
          refine ⟨by simp [guardOk, hookFailedKey?], ?_⟩
          rw [← hgs]
          apply lift
          simpa [Summ.count, Summ.handleScenario] using handleStep_skipped_ginv2 s k false ret g h
        | started => exact same rfl (by simp [ghostStep] at hgs; exact hgs.symm) (by simpa [Summ.count, Summ.handleScenario] using handleStep_ginv2 s k false .started ret g (by decide) h)
        | passed => exact same rfl (by simp [ghostStep] at hgs; exact hgs.symm) (by simpa [Summ.count, Summ.handleScenario] using handleStep_ginv2 s k false .passed ret g (by decide) h)
        | failed err => exact same rfl (by simp [ghostStep] at hgs; exact hgs.symm) (by simpa [Summ.count, Summ.handleScenario] using handleStep_ginv2 s k false (.failed err) ret g (by simp) h)
      | step i r =>
        cases r with
        | skipped =>
          simp only [ghostStep, Option.some.injEq] at hgs
          refine ⟨by simp [guardOk, hookFailedKey?], ?_⟩
          rw [← hgs]
          apply lift
          simpa [Summ.count, Summ.handleScenario] using handleStep_skipped_ginv2 s k _ ret g h
        | started => exact same rfl (by simp [ghostStep] at hgs; exact hgs.symm) (by simpa [Summ.count, Summ.handleScenario] using handleStep_ginv2 s k _ .started ret g (by decide) h)
        | passed => exact same rfl (by simp [ghostStep] at hgs; exact hgs.symm) (by simpa [Summ.count, Summ.handleScenario] using handleStep_ginv2 s k _ .passed ret g (by decide) h)
        | failed err => exact same rfl (by simp [ghostStep] at hgs; exact hgs.symm) (by simpa [Summ.count, Summ.handleScenario] using handleStep_ginv2 s k _ (.failed err) ret g (by simp) h)
      | finished =>
        simp only [ghostStep, Option.some.injEq] at hgs
        refine ⟨by simp [guardOk, hookFailedKey?], ?_⟩
        rw [← hgs]
        apply lift
        simpa [Summ.count, Summ.handleScenario] using handleScenFinished_ginv2 s k g h
    | started => exact same rfl (by simp [ghostStep] at hgs; exact hgs.symm) (by simpa [Summ.count] using h)
    | parsingFinished a b c d f => exact same rfl (by simp [ghostStep] at hgs; exact hgs.symm) (by simpa [Summ.count] using h)
    | parseErr i => exact same rfl (by simp [ghostStep] at hgs; exact hgs.symm) (ginv2_frame s _ g rfl rfl h)
    | finished => exact same rfl (by simp [ghostStep] at hgs; exact hgs.symm) (ginv2_frame s _ g rfl rfl h)
    | featStarted f => exact same rfl (by simp [ghostStep] at hgs; exact hgs.symm) (ginv2_frame s _ g rfl rfl h)
    | featFinished f => exact same rfl (by simp [ghostStep] at hgs; exact hgs.symm) (by simpa [Summ.count] using h)
    | ruleStarted f r => exact same rfl (by simp [ghostStep] at hgs; exact hgs.symm) (ginv2_frame s _ g rfl rfl h)
    | ruleFinished f r => exact same rfl (by simp [ghostStep] at hgs; exact hgs.symm) (by simpa [Summ.count] using h)

/-- after run-Finished the model counts nothing any more: the decrement is never reached again -/
theorem step_frozen (cat : Catalog) (s : Summ) (e : Ev) (hip : s.isInProgress = false) :
    guardOk s e = true ∧ (step cat s e).isInProgress = false := by
  refine ⟨by unfold guardOk; split <;> simp [hip], ?_⟩
  have hpre : s.pre cat e = s := by simp [Summ.pre, hip]
  simp only [step, hpre, Summ.post]
  split
  · simp [Summ.isInProgress]
  · exact hip

/-- **No underflow**: on every stream with at most one failed hook after a skipped step per attempt, the model never
    reaches its truncated subtraction with nothing to subtract — there its `Nat` arithmetic is the code's arithmetic. -/
theorem guardRun_from (cat : Catalog) (s : Summ) (g : Ghost) (evs : List Ev)
    (h : s.isInProgress = false ∨ GInv2 s g) (hgr : ghostRun g evs = true) : guardRun cat s evs = true := by
  induction evs generalizing s g with
  | nil => rfl
  | cons e es ih =>
    simp only [ghostRun] at hgr
    cases hgs : ghostStep g e with
    | none => simp [hgs] at hgr
    | some g' =>
      simp only [hgs] at hgr
      by_cases hip : s.isInProgress = true
      · rcases h with h | h
        · rw [hip] at h; cases h
        · obtain ⟨hg, hinv⟩ := step_ginv2 cat s e g g' h hgs hip
          simp only [guardRun, hg, Bool.true_and]
          exact ih (step cat s e) g' (Or.inr hinv) hgr
      · have hip' : s.isInProgress = false := by simpa using hip
        obtain ⟨hg, hfz⟩ := step_frozen cat s e hip'
        simp only [guardRun, hg, Bool.true_and]
        exact ih (step cat s e) g' (Or.inl hfz) hgr

theorem ginv2_init : GInv2 {} {} :=
  ⟨by simp [keys], by simp [openSkipped], fun k hk => by simp [Handled.get] at hk⟩

/-- a stream in which no scenario path has two failed hooks at all satisfies the condition -/
theorem ghost_of_nodup_from (g : Ghost) (evs : List Ev) (hnd : (hookFailedKeys evs).Nodup)
    (hdisj : ∀ k ∈ hookFailedKeys evs, k ∉ g.used) : ghostRun g evs = true := by
  induction evs generalizing g with
  | nil => rfl
  | cons e es ih =>
    have sub : ∀ (g' : Ghost), (∀ x ∈ g'.used, x ∈ g.used) → hookFailedKey? e = none → ghostStep g e = some g' →
        ghostRun g (e :: es) = true := by
      intro g' hsub hk hgs
      simp only [ghostRun, hgs]
      have hcons : hookFailedKeys (e :: es) = hookFailedKeys es := by simp [hookFailedKeys, filterMap_cons, hk]
      rw [hcons] at hnd hdisj
      exact ih g' hnd (fun k hkm hc => hdisj k hkm (hsub k hc))
    have filt : ∀ (k : ScenKey) x, x ∈ g.used.filter (fun y => !(y == k)) → x ∈ g.used := fun k x hx => (mem_filter.mp hx).1
    cases e with
    | scen k ret se =>
      cases se with
      | hook t r =>
        by_cases hf : r.isFailed = true
        · have hkey : hookFailedKey? (.scen k ret (.hook t r)) = some k := by simp [hookFailedKey?, hf]
          have hcons : hookFailedKeys (.scen k ret (.hook t r) :: es) = k :: hookFailedKeys es := by
            simp [hookFailedKeys, filterMap_cons, hkey]
          rw [hcons] at hnd hdisj
          have hku : g.used.contains k = false := by simpa using hdisj k (by simp)
          obtain ⟨hknew, hnd'⟩ := nodup_cons.mp hnd
          by_cases hsk : g.sk.contains k = true
          · simp only [ghostRun, ghostStep, hf, if_true, hku, Bool.false_eq_true, if_false, hsk]
            apply ih _ hnd'
            intro x hx hc
            rcases mem_cons.mp hc with rfl | hc
            · exact hknew hx
            · exact hdisj x (mem_cons_of_mem _ hx) hc
          · have hsk' : g.sk.contains k = false := by simpa using hsk
            simp only [ghostRun, ghostStep, hf, if_true, hsk', Bool.false_eq_true, if_false]
            exact ih g hnd' (fun x hx hc => hdisj x (mem_cons_of_mem _ hx) hc)
        · have hf' : r.isFailed = false := by simpa using hf
          exact sub g (fun _ h => h) (by simp [hookFailedKey?, hf']) (by simp [ghostStep, hf'])
      | started => exact sub g (fun _ h => h) rfl rfl
      | log m => exact sub g (fun _ h => h) rfl rfl
      | finished => exact sub _ (filt k) rfl rfl
      | bg i r =>
        cases r with
        | skipped => exact sub _ (filt k) rfl rfl
        | started => exact sub g (fun _ h => h) rfl rfl
        | passed => exact sub g (fun _ h => h) rfl rfl
        | failed err => exact sub g (fun _ h => h) rfl rfl
      | step i r =>
        cases r with
        | skipped => exact sub _ (filt k) rfl rfl
        | started => exact sub g (fun _ h => h) rfl rfl
        | passed => exact sub g (fun _ h => h) rfl rfl
        | failed err => exact sub g (fun _ h => h) rfl rfl
    | started => exact sub g (fun _ h => h) rfl rfl
    | parsingFinished a b c d f => exact sub g (fun _ h => h) rfl rfl
    | parseErr i => exact sub g (fun _ h => h) rfl rfl
    | finished => exact sub g (fun _ h => h) rfl rfl
    | featStarted f => exact sub g (fun _ h => h) rfl rfl
    | featFinished f => exact sub g (fun _ h => h) rfl rfl
    | ruleStarted f r => exact sub g (fun _ h => h) rfl rfl
    | ruleFinished f r => exact sub g (fun _ h => h) rfl rfl

end Cuke.SummG
