import Cuke.Lemmas.SchedOrder
import Cuke.Lemmas.Sched
import Cuke.Model.SchedLts
import Cuke.Lemmas.SchedInv
import Cuke.Props.C07
import Cuke.Props.C05
import Cuke.Lemmas.SchedSpin
/-!
# C06 — Never more scenarios in flight than the concurrency limit
Model: `Cuke.getBatch`, `Cuke.Slots.{ask,onDispatch,onConsume}`, `Cuke.SCfg.limit` and their use in the
scheduler LTS (`Cuke.stepL`). The acceptor replays real logs against these functions (classes K, Q).
-/
namespace Cuke.C06
open Cuke List Cuke.SchedL

/-- The limit is the CLI value if given, else the builder's (default 64, `none` = unlimited). -/
theorem limit_resolution (c : SCfg) :
    c.limit = match c.cliConc with
      | some k => some k
      | none => match c.builderConc with
        | none => some 64
        | some b => b := by
  unfold SCfg.limit
  cases c.cliConc <;> cases c.builderConc <;> simp

/-- `get` never hands out more than it was asked for. -/
theorem getBatch_length_le (ready : Entry → Bool) (n : Nat) (q : Queues) :
    (getBatch ready (some n) q).1.length ≤ n := Cuke.SchedL.getBatch_length_le ready n q

/-- Nothing is invented, duplicated or lost: batch and remaining queues partition the queues. -/
theorem getBatch_conserves (ready : Entry → Bool) (ask : Option Nat) (q : Queues) :
    (getBatch ready ask q).1 ++ ((getBatch ready ask q).2.1.serial ++ (getBatch ready ask q).2.1.conc) ~
      q.serial ++ q.conc := by
  unfold getBatch
  by_cases h0 : (ask == some 0) = true
  · simp [h0]
  · simp only [h0, Bool.false_eq_true, if_false]
    have hs := drainQ_perm ready (some 1) q.serial
    have hc := drainQ_perm ready ask q.conc
    split
    · simp only
      rw [← append_assoc]
      exact hs.append_right _
    · rename_i hne
      have hnil : (drainQ ready (some 1) q.serial).1 = [] := by simpa using hne
      rw [hnil] at hs
      simp only [nil_append] at hs
      simp only
      have : (drainQ ready ask q.conc).1 ++ ((drainQ ready (some 1) q.serial).2.1 ++ (drainQ ready ask q.conc).2.1) ~
          (drainQ ready (some 1) q.serial).2.1 ++ ((drainQ ready ask q.conc).1 ++ (drainQ ready ask q.conc).2.1) := by
        rw [← append_assoc, ← append_assoc]
        exact perm_append_comm.append_right _
      exact this.trans (hs.append hc)

/-- Everything handed out is ready (no unexpired retry delay). -/
theorem getBatch_all_ready (ready : Entry → Bool) (ask : Option Nat) (q : Queues) :
    ∀ e ∈ (getBatch ready ask q).1, ready e = true := by
  unfold getBatch
  by_cases h0 : (ask == some 0) = true
  · simp [h0]
  · simp only [h0, Bool.false_eq_true, if_false]
    split
    · exact drainQ_all_ready ready _ _
    · exact drainQ_all_ready ready _ _

/-- **Work conservation** (the limit is reached): when no Serial entry is ready, `get` returns the
    longest possible prefix-by-queue-order of ready Concurrent entries: if it returns fewer than the
    `n` free slots, no ready Concurrent entry is left behind. -/
theorem get_maximal_ready_prefix (ready : Entry → Bool) (n : Nat) (q : Queues) (hn : 0 < n)
    (hs : ∀ e ∈ q.serial, ready e = false)
    (hlt : (getBatch ready (some n) q).1.length < n) :
    ∀ e ∈ (getBatch ready (some n) q).2.1.conc, ready e = false := by
  have hz : ((some n : Option Nat) == some 0) = false := by simp; omega
  have hnil : (drainQ ready (some 1) q.serial).1 = [] := by
    cases h : (drainQ ready (some 1) q.serial).1 with
    | nil => rfl
    | cons x xs =>
      have hx := drainQ_all_ready ready (some 1) q.serial x (by simp [h])
      have hm := (drainQ_sublist ready (some 1) q.serial).1.subset (by simp [h] : x ∈ (drainQ ready (some 1) q.serial).1)
      rw [hs x hm] at hx; cases hx
  unfold getBatch at hlt ⊢
  simp only [hz, Bool.false_eq_true, if_false, hnil, isEmpty_nil, Bool.not_true] at hlt ⊢
  exact drainQ_maximal ready n q.conc hlt

/-- Unlimited concurrency: every ready Concurrent entry is dispatched. -/
theorem get_unlimited_takes_all (ready : Entry → Bool) (q : Queues) (hs : ∀ e ∈ q.serial, ready e = false) :
    ∀ e ∈ (getBatch ready none q).2.1.conc, ready e = false := by
  have hnil : (drainQ ready (some 1) q.serial).1 = [] := by
    cases h : (drainQ ready (some 1) q.serial).1 with
    | nil => rfl
    | cons x xs =>
      have hx := drainQ_all_ready ready (some 1) q.serial x (by simp [h])
      have hm := (drainQ_sublist ready (some 1) q.serial).1.subset (by simp [h] : x ∈ (drainQ ready (some 1) q.serial).1)
      rw [hs x hm] at hx; cases hx
  unfold getBatch
  simp only [show ((none : Option Nat) == some 0) = false from rfl, Bool.false_eq_true, if_false, hnil, isEmpty_nil, Bool.not_true]
  exact drainQ_unlimited ready q.conc

/-! ## slot accounting -/

/-- The abstract slot ledger: `free` slots and `inflight` attempts; `k` is the limit. -/
structure Ledger where
  free : Nat
  inflight : Nat
  deriving Repr, DecidableEq

/-- The bookkeeping of `execute`: a dispatch of `n ≤ free` attempts, or one consumed completion. -/
inductive LStep (k : Nat) : Ledger → Ledger → Prop
  | dispatch (l : Ledger) (n : Nat) (h : n ≤ l.free) : LStep k l ⟨l.free - n, l.inflight + n⟩
  | consume (l : Ledger) (h : 0 < l.inflight) : LStep k l ⟨l.free + 1, l.inflight - 1⟩

inductive LReach (k : Nat) : Ledger → Prop
  | init : LReach k ⟨k, 0⟩
  | step {a b : Ledger} : LReach k a → LStep k a b → LReach k b

/-- **Slots invariant**: free + in-flight = limit in every reachable state, hence never more than the
    limit in flight. -/
theorem slots_invariant (k : Nat) (l : Ledger) (h : LReach k l) : l.free + l.inflight = k := by
  induction h with
  | init => rfl
  | step _ st ih =>
    cases st with
    | dispatch n hn => simp only at *; omega
    | consume hn => simp only at *; omega

theorem inflight_le_limit (k : Nat) (l : Ledger) (h : LReach k l) : l.inflight ≤ k := by
  have := slots_invariant k l h; omega

/-- The ledger is what `Slots` implements: dispatching a batch `get` returned for `ask = free` and
    consuming a completion are exactly `onDispatch` / `onConsume`. -/
theorem slots_implements_ledger (f n : Nat) (hn : n ≤ f) :
    (Slots.cont (some f)).onDispatch n = .cont (some (f - n)) ∧
    (Slots.cont (some f)).onConsume = .cont (some (f + 1)) ∧
    (Slots.cont (some f)).ask = some f := ⟨rfl, rfl, rfl⟩

/-- a batch returned for `ask = free` respects the ledger's side condition `n ≤ free` -/
theorem batch_fits_free (ready : Entry → Bool) (f : Nat) (q : Queues) :
    (getBatch ready ((Slots.cont (some f)).ask) q).1.length ≤ f := getBatch_length_le ready f q

/-! ## Non-vacuity -/
def e1 : Entry := ⟨1, ⟨0, none, 1⟩, false, none, none⟩
def e2 : Entry := ⟨2, ⟨0, none, 2⟩, false, none, none⟩
def e3 : Entry := ⟨3, ⟨0, none, 3⟩, false, none, none⟩
example : (getBatch (fun _ => true) (some 2) ⟨[], [e1, e2, e3]⟩).1 = [e1, e2] := by decide
example : LReach 2 ⟨0, 2⟩ := LReach.step LReach.init (LStep.dispatch ⟨2, 0⟩ 2 (by decide))

/-! ## The limit over whole runs of the scheduler LTS -/

open Cuke.SchedInv in
/-- Good at the end means Good all along: the acceptor only appends disagreements -/
theorem good_foldl_mono (c : SCfg) (ls : List Label) (s : SState) (hg : Good (ls.foldl (stepL c) s) = true) : Good s = true := by
  induction ls generalizing s with
  | nil => exact hg
  | cons l rest ih => exact good_step_mono c s l (ih (stepL c s l) hg)

open Cuke.SchedInv in
theorem foldl_inv (c : SCfg) (ls : List Label) (s : SState) (h : InvK c s) (hg : Good (ls.foldl (stepL c) s) = true) :
    InvK c (ls.foldl (stepL c) s) := by
  induction ls generalizing s with
  | nil => exact h
  | cons l rest ih =>
    have hgl : Good (stepL c s l) = true := good_foldl_mono c rest _ hg
    exact ih (stepL c s l) (step_inv c s l h hgl) hg

open Cuke.SchedInv in
/-- **The slot ledger is an invariant of every accepted run.** For every log of probe labels that the
    scheduler LTS accepts without a disagreement of classes K / I / Q (what the trace correspondence checks
    on every real run): before the hook is taken nothing runs; afterwards free + in-flight = limit (once
    fail-fast tripped: in-flight ≤ limit); and a batch returned by `get` fits the free slots. -/
theorem lts_slots_invariant (c : SCfg) (ls : List Label) (hg : Good (accept c ls) = true) : InvK c (accept c ls) :=
  foldl_inv c ls {} ⟨fun _ => ⟨rfl, rfl⟩, fun h => absurd rfl h, fun h => by cases h⟩ hg

open Cuke.SchedInv in
/-- **C06 over whole runs**: in an accepted run, at EVERY moment (after every prefix of the log) the number
    of scenario attempts in flight is at most the resolved limit — for every schedule, parser behaviour,
    retry pattern and fail-fast trip. -/
theorem lts_inflight_le_limit (c : SCfg) (ls : List Label) (k : Nat) (hk : c.limit = some k)
    (hg : Good (accept c ls) = true) (pre suf : List Label) (hsplit : ls = pre ++ suf) :
    (accept c pre).running.length + (accept c pre).endedUnconsumed ≤ k := by
  subst hsplit
  have hgp : Good (accept c pre) = true := by
    simp only [accept, foldl_append] at hg
    exact good_foldl_mono c suf _ hg
  have hinv := lts_slots_invariant c pre hgp
  by_cases hi : (accept c pre).phase = .init
  · obtain ⟨h1, h2⟩ := hinv.1 hi
    simp [h1, h2]
  · have := hinv.2.1 hi k hk
    cases hsl : (accept c pre).slots with
    | brk => rw [hsl] at this; exact this
    | cont fo =>
      cases fo with
      | none => rw [hsl] at this; exact absurd this (by simp [slotsOk])
      | some f => rw [hsl] at this; simp only [slotsOk] at this; omega

/-- the hypothesis is what the check establishes: the witness log of F-C07 (a real run shape) is accepted
    with no disagreement at all, hence Good -/
example : Cuke.SchedInv.Good (accept Cuke.C07.wcfg Cuke.C07.witness) = true := by decide +kernel

open Cuke.SchedInv Cuke.SchedOrd in
/-- **With a limit of 1, attempts run strictly one after another.** In every run replayed without a disagreement,
    whenever a scenario event is sent, the attempt it belongs to is the ONLY attempt in flight — so the events of
    two attempts never interleave: between the first and the last event of an attempt no other attempt exists. -/
theorem lts_limit_one_sequential (c : SCfg) (hk : c.limit = some 1) (ls : List Label)
    (hc : Clean0 (accept c ls) = true) (pre suf : List Label) (k : ScenKey) (ret : Option Retries) (se : ScenEv)
    (hsplit : ls = pre ++ .tx (.scen k ret se) :: suf) :
    ∃ e, (accept c pre).running = [e] ∧ e.key = k := by
  subst hsplit
  have hmono : ∀ (xs : List Label) (s : SState), Clean0 (xs.foldl (stepL c) s) = true → Clean0 s = true := by
    intro xs
    induction xs with
    | nil => intro s h; exact h
    | cons l rest ih => intro s h; exact clean0_step_mono c s l (ih _ h)
  have hstep : Clean0 (stepL c (accept c pre) (.tx (.scen k ret se))) = true := by
    simp only [accept, foldl_append, foldl_cons] at hc
    exact hmono suf _ hc
  obtain ⟨e, hmem, hkey⟩ := tx_scen_running c (accept c pre) k ret se hstep
  have hlen := lts_inflight_le_limit c (pre ++ .tx (.scen k ret se) :: suf) 1 hk (clean0_all _ hc).1 pre _ rfl
  cases hrun : (accept c pre).running with
  | nil => rw [hrun] at hmem; cases hmem
  | cons a rest =>
    rw [hrun] at hmem hlen
    cases rest with
    | nil =>
      simp only [mem_singleton] at hmem
      exact ⟨a, rfl, hmem ▸ hkey⟩
    | cons b rest' => simp at hlen; omega

/-- non-vacuity: the retry example run (C05.rcfg has a limit of 2, here lowered to 1) is replayed without any
    disagreement, and it sends scenario events of two attempts -/
example : Cuke.SchedOrd.Clean0 (accept { Cuke.C05.rcfg with builderConc := some (some 1) }
    (Cuke.C05.rlog.map (fun l => match l with
      | .get1 t (some 2) a b => .get1 t (some 1) a b
      | .get2 t (.cont (some 2)) g s r => .get2 t (.cont (some 1)) g s r
      | .disp n (.cont (some 1)) => .disp n (.cont (some 0))
      | l => l))) = true := by decide +kernel

/-! ## User code (whole runs; Lemmas/SchedSpin.lean) -/

open Cuke.SchedInv Cuke.SchedSpin in
/-- **User code of no more than `limit` scenarios is in progress.** In every log replayed without a disagreement, at
    every moment at which user code — a step, a hook, `World::new` — is entered, `execute` is awaiting its scenarios,
    the attempt the code belongs to is one of the attempts in flight, and at most `limit` attempts are in flight. (User
    code runs between such an entry and the matching exit, which the acceptor accepts under the same condition.) -/
theorem lts_user_code_within_limit (c : SCfg) (pre : List Label) (sc att t k : Nat) (hk : c.limit = some k)
    (hc : SchedOrd.Clean0 (accept c (pre ++ [.cbIn sc att t])) = true) :
    (accept c pre).phase = .selecting ∧ (∃ e ∈ (accept c pre).running, e.key.scen = sc ∧ attOf e = att) ∧
    (accept c pre).running.length ≤ k := by
  have hstep : accept c (pre ++ [.cbIn sc att t]) = stepL c (accept c pre) (.cbIn sc att t) := by
    simp [accept, List.foldl_append]
  rw [hstep] at hc
  have hc0 : SchedOrd.Clean0 (accept c pre) = true := SchedOrd.clean0_step_mono c _ _ hc
  obtain ⟨hp, hex⟩ := cbIn_clean c _ sc att t (by simpa [SchedOrd.Clean0] using hc0) (by simpa [SchedOrd.Clean0] using hc)
  have hlim := lts_inflight_le_limit c pre k hk (SchedOrd.clean0_all _ hc0).1 pre [] (by simp)
  exact ⟨hp, hex, by omega⟩

/-- the same for the moment user code is left -/
theorem lts_user_code_exit_in_flight (c : SCfg) (pre : List Label) (sc att t : Nat)
    (hc : SchedOrd.Clean0 (accept c (pre ++ [.cbOut sc att t])) = true) :
    (accept c pre).phase = .selecting ∧ ∃ e ∈ (accept c pre).running, e.key.scen = sc ∧ SchedSpin.attOf e = att := by
  have hstep : accept c (pre ++ [.cbOut sc att t]) = stepL c (accept c pre) (.cbOut sc att t) := by
    simp [accept, List.foldl_append]
  rw [hstep] at hc
  have hc0 : SchedOrd.Clean0 (accept c pre) = true := SchedOrd.clean0_step_mono c _ _ hc
  exact SchedSpin.cbOut_clean c _ sc att t (by simpa [SchedOrd.Clean0] using hc0) (by simpa [SchedOrd.Clean0] using hc)

/-- non-vacuity (the run of `C10.hlog`): user code of the attempt in flight is accepted; user code of a scenario that is
    not in flight, or entered while `execute` is not awaiting its scenarios, is a disagreement -/
example :
    SchedOrd.Clean0 (accept Cuke.C10.hcfg (Cuke.C10.hlog.take 12 ++ [.cbIn 1 0 5, .cbOut 1 0 6])) = true ∧
    SchedOrd.Clean0 (accept Cuke.C10.hcfg (Cuke.C10.hlog.take 12 ++ [.cbIn 2 0 5])) = false ∧
    SchedOrd.Clean0 (accept Cuke.C10.hcfg (Cuke.C10.hlog.take 10 ++ [.cbIn 1 0 5])) = false := by
  decide +kernel

end Cuke.C06
