"""Known findings (committed file known_findings.json, never written at run time).

A violation instance is known only if the Lean monitor attributed it to the cause pattern of a listed
finding (DESIGN Appendix C): the monitor prints `!monitor <id> [<id> ...]`, or `!monitor NEW ...` for
anything its patterns do not explain. Every id must be listed for the property, else it is a VIOLATION.
"""
import json, os
ROOT = os.path.dirname(os.path.dirname(os.path.abspath(__file__)))

def _load():
    p = os.path.join(ROOT, "known_findings.json")
    if not os.path.exists(p):
        return {"findings": [], "fixed": []}
    return json.load(open(p))

def match(pid, d):
    ids = d.get("monitor_ids") or []
    if not ids:
        return None
    table = {k["id"]: k for k in _load().get("findings", []) if k["property"] == pid}
    out = []
    for i in ids:
        if i not in table:
            return None
        out.append(table[i])
    return out
