import Cuke.Model.Attempt
import Cuke.Props.C02
import Cuke.Props.C09
/-!
# C10 — Panics in user code are contained and reported, never lost or propagated
Attempt level: `runAttempt` is a total function of the outcome assignment in which a panic is an
outcome VALUE (`catch_unwind`); the theorems say what every such assignment yields.
(The run-level clauses — other scenarios unaffected, run-Finished, panic hook silenced/restored — are
stated on the scheduler model and checked by the harness monitors.)
-/
namespace Cuke.C10
open Cuke List

def isFailureEv (e : ScenEv) : Bool := e.isStepFailed || e.isHookFailed

/-- Whatever panics, the attempt still ends with Finished. -/
theorem finished_after_any_panic (sp : AttemptSpec) (wid : Nat) :
    (runAttempt sp wid).events.getLast? = some .finished := by
  simp [runAttempt]

/-- Whatever panics (before hook, step, World creation), a set after hook is still called — once, last. -/
theorem after_hook_after_any_panic (sp : AttemptSpec) (wid : Nat) (h : sp.hasAfter = true) :
    ∃ body w, (runAttempt sp wid).calls = body ++ [Call.after (runAttempt sp wid).reason w] := by
  obtain ⟨body, w, h1, _⟩ := (C09.after_hook_once_with_reason sp wid).2 h
  exact ⟨body, w, h1⟩

theorem specSteps_deferred_failure (sp : AttemptSpec) (idx : Nat) (l : List (Bool × Nat)) :
    (∀ e ∈ (C02.specSteps sp idx l).2.deferred, isFailureEv e = true) ∧
    ((C02.specSteps sp idx l).2.isFailure = true ↔ (C02.specSteps sp idx l).2.deferred ≠ []) := by
  induction l generalizing idx with
  | nil => simp [C02.specSteps, Stop.deferred, Stop.isFailure]
  | cons s rest ih =>
    obtain ⟨bg, i⟩ := s
    simp only [C02.specSteps]
    cases C02.effRes sp idx bg i with
    | passed => exact ih _
    | skipped => simp [Stop.deferred, Stop.isFailure]
    | started => simp [Stop.deferred, Stop.isFailure]
    | failed e =>
      cases bg <;> simp [Stop.deferred, Stop.isFailure, isFailureEv, stepEv, ScenEv.isStepFailed, ScenEv.stepRes?, StepRes.isFailed]

theorem specBefore_stop_cases (sp : AttemptSpec) :
    (C02.specBefore sp).2 = .none ∨ ∃ p, (C02.specBefore sp).2 = .beforeFailed (.hook .before (.failed p)) := by
  unfold C02.specBefore
  cases sp.hasBefore <;> cases sp.init <;> cases sp.before <;> simp

theorem specStop_deferred_failure (sp : AttemptSpec) :
    (∀ e ∈ (C02.specStop sp).deferred, isFailureEv e = true) ∧
    ((C02.specStop sp).isFailure = true ↔ (C02.specStop sp).deferred ≠ []) := by
  unfold C02.specStop
  rcases specBefore_stop_cases sp with h | ⟨p, h⟩
  · rw [h]; exact specSteps_deferred_failure sp 0 _
  · rw [h]; simp [Stop.deferred, Stop.isFailure, isFailureEv, ScenEv.isHookFailed, HookRes.isFailed]

/-- **Never lost.** The attempt is reported failed iff its event sequence contains a Failed event
    (of a step, of the before hook, or of the after hook). -/
theorem failed_iff_failure_event (sp : AttemptSpec) (wid : Nat) :
    (runAttempt sp wid).failed = true ↔ ∃ e ∈ (runAttempt sp wid).events, isFailureEv e = true := by
  obtain ⟨pre, hev, hpre⟩ := C02.failure_before_after_hook sp wid
  obtain ⟨hd1, hd2⟩ := specStop_deferred_failure sp
  have hstop : (runBody sp wid).2 = C02.specStop sp := (C02.runBody_spec sp wid).2
  have hfailed : (runAttempt sp wid).failed = ((C02.specStop sp).isFailure || afterFailed sp) := by
    simp [runAttempt, hstop]
  rw [hfailed, hev]
  constructor
  · intro h
    simp only [Bool.or_eq_true] at h
    rcases h with h | h
    · obtain ⟨e, he⟩ := exists_mem_of_ne_nil _ (hd2.mp h)
      exact ⟨e, by simp [he], hd1 e he⟩
    · simp only [afterFailed, Bool.and_eq_true, bne_iff_ne, ne_eq] at h
      cases ha : sp.after with
      | pass => exact absurd ha h.2
      | panic p =>
        refine ⟨.hook .after (.failed p), ?_, by simp [isFailureEv, ScenEv.isHookFailed, HookRes.isFailed]⟩
        simp [C02.specAfter, h.1, ha]
  · rintro ⟨e, he, hf⟩
    simp only [mem_append, mem_singleton] at he
    rcases he with ((he | he) | he) | he
    · have := hpre e he
      simp [isFailureEv, this.1, this.2] at hf
    · simp only [Bool.or_eq_true]; left
      exact hd2.mpr (ne_nil_of_mem he)
    · simp only [Bool.or_eq_true]; right
      unfold C02.specAfter at he
      cases hh : sp.hasAfter with
      | false => simp [hh] at he
      | true =>
        cases ha : sp.after with
        | pass =>
          simp [hh, ha] at he
          rcases he with rfl | rfl <;> simp [isFailureEv, ScenEv.isHookFailed, ScenEv.isStepFailed, ScenEv.stepRes?, HookRes.isFailed] at hf
        | panic p => simp [afterFailed, hh, ha]
    · subst he; simp [isFailureEv, ScenEv.isHookFailed, ScenEv.isStepFailed, ScenEv.stepRes?] at hf

/-- A panicking step becomes that step's Failed event carrying the payload (any payload value `p`). -/
theorem step_panic_reported (sp : AttemptSpec) (idx : Nat) (bg : Bool) (i : Nat) (p : Nat)
    (h : outOf sp bg i = .panic p) (hw : idx > 0 ∨ sp.hasBefore = true ∨ sp.init = .ok) :
    C02.effRes sp idx bg i = .failed (.panic p) :=
  (C02.stepOutcome_event sp idx bg i).2.2.1 p h hw

/-- A panicking before hook becomes Hook::Failed(Before, payload); steps are not run; the attempt fails. -/
theorem before_panic_reported (sp : AttemptSpec) (wid : Nat) (p : Nat)
    (hb : sp.hasBefore = true) (hi : sp.init = .ok) (hp : sp.before = .panic p) :
    ScenEv.hook .before (.failed p) ∈ (runAttempt sp wid).events ∧ (runAttempt sp wid).failed = true ∧
    (runAttempt sp wid).reason = .beforeHookFailed := by
  have hs : (C02.specBefore sp).2 = .beforeFailed (.hook .before (.failed p)) := by
    simp [C02.specBefore, hb, hi, hp]
  have hstop : C02.specStop sp = .beforeFailed (.hook .before (.failed p)) := by simp [C02.specStop, hs]
  have hbody : (runBody sp wid).2 = C02.specStop sp := (C02.runBody_spec sp wid).2
  refine ⟨?_, ?_, ?_⟩
  · rw [C02.runAttempt_canonical]; simp [C02.specEvents, hstop, Stop.deferred]
  · simp [runAttempt, hbody, hstop, Stop.isFailure]
  · simp [runAttempt, hbody, hstop, reasonOf]

/-- A failing `World::new` (error or panic) in the before-hook path is reported the same way. -/
theorem world_init_failure_reported (sp : AttemptSpec) (wid : Nat)
    (hb : sp.hasBefore = true) (hi : sp.init ≠ .ok) :
    ScenEv.hook .before (.failed (initFailPayload sp.init)) ∈ (runAttempt sp wid).events ∧
    (runAttempt sp wid).failed = true := by
  have hs : (C02.specBefore sp).2 = .beforeFailed (.hook .before (.failed (initFailPayload sp.init))) := by
    cases h : sp.init <;> simp_all [C02.specBefore]
  have hstop : C02.specStop sp = .beforeFailed (.hook .before (.failed (initFailPayload sp.init))) := by
    simp [C02.specStop, hs]
  have hbody : (runBody sp wid).2 = C02.specStop sp := (C02.runBody_spec sp wid).2
  refine ⟨?_, ?_⟩
  · rw [C02.runAttempt_canonical]; simp [C02.specEvents, hstop, Stop.deferred]
  · simp [runAttempt, hbody, hstop, Stop.isFailure]

/-- A panicking after hook becomes Hook::Failed(After, payload) and fails the attempt. -/
theorem after_panic_reported (sp : AttemptSpec) (wid : Nat) (p : Nat)
    (ha : sp.hasAfter = true) (hp : sp.after = .panic p) :
    ScenEv.hook .after (.failed p) ∈ (runAttempt sp wid).events ∧ (runAttempt sp wid).failed = true := by
  refine ⟨?_, ?_⟩
  · rw [C02.runAttempt_canonical]; simp [C02.specEvents, C02.specAfter, ha, hp]
  · simp [runAttempt, afterFailed, ha, hp]

/-! ## Non-vacuity: both hooks and a step panic at once -/
def exAll : AttemptSpec :=
  { hasBefore := true, hasAfter := true, nbg := 0, nsteps := 2, init := .ok, before := .panic 1, after := .panic 2,
    bgOut := fun _ => .pass, stepOut := fun _ => .panic 3 }

example : (runAttempt exAll 1).events =
    [.started, .hook .before .started, .hook .before (.failed 1), .hook .after .started, .hook .after (.failed 2), .finished] ∧
    (runAttempt exAll 1).failed = true := by decide

end Cuke.C10
