#!/bin/bash
# usage: run_seed.sh <patch.diff> <prop> [<prop> ...]
# applies the seeded change to /repo's working tree, runs the quick check of each property, reverts.
set -u
P=$1; shift
cd /verif
git -C /repo apply "$P" || { echo "patch does not apply"; exit 2; }
trap 'git -C /repo checkout -- . ' EXIT
for prop in "$@"; do
  out=$(./check "$prop" --tier quick 2>&1); rc=$?
  echo "== $prop rc=$rc"; echo "$out" | grep -E "VIOLATION|KNOWN|quick:" | head -5
done
