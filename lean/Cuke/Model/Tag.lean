/-
  Model of `src/tag.rs` (`TagOperation::eval`) and of the scenario filter built
  in `Cucumber::filter_run` (`src/cucumber.rs`).
-/
namespace Cuke

/-- `gherkin::tagexpr::TagOperation`. -/
inductive TagOp where
  | and (l r : TagOp)
  | or (l r : TagOp)
  | not (t : TagOp)
  | tag (s : String)
  deriving Repr, DecidableEq, Inhabited

/-- `impl Ext for TagOperation { fn eval }`: non-short-circuit `&`, `|`, `!`,
    a leaf is `tags.any(|t| t == s)`. -/
def TagOp.eval : TagOp → List String → Bool
  | .and l r, ts => l.eval ts && r.eval ts
  | .or l r, ts => l.eval ts || r.eval ts
  | .not t, ts => !(t.eval ts)
  | .tag s, ts => ts.any (fun t => t == s)

/-- The part of a `gherkin::Scenario` the filter looks at, plus oracle columns:
    `reMatch` is what the real `Regex::is_match(&scenario.name)` answered for the
    CLI regex (meaningless when no regex is given) and `closure` is what the
    user's filter closure answers for this scenario. `id` identifies the
    scenario in the harness. -/
structure FScen where
  id : Nat
  tags : List String
  reMatch : Bool
  closure : Bool
  deriving Repr, DecidableEq

structure FRule where
  id : Nat
  tags : List String
  bg : Nat
  scens : List FScen
  deriving Repr, DecidableEq

structure FFeat where
  id : Nat
  tags : List String
  bg : Nat
  scens : List FScen
  rules : List FRule
  deriving Repr, DecidableEq

/-- Which filter sources are active. -/
structure FilterCfg where
  hasRe : Bool
  tags : Option TagOp
  deriving Repr

/-- The composed predicate of `filter_run`: name regex, else tag expression over
    `feature.tags ++ rule.tags ++ scenario.tags`, else the closure. -/
def keep (cfg : FilterCfg) (featTags : List String) (ruleTags : List String) (s : FScen) : Bool :=
  if cfg.hasRe then s.reMatch
  else match cfg.tags with
    | some t => t.eval (featTags ++ ruleTags ++ s.tags)
    | none => s.closure

def filterRule (cfg : FilterCfg) (featTags : List String) (r : FRule) : FRule :=
  { r with scens := r.scens.filter (keep cfg featTags r.tags) }

/-- The `features.map(move |feature| …)` closure of `filter_run`. -/
def filterFeat (cfg : FilterCfg) (f : FFeat) : FFeat :=
  { f with
    scens := f.scens.filter (keep cfg f.tags [])
    rules := f.rules.map (filterRule cfg f.tags) }

end Cuke
