import Cuke.Model.SchedLts
import Cuke.Lemmas.SchedLts
import Cuke.Lemmas.Sched
/-!
  The slot ledger as an invariant of the scheduler LTS (`accept`), for C06.
  `Good` = the log raised no disagreement of the classes the slot accounting depends on (K, I, Q).
  Each label is handled through named stages of its `stepL` branch (`*_eq : stepL … = … := rfl`), so that
  the checks can be peeled off one by one.
-/
namespace Cuke.SchedInv
open Cuke List Cuke.SchedL

/-- no disagreement of the classes the slot accounting depends on -/
def Good (s : SState) : Bool := s.dis.all (fun d => d.cls != .K && d.cls != .I && d.cls != .Q)

/-- the slot ledger against the in-flight total `tot` = running + finished-but-not-yet-consumed:
    while dispatching continues, free + tot = limit; once fail-fast tripped, tot ≤ limit (and only shrinks) -/
def slotsOk (k : Nat) (sl : Slots) (tot : Nat) : Prop :=
  match sl with
  | .cont (some f) => f + tot = k
  | .cont none => False
  | .brk => tot ≤ k

/-- nothing runs before the hook is taken; afterwards the ledger is exact; a batch fits what `get` may hand out -/
def InvK (c : SCfg) (s : SState) : Prop :=
  (s.phase = .init → s.running = [] ∧ s.endedUnconsumed = 0) ∧
  (s.phase ≠ .init → ∀ k, c.limit = some k → slotsOk k s.slots (s.running.length + s.endedUnconsumed)) ∧
  (s.phase = .afterGet2 → ∀ n, s.slots.ask = some n → s.batch.length ≤ n)

theorem good_note (s : SState) (cls : DClass) (m : String) (h : Good (s.note cls m) = true) :
    Good s = true ∧ (cls ≠ .K ∧ cls ≠ .I ∧ cls ≠ .Q) := by
  simp only [Good, SState.note, all_append, Bool.and_eq_true, all_cons, all_nil, Bool.and_true] at h ⊢
  refine ⟨h.1, ?_⟩
  obtain ⟨⟨h1, h2⟩, h3⟩ := h.2
  exact ⟨by simpa using h1, by simpa using h2, by simpa using h3⟩

end Cuke.SchedInv

namespace Cuke.SchedInv
open Cuke List Cuke.SchedL

theorem good_mono_inPhase (s : SState) (ok what) (h : Good (s.inPhase ok what) = true) :
    Good s = true ∧ ok.contains s.phase = true := by
  unfold SState.inPhase at h
  by_cases hc : ok.contains s.phase = true
  · simp only [hc, if_true] at h; exact ⟨h, hc⟩
  · simp only [hc, Bool.false_eq_true, if_false] at h
    have := good_note s _ _ h
    exact absurd rfl this.2.2.1

theorem good_ced (s : SState) (x : String) (h : Good (s.checkExpectDone x) = true) : Good s = true := by
  unfold SState.checkExpectDone at h
  split at h
  · exact h
  · exact (good_note _ _ _ h).1

/-- the fields the invariant talks about -/
structure KView where
  phaseInit : Bool
  slots : Slots
  running : Nat
  ended : Nat
  deriving DecidableEq

def view (s : SState) : KView := ⟨s.phase == .init, s.slots, s.running.length, s.endedUnconsumed⟩

theorem hookTake_inv (c : SCfg) (s : SState) (h : InvK c s) (hg : Good (stepL c s .hookTake) = true) :
    InvK c (stepL c s .hookTake) := by
  simp only [stepL] at hg ⊢
  have hgood : Good ((({ s with pos := s.pos + 1 } : SState).inPhase [.init] "panic hook taken")) = true := by
    simpa [Good] using hg
  obtain ⟨_, hph⟩ := good_mono_inPhase _ _ _ hgood
  have hinit : s.phase = .init := by simpa using hph
  obtain ⟨hr, he⟩ := h.1 hinit
  refine ⟨fun hp => by simp at hp, fun _ k hk => ?_, fun hp => by simp at hp⟩
  simp only [inPhase_running, inPhase_ended, hr, he, length_nil, hk, slotsOk]
  omega

end Cuke.SchedInv

namespace Cuke.SchedInv
open Cuke List Cuke.SchedL

/-- the label leaves slots / running / ended / phase alone -/
def FrameOK (s s' : SState) : Prop :=
  s'.slots = s.slots ∧ s'.running = s.running ∧ s'.endedUnconsumed = s.endedUnconsumed ∧ s'.phase = s.phase ∧
  s'.batch = s.batch

theorem invK_frame (c : SCfg) (s s' : SState) (h : InvK c s) (hf : FrameOK s s') : InvK c s' := by
  obtain ⟨h1, h2, h3, h4, h5⟩ := hf
  refine ⟨fun hp => ?_, fun hp k hk => ?_, fun hp n hn => ?_⟩
  · rw [h4] at hp; have := h.1 hp; rw [h2, h3]; exact this
  · rw [h4] at hp; rw [h1, h2, h3]; exact h.2.1 hp k hk
  · rw [h4] at hp; rw [h1] at hn; rw [h5]; exact h.2.2 hp n hn

syntax "frame_simp" : tactic
macro_rules
  | `(tactic| frame_simp) => `(tactic|
      (simp only [stepL]
       repeat' split
       all_goals (first
         | (refine ⟨?_, ?_, ?_, ?_, ?_⟩ <;> simp [SState.note, SState.inPhase, SState.checkExpectDone, SState.followQueues] <;>
              (repeat' split) <;> simp [SState.note])
         | skip)))

theorem frame_tx (c : SCfg) (s : SState) (e : Ev) : FrameOK s (stepL c s (.tx e)) := by frame_simp
theorem frame_rx (c : SCfg) (s : SState) (e : Ev) : FrameOK s (stepL c s (.rx e)) := by frame_simp
theorem frame_other (c : SCfg) (s : SState) : FrameOK s (stepL c s .other) := by frame_simp
theorem frame_cbIn (c : SCfg) (s : SState) (a b t : Nat) : FrameOK s (stepL c s (.cbIn a b t)) := by frame_simp
theorem frame_cbOut (c : SCfg) (s : SState) (a b t : Nat) : FrameOK s (stepL c s (.cbOut a b t)) := by frame_simp
theorem frame_env (c : SCfg) (s : SState) : FrameOK s (stepL c s .envMove) := by frame_simp
theorem frame_pPend (c : SCfg) (s : SState) : FrameOK s (stepL c s .pPend) := by frame_simp
theorem frame_pWake (c : SCfg) (s : SState) : FrameOK s (stepL c s .pWake) := by frame_simp
theorem frame_pOk (c : SCfg) (s : SState) (f : Nat) : FrameOK s (stepL c s (.pOk f)) := by frame_simp
theorem frame_pErr (c : SCfg) (s : SState) : FrameOK s (stepL c s .pErr) := by frame_simp
theorem frame_pEnd (c : SCfg) (s : SState) : FrameOK s (stepL c s .pEnd) := by frame_simp
theorem frame_pFinish (c : SCfg) (s : SState) : FrameOK s (stepL c s .pFinish) := by frame_simp
theorem frame_ins (c : SCfg) (s : SState) (t : Nat) (a b : List QE) : FrameOK s (stepL c s (.ins t a b)) := by frame_simp

end Cuke.SchedInv

namespace Cuke.SchedInv
open Cuke List Cuke.SchedL

theorem good_no_I (s : SState) (h : Good s = true) : s.dis.any (fun d => d.cls == .I) = false := by
  simp only [Good, all_eq_true, Bool.and_eq_true, bne_iff_ne, ne_eq] at h
  simp only [any_eq_false, beq_iff_eq]
  intro d hd; exact (h d hd).1.2

theorem good_no_K (s : SState) (h : Good s = true) : s.dis.any (fun d => d.cls == .K) = false := by
  simp only [Good, all_eq_true, Bool.and_eq_true, bne_iff_ne, ne_eq] at h
  simp only [any_eq_false, beq_iff_eq]
  intro d hd; exact (h d hd).1.1

/-- the label only moves the phase (never back to `init`); taken in phase `init` it is a class-I disagreement -/
def PhaseOK (s s' : SState) : Prop :=
  s'.slots = s.slots ∧ s'.running = s.running ∧ s'.endedUnconsumed = s.endedUnconsumed ∧
  (s'.phase ≠ .init ∧ s'.phase ≠ .afterGet2) ∧ (s.phase = .init → s'.dis.any (fun d => d.cls == .I) = true)

theorem invK_phase (c : SCfg) (s s' : SState) (h : InvK c s) (hf : PhaseOK s s') (hg : Good s' = true) : InvK c s' := by
  obtain ⟨h1, h2, h3, h4, h5⟩ := hf
  have hni : s.phase ≠ .init := by
    intro hi
    have := h5 hi
    rw [good_no_I s' hg] at this; cases this
  refine ⟨fun hp => absurd hp h4.1, fun _ k hk => ?_, fun hp => absurd hp h4.2⟩
  rw [h1, h2, h3]; exact h.2.1 hni k hk

syntax "phase_simp" : tactic
macro_rules
  | `(tactic| phase_simp) => `(tactic|
      (refine ⟨?_, ?_, ?_, ?_, ?_⟩
       · simp only [stepL]; repeat' split
         all_goals (simp [SState.note, SState.inPhase, SState.checkExpectDone] <;> (repeat' split) <;> simp [SState.note])
       · simp only [stepL]; repeat' split
         all_goals (simp [SState.note, SState.inPhase, SState.checkExpectDone] <;> (repeat' split) <;> simp [SState.note])
       · simp only [stepL]; repeat' split
         all_goals (simp [SState.note, SState.inPhase, SState.checkExpectDone] <;> (repeat' split) <;> simp [SState.note])
       · simp only [stepL]; repeat' split
         all_goals (simp [SState.note, SState.inPhase, SState.checkExpectDone] <;> (repeat' split) <;> simp [SState.note])
       · intro hinit
         simp only [stepL]; repeat' split
         all_goals (simp [SState.note, SState.inPhase, SState.checkExpectDone, hinit, List.any_append] <;> (repeat' split) <;> simp [SState.note, List.any_append])))

theorem phase_get1 (c : SCfg) (s : SState) (t : Nat) (ask : Option Nat) (ns nc : Nat) :
    PhaseOK s (stepL c s (.get1 t ask ns nc)) := by phase_simp
theorem phase_idleYield (c : SCfg) (s : SState) : PhaseOK s (stepL c s .idleYield) := by phase_simp
theorem phase_idleSlept (c : SCfg) (s : SState) : PhaseOK s (stepL c s .idleSlept) := by phase_simp
theorem phase_idleContinue (c : SCfg) (s : SState) : PhaseOK s (stepL c s .idleContinue) := by phase_simp
theorem phase_exit (c : SCfg) (s : SState) : PhaseOK s (stepL c s .exit) := by phase_simp

theorem phase_idle (c : SCfg) (s : SState) (fin sleep : Bool) : PhaseOK s (stepL c s (.idle fin sleep)) := by phase_simp
theorem frame_notif (c : SCfg) (s : SState) (id : Nat) (f r : Bool) : FrameOK s (stepL c s (.notif id f r)) := by frame_simp
theorem frame_hookRestore (c : SCfg) (s : SState) : FrameOK s (stepL c s .hookRestore) := by frame_simp

end Cuke.SchedInv

namespace Cuke.SchedInv
open Cuke List Cuke.SchedL

theorem good_if_note (s : SState) (b : Bool) (cls : DClass) (m : String) (hc : cls = .K ∨ cls = .I ∨ cls = .Q)
    (h : Good (if b then s else s.note cls m) = true) : b = true ∧ Good s = true := by
  cases b with
  | true => exact ⟨rfl, by simpa using h⟩
  | false =>
    simp only [Bool.false_eq_true, if_false] at h
    have := (good_note s cls m h).2
    rcases hc with rfl | rfl | rfl
    · exact absurd rfl this.1
    · exact absurd rfl this.2.1
    · exact absurd rfl this.2.2

theorem good_if_note' (s : SState) (p : Prop) [Decidable p] (cls : DClass) (m : String) (hc : cls = .K ∨ cls = .I ∨ cls = .Q)
    (h : Good (if p then s else s.note cls m) = true) : p ∧ Good s = true := by
  by_cases hp : p
  · exact ⟨hp, by simpa [hp] using h⟩
  · simp only [hp, if_false] at h
    have := (good_note s cls m h).2
    rcases hc with rfl | rfl | rfl
    · exact absurd rfl this.1
    · exact absurd rfl this.2.1
    · exact absurd rfl this.2.2

/-- `if b then s else s.note cls m` -/
def chk (s : SState) (b : Bool) (cls : DClass) (m : String) : SState := if b then s else s.note cls m

theorem good_chk (s : SState) (b : Bool) (cls : DClass) (m : String) (hc : cls = .K ∨ cls = .I ∨ cls = .Q)
    (h : Good (chk s b cls m) = true) : b = true ∧ Good s = true := good_if_note s b cls m hc h

theorem chk_of_true (s : SState) (b : Bool) (cls : DClass) (m : String) (hb : b = true) : chk s b cls m = s := by
  simp [chk, hb]

theorem good_of_dis (s s' : SState) (h : s'.dis = s.dis) : Good s' = Good s := by simp [Good, h]

/-! ### dispatch -/
def disp1 (s : SState) : SState :=
  (({ s with pos := s.pos + 1 } : SState).inPhase [.afterGet2] "dispatch").checkExpectDone "at dispatch"
def disp3 (s : SState) : SState := { disp1 s with phase := .selecting }
def disp4 (s : SState) (n : Nat) : SState :=
  chk (disp3 s) (n == (disp3 s).batch.length) .K s!"dispatched {n}, batch {(disp3 s).batch.length}"
def disp5 (s : SState) (n : Nat) (slots : Slots) : SState :=
  chk (disp4 s n) (slots == (disp4 s n).slots.onDispatch (disp4 s n).batch.length) .K
    s!"slots after dispatch {repr slots}, model {repr ((disp4 s n).slots.onDispatch (disp4 s n).batch.length)}"
def dispR (s : SState) (n : Nat) (slots : Slots) : SState :=
  { disp5 s n slots with slots := slots, running := (disp5 s n slots).running ++ (disp5 s n slots).batch, batch := [] }

theorem disp_eq (c : SCfg) (s : SState) (n : Nat) (slots : Slots) : stepL c s (.disp n slots) = dispR s n slots := rfl

theorem disp_inv (c : SCfg) (s : SState) (n : Nat) (slots : Slots) (h : InvK c s)
    (hg : Good (stepL c s (.disp n slots)) = true) : InvK c (stepL c s (.disp n slots)) := by
  rw [disp_eq] at hg ⊢
  have hg5 : Good (disp5 s n slots) = true := hg
  obtain ⟨hb5, hg4⟩ := good_chk _ _ _ _ (Or.inl rfl) hg5
  obtain ⟨hb4, hg3⟩ := good_chk _ _ _ _ (Or.inl rfl) hg4
  have hg1 : Good (disp1 s) = true := hg3
  have hg0 := good_ced _ _ hg1
  obtain ⟨_, hph⟩ := good_mono_inPhase _ _ _ hg0
  have hphase : s.phase = .afterGet2 := by
    simp only [List.contains_cons, List.contains_nil, Bool.or_false, beq_iff_eq] at hph
    exact hph
  -- the fields
  have e5 : disp5 s n slots = disp4 s n := chk_of_true _ _ _ _ hb5
  have e4 : disp4 s n = disp3 s := chk_of_true _ _ _ _ hb4
  have fb : (disp1 s).batch = s.batch := by simp [disp1]
  have fr : (disp1 s).running = s.running := by simp [disp1]
  have fe : (disp1 s).endedUnconsumed = s.endedUnconsumed := by simp [disp1]
  have fs : (disp1 s).slots = s.slots := by simp [disp1]
  have hslots : slots = s.slots.onDispatch s.batch.length := by
    have := hb5
    rw [e4] at this
    simpa [disp3, fs, fb] using this
  have hni : s.phase ≠ .init := by rw [hphase]; decide
  have fp : (dispR s n slots).phase = .selecting := by simp [dispR, e5, e4, disp3]
  refine ⟨fun hp => (by rw [fp] at hp; cases hp), fun _ k hk => ?_, fun hp => (by rw [fp] at hp; cases hp)⟩
  simp only [dispR, e5, e4, disp3, fr, fb, fe]
  rw [hslots]
  have hinv := h.2.1 hni k hk
  cases hsl : s.slots with
  | brk =>
    rw [hsl] at hinv
    have hbl := h.2.2 hphase 0 (by rw [hsl]; rfl)
    simp only [Slots.onDispatch, slotsOk, length_append] at hinv ⊢
    omega
  | cont fo =>
    cases fo with
    | none => rw [hsl] at hinv; exact absurd hinv (by simp [slotsOk])
    | some f0 =>
      rw [hsl] at hinv
      have hbl := h.2.2 hphase f0 (by rw [hsl]; rfl)
      simp only [Slots.onDispatch, slotsOk, length_append] at hinv ⊢
      omega

/-! ### completion consumed -/
def cons1 (s : SState) : SState := ({ s with pos := s.pos + 1 } : SState).inPhase [.selecting] "completion consumed"
def cons2 (s : SState) : SState := { cons1 s with phase := .draining }
def cons3 (s : SState) : SState :=
  if (cons2 s).endedUnconsumed > 0 then { cons2 s with endedUnconsumed := (cons2 s).endedUnconsumed - 1 }
  else (cons2 s).note .K "a finished scenario was consumed but none had ended"
def consR (s : SState) (got : Bool) : SState :=
  if got then { cons3 s with slots := (cons3 s).slots.onConsume }
  else (cons2 s).note .K "run_scenarios.next() yielded None (the set of running scenarios cannot be empty at the select)"

theorem cons_eq (c : SCfg) (s : SState) (got : Bool) : stepL c s (.cons got) = consR s got := by
  cases got <;> rfl

theorem cons_inv (c : SCfg) (s : SState) (got : Bool) (h : InvK c s)
    (hg : Good (stepL c s (.cons got)) = true) : InvK c (stepL c s (.cons got)) := by
  rw [cons_eq] at hg ⊢
  have f1r : (cons1 s).running = s.running := by simp [cons1]
  have f1e : (cons1 s).endedUnconsumed = s.endedUnconsumed := by simp [cons1]
  have f1s : (cons1 s).slots = s.slots := by simp [cons1]
  cases got with
  | false =>
    exfalso
    have := (good_note _ _ _ (show Good ((cons2 s).note .K "run_scenarios.next() yielded None (the set of running scenarios cannot be empty at the select)") = true from hg)).2
    exact this.1 rfl
  | true =>
    have hg3 : Good (cons3 s) = true := hg
    have hpos : (cons2 s).endedUnconsumed > 0 ∧ Good (cons2 s) = true := by
      unfold cons3 at hg3
      exact good_if_note' _ _ _ _ (Or.inl rfl) (by
        split at hg3
        · rename_i hp; simp only [hp, if_true]; exact hg3
        · rename_i hp; simp only [hp, if_false]; exact hg3)
    have hg1 : Good (cons1 s) = true := hpos.2
    obtain ⟨_, hph⟩ := good_mono_inPhase _ _ _ hg1
    have hphase : s.phase = .selecting := by
      simp only [List.contains_cons, List.contains_nil, Bool.or_false, beq_iff_eq] at hph; exact hph
    have hni : s.phase ≠ .init := by rw [hphase]; decide
    have he : s.endedUnconsumed > 0 := by have := hpos.1; simpa [cons2, f1e] using this
    have e3 : cons3 s = { cons2 s with endedUnconsumed := (cons2 s).endedUnconsumed - 1 } := by
      unfold cons3; simp [hpos.1]
    have fp : (consR s true).phase = .draining := by simp [consR, e3, cons2]
    refine ⟨fun hp => (by rw [fp] at hp; cases hp), fun _ k hk => ?_, fun hp => (by rw [fp] at hp; cases hp)⟩
    simp only [consR, if_true, e3, cons2, f1r, f1e, f1s]
    have hinv := h.2.1 hni k hk
    cases hsl : s.slots with
    | brk =>
      rw [hsl] at hinv
      simp only [Slots.onConsume, slotsOk] at hinv ⊢
      omega
    | cont fo =>
      cases fo with
      | none => rw [hsl] at hinv; exact absurd hinv (by simp [slotsOk])
      | some f0 =>
        rw [hsl] at hinv
        simp only [Slots.onConsume, slotsOk] at hinv ⊢
        omega

/-! ### an attempt ends -/
theorem length_eraseP_of_find {α} (p : α → Bool) (l : List α) (a : α) (h : l.find? p = some a) :
    (l.eraseP p).length + 1 = l.length := by
  induction l with
  | nil => simp at h
  | cons b rest ih =>
    by_cases hp : p b = true
    · simp [eraseP_cons, hp]
    · have hp' : p b = false := by simpa using hp
      simp only [find?, hp'] at h
      simp [eraseP_cons, hp', ih h]

def endR (s : SState) (id : Nat) (failed retried : Bool) : SState :=
  let s0 : SState := { s with pos := s.pos + 1 }
  match s0.running.find? (fun e => e.id == id) with
  | none => s0.note .A s!"END of an attempt that is not running: {id}"
  | some e =>
    let mret := (nextTry e.ret failed).isSome
    let s1 := if retried == mret then s0 else s0.note .R s!"attempt {id} of scenario {e.key.scen}: retried = {retried}, model {mret} (failed = {failed}, retries = {repr (e.ret.map (·.retries))})"
    { s1 with running := s1.running.eraseP (fun x => x.id == id), endedUnconsumed := s1.endedUnconsumed + 1,
              notifs := s1.notifs ++ [(id, e.key, failed, retried)] }

theorem endA_eq (c : SCfg) (s : SState) (id : Nat) (failed retried : Bool) (t : Nat) :
    stepL c s (.endA id failed retried t) = endR s id failed retried := rfl

theorem endA_inv (c : SCfg) (s : SState) (id : Nat) (failed retried : Bool) (t : Nat) (h : InvK c s) :
    InvK c (stepL c s (.endA id failed retried t)) := by
  rw [endA_eq]
  unfold endR
  simp only
  cases hf : s.running.find? (fun e => e.id == id) with
  | none =>
    simp only [hf]
    exact invK_frame c s _ h ⟨rfl, rfl, rfl, rfl, rfl⟩
  | some e =>
    simp only [hf]
    have hlen := length_eraseP_of_find _ _ _ hf
    have hne : s.running ≠ [] := by intro h0; rw [h0] at hf; simp at hf
    have hni : s.phase ≠ .init := fun hi => hne (h.1 hi).1
    refine ⟨fun hp => ?_, fun _ k hk => ?_, fun hp n hn => ?_⟩
    · exfalso; apply hni; split at hp <;> exact hp
    · have hinv := h.2.1 hni k hk
      have htot : ∀ (x : SState), x.running = s.running → x.endedUnconsumed = s.endedUnconsumed → x.slots = s.slots →
          slotsOk k x.slots ((x.running.eraseP (fun y => y.id == id)).length + (x.endedUnconsumed + 1)) := by
        intro x h1 h2 h3
        rw [h1, h2, h3]
        have : (s.running.eraseP (fun y => y.id == id)).length + (s.endedUnconsumed + 1) = s.running.length + s.endedUnconsumed := by omega
        rw [this]; exact hinv
      split
      · exact htot _ rfl rfl rfl
      · exact htot _ rfl rfl rfl
    · have := h.2.2 (by split at hp <;> exact hp) n (by split at hn <;> exact hn)
      split <;> exact this

theorem ced_phase (s : SState) (x) : (s.checkExpectDone x).phase = s.phase := by
  unfold SState.checkExpectDone; split <;> rfl

theorem inPhase_phase (s : SState) (ok what) : (s.inPhase ok what).phase = s.phase := by
  unfold SState.inPhase; split <;> rfl

/-! ### fail-fast trip -/
theorem brk_inv (c : SCfg) (s : SState) (h : InvK c s) (hg : Good (stepL c s .brk) = true) : InvK c (stepL c s .brk) := by
  have heq : stepL c s .brk =
      (let s1 := ({ s with pos := s.pos + 1 } : SState).inPhase [.draining] "fail-fast trip"
       let s2 := if s1.tripDue then s1 else s1.note .FF "fail-fast tripped although no final failure was just drained"
       { s2 with slots := .brk, tripDue := false }) := rfl
  rw [heq] at hg ⊢
  simp only at hg ⊢
  have hg1 : Good (({ s with pos := s.pos + 1 } : SState).inPhase [.draining] "fail-fast trip") = true := by
    split at hg
    · exact hg
    · exact (good_note _ _ _ hg).1
  obtain ⟨_, hph⟩ := good_mono_inPhase _ _ _ hg1
  have hphase : s.phase = .draining := by
    simp only [List.contains_cons, List.contains_nil, Bool.or_false, beq_iff_eq] at hph; exact hph
  have hni : s.phase ≠ .init := by rw [hphase]; decide
  refine ⟨fun hp => ?_, fun _ k hk => ?_, fun hp => ?_⟩
  · exfalso
    have : s.phase = .init := by split at hp <;> simpa [inPhase_phase] using hp
    rw [hphase] at this; cases this
  · have hinv := h.2.1 hni k hk
    have hres : ∀ (x : SState), x.running = s.running → x.endedUnconsumed = s.endedUnconsumed →
        slotsOk k Slots.brk (x.running.length + x.endedUnconsumed) := by
      intro x h1 h2
      rw [h1, h2]
      cases hsl : s.slots with
      | brk => rw [hsl] at hinv; exact hinv
      | cont fo =>
        cases fo with
        | none => rw [hsl] at hinv; exact absurd hinv (by simp [slotsOk])
        | some f0 => rw [hsl] at hinv; simp only [slotsOk] at hinv ⊢; omega
    split
    · exact hres _ (by simp) (by simp)
    · exact hres _ (by simp) (by simp)
  · exfalso
    have : s.phase = .afterGet2 := by split at hp <;> simpa [inPhase_phase] using hp
    rw [hphase] at this; cases this

/-! ### `features.get` returned -/
def get2a (s : SState) : SState :=
  let s0 : SState := { s with pos := s.pos + 1 }
  if s0.slots.ask == some 0 && (s0.phase == .loopTop || s0.phase == .draining) then
    (if s0.tripDue then { (s0.note .FF "final failure drained under fail-fast but the runner did not stop dispatching") with tripDue := false } else s0)
  else s0.inPhase [.afterGet1] "features.get returned"
def get2c (s : SState) : SState := ({ get2a s with phase := .afterGet2 } : SState).checkExpectDone "at loop top"
def get2d (s : SState) (slots : Slots) : SState :=
  if slots == (get2c s).slots then get2c s
  else { ((get2c s).note .K s!"slots {repr slots}, model {repr (get2c s).slots}") with slots := slots }
def get2e (s : SState) (slots : Slots) (running : Nat) : SState :=
  if running == (get2d s slots).running.length + (get2d s slots).endedUnconsumed then get2d s slots
  else (get2d s slots).note .K s!"run_scenarios.len() = {running}, model {(get2d s slots).running.length + (get2d s slots).endedUnconsumed}"
def get2ready (s5 : SState) (t2 : Nat) (got : List Nat) : Entry → Bool := fun e =>
  let t1 := (s5.lastGet1.map (·.1)).getD t2
  let r1 := e.ready t1; let r2 := e.ready t2
  if r1 == r2 then r1 else got.contains e.id
def get2R (s : SState) (t2 : Nat) (slots : Slots) (got : List Nat) (sleep : Bool) (running : Nat) : SState :=
  let s5 := get2e s slots running
  let r := getBatch (get2ready s5 t2 got) s5.slots.ask s5.q
  let gotIds := r.1.map (·.id)
  if gotIds == got then
    let s6 := if sleep == r.2.2 then s5 else s5.note .Q s!"sleep hint {sleep}, model {r.2.2}"
    let st := startScenarios s6.br r.1
    { s6 with q := r.2.1, batch := r.1, lastGet1 := none, br := st.1, expect := s6.expect ++ st.2.map Exp.one }
  else
    let all := s5.q.serial ++ s5.q.conc
    let batch := got.filterMap (fun i => all.find? (fun e => e.id == i))
    let s6 := s5.note .Q s!"get returned {repr got}, model {repr gotIds} (queues serial={repr (s5.q.serial.map (·.id))} conc={repr (s5.q.conc.map (·.id))})"
    let st := startScenarios s6.br batch
    { s6 with q := { serial := s6.q.serial.filter (fun e => !got.contains e.id), conc := s6.q.conc.filter (fun e => !got.contains e.id) },
              batch := batch, lastGet1 := none, br := st.1, expect := s6.expect ++ st.2.map Exp.one }

theorem get2_eq (c : SCfg) (s : SState) (t2 : Nat) (slots : Slots) (got : List Nat) (sleep : Bool) (running : Nat) :
    stepL c s (.get2 t2 slots got sleep running) = get2R s t2 slots got sleep running := rfl

theorem get2_inv (c : SCfg) (s : SState) (t2 : Nat) (slots : Slots) (got : List Nat) (sleep : Bool) (running : Nat)
    (h : InvK c s) (hg : Good (stepL c s (.get2 t2 slots got sleep running)) = true) :
    InvK c (stepL c s (.get2 t2 slots got sleep running)) := by
  rw [get2_eq] at hg ⊢
  -- the batch really is the model's batch, and no check failed
  have hbr : ((getBatch (get2ready (get2e s slots running) t2 got) (get2e s slots running).slots.ask (get2e s slots running).q).1.map (·.id) == got) = true := by
    cases hb : ((getBatch (get2ready (get2e s slots running) t2 got) (get2e s slots running).slots.ask (get2e s slots running).q).1.map (·.id) == got) with
    | true => rfl
    | false =>
      exfalso
      simp only [get2R, hb, Bool.false_eq_true, if_false] at hg
      have := (good_note (get2e s slots running) .Q _ hg).2
      exact this.2.2 rfl
  have hg5 : Good (get2e s slots running) = true := by
    simp only [get2R, hbr, if_true] at hg
    split at hg
    · exact hg
    · exact (good_note _ _ _ hg).1
  have hg4 : Good (get2d s slots) = true ∧ (get2e s slots running) = get2d s slots := by
    unfold get2e at hg5 ⊢
    split
    · rename_i hc; simp only [hc, if_true] at hg5; exact ⟨hg5, rfl⟩
    · rename_i hc; simp only [hc, Bool.false_eq_true, if_false] at hg5
      exact absurd rfl (good_note _ _ _ hg5).2.1
  have hg3 : Good (get2c s) = true ∧ get2d s slots = get2c s := by
    have := hg4.1
    unfold get2d at this ⊢
    split
    · rename_i hc; simp only [hc, if_true] at this; exact ⟨this, rfl⟩
    · rename_i hc; simp only [hc, Bool.false_eq_true, if_false] at this
      have hn : Good ((get2c s).note .K s!"slots {repr slots}, model {repr (get2c s).slots}") = true := this
      exact absurd rfl (good_note _ _ _ hn).2.1
  have hg1 : Good (get2a s) = true := by
    have h2 : Good (({ get2a s with phase := .afterGet2 } : SState).checkExpectDone "at loop top") = true := hg3.1
    have h3 := good_ced _ _ h2
    exact h3
  have hni : s.phase ≠ .init := by
    intro hi
    unfold get2a at hg1
    simp only [hi] at hg1
    have hc : ((s.slots.ask == some 0) && ((Phase.init == Phase.loopTop) || (Phase.init == Phase.draining))) = false := by
      simp
    simp only [hc, Bool.false_eq_true, if_false] at hg1
    obtain ⟨_, hph⟩ := good_mono_inPhase _ _ _ hg1
    simp [hi] at hph
  -- the fields of the result
  have fa_s : (get2a s).slots = s.slots := by
    unfold get2a; simp only; split
    · split <;> rfl
    · simp
  have fa_r : (get2a s).running = s.running := by
    unfold get2a; simp only; split
    · split <;> rfl
    · simp
  have fa_e : (get2a s).endedUnconsumed = s.endedUnconsumed := by
    unfold get2a; simp only; split
    · split <;> rfl
    · simp
  have fc_s : (get2c s).slots = s.slots := by simp [get2c, fa_s]
  have fc_r : (get2c s).running = s.running := by simp [get2c, fa_r]
  have fc_e : (get2c s).endedUnconsumed = s.endedUnconsumed := by simp [get2c, fa_e]
  have fc_p : (get2c s).phase = .afterGet2 := by simp [get2c, ced_phase]
  have e5 : get2e s slots running = get2c s := by rw [hg4.2, hg3.2]
  have fR : (get2R s t2 slots got sleep running).phase = .afterGet2 ∧
      (get2R s t2 slots got sleep running).slots = s.slots ∧
      (get2R s t2 slots got sleep running).running = s.running ∧
      (get2R s t2 slots got sleep running).endedUnconsumed = s.endedUnconsumed ∧
      (get2R s t2 slots got sleep running).batch =
        (getBatch (get2ready (get2c s) t2 got) s.slots.ask (get2c s).q).1 := by
    simp only [get2R, hbr, if_true]
    rw [e5]
    refine ⟨?_, ?_, ?_, ?_, ?_⟩
    · split <;> simp [fc_p]
    · split <;> simp [fc_s]
    · split <;> simp [fc_r]
    · split <;> simp [fc_e]
    · simp [fc_s]
  obtain ⟨p1, p2, p3, p4, p5⟩ := fR
  refine ⟨fun hp => (by rw [p1] at hp; cases hp), fun _ k hk => ?_, fun _ n hn => ?_⟩
  · rw [p2, p3, p4]; exact h.2.1 hni k hk
  · rw [p2] at hn; rw [p5, hn]
    exact getBatch_length_le _ n _

/-! ### disagreements are only ever appended -/
syntax "dis_simp" : tactic
macro_rules
  | `(tactic| dis_simp) => `(tactic|
      (simp only [stepL]
       repeat' split
       all_goals (first
         | (simp [SState.note, SState.inPhase, SState.checkExpectDone, SState.followQueues] <;>
              (repeat' split) <;> simp [SState.note])
         | skip)))

theorem dis_tx (c : SCfg) (s : SState) (e : Ev) : s.dis <+: (stepL c s (.tx e)).dis := by dis_simp
theorem dis_ins (c : SCfg) (s : SState) (t : Nat) (a b : List QE) : s.dis <+: (stepL c s (.ins t a b)).dis := by dis_simp
theorem dis_get1 (c : SCfg) (s : SState) (t : Nat) (ask : Option Nat) (ns nc : Nat) : s.dis <+: (stepL c s (.get1 t ask ns nc)).dis := by dis_simp
theorem dis_idle (c : SCfg) (s : SState) (f sl : Bool) : s.dis <+: (stepL c s (.idle f sl)).dis := by dis_simp
theorem dis_notif (c : SCfg) (s : SState) (id : Nat) (f r : Bool) : s.dis <+: (stepL c s (.notif id f r)).dis := by dis_simp
theorem dis_hookTake (c : SCfg) (s : SState) : s.dis <+: (stepL c s .hookTake).dis := by dis_simp
theorem dis_hookRestore (c : SCfg) (s : SState) : s.dis <+: (stepL c s .hookRestore).dis := by dis_simp
theorem dis_exit (c : SCfg) (s : SState) : s.dis <+: (stepL c s .exit).dis := by dis_simp
theorem dis_pOk (c : SCfg) (s : SState) (f : Nat) : s.dis <+: (stepL c s (.pOk f)).dis := by dis_simp
theorem dis_pErr (c : SCfg) (s : SState) : s.dis <+: (stepL c s .pErr).dis := by dis_simp
theorem dis_pEnd (c : SCfg) (s : SState) : s.dis <+: (stepL c s .pEnd).dis := by dis_simp
theorem dis_pPend (c : SCfg) (s : SState) : s.dis <+: (stepL c s .pPend).dis := by dis_simp
theorem dis_pWake (c : SCfg) (s : SState) : s.dis <+: (stepL c s .pWake).dis := by dis_simp
theorem dis_pFinish (c : SCfg) (s : SState) : s.dis <+: (stepL c s .pFinish).dis := by dis_simp
theorem note_prefix (s : SState) (cls : DClass) (m : String) : s.dis <+: (s.note cls m).dis := by
  simp [SState.note]

theorem inPhase_prefix (s : SState) (ok what) : s.dis <+: (s.inPhase ok what).dis := by
  unfold SState.inPhase; split
  · exact List.prefix_refl _
  · exact note_prefix _ _ _

theorem ced_prefix (s : SState) (x) : s.dis <+: (s.checkExpectDone x).dis := by
  unfold SState.checkExpectDone; split
  · exact List.prefix_refl _
  · simp [SState.note]

theorem dis_get2 (c : SCfg) (s : SState) (t : Nat) (sl : Slots) (g : List Nat) (b : Bool) (r : Nat) :
    s.dis <+: (stepL c s (.get2 t sl g b r)).dis := by
  rw [get2_eq]
  have ha : s.dis <+: (get2a s).dis := by
    unfold get2a; simp only; split
    · split
      · simp [SState.note]
      · exact List.prefix_refl _
    · unfold SState.inPhase; split <;> simp [SState.note]
  have hc : (get2a s).dis <+: (get2c s).dis := by
    unfold get2c SState.checkExpectDone; split <;> simp [SState.note]
  have hd : (get2c s).dis <+: (get2d s sl).dis := by
    unfold get2d; split
    · exact List.prefix_refl _
    · simp [SState.note]
  have he : (get2d s sl).dis <+: (get2e s sl r).dis := by
    unfold get2e; split
    · exact List.prefix_refl _
    · exact note_prefix _ _ _
  have hR : (get2e s sl r).dis <+: (get2R s t sl g b r).dis := by
    unfold get2R; simp only; split
    · split
      · exact List.prefix_refl _
      · simp [SState.note]
    · simp [SState.note]
  exact ha.trans (hc.trans (hd.trans (he.trans hR)))
theorem dis_idleContinue (c : SCfg) (s : SState) : s.dis <+: (stepL c s .idleContinue).dis := by dis_simp
theorem dis_idleYield (c : SCfg) (s : SState) : s.dis <+: (stepL c s .idleYield).dis := by dis_simp
theorem dis_idleSlept (c : SCfg) (s : SState) : s.dis <+: (stepL c s .idleSlept).dis := by dis_simp
theorem dis_disp (c : SCfg) (s : SState) (n : Nat) (sl : Slots) : s.dis <+: (stepL c s (.disp n sl)).dis := by dis_simp
theorem dis_cons (c : SCfg) (s : SState) (b : Bool) : s.dis <+: (stepL c s (.cons b)).dis := by dis_simp
theorem dis_brk (c : SCfg) (s : SState) : s.dis <+: (stepL c s .brk).dis := by dis_simp
theorem dis_endA (c : SCfg) (s : SState) (id : Nat) (f r : Bool) (t : Nat) : s.dis <+: (stepL c s (.endA id f r t)).dis := by dis_simp
theorem dis_rx (c : SCfg) (s : SState) (e : Ev) : s.dis <+: (stepL c s (.rx e)).dis := by dis_simp
theorem dis_cbIn (c : SCfg) (s : SState) (a b t : Nat) : s.dis <+: (stepL c s (.cbIn a b t)).dis := by dis_simp
theorem dis_cbOut (c : SCfg) (s : SState) (a b t : Nat) : s.dis <+: (stepL c s (.cbOut a b t)).dis := by dis_simp
theorem dis_envMove (c : SCfg) (s : SState) : s.dis <+: (stepL c s .envMove).dis := by dis_simp
theorem dis_verdict (c : SCfg) (s : SState) (b : Bool) (x y z : Nat) : s.dis <+: (stepL c s (.verdict b x y z)).dis := by dis_simp
theorem dis_other (c : SCfg) (s : SState) : s.dis <+: (stepL c s .other).dis := by dis_simp
theorem dis_poll (c : SCfg) (s : SState) : s.dis <+: (stepL c s .poll).dis := by dis_simp

/-- **the acceptor only ever appends disagreements** -/
theorem dis_prefix (c : SCfg) (s : SState) (l : Label) : s.dis <+: (stepL c s l).dis := by
  cases l with
  | hookTake => exact dis_hookTake c s
  | hookRestore => exact dis_hookRestore c s
  | exit => exact dis_exit c s
  | tx e => exact dis_tx c s e
  | pOk f => exact dis_pOk c s f
  | pErr => exact dis_pErr c s
  | pEnd => exact dis_pEnd c s
  | pPend => exact dis_pPend c s
  | pWake => exact dis_pWake c s
  | pFinish => exact dis_pFinish c s
  | ins t a b => exact dis_ins c s t a b
  | get1 t a ns nc => exact dis_get1 c s t a ns nc
  | get2 t sl g b r => exact dis_get2 c s t sl g b r
  | idle f sl => exact dis_idle c s f sl
  | idleContinue => exact dis_idleContinue c s
  | idleYield => exact dis_idleYield c s
  | idleSlept => exact dis_idleSlept c s
  | disp n sl => exact dis_disp c s n sl
  | cons b => exact dis_cons c s b
  | notif id f r => exact dis_notif c s id f r
  | brk => exact dis_brk c s
  | endA id f r t => exact dis_endA c s id f r t
  | rx e => exact dis_rx c s e
  | cbIn a b t => exact dis_cbIn c s a b t
  | cbOut a b t => exact dis_cbOut c s a b t
  | envMove => exact dis_envMove c s
  | verdict b x y z => exact dis_verdict c s b x y z
  | poll => exact dis_poll c s
  | other => exact dis_other c s

theorem good_of_prefix (s s' : SState) (h : s.dis <+: s'.dis) (hg : Good s' = true) : Good s = true := by
  obtain ⟨t, ht⟩ := h
  simp only [Good, ← ht, all_append, Bool.and_eq_true] at hg
  exact hg.1

theorem good_step_mono (c : SCfg) (s : SState) (l : Label) (hg : Good (stepL c s l) = true) : Good s = true :=
  good_of_prefix s _ (dis_prefix c s l) hg

theorem frame_verdict (c : SCfg) (s : SState) (b : Bool) (x y z : Nat) : FrameOK s (stepL c s (.verdict b x y z)) := by frame_simp
theorem frame_poll (c : SCfg) (s : SState) : FrameOK s (stepL c s .poll) := by frame_simp

/-- **one step keeps the slot invariant** (when it raises no disagreement of classes K / I / Q) -/
theorem step_inv (c : SCfg) (s : SState) (l : Label) (h : InvK c s) (hg : Good (stepL c s l) = true) : InvK c (stepL c s l) := by
  cases l with
  | hookTake => exact hookTake_inv c s h hg
  | hookRestore => exact invK_frame c s _ h (frame_hookRestore c s)
  | exit => exact invK_phase c s _ h (phase_exit c s) hg
  | tx e => exact invK_frame c s _ h (frame_tx c s e)
  | pOk f => exact invK_frame c s _ h (frame_pOk c s f)
  | pErr => exact invK_frame c s _ h (frame_pErr c s)
  | pEnd => exact invK_frame c s _ h (frame_pEnd c s)
  | pPend => exact invK_frame c s _ h (frame_pPend c s)
  | pWake => exact invK_frame c s _ h (frame_pWake c s)
  | pFinish => exact invK_frame c s _ h (frame_pFinish c s)
  | ins t a b => exact invK_frame c s _ h (frame_ins c s t a b)
  | get1 t a ns nc => exact invK_phase c s _ h (phase_get1 c s t a ns nc) hg
  | get2 t sl g b r => exact get2_inv c s t sl g b r h hg
  | idle f sl => exact invK_phase c s _ h (phase_idle c s f sl) hg
  | idleContinue => exact invK_phase c s _ h (phase_idleContinue c s) hg
  | idleYield => exact invK_phase c s _ h (phase_idleYield c s) hg
  | idleSlept => exact invK_phase c s _ h (phase_idleSlept c s) hg
  | disp n sl => exact disp_inv c s n sl h hg
  | cons b => exact cons_inv c s b h hg
  | notif id f r => exact invK_frame c s _ h (frame_notif c s id f r)
  | brk => exact brk_inv c s h hg
  | endA id f r t => exact endA_inv c s id f r t h
  | rx e => exact invK_frame c s _ h (frame_rx c s e)
  | cbIn a b t => exact invK_frame c s _ h (frame_cbIn c s a b t)
  | cbOut a b t => exact invK_frame c s _ h (frame_cbOut c s a b t)
  | envMove => exact invK_frame c s _ h (frame_env c s)
  | verdict b x y z => exact invK_frame c s _ h (frame_verdict c s b x y z)
  | poll => exact invK_frame c s _ h (frame_poll c s)
  | other => exact invK_frame c s _ h (frame_other c s)

end Cuke.SchedInv
