import Cuke.Model.SchedLts
/-! Field-preservation lemmas for the bookkeeping helpers of the scheduler LTS. -/
namespace Cuke

@[simp] theorem note_notifs (s : SState) (c m) : (s.note c m).notifs = s.notifs := rfl
@[simp] theorem note_slots (s : SState) (c m) : (s.note c m).slots = s.slots := rfl
@[simp] theorem note_running (s : SState) (c m) : (s.note c m).running = s.running := rfl
@[simp] theorem note_ended (s : SState) (c m) : (s.note c m).endedUnconsumed = s.endedUnconsumed := rfl
@[simp] theorem note_q (s : SState) (c m) : (s.note c m).q = s.q := rfl
@[simp] theorem note_br (s : SState) (c m) : (s.note c m).br = s.br := rfl
@[simp] theorem note_expect (s : SState) (c m) : (s.note c m).expect = s.expect := rfl
@[simp] theorem note_phase (s : SState) (c m) : (s.note c m).phase = s.phase := rfl
@[simp] theorem note_tripDue (s : SState) (c m) : (s.note c m).tripDue = s.tripDue := rfl
@[simp] theorem note_batch (s : SState) (c m) : (s.note c m).batch = s.batch := rfl
@[simp] theorem note_parserStopped (s : SState) (c m) : (s.note c m).parserStopped = s.parserStopped := rfl
@[simp] theorem note_idleSuspended (s : SState) (c m) : (s.note c m).idleSuspended = s.idleSuspended := rfl
@[simp] theorem note_parserDone (s : SState) (c m) : (s.note c m).parserDone = s.parserDone := rfl
theorem note_dis (s : SState) (c m) : (s.note c m).dis = s.dis ++ [⟨c, s.pos, m⟩] := rfl

theorem inPhase_eq (s : SState) (ok what) :
    s.inPhase ok what = s ∨ s.inPhase ok what = s.note .I s!"{what} in phase {repr s.phase}" := by
  unfold SState.inPhase; split <;> simp

@[simp] theorem inPhase_notifs (s : SState) (ok what) : (s.inPhase ok what).notifs = s.notifs := by
  unfold SState.inPhase; split <;> rfl
@[simp] theorem inPhase_slots (s : SState) (ok what) : (s.inPhase ok what).slots = s.slots := by
  unfold SState.inPhase; split <;> rfl
@[simp] theorem inPhase_running (s : SState) (ok what) : (s.inPhase ok what).running = s.running := by
  unfold SState.inPhase; split <;> rfl
@[simp] theorem inPhase_ended (s : SState) (ok what) : (s.inPhase ok what).endedUnconsumed = s.endedUnconsumed := by
  unfold SState.inPhase; split <;> rfl
@[simp] theorem inPhase_q (s : SState) (ok what) : (s.inPhase ok what).q = s.q := by
  unfold SState.inPhase; split <;> rfl
@[simp] theorem inPhase_br (s : SState) (ok what) : (s.inPhase ok what).br = s.br := by
  unfold SState.inPhase; split <;> rfl
@[simp] theorem inPhase_expect (s : SState) (ok what) : (s.inPhase ok what).expect = s.expect := by
  unfold SState.inPhase; split <;> rfl
@[simp] theorem inPhase_tripDue (s : SState) (ok what) : (s.inPhase ok what).tripDue = s.tripDue := by
  unfold SState.inPhase; split <;> rfl
@[simp] theorem inPhase_batch (s : SState) (ok what) : (s.inPhase ok what).batch = s.batch := by
  unfold SState.inPhase; split <;> rfl
@[simp] theorem inPhase_idleSuspended (s : SState) (ok what) : (s.inPhase ok what).idleSuspended = s.idleSuspended := by
  unfold SState.inPhase; split <;> rfl
@[simp] theorem inPhase_parserStopped (s : SState) (ok what) : (s.inPhase ok what).parserStopped = s.parserStopped := by
  unfold SState.inPhase; split <;> rfl

@[simp] theorem ced_notifs (s : SState) (x) : (s.checkExpectDone x).notifs = s.notifs := by
  unfold SState.checkExpectDone; split <;> rfl
@[simp] theorem ced_slots (s : SState) (x) : (s.checkExpectDone x).slots = s.slots := by
  unfold SState.checkExpectDone; split <;> rfl
@[simp] theorem ced_running (s : SState) (x) : (s.checkExpectDone x).running = s.running := by
  unfold SState.checkExpectDone; split <;> rfl
@[simp] theorem ced_ended (s : SState) (x) : (s.checkExpectDone x).endedUnconsumed = s.endedUnconsumed := by
  unfold SState.checkExpectDone; split <;> rfl
@[simp] theorem ced_q (s : SState) (x) : (s.checkExpectDone x).q = s.q := by
  unfold SState.checkExpectDone; split <;> rfl
@[simp] theorem ced_br (s : SState) (x) : (s.checkExpectDone x).br = s.br := by
  unfold SState.checkExpectDone; split <;> rfl
@[simp] theorem ced_tripDue (s : SState) (x) : (s.checkExpectDone x).tripDue = s.tripDue := by
  unfold SState.checkExpectDone; split <;> rfl
@[simp] theorem ced_batch (s : SState) (x) : (s.checkExpectDone x).batch = s.batch := by
  unfold SState.checkExpectDone; split <;> rfl
@[simp] theorem ced_expect (s : SState) (x) : (s.checkExpectDone x).expect = [] := by
  unfold SState.checkExpectDone; split <;> rfl

end Cuke
