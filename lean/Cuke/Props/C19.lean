import Cuke.Model.Glue
/-!
# C19 — Step attributes register and dispatch functions as written
The Lean part covers the argument-grouping logic of the generated glue (`Cuke.Glue`). Macro expansion
itself (syn/quote), `inventory` registration, `regex::escape` and `cucumber-expressions` are outside any
model: that part of C19 is decided by the differential over a zoo of annotated functions compiled into
the harness with the real macros (registration table, literal matching, dispatch, parse failures).
-/
namespace Cuke.C19
open Cuke.Glue List

/-- plain groups (no `__n` prefix) are one argument each -/
def Plain (m : Match) : Prop := prefixOf m.1 = none

theorem inGroup_none (m : Match) : inGroup none m = false := by
  simp [inGroup]

theorem takeArg_plain (m : Match) (rest : List Match) (h : Plain m) :
    takeArg (m :: rest) = some (m.2, rest) := by
  unfold Plain at h
  have h1 : rest.takeWhile (inGroup none) = [] := by
    cases rest with
    | nil => rfl
    | cons x xs => simp [takeWhile_cons, inGroup_none]
  have h2 : rest.dropWhile (inGroup none) = rest := by
    cases rest with
    | nil => rfl
    | cons x xs => simp [dropWhile_cons, inGroup_none]
  simp only [takeArg, h, h1, h2, map_nil]
  cases hm : m.2 with
  | nil => simp [firstNonEmpty]
  | cons c cs => simp [firstNonEmpty]

/-- **One argument per plain group, in order**: with only plain groups, `n` declared arguments receive
    the first `n` capture-group values in declaration order (a group that did not participate is `""`). -/
theorem args_plain (ms : List Match) (n : Nat) (h : ∀ m ∈ ms, Plain m) (hn : n ≤ ms.length) :
    takeArgs n ms = some ((ms.take n).map (·.2)) := by
  induction n generalizing ms with
  | zero => simp [takeArgs]
  | succ n ih =>
    cases ms with
    | nil => simp at hn
    | cons m rest =>
      simp only [takeArgs, takeArg_plain m rest (h m (by simp))]
      rw [ih rest (fun x hx => h x (by simp [hx])) (by simpa using hn)]
      simp

/-- fewer groups than declared arguments: the glue panics ("<arg> not found"), it does not invent values -/
theorem args_missing (ms : List Match) (n : Nat) (h : ∀ m ∈ ms, Plain m) (hn : ms.length < n) :
    takeArgs n ms = none := by
  induction n generalizing ms with
  | zero => omega
  | succ n ih =>
    cases ms with
    | nil => simp [takeArgs, takeArg]
    | cons m rest =>
      simp only [takeArgs, takeArg_plain m rest (h m (by simp))]
      rw [ih rest (fun x hx => h x (by simp [hx])) (by simpa using hn)]
      rfl

/-- **Slice mode** yields all of them. -/
theorem args_slice_plain (ms : List Match) (fuel : Nat) (h : ∀ m ∈ ms, Plain m) (hf : ms.length ≤ fuel) :
    sliceArgs fuel ms = ms.map (·.2) := by
  induction fuel generalizing ms with
  | zero => cases ms with
    | nil => rfl
    | cons m r => simp at hf
  | succ f ih =>
    cases ms with
    | nil => simp [sliceArgs, takeArg]
    | cons m rest =>
      simp only [sliceArgs, takeArg_plain m rest (h m (by simp)), map_cons]
      rw [ih rest (fun x hx => h x (by simp [hx])) (by simpa using hf)]

/-- **Multi-group parameters collapse to one argument**: a head group named `__k_…` followed by `g`
    groups with the same `__k` prefix (and then a group outside it) is consumed as ONE argument whose
    value is the first non-empty one. -/
theorem args_multi_group (m : Match) (grp rest : List Match) (p : Str)
    (hp : prefixOf m.1 = some p) (hg : ∀ x ∈ grp, inGroup (some p) x = true)
    (hr : ∀ x, rest.head? = some x → inGroup (some p) x = false) :
    takeArg (m :: (grp ++ rest)) = some (firstNonEmpty (m.2 :: grp.map (·.2)), rest) := by
  have h1 : (grp ++ rest).takeWhile (inGroup (some p)) = grp := by
    induction grp with
    | nil =>
      cases rest with
      | nil => rfl
      | cons x xs => simp [takeWhile_cons, hr x rfl]
    | cons g gs ih =>
      simp only [cons_append, takeWhile_cons, hg g (by simp), if_true]
      rw [ih (fun x hx => hg x (by simp [hx]))]
  have h2 : (grp ++ rest).dropWhile (inGroup (some p)) = rest := by
    clear h1
    induction grp with
    | nil =>
      cases rest with
      | nil => rfl
      | cons x xs => simp [dropWhile_cons, hr x rfl]
    | cons g gs ih =>
      simp only [cons_append, dropWhile_cons, hg g (by simp), if_true]
      exact ih (fun x hx => hg x (by simp [hx]))
  simp [takeArg, hp, h1, h2]

/-- the value handed over is one of the group's values, the first non-empty one -/
theorem firstNonEmpty_spec (vs : List Str) :
    (firstNonEmpty vs = [] ∧ ∀ v ∈ vs, v = []) ∨
    (∃ pre v post, vs = pre ++ v :: post ∧ (∀ x ∈ pre, x = []) ∧ v ≠ [] ∧ firstNonEmpty vs = v) := by
  induction vs with
  | nil => left; simp [firstNonEmpty]
  | cons s rest ih =>
    cases hs : s with
    | nil =>
      simp only [firstNonEmpty, isEmpty_nil, if_true]
      rcases ih with ⟨h1, h2⟩ | ⟨pre, v, post, h1, h2, h3, h4⟩
      · left; exact ⟨h1, by simpa using h2⟩
      · right; exact ⟨[] :: pre, v, post, by simp [h1], by simpa using h2, h3, h4⟩
    | cons c cs =>
      right
      exact ⟨[], c :: cs, rest, rfl, by simp, by simp, by simp [firstNonEmpty]⟩

/-- a parse failure of a typed argument is a panic (the step fails), never a silently skipped argument -/
theorem parse_failure_panics (ts : List ArgTy) (ss : List Str) (i : Nat) (t : ArgTy) (s : Str)
    (ht : ts[i]? = some t) (hs : ss[i]? = some s) (hp : parseArg t s = none) : parseAll ts ss = none := by
  induction ts generalizing ss i with
  | nil => simp at ht
  | cons t0 ts ih =>
    cases ss with
    | nil => simp at hs
    | cons s0 ss =>
      cases i with
      | zero =>
        simp only [getElem?_cons_zero, Option.some.injEq] at ht hs
        subst ht; subst hs
        simp [parseAll, hp]
      | succ j =>
        simp only [getElem?_cons_succ] at ht hs
        have := ih ss j ht hs
        simp only [parseAll, this]
        cases parseArg t0 s0 <;> rfl

/-- literal attributes: the generated regex is `^escape(l)$`; under `regex::escape`'s contract
    (assumed, tied by the zoo differential) it matches exactly the identical text -/
def literalMatches (l t : Str) : Bool := l == t

theorem literal_iff (l t : Str) : literalMatches l t = true ↔ t = l := by
  unfold literalMatches
  constructor
  · intro h; exact (beq_iff_eq.mp h).symm
  · intro h; exact beq_iff_eq.mpr h.symm

/-! ## Non-vacuity -/
def n0 : Option Str := some "__0_0".toList
def n1 : Option Str := some "__0_1".toList
example : positional 2 [(none, "whole".toList), (n0, []), (n1, "7".toList), (none, "x".toList)] =
    some ["7".toList, "x".toList] := by decide
example : slice [(none, "w".toList), (none, "1".toList), (none, "2".toList)] = ["1".toList, "2".toList] := by decide
example : parseAll [.u32, .str] ["x1".toList, "a".toList] = none := by decide

end Cuke.C19
