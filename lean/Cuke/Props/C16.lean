import Cuke.Model.Outline
/-!
# C16 — Scenario outlines expand to one correctly substituted scenario per example row
Model: `Cuke.expandFeature`, `Cuke.expandScenario`, `Cuke.expandRow`, `Cuke.subst` (Cuke/Model/Outline.lean).
-/
namespace Cuke.C16
open Cuke List

/-! ## scenarios without Examples are unchanged -/

theorem no_examples_unchanged (sc : OScen) (h : sc.examples = []) : expandScenario sc = [.ok sc] := by
  simp [expandScenario, h]

/-! ## one scenario per data row, in table order then row order -/

/-- number of data rows of a table that has a header (tables without a header contribute nothing) -/
def dataRows (ex : OExamples) : Nat := ((tableRows ex).map (·.2.length)).getD 0

theorem expand_count (sc : OScen) (h : sc.examples ≠ []) :
    (expandScenario sc).length = (sc.examples.map dataRows).sum := by
  have : sc.examples.isEmpty = false := by simpa using h
  simp only [expandScenario, this, Bool.false_eq_true, if_false, length_flatMap]
  congr 1
  apply map_congr_left
  intro ex _
  unfold dataRows
  cases tableRows ex with
  | none => simp
  | some hv => simp

/-- A table with only a header (or no table at all) contributes no scenario. -/
theorem header_only_contributes_nothing (ex : OExamples) (h : ex.table = none ∨ ∃ hd, ex.table = some [hd]) :
    dataRows ex = 0 := by
  rcases h with h | ⟨hd, h⟩ <;> simp [dataRows, tableRows, h]

/-- The expansion of a scenario is the concatenation, in table order, of its tables' rows in row order. -/
theorem expand_order (sc : OScen) (h : sc.examples ≠ []) :
    expandScenario sc = sc.examples.flatMap (fun ex =>
      match tableRows ex with
      | none => []
      | some (hd, vs) => (List.range vs.length).map (fun i => expandRow sc ex hd i (vs.getD i []))) := by
  have : sc.examples.isEmpty = false := by simpa using h
  unfold expandScenario
  simp only [this, Bool.false_eq_true, if_false]
  rfl

/-- Expanded scenarios take the outline's place, in order (`flat_map` over the scenario list). -/
theorem expand_in_place (pre post : List OScen) (sc : OScen) :
    (pre ++ sc :: post).flatMap expandScenario =
      pre.flatMap expandScenario ++ expandScenario sc ++ post.flatMap expandScenario := by
  simp [flatMap_append]

/-! ## position and tags of an expanded scenario -/

/-- Row `i` (0-based) of the table at `ex.line`: position `(ex.line + i + 2, ex.col)`; tags are the
    outline's followed by the table's. -/
theorem expand_position_tags (sc sc' : OScen) (ex : OExamples) (hd : List Str) (i : Nat) (vals : List Str)
    (h : expandRow sc ex hd i vals = .ok sc') :
    sc'.line = ex.line + i + 2 ∧ sc'.col = ex.col ∧ sc'.tags = sc.tags ++ ex.tags ∧
    sc'.name = (subst (hd.zip vals) sc.name).1 ∧ sc'.examples = sc.examples := by
  unfold expandRow at h
  simp only at h
  split at h
  · cases h
  · split at h
    · cases h
    · injection h with h
      subst h
      simp

/-- **Distinct positions.** If each table's keyword line lies after the previous table's last data row
    (as in any parsed file), the rows of different tables — and different rows of one table — get
    different lines. -/
theorem positions_distinct (ex₁ ex₂ : OExamples) (i j n₁ : Nat) (hi : i < n₁)
    (hsp : ex₁.line + n₁ + 1 < ex₂.line) : ex₁.line + i + 2 ≠ ex₂.line + j + 2 := by omega

theorem positions_distinct_same_table (ex : OExamples) (i j : Nat) (h : i ≠ j) :
    ex.line + i + 2 ≠ ex.line + j + 2 := by omega

/-- … and they differ from every scenario that stands before the table in the file. -/
theorem position_differs_from_earlier (ex : OExamples) (i line : Nat) (h : line < ex.line) :
    ex.line + i + 2 ≠ line := by omega

/-! ## substitution -/

inductive Tok where
  | lit (s : Str)
  | ph (name : Str)
  deriving Repr, DecidableEq

def Tok.render : Tok → Str
  | .lit s => s
  | .ph n => '<' :: n ++ ['>']

def render (ts : List Tok) : Str := ts.flatMap Tok.render

/-- well-formed tokens: literals without `<`; placeholder names non-empty, without `>` and whitespace —
    the placeholder syntax the crate recognises -/
def Tok.wf : Tok → Prop
  | .lit s => '<' ∉ s
  | .ph n => n ≠ [] ∧ ∀ c ∈ n, nameChar c = true

/-- what substitution should produce, token by token: (text, last unknown placeholder) -/
def substSpec (row : List (Str × Str)) : List Tok → Str × Option Str
  | [] => ([], none)
  | .lit s :: ts => (s ++ (substSpec row ts).1, (substSpec row ts).2)
  | .ph n :: ts =>
    match lookupCol row n with
    | some v => (v ++ (substSpec row ts).1, (substSpec row ts).2)
    | none => ((substSpec row ts).1, (substSpec row ts).2.or (some n))

theorem substF_lit (row) (s rest : Str) (f : Nat) (hs : '<' ∉ s) :
    substF row (f + s.length) (s ++ rest) = (s ++ (substF row f rest).1, (substF row f rest).2) := by
  induction s with
  | nil => simp
  | cons c cs ih =>
    have hc : (c == '<') = false := by
      simp only [beq_eq_false_iff_ne, ne_eq]; intro h; exact hs (by simp [h])
    have hcs : '<' ∉ cs := fun h => hs (by simp [h])
    have : f + (c :: cs).length = (f + cs.length) + 1 := by simp; omega
    rw [this]
    simp only [cons_append, substF, hc, Bool.false_eq_true, if_false]
    rw [ih hcs]

theorem takeWhile_name (n rest : Str) (h : ∀ c ∈ n, nameChar c = true) :
    (n ++ '>' :: rest).takeWhile nameChar = n ∧ (n ++ '>' :: rest).dropWhile nameChar = '>' :: rest := by
  induction n with
  | nil => simp [nameChar]
  | cons c cs ih =>
    have hc := h c (by simp)
    have := ih (fun x hx => h x (by simp [hx]))
    simp [takeWhile_cons, dropWhile_cons, hc, this]

theorem substF_ph (row) (n rest : Str) (f : Nat) (hne : n ≠ []) (hn : ∀ c ∈ n, nameChar c = true) :
    substF row (f + 1) ('<' :: n ++ '>' :: rest) =
      match lookupCol row n with
      | some v => (v ++ (substF row f rest).1, (substF row f rest).2)
      | none => ((substF row f rest).1, (substF row f rest).2.or (some n)) := by
  obtain ⟨h1, h2⟩ := takeWhile_name n rest hn
  simp only [cons_append, substF, beq_self_eq_true, if_true, h1, h2]
  cases n with
  | nil => exact absurd rfl hne
  | cons c cs => rfl

/-- more fuel than characters never changes the result -/
theorem substF_fuel (row) (s : Str) (f g : Nat) (hf : s.length < f) (hg : s.length < g) :
    substF row f s = substF row g s := by
  induction f generalizing s g with
  | zero => omega
  | succ f ih =>
    cases g with
    | zero => omega
    | succ g =>
      cases s with
      | nil => simp [substF]
      | cons c rest =>
        simp only [substF]
        have hl : rest.length < f := by simp at hf; omega
        have hl' : rest.length < g := by simp at hg; omega
        split
        · split
          · rename_i nm after _ _ after' hnm haf
            have hdl : after'.length < rest.length := by
              have := (List.dropWhile_suffix nameChar (l := rest)).length_le
              rw [haf] at this; simp at this; omega
            rw [ih after' g (by omega) (by omega)]
          · rw [ih rest g hl hl']
        · rw [ih rest g hl hl']

/-- **Substitution theorem.** For a string rendered from well-formed tokens, `subst` yields exactly the
    token-wise result: literals untouched, every placeholder replaced by its row value inserted verbatim
    (no re-scan, no `$` expansion), and the LAST unknown placeholder reported. -/
theorem subst_tokens (row : List (Str × Str)) (ts : List Tok) (h : ∀ t ∈ ts, t.wf) :
    subst row (render ts) = substSpec row ts := by
  suffices ∀ f, (render ts).length < f → substF row f (render ts) = substSpec row ts from
    this _ (by simp)
  induction ts with
  | nil => intro f _; cases f <;> simp [render, substF, substSpec]
  | cons t ts ih =>
    have iht := ih (fun x hx => h x (by simp [hx]))
    have hwf := h t (by simp)
    intro f hf
    have hr : render (t :: ts) = t.render ++ render ts := rfl
    rw [hr] at hf ⊢
    cases t with
    | lit s =>
      simp only [Tok.render] at hf ⊢
      rw [substF_fuel row _ f ((render ts).length + 1 + s.length) hf (by simp; omega)]
      rw [substF_lit row s _ _ hwf, iht _ (by omega)]
      rfl
    | ph n =>
      simp only [Tok.render] at hf ⊢
      have : ('<' :: n ++ ['>']) ++ render ts = '<' :: n ++ '>' :: render ts := by simp
      rw [this] at hf ⊢
      rw [substF_fuel row _ f (((render ts).length + n.length + 2) + 1) hf (by simp; omega)]
      rw [substF_ph row n _ _ hwf.1 hwf.2, iht _ (by omega)]
      simp only [substSpec]

/-- all placeholder names are columns ⇒ no error and the text is the concatenation of the pieces -/
theorem subst_all_known (row : List (Str × Str)) (ts : List Tok)
    (hk : ∀ n, Tok.ph n ∈ ts → (lookupCol row n).isSome = true) :
    (substSpec row ts).2 = none ∧
    (substSpec row ts).1 = ts.flatMap (fun t => match t with | .lit s => s | .ph n => (lookupCol row n).getD []) := by
  induction ts with
  | nil => simp [substSpec]
  | cons t ts ih =>
    have := ih (fun n hn => hk n (by simp [hn]))
    cases t with
    | lit s => simp [substSpec, this]
    | ph n =>
      have hn := hk n (by simp)
      cases hl : lookupCol row n with
      | none => simp [hl] at hn
      | some v => simp [substSpec, hl, this]

/-- an unknown placeholder ⇒ an error naming a placeholder that is indeed unknown and present -/
theorem subst_unknown_error (row : List (Str × Str)) (ts : List Tok) (n : Str)
    (h : (substSpec row ts).2 = some n) : Tok.ph n ∈ ts ∧ lookupCol row n = none := by
  induction ts with
  | nil => simp [substSpec] at h
  | cons t ts ih =>
    cases t with
    | lit s =>
      simp only [substSpec] at h
      have := ih h
      exact ⟨by simp [this.1], this.2⟩
    | ph m =>
      simp only [substSpec] at h
      cases hl : lookupCol row m with
      | some v =>
        simp only [hl] at h
        have := ih h
        exact ⟨by simp [this.1], this.2⟩
      | none =>
        simp only [hl] at h
        cases hr : (substSpec row ts).2 with
        | some k =>
          rw [hr] at h; simp at h; subst h
          have := ih hr
          exact ⟨by simp [this.1], this.2⟩
        | none =>
          rw [hr] at h; simp at h; subst h
          exact ⟨by simp, hl⟩

/-- … and conversely: any unknown placeholder present makes the substitution report an error. -/
theorem unknown_is_reported (row : List (Str × Str)) (ts : List Tok) (n : Str)
    (hn : Tok.ph n ∈ ts) (hl : lookupCol row n = none) : (substSpec row ts).2.isSome = true := by
  induction ts with
  | nil => simp at hn
  | cons t ts ih =>
    simp only [mem_cons] at hn
    cases t with
    | lit s =>
      rcases hn with hn | hn
      · cases hn
      · simpa [substSpec] using ih hn
    | ph m =>
      simp only [substSpec]
      rcases hn with hn | hn
      · injection hn with hn; subst hn
        simp only [hl]
        cases (substSpec row ts).2 <;> simp
      · cases lookupCol row m with
        | some v => simpa using ih hn
        | none =>
          have := ih hn
          cases hr : (substSpec row ts).2 with
          | none => simp [hr] at this
          | some k => simp

/-- An error in any string of any row turns the whole feature into a single error. -/
theorem collectR_first_error (e : OErr) (pre post : List (Except OErr OScen))
    (hpre : ∀ x ∈ pre, ∃ s, x = .ok s) : collectR (pre ++ .error e :: post) = .error e := by
  induction pre with
  | nil => rfl
  | cons x xs ih =>
    obtain ⟨s, rfl⟩ := hpre x (by simp)
    simp only [cons_append, collectR]
    rw [ih (fun y hy => hpre y (by simp [hy]))]

theorem error_fails_feature (scs : List OScen) (e : OErr) (pre : List (Except OErr OScen)) (post)
    (hpre : ∀ x ∈ pre, ∃ s, x = .ok s) (h : scs.flatMap expandScenario = pre ++ .error e :: post) :
    expandList scs = .error e := by
  unfold expandList
  rw [h]
  exact collectR_first_error e pre post hpre

/-- a failing rule scenario or top-level scenario list makes `expand_examples` return that error -/
theorem feature_error (f : OFeat) (e : OErr) (rules : List (List OScen))
    (hr : expandRules f.rules = .ok rules) (hs : expandList f.scens = .error e) :
    expandFeature f = .error e := by
  simp [expandFeature, hr, hs]

/-! ## Non-vacuity -/
def exRow : List (Str × Str) := [("a".toList, "1".toList), ("b".toList, "<a>$1".toList)]
def exToks : List Tok := [.lit "x ".toList, .ph "a".toList, .ph "b".toList, .lit " y".toList]
example : (∀ t ∈ exToks, t.wf) := by
  intro t ht
  simp only [exToks, mem_cons, mem_nil_iff, or_false] at ht
  rcases ht with rfl | rfl | rfl | rfl <;> simp [Tok.wf] <;> decide
example : subst exRow (render exToks) = ("x 1<a>$1 y".toList, none) := by decide
example : (subst exRow "p <zz> <a> <qq>".toList).2 = some "qq".toList := by decide

end Cuke.C16
