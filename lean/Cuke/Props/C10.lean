import Cuke.Model.Attempt
import Cuke.Props.C02
import Cuke.Props.C09
import Cuke.Lemmas.SchedSpin
/-!
# C10 — Panics in user code are contained and reported, never lost or propagated
Attempt level: `runAttempt` is a total function of the outcome assignment in which a panic is an
outcome VALUE (`catch_unwind`); the theorems say what every such assignment yields.
Run level (end of this file): the panic-hook window as an invariant of whole runs of the scheduler LTS
(Lemmas/SchedSpin.lean); "other scenarios unaffected" is the conservation theorem of C04 (`lts_all_created_ended`:
every created attempt ends, whatever fails) and "the run still ends with run-Finished" the exit theorems of C03 / C08.
-/
namespace Cuke.C10
open Cuke List

def isFailureEv (e : ScenEv) : Bool := e.isStepFailed || e.isHookFailed

/-- Whatever panics, the attempt still ends with Finished. -/
theorem finished_after_any_panic (sp : AttemptSpec) (wid : Nat) :
    (runAttempt sp wid).events.getLast? = some .finished := by
  simp [runAttempt]

/-- Whatever panics (before hook, step, World creation), a set after hook is still called — once, last. -/
theorem after_hook_after_any_panic (sp : AttemptSpec) (wid : Nat) (h : sp.hasAfter = true) :
    ∃ body w, (runAttempt sp wid).calls = body ++ [Call.after (runAttempt sp wid).reason w] := by
  obtain ⟨body, w, h1, _⟩ := (C09.after_hook_once_with_reason sp wid).2 h
  exact ⟨body, w, h1⟩

theorem specSteps_deferred_failure (sp : AttemptSpec) (idx : Nat) (l : List (Bool × Nat)) :
    (∀ e ∈ (C02.specSteps sp idx l).2.deferred, isFailureEv e = true) ∧
    ((C02.specSteps sp idx l).2.isFailure = true ↔ (C02.specSteps sp idx l).2.deferred ≠ []) := by
  induction l generalizing idx with
  | nil => simp [C02.specSteps, Stop.deferred, Stop.isFailure]
  | cons s rest ih =>
    obtain ⟨bg, i⟩ := s
    simp only [C02.specSteps]
    cases C02.effRes sp idx bg i with
    | passed => exact ih _
    | skipped => simp [Stop.deferred, Stop.isFailure]
    | started => simp [Stop.deferred, Stop.isFailure]
    | failed e =>
      cases bg <;> simp [Stop.deferred, Stop.isFailure, isFailureEv, stepEv, ScenEv.isStepFailed, ScenEv.stepRes?, StepRes.isFailed]

theorem specBefore_stop_cases (sp : AttemptSpec) :
    (C02.specBefore sp).2 = .none ∨ ∃ p, (C02.specBefore sp).2 = .beforeFailed (.hook .before (.failed p)) := by
  unfold C02.specBefore
  cases sp.hasBefore <;> cases sp.init <;> cases sp.before <;> simp

theorem specStop_deferred_failure (sp : AttemptSpec) :
    (∀ e ∈ (C02.specStop sp).deferred, isFailureEv e = true) ∧
    ((C02.specStop sp).isFailure = true ↔ (C02.specStop sp).deferred ≠ []) := by
  unfold C02.specStop
  rcases specBefore_stop_cases sp with h | ⟨p, h⟩
  · rw [h]; exact specSteps_deferred_failure sp 0 _
  · rw [h]; simp [Stop.deferred, Stop.isFailure, isFailureEv, ScenEv.isHookFailed, HookRes.isFailed]

/-- **Never lost.** The attempt is reported failed iff its event sequence contains a Failed event
    (of a step, of the before hook, or of the after hook). -/
theorem failed_iff_failure_event (sp : AttemptSpec) (wid : Nat) :
    (runAttempt sp wid).failed = true ↔ ∃ e ∈ (runAttempt sp wid).events, isFailureEv e = true := by
  obtain ⟨pre, hev, hpre⟩ := C02.failure_before_after_hook sp wid
  obtain ⟨hd1, hd2⟩ := specStop_deferred_failure sp
  have hstop : (runBody sp wid).2 = C02.specStop sp := (C02.runBody_spec sp wid).2
  have hfailed : (runAttempt sp wid).failed = ((C02.specStop sp).isFailure || afterFailed sp) := by
    simp [runAttempt, hstop]
  rw [hfailed, hev]
  constructor
  · intro h
    simp only [Bool.or_eq_true] at h
    rcases h with h | h
    · obtain ⟨e, he⟩ := exists_mem_of_ne_nil _ (hd2.mp h)
      exact ⟨e, by simp [he], hd1 e he⟩
    · simp only [afterFailed, Bool.and_eq_true, bne_iff_ne, ne_eq] at h
      cases ha : sp.after with
      | pass => exact absurd ha h.2
      | panic p =>
        refine ⟨.hook .after (.failed p), ?_, by simp [isFailureEv, ScenEv.isHookFailed, HookRes.isFailed]⟩
        simp [C02.specAfter, h.1, ha]
  · rintro ⟨e, he, hf⟩
    simp only [mem_append, mem_singleton] at he
    rcases he with ((he | he) | he) | he
    · have := hpre e he
      simp [isFailureEv, this.1, this.2] at hf
    · simp only [Bool.or_eq_true]; left
      exact hd2.mpr (ne_nil_of_mem he)
    · simp only [Bool.or_eq_true]; right
      unfold C02.specAfter at he
      cases hh : sp.hasAfter with
      | false => simp [hh] at he
      | true =>
        cases ha : sp.after with
        | pass =>
          simp [hh, ha] at he
          rcases he with rfl | rfl <;> simp [isFailureEv, ScenEv.isHookFailed, ScenEv.isStepFailed, ScenEv.stepRes?, HookRes.isFailed] at hf
        | panic p => simp [afterFailed, hh, ha]
    · subst he; simp [isFailureEv, ScenEv.isHookFailed, ScenEv.isStepFailed, ScenEv.stepRes?] at hf

/-- A panicking step becomes that step's Failed event carrying the payload (any payload value `p`). -/
theorem step_panic_reported (sp : AttemptSpec) (idx : Nat) (bg : Bool) (i : Nat) (p : Nat)
    (h : outOf sp bg i = .panic p) (hw : idx > 0 ∨ sp.hasBefore = true ∨ sp.init = .ok) :
    C02.effRes sp idx bg i = .failed (.panic p) :=
  (C02.stepOutcome_event sp idx bg i).2.2.1 p h hw

/-- A panicking before hook becomes Hook::Failed(Before, payload); steps are not run; the attempt fails. -/
theorem before_panic_reported (sp : AttemptSpec) (wid : Nat) (p : Nat)
    (hb : sp.hasBefore = true) (hi : sp.init = .ok) (hp : sp.before = .panic p) :
    ScenEv.hook .before (.failed p) ∈ (runAttempt sp wid).events ∧ (runAttempt sp wid).failed = true ∧
    (runAttempt sp wid).reason = .beforeHookFailed := by
  have hs : (C02.specBefore sp).2 = .beforeFailed (.hook .before (.failed p)) := by
    simp [C02.specBefore, hb, hi, hp]
  have hstop : C02.specStop sp = .beforeFailed (.hook .before (.failed p)) := by simp [C02.specStop, hs]
  have hbody : (runBody sp wid).2 = C02.specStop sp := (C02.runBody_spec sp wid).2
  refine ⟨?_, ?_, ?_⟩
  · rw [C02.runAttempt_canonical]; simp [C02.specEvents, hstop, Stop.deferred]
  · simp [runAttempt, hbody, hstop, Stop.isFailure]
  · simp [runAttempt, hbody, hstop, reasonOf]

/-- A failing `World::new` (error or panic) in the before-hook path is reported the same way. -/
theorem world_init_failure_reported (sp : AttemptSpec) (wid : Nat)
    (hb : sp.hasBefore = true) (hi : sp.init ≠ .ok) :
    ScenEv.hook .before (.failed (initFailPayload sp.init)) ∈ (runAttempt sp wid).events ∧
    (runAttempt sp wid).failed = true := by
  have hs : (C02.specBefore sp).2 = .beforeFailed (.hook .before (.failed (initFailPayload sp.init))) := by
    cases h : sp.init <;> simp_all [C02.specBefore]
  have hstop : C02.specStop sp = .beforeFailed (.hook .before (.failed (initFailPayload sp.init))) := by
    simp [C02.specStop, hs]
  have hbody : (runBody sp wid).2 = C02.specStop sp := (C02.runBody_spec sp wid).2
  refine ⟨?_, ?_⟩
  · rw [C02.runAttempt_canonical]; simp [C02.specEvents, hstop, Stop.deferred]
  · simp [runAttempt, hbody, hstop, Stop.isFailure]

/-- A panicking after hook becomes Hook::Failed(After, payload) and fails the attempt. -/
theorem after_panic_reported (sp : AttemptSpec) (wid : Nat) (p : Nat)
    (ha : sp.hasAfter = true) (hp : sp.after = .panic p) :
    ScenEv.hook .after (.failed p) ∈ (runAttempt sp wid).events ∧ (runAttempt sp wid).failed = true := by
  refine ⟨?_, ?_⟩
  · rw [C02.runAttempt_canonical]; simp [C02.specEvents, C02.specAfter, ha, hp]
  · simp [runAttempt, afterFailed, ha, hp]

/-! ## Non-vacuity: both hooks and a step panic at once -/
def exAll : AttemptSpec :=
  { hasBefore := true, hasAfter := true, nbg := 0, nsteps := 2, init := .ok, before := .panic 1, after := .panic 2,
    bgOut := fun _ => .pass, stepOut := fun _ => .panic 3 }

example : (runAttempt exAll 1).events =
    [.started, .hook .before .started, .hook .before (.failed 1), .hook .after .started, .hook .after (.failed 2), .finished] ∧
    (runAttempt exAll 1).failed = true := by decide

/-! ## Run level: the panic-hook window, over whole runs of the scheduler LTS -/
open Cuke.SchedSpin Cuke.SchedOrd

/-- **Silenced while anything is in flight.** In every log replayed without a disagreement, at every moment at which
    an attempt is dispatched and not yet ended, or a batch has been handed out by `features.get`, the process panic
    hook is the silent one `execute` installed at its start (`HOOK take` seen, `HOOK restore` not yet). -/
theorem lts_panic_hook_silenced_while_in_flight (c : SCfg) (ls : List Label) (hc : Clean0 (accept c ls) = true)
    (h : (accept c ls).running ≠ [] ∨ (accept c ls).batch ≠ []) : (accept c ls).hookTaken = true := by
  have hi := sinv_accept c ls hc
  cases hp : (accept c ls).phase with
  | init => have := hi.h0 hp; rcases h with h | h; exact absurd this.2.1 h; exact absurd this.2.2 h
  | exiting => have := hi.h2 (Or.inl hp); rcases h with h | h; exact absurd this.1 h; exact absurd this.2 h
  | exited => have := hi.h2 (Or.inr hp); rcases h with h | h; exact absurd this.1 h; exact absurd this.2 h
  | loopTop => exact hi.h1 (by simp [hp, loopPhase])
  | afterGet1 => exact hi.h1 (by simp [hp, loopPhase])
  | afterGet2 => exact hi.h1 (by simp [hp, loopPhase])
  | idle1 => exact hi.h1 (by simp [hp, loopPhase])
  | idle2 => exact hi.h1 (by simp [hp, loopPhase])
  | selecting => exact hi.h1 (by simp [hp, loopPhase])
  | draining => exact hi.h1 (by simp [hp, loopPhase])

/-- **Every scenario event is sent inside the window**: when an event of a scenario attempt is sent — in particular a
    `Failed` event carrying a panic payload — the silent hook is installed (the panic that caused it printed nothing). -/
theorem lts_scenario_event_only_while_silenced (c : SCfg) (pre : List Label) (k : ScenKey) (ret : Option Retries)
    (se : ScenEv) (hc : Clean0 (accept c (pre ++ [.tx (.scen k ret se)])) = true) :
    (accept c pre).hookTaken = true := by
  have hstep : accept c (pre ++ [.tx (.scen k ret se)]) = stepL c (accept c pre) (.tx (.scen k ret se)) := by
    simp [accept, foldl_append]
  rw [hstep] at hc
  obtain ⟨e, he, _⟩ := tx_scen_running c (accept c pre) k ret se hc
  exact lts_panic_hook_silenced_while_in_flight c pre (clean0_step_mono c _ _ hc)
    (Or.inl (fun hn => by rw [hn] at he; cases he))

/-- **Restored when `execute` returns**: once the log shows `EXIT`, the hook saved at the start is back in place, and
    nothing is in flight. -/
theorem lts_panic_hook_restored_at_exit (c : SCfg) (ls : List Label) (hc : Clean0 (accept c ls) = true)
    (hx : (accept c ls).phase = .exited) :
    (accept c ls).hookTaken = false ∧ (accept c ls).running = [] := by
  have hi := sinv_accept c ls hc
  exact ⟨hi.h3 hx, (hi.h2 (Or.inr hx)).1⟩

/-! non-vacuity: a complete clean run of one scenario whose first attempt FAILS and is retried: silenced while the
    failing attempt is in flight, restored at the end -/
def hcfg : SCfg :=
  { builderConc := some (some 2), cliConc := none, builderFF := false, cliFF := false, builderRetries := none,
    cliRetries := none, builderAfter := none, cliAfter := none, customWhich := false, durTable := [],
    feats := [⟨0, [], [⟨1, ["retry(2)"], 1⟩], []⟩] }
def hk1 : ScenKey := ⟨0, none, 1⟩
def hlog : List Label :=
  [.hookTake, .tx .started, .pOk 0, .ins 0 [] [⟨10, 1, some ⟨0, 2⟩, none⟩], .pEnd, .tx (.parsingFinished 1 0 1 1 0), .pFinish,
   .get1 1 (some 2) 0 1, .get2 1 (.cont (some 2)) [10] false 0, .tx (.featStarted 0), .disp 1 (.cont (some 1)),
   .tx (.scen hk1 (some ⟨0, 2⟩) .started), .tx (.scen hk1 (some ⟨0, 2⟩) .finished),
   .ins 2 [] [⟨11, 1, some ⟨1, 1⟩, none⟩], .endA 10 true true 2,
   .cons true, .notif 10 true true,
   .get1 3 (some 2) 0 1, .get2 3 (.cont (some 2)) [11] false 0, .disp 1 (.cont (some 1)),
   .tx (.scen hk1 (some ⟨1, 1⟩) .started), .tx (.scen hk1 (some ⟨1, 1⟩) .finished), .endA 11 false false 4,
   .cons true, .notif 11 false false, .tx (.featFinished 0),
   .get1 5 (some 2) 0 0, .get2 5 (.cont (some 2)) [] false 0, .idle true false, .tx .finished, .hookRestore, .exit]

example :
    Clean0 (accept hcfg hlog) = true ∧ (accept hcfg hlog).phase = .exited ∧ (accept hcfg hlog).hookTaken = false ∧
    (accept hcfg (hlog.take 12)).running.length = 1 ∧ (accept hcfg (hlog.take 12)).hookTaken = true := by
  decide +kernel

/-- a log in which `execute` returns without putting the hook back is rejected (class I) -/
example : (accept hcfg (hlog.take 30 ++ [.exit])).dis.any (fun d => d.cls == .I) = true := by
  decide +kernel

end Cuke.C10
