import Cuke.Model.SchedLts
import Cuke.Lemmas.SchedLts
import Cuke.Props.C06
/-! scratch: LTS-level slot invariant -/
namespace Cuke.C06
open Cuke List

/-- no disagreement of the classes the slot accounting depends on -/
def Good (s : SState) : Bool := s.dis.all (fun d => d.cls != .K && d.cls != .I && d.cls != .Q)

/-- free + in flight (+ finished but not yet consumed) = limit; nothing runs before the hook is taken -/
def InvK (c : SCfg) (s : SState) : Prop :=
  (s.phase = .init → s.running = [] ∧ s.endedUnconsumed = 0) ∧
  (s.phase ≠ .init → ∀ k, c.limit = some k → ∀ f, s.slots = .cont (some f) → f + s.running.length + s.endedUnconsumed = k) ∧
  (s.phase = .afterGet2 → ∀ f, s.slots = .cont (some f) → s.batch.length ≤ f)

theorem good_note (s : SState) (cls : DClass) (m : String) (h : Good (s.note cls m) = true) :
    Good s = true ∧ (cls ≠ .K ∧ cls ≠ .I ∧ cls ≠ .Q) := by
  simp only [Good, SState.note, all_append, Bool.and_eq_true, all_cons, all_nil, Bool.and_true] at h ⊢
  refine ⟨h.1, ?_⟩
  obtain ⟨⟨h1, h2⟩, h3⟩ := h.2
  exact ⟨by simpa using h1, by simpa using h2, by simpa using h3⟩

end Cuke.C06

namespace Cuke.C06
open Cuke List

theorem good_mono_inPhase (s : SState) (ok what) (h : Good (s.inPhase ok what) = true) :
    Good s = true ∧ ok.contains s.phase = true := by
  unfold SState.inPhase at h
  by_cases hc : ok.contains s.phase = true
  · simp only [hc, if_true] at h; exact ⟨h, hc⟩
  · simp only [hc, Bool.false_eq_true, if_false] at h
    have := good_note s _ _ h
    exact absurd rfl this.2.2.1

theorem good_ced (s : SState) (x : String) (h : Good (s.checkExpectDone x) = true) : Good s = true := by
  unfold SState.checkExpectDone at h
  split at h
  · exact h
  · exact (good_note _ _ _ h).1

/-- the fields the invariant talks about -/
structure KView where
  phaseInit : Bool
  slots : Slots
  running : Nat
  ended : Nat
  deriving DecidableEq

def view (s : SState) : KView := ⟨s.phase == .init, s.slots, s.running.length, s.endedUnconsumed⟩

theorem hookTake_inv (c : SCfg) (s : SState) (h : InvK c s) (hg : Good (stepL c s .hookTake) = true) :
    InvK c (stepL c s .hookTake) := by
  simp only [stepL] at hg ⊢
  have hgood : Good ((({ s with pos := s.pos + 1 } : SState).inPhase [.init] "panic hook taken")) = true := by
    simpa [Good] using hg
  obtain ⟨_, hph⟩ := good_mono_inPhase _ _ _ hgood
  have hinit : s.phase = .init := by simpa using hph
  obtain ⟨hr, he⟩ := h.1 hinit
  refine ⟨fun hp => by simp at hp, fun _ k hk f hf => ?_, fun hp => by simp at hp⟩
  simp only [inPhase_running, inPhase_ended, hr, he, length_nil] at hf ⊢
  rw [hk] at hf
  injection hf with hf; injection hf with hf
  omega

end Cuke.C06

namespace Cuke.C06
open Cuke List

/-- the label leaves slots / running / ended / phase alone -/
def FrameOK (s s' : SState) : Prop :=
  s'.slots = s.slots ∧ s'.running = s.running ∧ s'.endedUnconsumed = s.endedUnconsumed ∧ s'.phase = s.phase ∧
  s'.batch = s.batch

theorem invK_frame (c : SCfg) (s s' : SState) (h : InvK c s) (hf : FrameOK s s') : InvK c s' := by
  obtain ⟨h1, h2, h3, h4, h5⟩ := hf
  refine ⟨fun hp => ?_, fun hp k hk f hfs => ?_, fun hp f hfs => ?_⟩
  · rw [h4] at hp; have := h.1 hp; rw [h2, h3]; exact this
  · rw [h4] at hp; rw [h1] at hfs; rw [h2, h3]; exact h.2.1 hp k hk f hfs
  · rw [h4] at hp; rw [h1] at hfs; rw [h5]; exact h.2.2 hp f hfs

syntax "frame_simp" : tactic
macro_rules
  | `(tactic| frame_simp) => `(tactic|
      (simp only [stepL]
       repeat' split
       all_goals (first
         | (refine ⟨?_, ?_, ?_, ?_, ?_⟩ <;> simp [SState.note, SState.inPhase, SState.checkExpectDone, SState.followQueues] <;>
              (repeat' split) <;> simp [SState.note])
         | skip)))

theorem frame_tx (c : SCfg) (s : SState) (e : Ev) : FrameOK s (stepL c s (.tx e)) := by frame_simp
theorem frame_rx (c : SCfg) (s : SState) (e : Ev) : FrameOK s (stepL c s (.rx e)) := by frame_simp
theorem frame_other (c : SCfg) (s : SState) : FrameOK s (stepL c s .other) := by frame_simp
theorem frame_cbIn (c : SCfg) (s : SState) (a b t : Nat) : FrameOK s (stepL c s (.cbIn a b t)) := by frame_simp
theorem frame_cbOut (c : SCfg) (s : SState) (a b t : Nat) : FrameOK s (stepL c s (.cbOut a b t)) := by frame_simp
theorem frame_env (c : SCfg) (s : SState) : FrameOK s (stepL c s .envMove) := by frame_simp
theorem frame_pPend (c : SCfg) (s : SState) : FrameOK s (stepL c s .pPend) := by frame_simp
theorem frame_pWake (c : SCfg) (s : SState) : FrameOK s (stepL c s .pWake) := by frame_simp
theorem frame_pOk (c : SCfg) (s : SState) (f : Nat) : FrameOK s (stepL c s (.pOk f)) := by frame_simp
theorem frame_pErr (c : SCfg) (s : SState) : FrameOK s (stepL c s .pErr) := by frame_simp
theorem frame_pEnd (c : SCfg) (s : SState) : FrameOK s (stepL c s .pEnd) := by frame_simp
theorem frame_pFinish (c : SCfg) (s : SState) : FrameOK s (stepL c s .pFinish) := by frame_simp
theorem frame_ins (c : SCfg) (s : SState) (t : Nat) (a b : List QE) : FrameOK s (stepL c s (.ins t a b)) := by frame_simp

end Cuke.C06

namespace Cuke.C06
open Cuke List

theorem good_no_I (s : SState) (h : Good s = true) : s.dis.any (fun d => d.cls == .I) = false := by
  simp only [Good, all_eq_true, Bool.and_eq_true, bne_iff_ne, ne_eq] at h
  simp only [any_eq_false, beq_iff_eq]
  intro d hd; exact (h d hd).1.2

theorem good_no_K (s : SState) (h : Good s = true) : s.dis.any (fun d => d.cls == .K) = false := by
  simp only [Good, all_eq_true, Bool.and_eq_true, bne_iff_ne, ne_eq] at h
  simp only [any_eq_false, beq_iff_eq]
  intro d hd; exact (h d hd).1.1

/-- the label only moves the phase (never back to `init`); taken in phase `init` it is a class-I disagreement -/
def PhaseOK (s s' : SState) : Prop :=
  s'.slots = s.slots ∧ s'.running = s.running ∧ s'.endedUnconsumed = s.endedUnconsumed ∧
  (s'.phase ≠ .init ∧ s'.phase ≠ .afterGet2) ∧ (s.phase = .init → s'.dis.any (fun d => d.cls == .I) = true)

theorem invK_phase (c : SCfg) (s s' : SState) (h : InvK c s) (hf : PhaseOK s s') (hg : Good s' = true) : InvK c s' := by
  obtain ⟨h1, h2, h3, h4, h5⟩ := hf
  have hni : s.phase ≠ .init := by
    intro hi
    have := h5 hi
    rw [good_no_I s' hg] at this; cases this
  refine ⟨fun hp => absurd hp h4.1, fun _ k hk f hfs => ?_, fun hp => absurd hp h4.2⟩
  rw [h1] at hfs; rw [h2, h3]; exact h.2.1 hni k hk f hfs

syntax "phase_simp" : tactic
macro_rules
  | `(tactic| phase_simp) => `(tactic|
      (refine ⟨?_, ?_, ?_, ?_, ?_⟩
       · simp only [stepL]; repeat' split
         all_goals (simp [SState.note, SState.inPhase, SState.checkExpectDone] <;> (repeat' split) <;> simp [SState.note])
       · simp only [stepL]; repeat' split
         all_goals (simp [SState.note, SState.inPhase, SState.checkExpectDone] <;> (repeat' split) <;> simp [SState.note])
       · simp only [stepL]; repeat' split
         all_goals (simp [SState.note, SState.inPhase, SState.checkExpectDone] <;> (repeat' split) <;> simp [SState.note])
       · simp only [stepL]; repeat' split
         all_goals (simp [SState.note, SState.inPhase, SState.checkExpectDone] <;> (repeat' split) <;> simp [SState.note])
       · intro hinit
         simp only [stepL]; repeat' split
         all_goals (simp [SState.note, SState.inPhase, SState.checkExpectDone, hinit, List.any_append] <;> (repeat' split) <;> simp [SState.note, List.any_append])))

theorem phase_get1 (c : SCfg) (s : SState) (t : Nat) (ask : Option Nat) (ns nc : Nat) :
    PhaseOK s (stepL c s (.get1 t ask ns nc)) := by phase_simp
theorem phase_idleYield (c : SCfg) (s : SState) : PhaseOK s (stepL c s .idleYield) := by phase_simp
theorem phase_idleSlept (c : SCfg) (s : SState) : PhaseOK s (stepL c s .idleSlept) := by phase_simp
theorem phase_idleContinue (c : SCfg) (s : SState) : PhaseOK s (stepL c s .idleContinue) := by phase_simp
theorem phase_exit (c : SCfg) (s : SState) : PhaseOK s (stepL c s .exit) := by phase_simp

theorem phase_idle (c : SCfg) (s : SState) (fin sleep : Bool) : PhaseOK s (stepL c s (.idle fin sleep)) := by phase_simp
theorem frame_notif (c : SCfg) (s : SState) (id : Nat) (f r : Bool) : FrameOK s (stepL c s (.notif id f r)) := by frame_simp
theorem frame_hookRestore (c : SCfg) (s : SState) : FrameOK s (stepL c s .hookRestore) := by frame_simp

end Cuke.C06
