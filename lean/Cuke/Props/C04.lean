import Cuke.Lemmas.Sched
import Cuke.Lemmas.SchedLts
import Cuke.Props.C06
import Cuke.Props.C05
import Cuke.Lemmas.SchedConserve
import Cuke.Lemmas.SchedSpin
import Cuke.Lemmas.SchedBound
/-!
# C04 — Every supplied scenario runs, nothing else runs, and the run always terminates
Model: `Cuke.newEntries`, `Cuke.insertInitial`, `Cuke.getBatch`, `Cuke.isFinished` and the idle branch
of the scheduler LTS (`idle`, `idleYield`, `idleSlept`, `idleContinue`; classes I, Q, R).
-/
namespace Cuke.C04
open Cuke List

/-! ## everything supplied is queued, nothing else is -/

/-- One queue entry per scenario of a delivered feature — top-level scenarios, then each rule's —
    and nothing else. -/
theorem newEntries_covers (c : SCfg) (f : SFeat) :
    (newEntries c f).map (·.key.scen) = f.scens.map (·.id) ++ f.rules.flatMap (fun r => r.scens.map (·.id)) := by
  simp [newEntries, featScenarios, map_flatMap, Function.comp_def]

/-- Inserting a feature's entries loses nothing and invents nothing: the queues afterwards hold exactly
    the old entries and the new ones. -/
theorem insertInitial_conserves (q : Queues) (ns nc : List Entry) :
    (insertInitial q ns nc).serial ++ (insertInitial q ns nc).conc ~ (q.serial ++ q.conc) ++ (ns ++ nc) := by
  unfold insertInitial
  by_cases h : ns.isEmpty = true
  · have : ns = [] := by simpa using h
    subst this
    simp [append_assoc]
  · simp only [h, Bool.false_eq_true, if_false]
    by_cases h2 : nc.isEmpty = true
    · have : nc = [] := by simpa using h2
      subst this
      simp only [isEmpty_nil, if_true, append_nil]
      rw [append_assoc]
      have : ns ++ (q.serial ++ q.conc) ~ (q.serial ++ q.conc) ++ ns := perm_append_comm
      simpa [append_assoc] using this
    · simp only [h2, Bool.false_eq_true, if_false]
      -- ns ++ serial ++ (nc ++ conc) ~ serial ++ conc ++ (ns ++ nc)
      have h1 : ns ++ q.serial ++ (nc ++ q.conc) ~ (q.serial ++ ns) ++ (q.conc ++ nc) :=
        perm_append_comm.append perm_append_comm
      refine h1.trans ?_
      simp only [append_assoc]
      refine Perm.append_left _ ?_
      rw [← append_assoc, ← append_assoc]
      exact perm_append_comm.append_right _

/-- A retried scenario is re-queued (never dropped): the queues hold one more entry, with its id. -/
theorem insertRetried_conserves (q : Queues) (e : Entry) (now : Nat) :
    ((insertRetried q e now).serial ++ (insertRetried q e now).conc).map (·.id) ~ e.id :: (q.serial ++ q.conc).map (·.id) := by
  unfold insertRetried
  by_cases h : e.serial = true
  · simp [h]
  · simp only [h, Bool.false_eq_true, if_false, map_append, map_cons]
    exact perm_middle

/-- `get` only hands out what is queued, and leaves the rest queued (C06.getBatch_conserves). -/
theorem get_conserves (ready : Entry → Bool) (ask : Option Nat) (q : Queues) :
    (getBatch ready ask q).1 ++ ((getBatch ready ask q).2.1.serial ++ (getBatch ready ask q).2.1.conc) ~
      q.serial ++ q.conc := C06.getBatch_conserves ready ask q

/-- Without fail-fast the loop ends only when the parser has finished AND both queues are empty:
    nothing supplied is left un-dispatched. -/
theorem exit_needs_empty_queues (done : Bool) (q : Queues) (h : isFinished done false q = true) :
    done = true ∧ q.serial = [] ∧ q.conc = [] := by
  simp [isFinished, Queues.isEmpty] at h
  exact h

/-! ## termination -/

/-- remaining work of an entry: attempts it can still cause -/
def weight (ret : Option RetryOptions) : Nat := (ret.map (·.retries.left)).getD 0 + 1

/-- Every retry strictly decreases the remaining work, so a scenario with budget `N` causes at most
    `N + 1` attempts (C05.attempts_values_and_bound) and the total number of dispatches is bounded. -/
theorem retry_weight_decreases (o o' : RetryOptions) (failed : Bool) (h : nextTry (some o) failed = some o') :
    weight (some o') < weight (some o) := by
  cases failed with
  | false => simp [nextTry] at h
  | true =>
    have := C05.retries_values o o' h
    simp [weight]; omega

/-- **No busy spin**: the LTS accepts `execute` re-entering its loop from the idle branch only after it
    has suspended (yielded, or slept for a retry delay); otherwise it records a class-I disagreement. -/
theorem idle_continue_requires_suspension (c : SCfg) (s : SState) (h : s.idleSuspended = false) :
    (stepL c s .idleContinue).dis.any (fun d => d.cls == .I) = true := by
  simp only [stepL, inPhase_idleSuspended, h, Bool.false_eq_true, if_false]
  split <;> simp [SState.note, List.any_append]

/-- …and only after the stream has really returned Pending since the idle branch was entered: a wait that
    blocks inside `execute` (the parser side is never polled meanwhile) is a class-I disagreement. -/
theorem idle_continue_requires_pending (c : SCfg) (s : SState) (h : s.polledIdle = false) :
    (stepL c s .idleContinue).dis.any (fun d => d.cls == .I) = true := by
  have hp : ∀ (x : SState) ok what, (x.inPhase ok what).polledIdle = x.polledIdle := by
    intro x ok what; unfold SState.inPhase; split <;> rfl
  simp only [stepL]
  split <;> simp [hp, h, SState.note, List.any_append]

theorem idle_then_not_suspended (c : SCfg) (s : SState) (fin sleep : Bool) :
    (stepL c s (.idle fin sleep)).idleSuspended = false := by
  simp only [stepL]
  split <;> split <;> split <;> simp [SState.note]

theorem yield_suspends (c : SCfg) (s : SState) : (stepL c s .idleYield).idleSuspended = true := by
  simp only [stepL]

theorem slept_suspends (c : SCfg) (s : SState) : (stepL c s .idleSlept).idleSuspended = true := by
  simp only [stepL]

/-- The behaviour of the code BEFORE the repair of F-C04 — parser answers Pending, nothing running:
    `get` → idle (not finished, no delay) → `continue`, with no suspension in between — is rejected. -/
def spinCfg : SCfg :=
  { builderConc := none, cliConc := none, builderFF := false, cliFF := false, builderRetries := none,
    cliRetries := none, builderAfter := none, cliAfter := none, customWhich := false, durTable := [], feats := [] }

def spinLog : List Label :=
  [.pPend, .hookTake, .tx .started, .get1 1 (some 64) 0 0, .get2 2 (.cont (some 64)) [] false 0,
   .idle false false, .idleContinue, .get1 3 (some 64) 0 0]

theorem prefix_spin_rejected : (accept spinCfg spinLog).dis.any (fun d => d.cls == .I) = true := by
  decide +kernel

/-- with the yield in place (the stream returns Pending, the harness polls again, the yield completes)
    the same situation is accepted -/
theorem yield_loop_accepted :
    (accept spinCfg [.pPend, .hookTake, .tx .started, .get1 1 (some 64) 0 0, .get2 2 (.cont (some 64)) [] false 0,
      .idle false false, .idleYield, .poll, .idleContinue, .get1 3 (some 64) 0 0]).dis.isEmpty = true := by
  decide +kernel

/-- a wait that completes without ever suspending `execute` (a blocking sleep / a yield that does not
    yield) is rejected: the parser side would be starved for the whole wait -/
theorem blocking_wait_rejected :
    (accept spinCfg [.pPend, .hookTake, .tx .started, .get1 1 (some 64) 0 0, .get2 2 (.cont (some 64)) [] false 0,
      .idle false false, .idleYield, .idleContinue, .get1 3 (some 64) 0 0]).dis.any (fun d => d.cls == .I) = true := by
  decide +kernel

/-! ## Over whole runs of the scheduler LTS -/

open Cuke.SchedInv

/-! ### stages of the idle branch -/
def idle1 (s : SState) : SState := ({ s with pos := s.pos + 1 } : SState).inPhase [.afterGet2] "idle branch"
def idle2 (s : SState) (fin : Bool) : SState := { idle1 s with phase := if fin then .exiting else .idle1 }
def idle3 (s : SState) (fin : Bool) : SState :=
  chk (idle2 s fin) ((idle2 s fin).running.isEmpty && (idle2 s fin).endedUnconsumed == 0 && (idle2 s fin).batch.isEmpty) .I
    "idle branch taken although something is running or runnable"
def idle4 (s : SState) (fin : Bool) : SState :=
  chk (idle3 s fin) (fin == isFinished (idle3 s fin).parserDone (idle3 s fin).slots.isBrk (idle3 s fin).q) .I
    s!"is_finished = {fin}, model {isFinished (idle3 s fin).parserDone (idle3 s fin).slots.isBrk (idle3 s fin).q}"

theorem idle_dis (c : SCfg) (s : SState) (fin sleep : Bool) : (stepL c s (.idle fin sleep)).dis = (idle4 s fin).dis := by
  cases fin <;> rfl

/-- **The loop is left only when there is nothing left to do, in every accepted run**: when `execute`
    takes its exit (`is_finished` reported true), nothing is running, finished-but-unconsumed or runnable,
    the parser has ended, and — unless fail-fast tripped — both queues of the model (= of the
    implementation, class Q) are empty: every scenario that was inserted has been handed out. -/
theorem lts_exit_only_when_done (c : SCfg) (pre suf : List Label) (sleep : Bool)
    (hg : Good (accept c (pre ++ Label.idle true sleep :: suf)) = true) :
    (accept c pre).running = [] ∧ (accept c pre).endedUnconsumed = 0 ∧ (accept c pre).batch = [] ∧
    (accept c pre).parserDone = true ∧
    ((accept c pre).slots.isBrk = false → (accept c pre).q.serial = [] ∧ (accept c pre).q.conc = []) := by
  have hgd : Good (stepL c (accept c pre) (.idle true sleep)) = true := by
    simp only [accept, foldl_append, foldl_cons] at hg
    exact Cuke.C06.good_foldl_mono c suf _ hg
  have hg4 : Good (idle4 (accept c pre) true) = true := by
    rw [← good_of_dis _ _ (idle_dis c (accept c pre) true sleep)]; exact hgd
  obtain ⟨hb4, hg3⟩ := good_chk _ _ _ _ (Or.inr (Or.inl rfl)) hg4
  obtain ⟨hb3, _⟩ := good_chk _ _ _ _ (Or.inr (Or.inl rfl)) hg3
  have e3 : idle3 (accept c pre) true = idle2 (accept c pre) true := chk_of_true _ _ _ _ hb3
  have fr : (idle2 (accept c pre) true).running = (accept c pre).running := by simp [idle2, idle1]
  have fe : (idle2 (accept c pre) true).endedUnconsumed = (accept c pre).endedUnconsumed := by simp [idle2, idle1]
  have fb : (idle2 (accept c pre) true).batch = (accept c pre).batch := by simp [idle2, idle1]
  have fq : (idle2 (accept c pre) true).q = (accept c pre).q := by simp [idle2, idle1]
  have fs : (idle2 (accept c pre) true).slots = (accept c pre).slots := by simp [idle2, idle1]
  have fp : (idle2 (accept c pre) true).parserDone = (accept c pre).parserDone := by
    simp only [idle2, idle1]
    unfold SState.inPhase; split <;> rfl
  rw [fr, fe, fb] at hb3
  simp only [Bool.and_eq_true, List.isEmpty_iff, beq_iff_eq] at hb3
  rw [e3, fp, fs, fq] at hb4
  have hfin : isFinished (accept c pre).parserDone (accept c pre).slots.isBrk (accept c pre).q = true := by
    simpa using hb4.symm
  refine ⟨hb3.1.1, hb3.1.2, hb3.2, ?_, ?_⟩
  · unfold isFinished at hfin
    simp only [Bool.and_eq_true] at hfin
    exact hfin.1
  · intro hnb
    rw [hnb] at hfin
    exact (exit_needs_empty_queues _ _ hfin).2


/-! ## Whole runs: attempts are conserved

Two ghost logs accompany the replay (`Cuke.SchedCons.runG`): the scenario ids of every entry the runner creates
(`Features::insert` for a delivered feature, `insert_retried_scenario` for a granted retry) and the scenario ids of
every attempt whose END was seen. `Clean` = no disagreement of the classes R, Q, K, I. Lemmas/SchedConserve.lean. -/

open Cuke.SchedCons Cuke.SchedRetry in
/-- **Conservation at every moment of every run**: created ~ (queued ++ handed out ++ running) ++ ended, as
    multisets of scenario ids — nothing the parser delivered is dropped, nothing is invented, nothing runs twice
    for one entry. -/
theorem lts_attempts_conserved (c : SCfg) (ls : List Label) (hc : Clean (accept c ls) = true) :
    (runG c ls ({}, ([], []))).2.1 ~ scens (ents (accept c ls)) ++ (runG c ls ({}, ([], []))).2.2 := by
  have hst : (runG c ls ({}, ([], []))).1 = accept c ls := runG_state c ls _
  have := runG_cinv c ls ({}, ([], [])) cinv_init (by rw [hst]; exact hc)
  rw [hst] at this
  exact this.1

open Cuke.SchedCons Cuke.SchedRetry in
/-- **Every supplied scenario runs, nothing else runs**: when a clean run has nothing queued, handed out or
    running any more (what `lts_exit_only_when_done` shows at the exit without fail-fast), the attempts that ENDED are
    exactly the entries that were CREATED — every scenario of every delivered feature (`newEntries_covers`) once,
    plus one per granted retry; no scenario that was not handed to the runner, none twice for one entry. -/
theorem lts_all_created_ended (c : SCfg) (ls : List Label) (hc : Clean (accept c ls) = true)
    (hempty : ents (accept c ls) = []) :
    (runG c ls ({}, ([], []))).2.1 ~ (runG c ls ({}, ([], []))).2.2 := by
  have := lts_attempts_conserved c ls hc
  rw [hempty] at this
  simpa [scens] using this

/-- non-vacuity: the run with a retried attempt (C05.rlog) — scenario 1 is created twice (delivered, then the
    granted retry) and ends twice; at its exit nothing is held -/
example : Cuke.SchedCons.Clean (accept C05.rcfg C05.rlog) = true ∧ Cuke.SchedRetry.ents (accept C05.rcfg C05.rlog) = [] ∧
    (Cuke.SchedCons.runG C05.rcfg C05.rlog ({}, ([], []))).2 = ([1, 1], [1, 1]) := by decide +kernel

/-! ## finitely many attempts, whatever the schedule -/

/-- all scenario ids of the catalog -/
def allScens (c : SCfg) : List Nat := c.feats.flatMap Cuke.SchedSeq.scenIds

open Cuke.SchedSeq Cuke.SchedCount Cuke.SchedRetry in
/-- **The work of a run is bounded before it starts.** If every scenario of the catalog resolves to a retry budget of at
    most `N`, then in every run that is clean in both acceptor layers — however the parser delays its features, in whatever
    order attempts complete, whatever fails — at most `(number of scenarios) * (N + 1)` attempts are ever dispatched: every
    dispatched attempt is a different (scenario, `current`) pair with `current ≤ N` of a scenario of the catalog
    (`C05.lts_dispatches_distinct`, `C05.lts_dispatched_within_budget`). Together with `lts_exit_only_when_done` and the
    no-busy-spin lemmas this is the termination argument: finitely many attempts, each consumed once, and an idle loop that
    always suspends. -/
theorem lts_total_attempts_bounded (c : SCfg) (hwf : WF c) (ls : List Label) (hc : NClean (acceptN c ls) = true) (N : Nat)
    (hbud : ∀ ft ∈ c.feats, ∀ e0 ∈ newEntries c ft, ∀ o0, e0.ret = some o0 → o0.retries.left ≤ N) :
    (dispatched c ls).length ≤ (allScens c).length * (N + 1) := by
  have hnd := Cuke.C05.lts_dispatches_distinct c hwf ls hc
  have hsub : dispatched c ls ⊆ (allScens c).flatMap (fun x => (List.range (N + 1)).map (fun k => (x, k))) := by
    intro p hp
    obtain ⟨x, k⟩ := p
    have hk := Cuke.C05.lts_dispatched_within_budget c ls hc x k N hp (fun ft hft e0 he0 _ o0 ho => hbud ft hft e0 he0 o0 ho)
    rcases dispatched_from_batch c ls _ (x, k) hp with h | ⟨pre, suf, hsplit, e, he, hsc⟩
    · cases h
    · subst hsplit
      have hcp : NClean (acceptN c pre) = true := by
        have : acceptN c (pre ++ suf) = suf.foldl (stepN c) (acceptN c pre) := by simp [acceptN, foldl_append]
        rw [this] at hc
        exact nclean_foldl_mono c suf _ hc
      have hg : GoodRQ (accept c pre) = true := by
        simp only [NClean, Bool.and_eq_true] at hcp
        have := hcp.1
        rw [acceptN_base] at this
        exact (SchedCons.clean_good _ (SchedOrd.clean0_all _ this).2.2).2
      have hbase : (pre.foldl (stepN c) {}).base = accept c pre := acceptN_base c pre
      rw [hbase] at he
      have hr : RInv c (accept c pre) := foldl_rinv c pre {} (Cuke.SchedFin.rinv_init c) hg
      obtain ⟨ft, hft, hxs⟩ := Cuke.SchedFin.owner c hwf _ hr e (by simp only [ents, mem_append]; exact Or.inl (Or.inr he))
      have hx : e.key.scen = x := by simpa [sc] using congrArg Prod.fst hsc
      simp only [mem_flatMap, mem_map, mem_range, allScens]
      refine ⟨x, ⟨ft, (feat?_spec c _ ft hft).1, hx ▸ hxs⟩, k, by omega, rfl⟩
  have hlen := hnd.length_le_of_subset hsub
  have hcount : ((allScens c).flatMap (fun x => (List.range (N + 1)).map (fun k => (x, k)))).length = (allScens c).length * (N + 1) := by
    induction allScens c with
    | nil => simp
    | cons a l ih => simp only [flatMap_cons, length_append, length_map, length_range, ih, length_cons]; rw [Nat.add_mul]; omega
  omega

/-- non-vacuity: one scenario with a budget of 2: at most 3 attempts; the example run dispatches 2 -/
example : (Cuke.SchedCount.dispatched Cuke.C05.rcfg Cuke.C05.rlog).length = 2 ∧ (allScens Cuke.C05.rcfg).length * (2 + 1) = 3 := by
  decide +kernel

/-! ## No spinning, over whole runs (Lemmas/SchedSpin.lean) -/
open Cuke.SchedSpin in
/-- **Every idle iteration hands control back.** In every log replayed without a disagreement, `execute` re-enters
    its loop from the idle branch at most as often as the stream returned `Pending` while it sat there (`poll`
    boundaries): between two idle iterations the executor — hence `join`, hence the parser side and the sleeper —
    got a turn. No bound on the length of the run. -/
theorem lts_idle_iteration_needs_poll (c : SCfg) (ls : List Label) (hc : SchedOrd.Clean0 (accept c ls) = true) :
    ls.countP isIdleContinue ≤ ls.countP isPoll := by
  have h := (sinv_accept c ls hc).b
  rw [count_eq] at h
  exact Nat.le_trans (Nat.le_add_right _ _) h

open Cuke.SchedSpin in
/-- **Every consumed completion is an attempt that ended.** -/
theorem lts_consumed_le_ended (c : SCfg) (ls : List Label) (hc : SchedOrd.Clean0 (accept c ls) = true) :
    ls.countP isCons + (accept c ls).endedUnconsumed = ls.countP isEndA := by
  have h := (sinv_accept c ls hc).c
  rw [count_eq] at h
  exact h

open Cuke.SchedSpin in
/-- **The loop cannot spin.** In every log replayed without a disagreement the number of loop iterations of `execute`
    (returns of `features.get`) is at most `1 + polls + ended attempts`: every iteration beyond the first either
    consumed the completion of an attempt, or went through the idle branch and suspended until the stream was polled
    again. With `lts_total_attempts_bounded` (finitely many attempts) this is the termination argument in one line: the
    work per poll is bounded, and only polls — turns of the executor in which the parser, a sleeper or user code made
    progress — let the loop go round again. -/
theorem lts_loop_iterations_bounded (c : SCfg) (ls : List Label) (hc : SchedOrd.Clean0 (accept c ls) = true) :
    ls.countP isGet2 ≤ 1 + ls.countP isPoll + ls.countP isEndA := by
  have hi := sinv_accept c ls hc
  have ha := hi.a
  have hb := hi.b
  have hk := hi.c
  rw [count_eq] at ha hb hk
  have hs := slack_le_one (accept c ls).phase
  simp only at ha hb hk
  omega

/-- non-vacuity: the accepted yield loop above has 2 iterations, 1 poll, 1 idle continue -/
example :
    let ls : List Label := [.pPend, .hookTake, .tx .started, .get1 1 (some 64) 0 0, .get2 2 (.cont (some 64)) [] false 0,
      .idle false false, .idleYield, .poll, .idleContinue, .get1 3 (some 64) 0 0, .get2 4 (.cont (some 64)) [] false 0]
    SchedOrd.Clean0 (accept spinCfg ls) = true ∧ ls.countP SchedSpin.isGet2 = 2 ∧ ls.countP SchedSpin.isPoll = 1 ∧
      ls.countP SchedSpin.isIdleContinue = 1 := by
  decide +kernel

/-! ## Termination in one statement -/

open Cuke.SchedSpin Cuke.SchedSeq Cuke.SchedCount in
/-- **Every attempt that ended was dispatched**: in a run clean in both acceptor layers, `#END + #in flight = #dispatched`. -/
theorem lts_ended_le_dispatched (c : SCfg) (ls : List Label) (hc : NClean (acceptN c ls) = true) :
    ls.countP isEndA + (accept c ls).running.length = (dispatched c ls).length :=
  Cuke.SchedBound.ended_le_dispatched c ls hc

open Cuke.SchedSpin Cuke.SchedSeq Cuke.SchedCount in
/-- **The loop of `execute` goes round at most `1 + polls + scenarios × (N + 1)` times** — for every configuration with
    retry budgets ≤ N and every log, of any length, replayed without a disagreement: apart from a number of iterations
    that is fixed BEFORE the run starts (one per attempt that can ever exist, plus one), the loop only goes round again
    after the stream returned `Pending` and was polled again — i.e. after the executor gave the parser, a sleeper or
    user code a turn. So the stream ends after finitely many polls once those have completed, and it never spins. -/
theorem lts_iterations_bounded_before_the_run (c : SCfg) (hwf : WF c) (ls : List Label)
    (hc : NClean (acceptN c ls) = true) (N : Nat)
    (hbud : ∀ ft ∈ c.feats, ∀ e0 ∈ newEntries c ft, ∀ o0, e0.ret = some o0 → o0.retries.left ≤ N) :
    ls.countP isGet2 ≤ 1 + ls.countP isPoll + (allScens c).length * (N + 1) := by
  have hc0 : SchedOrd.Clean0 (accept c ls) = true := by
    simp only [NClean, Bool.and_eq_true] at hc
    have := hc.1
    rwa [acceptN_base] at this
  have h1 := lts_loop_iterations_bounded c ls hc0
  have h2 := lts_ended_le_dispatched c ls hc
  have h3 := lts_total_attempts_bounded c hwf ls hc N hbud
  omega

/-- non-vacuity: `C05.rlog` (one scenario, budget 2): 3 iterations, no poll, bound 1 + 0 + 1 × 3 -/
example : (Cuke.C05.rlog.countP SchedSpin.isGet2, Cuke.C05.rlog.countP SchedSpin.isPoll, (allScens Cuke.C05.rcfg).length) = (3, 0, 1) := by
  decide +kernel

end Cuke.C04
