import Cuke.Lemmas.Normalize
/-! Insertion lemmas for the Normalize model: under the (decidable) side condition `Safe`, inserting an
    event adds exactly that event to what the queue owes, and keeps the queue well-formed. -/
namespace Cuke.NormL
open Cuke List

/-! ## generic map-update lemmas -/

theorem updFirst_flatMap {α β} (p : α → Bool) (g : α → α) (buf : α → List β) (x : List β) (l : List α)
    (hex : l.any p = true) (hg : ∀ a, l.find? p = some a → buf (g a) ~ buf a ++ x) :
    (updFirst p g l).flatMap buf ~ l.flatMap buf ++ x := by
  induction l with
  | nil => simp at hex
  | cons a rest ih =>
    by_cases hp : p a = true
    · simp only [updFirst, hp, if_true, flatMap_cons]
      have := hg a (by simp [find?, hp])
      exact (this.append_right _).trans (by
        rw [append_assoc, append_assoc]
        exact Perm.append_left _ perm_append_comm)
    · have hp' : p a = false := by simpa using hp
      simp only [updFirst, hp', Bool.false_eq_true, if_false, flatMap_cons]
      have hex' : rest.any p = true := by simpa [hp'] using hex
      have := ih hex' (fun b hb => hg b (by simp [find?, hp', hb]))
      rw [append_assoc]
      exact Perm.append_left _ this

theorem updFirst_all {α} (p : α → Bool) (g : α → α) (ok : α → Bool) (l : List α)
    (hall : l.all ok = true) (hg : ∀ a, l.find? p = some a → ok (g a) = true) :
    (updFirst p g l).all ok = true := by
  induction l with
  | nil => simp [updFirst]
  | cons a rest ih =>
    simp only [all_cons, Bool.and_eq_true] at hall
    by_cases hp : p a = true
    · simp only [updFirst, hp, if_true, all_cons, Bool.and_eq_true]
      exact ⟨hg a (by simp [find?, hp]), hall.2⟩
    · have hp' : p a = false := by simpa using hp
      simp only [updFirst, hp', Bool.false_eq_true, if_false, all_cons, Bool.and_eq_true]
      exact ⟨hall.1, ih hall.2 (fun b hb => hg b (by simp [find?, hp', hb]))⟩

theorem find_some_of_any {α} (p : α → Bool) (l : List α) (h : l.any p = true) : ∃ a, l.find? p = some a ∧ p a = true := by
  induction l with
  | nil => simp at h
  | cons a rest ih =>
    by_cases hp : p a = true
    · exact ⟨a, by simp [find?, hp], hp⟩
    · have hp' : p a = false := by simpa using hp
      have : rest.any p = true := by simpa [hp'] using h
      obtain ⟨b, hb, hpb⟩ := ih this
      exact ⟨b, by simp [find?, hp', hb], hpb⟩

/-! ## attempt buffers -/

theorem clean_incomplete_no_finished (evs : List ScenEv)
    (hc : evs.dropLast.all (fun e => e != .finished) = true) (hn : (evs.getLast? == some .finished) = false) :
    evs.all (fun e => e != .finished) = true := by
  induction evs with
  | nil => simp
  | cons e rest ih =>
    cases rest with
    | nil => simpa using hn
    | cons e2 rest2 =>
      simp only [dropLast_cons₂, all_cons, Bool.and_eq_true] at hc
      have h2 : ((e2 :: rest2).getLast? == some ScenEv.finished) = false := by simpa using hn
      simp only [all_cons, Bool.and_eq_true]
      exact ⟨hc.1, by simpa using ih hc.2 h2⟩

theorem push_clean (a : AttQ) (ev : ScenEv) (hc : attClean a = true) (hn : attComplete a = false) :
    attClean (a.push ev) = true := by
  have := clean_incomplete_no_finished a.evs hc hn
  simp [attClean, AttQ.push, this]

theorem bufAtt_push (f : Nat) (r : Option Nat) (a : AttQ) (ev : ScenEv) :
    bufAtt f r (a.push ev) = bufAtt f r a ++ [Ev.scen ⟨f, r, a.scen⟩ a.ret ev] := by
  simp [bufAtt, wrapAtt, AttQ.push]

theorem is_key (scen : Nat) (ret : Option Retries) (a : AttQ) (h : a.is scen ret = true) : a.scen = scen ∧ a.ret = ret := by
  simpa [AttQ.is] using h

/-- `pushAtt` adds exactly the event to the rule's attempts and keeps them well-formed -/
theorem pushAtt_perm (f r : Nat) (atts : List AttQ) (scen : Nat) (ret : Option Retries) (ev : ScenEv)
    (hall : atts.all attClean = true)
    (hsafe : ∀ a, atts.find? (AttQ.is scen ret) = some a → attComplete a = false) :
    (pushAtt atts scen ret ev).flatMap (bufAtt f (some r)) ~
      atts.flatMap (bufAtt f (some r)) ++ [Ev.scen ⟨f, some r, scen⟩ ret ev] ∧
    (pushAtt atts scen ret ev).all attClean = true := by
  unfold pushAtt
  by_cases hex : atts.any (AttQ.is scen ret) = true
  · simp only [hex, if_true]
    refine ⟨?_, ?_⟩
    · apply updFirst_flatMap _ _ _ _ _ hex
      intro a ha
      obtain ⟨h1, h2⟩ := is_key scen ret a (find?_some ha)
      rw [bufAtt_push, h1, h2]
    · apply updFirst_all _ _ _ _ hall
      intro a ha
      exact push_clean a ev (all_eq_true.mp hall a (mem_of_find?_eq_some ha)) (hsafe a ha)
  · have hex' : atts.any (AttQ.is scen ret) = false := by simpa using hex
    simp only [hex', Bool.false_eq_true, if_false, flatMap_append, all_append, hall, Bool.true_and]
    simp [bufAtt, wrapAtt, attClean]

end Cuke.NormL

namespace Cuke.NormL
open Cuke List

/-! ## the side condition under which nothing can be lost -/

def featIn (n : Norm) (f : Nat) : Option FeatQ := (n.feats.find? (fun e => e.1 == f)).map (·.2)

def safeAtt (atts : List AttQ) (scen : Nat) (ret : Option Retries) : Bool :=
  match atts.find? (AttQ.is scen ret) with
  | some a => !attComplete a
  | none => true

def safeScen (q : FeatQ) (rule : Option Nat) (scen : Nat) (ret : Option Retries) : Bool :=
  q.fin == .no &&
  match rule with
  | some r =>
    match q.items.find? (Item.isRule r) with
    | some (.rule _ rq) => rq.fin == .no && safeAtt rq.atts scen ret
    | _ => false
  | none =>
    match q.items.find? (Item.isAtt scen ret) with
    | some (.att a) => !attComplete a
    | _ => true

/-- The event may be handed to the normalizer in state `n` without breaking its bookkeeping:
    brackets are not re-opened while present, nothing arrives for an entity that is already closed,
    and a closing bracket arrives only when everything inside has finished. -/
def Safe (n : Norm) : Ev → Bool
  | .featStarted f => !(n.feats.any (fun e => e.1 == f))
  | .featFinished f =>
    match featIn n f with
    | some q => q.fin == .no && q.items.all itemComplete
    | none => false
  | .ruleStarted f r =>
    match featIn n f with
    | some q => q.fin == .no && !(q.items.any (Item.isRule r))
    | none => false
  | .ruleFinished f r =>
    match featIn n f with
    | some q =>
      match q.items.find? (Item.isRule r) with
      | some (.rule _ rq) => rq.fin == .no && rq.atts.all attComplete
      | _ => false
    | none => false
  | .scen k ret _ =>
    match featIn n k.feat with
    | some q => safeScen q k.rule k.scen ret
    | none => false
  | _ => true

/-! ## feature-level update -/

theorem updFeat_perm (fs fs' : List (Nat × FeatQ)) (f : Nat) (g : FeatQ → Option FeatQ) (x : List Ev)
    (h : updFeat fs f g = some fs')
    (hg : ∀ q q', (fs.find? (fun e => e.1 == f)).map (·.2) = some q → g q = some q' →
      bufFeat (f, q') ~ bufFeat (f, q) ++ x ∧ featOk (f, q') = true)
    (hok : fs.all featOk = true) :
    bufFeats fs' ~ bufFeats fs ++ x ∧ fs'.all featOk = true := by
  induction fs generalizing fs' with
  | nil => simp [updFeat] at h
  | cons fq rest ih =>
    obtain ⟨f', q⟩ := fq
    simp only [all_cons, Bool.and_eq_true] at hok
    by_cases hf : (f' == f) = true
    · have hf' : f' = f := by simpa using hf
      subst hf'
      simp only [updFeat, beq_self_eq_true, if_true, Option.map_eq_some_iff] at h
      obtain ⟨q', hq', rfl⟩ := h
      have := hg q q' (by simp [find?]) hq'
      simp only [bufFeats, flatMap_cons, all_cons, Bool.and_eq_true]
      refine ⟨?_, this.2, hok.2⟩
      exact (this.1.append_right _).trans (by
        rw [append_assoc, append_assoc]
        exact Perm.append_left _ perm_append_comm)
    · have hf' : (f' == f) = false := by simpa using hf
      simp only [updFeat, hf', Bool.false_eq_true, if_false, Option.map_eq_some_iff] at h
      obtain ⟨r', hr', rfl⟩ := h
      have := ih r' hr' (fun q q' hq => hg q q' (by simp [find?, hf', hq])) hok.2
      simp only [bufFeats, flatMap_cons, all_cons, Bool.and_eq_true] at this ⊢
      refine ⟨?_, hok.1, this.2⟩
      rw [append_assoc]
      exact Perm.append_left _ this.1

/-- changing only the items of a feature queue -/
theorem bufFeat_items (f : Nat) (q : FeatQ) (items : List Item) (x : List Ev)
    (h : items.flatMap (bufItem f) ~ q.items.flatMap (bufItem f) ++ x) (hfin : q.fin = .no) :
    bufFeat (f, { q with items := items }) ~ bufFeat (f, q) ++ x := by
  simp only [bufFeat, hfin, show (Fin.no == Fin.pending) = false from rfl, Bool.false_eq_true, if_false, append_nil]
  rw [append_assoc]
  exact Perm.append_left _ h

theorem bufRule_atts (f r : Nat) (q : RuleQ) (atts : List AttQ) (x : List Ev)
    (h : atts.flatMap (bufAtt f (some r)) ~ q.atts.flatMap (bufAtt f (some r)) ++ x) (hfin : q.fin = .no) :
    bufRule f r { q with atts := atts } ~ bufRule f r q ++ x := by
  simp only [bufRule, hfin, show (Fin.no == Fin.pending) = false from rfl, Bool.false_eq_true, if_false, append_nil]
  rw [append_assoc]
  exact Perm.append_left _ h

theorem isRule_cases (r : Nat) (it : Item) (h : it.isRule r = true) : ∃ q, it = .rule r q := by
  cases it with
  | att a => simp [Item.isRule] at h
  | rule r' q => simp [Item.isRule] at h; subst h; exact ⟨q, rfl⟩

theorem isAtt_cases (scen : Nat) (ret : Option Retries) (it : Item) (h : it.isAtt scen ret = true) :
    ∃ a, it = .att a ∧ a.scen = scen ∧ a.ret = ret := by
  cases it with
  | rule r q => simp [Item.isAtt] at h
  | att a => simp [Item.isAtt] at h; exact ⟨a, rfl, h.1, h.2⟩

/-- `FeatQ.insertScen` adds exactly the event -/
theorem insertScen_perm (f : Nat) (q q' : FeatQ) (rule : Option Nat) (scen : Nat) (ret : Option Retries) (ev : ScenEv)
    (h : q.insertScen rule scen ret ev = some q') (hs : safeScen q rule scen ret = true) (hok : featOk (f, q) = true) :
    bufFeat (f, q') ~ bufFeat (f, q) ++ [Ev.scen ⟨f, rule, scen⟩ ret ev] ∧ featOk (f, q') = true := by
  simp only [safeScen, Bool.and_eq_true, beq_iff_eq] at hs
  obtain ⟨hfin, hs⟩ := hs
  simp only [featOk, Bool.and_eq_true, Bool.or_eq_true] at hok
  have hitems := hok.1
  cases rule with
  | some r =>
    simp only [FeatQ.insertScen] at h
    by_cases hex : q.items.any (Item.isRule r) = true
    · simp only [hex, if_true, Option.some.injEq] at h
      subst h
      obtain ⟨it, hit, hp⟩ := find_some_of_any _ _ hex
      obtain ⟨rq, rfl⟩ := isRule_cases r it hp
      simp only [hit, Bool.and_eq_true, beq_iff_eq] at hs
      have hrq : ruleOk rq = true := all_eq_true.mp hitems _ (mem_of_find?_eq_some hit)
      simp only [ruleOk, Bool.and_eq_true] at hrq
      have hpa := pushAtt_perm f r rq.atts scen ret ev hrq.1 (by
        intro a ha
        have := hs.2
        simp only [safeAtt, ha] at this
        simpa using this)
      refine ⟨?_, ?_⟩
      · apply bufFeat_items f q _ _ _ hfin
        apply updFirst_flatMap _ _ _ _ _ hex
        intro a ha
        rw [hit] at ha; injection ha with ha; subst ha
        simp only [Item.pushInRule, bufItem]
        exact bufRule_atts f r rq _ _ hpa.1 hs.1
      · simp only [featOk, Bool.and_eq_true, Bool.or_eq_true]
        refine ⟨?_, Or.inl (by simp [hfin])⟩
        apply updFirst_all _ _ _ _ hitems
        intro a ha
        rw [hit] at ha; injection ha with ha; subst ha
        simp [Item.pushInRule, itemOk, ruleOk, hpa.2, hs.1]
    · have hex' : q.items.any (Item.isRule r) = false := by simpa using hex
      simp [hex'] at h
  | none =>
    simp only [FeatQ.insertScen] at h
    by_cases hex : q.items.any (Item.isAtt scen ret) = true
    · simp only [hex, if_true, Option.some.injEq] at h
      subst h
      obtain ⟨it, hit, hp⟩ := find_some_of_any _ _ hex
      obtain ⟨a, rfl, ha1, ha2⟩ := isAtt_cases scen ret it hp
      simp only [hit] at hs
      have hclean : attClean a = true := all_eq_true.mp hitems _ (mem_of_find?_eq_some hit)
      refine ⟨?_, ?_⟩
      · apply bufFeat_items f q _ _ _ hfin
        apply updFirst_flatMap _ _ _ _ _ hex
        intro b hb
        rw [hit] at hb; injection hb with hb; subst hb
        simp only [Item.pushAtt, bufItem]
        rw [bufAtt_push, ha1, ha2]
      · simp only [featOk, Bool.and_eq_true, Bool.or_eq_true]
        refine ⟨?_, Or.inl (by simp [hfin])⟩
        apply updFirst_all _ _ _ _ hitems
        intro b hb
        rw [hit] at hb; injection hb with hb; subst hb
        simp only [Item.pushAtt, itemOk]
        exact push_clean a ev hclean (by simpa using hs)
    · have hex' : q.items.any (Item.isAtt scen ret) = false := by simpa using hex
      simp only [hex', Bool.false_eq_true, if_false, Option.some.injEq] at h
      subst h
      refine ⟨?_, ?_⟩
      · apply bufFeat_items f q _ _ _ hfin
        simp [flatMap_append, bufItem, bufAtt, wrapAtt]
      · simp [featOk, all_append, hitems, itemOk, attClean, hfin]

end Cuke.NormL

namespace Cuke.NormL
open Cuke List

theorem filter_none {α} (p : α → Bool) (l : List α) (h : l.any p = false) : l.filter (fun a => !p a) = l := by
  induction l with
  | nil => rfl
  | cons a rest ih =>
    simp only [any_cons, Bool.or_eq_false_iff] at h
    simp [filter_cons, h.1, ih h.2]

/-- what `Norm.insert` adds to the buffer: the event itself, except that run-level events bypass the
    queue and run-Finished only sets the pending mark -/
def queued (e : Ev) : List Ev := if e.isRunLevel || e == .finished then [] else [e]

/-- **Insertion step**: under `Safe`, the queue afterwards owes exactly what it owed plus the new event. -/
theorem insert_perm (n n1 : Norm) (e : Ev) (hok : NormOk n) (hs : Safe n e = true) (h : n.insert e = some n1) :
    bufFeats n1.feats ~ bufFeats n.feats ++ queued e ∧ NormOk n1 ∧
    n1.fin = (if e == .finished then .pending else n.fin) := by
  unfold NormOk at *
  cases e with
  | started => simp only [Norm.insert, Option.some.injEq] at h; subst h; simp [queued, Ev.isRunLevel, hok]
  | parsingFinished a b c d g => simp only [Norm.insert, Option.some.injEq] at h; subst h; simp [queued, Ev.isRunLevel, hok]
  | parseErr i => simp only [Norm.insert, Option.some.injEq] at h; subst h; simp [queued, Ev.isRunLevel, hok]
  | finished => simp only [Norm.insert, Option.some.injEq] at h; subst h; simp [queued, Ev.isRunLevel, hok]
  | featStarted f =>
    simp only [Norm.insert, Option.some.injEq] at h; subst h
    simp only [Safe, Bool.not_eq_true'] at hs
    have hfil := filter_none (fun (e : Nat × FeatQ) => e.1 == f) n.feats hs
    simp only [hfil]
    refine ⟨?_, ?_, by simp⟩
    · simp [bufFeats, flatMap_append, bufFeat, FeatQ.new, queued, Ev.isRunLevel]
    · simp [all_append, hok, featOk, FeatQ.new]
  | featFinished f =>
    simp only [Norm.insert, Option.map_eq_some_iff] at h
    obtain ⟨fs, hfs, rfl⟩ := h
    simp only [Safe, featIn] at hs
    have := updFeat_perm n.feats fs f _ [Ev.featFinished f] hfs (by
      intro q q' hq hg
      simp only [Option.some.injEq] at hg; subst hg
      simp only [hq, Bool.and_eq_true, beq_iff_eq] at hs
      have hqok : featOk (f, q) = true := by
        obtain ⟨x, hx1, hx2⟩ := Option.map_eq_some_iff.mp hq
        have hmem := mem_of_find?_eq_some hx1
        have hk : x.1 = f := by simpa using find?_some hx1
        have := all_eq_true.mp hok x hmem
        cases x; simp only at hk hx2; subst hk; subst hx2; exact this
      simp only [featOk, Bool.and_eq_true] at hqok
      refine ⟨?_, ?_⟩
      · simp [bufFeat, hs.1]
      · simp [featOk, hqok.1, hs.2]) hok
    exact ⟨by simpa [queued, Ev.isRunLevel] using this.1, this.2, by simp⟩
  | ruleStarted f r =>
    simp only [Norm.insert, Option.map_eq_some_iff] at h
    obtain ⟨fs, hfs, rfl⟩ := h
    simp only [Safe, featIn] at hs
    have := updFeat_perm n.feats fs f _ [Ev.ruleStarted f r] hfs (by
      intro q q' hq hg
      simp only [Option.some.injEq] at hg; subst hg
      simp only [hq, Bool.and_eq_true, beq_iff_eq, Bool.not_eq_true'] at hs
      have hqok : featOk (f, q) = true := by
        obtain ⟨x, hx1, hx2⟩ := Option.map_eq_some_iff.mp hq
        have hmem := mem_of_find?_eq_some hx1
        have hk : x.1 = f := by simpa using find?_some hx1
        have := all_eq_true.mp hok x hmem
        cases x; simp only at hk hx2; subst hk; subst hx2; exact this
      simp only [featOk, Bool.and_eq_true] at hqok
      have hfil := filter_none (Item.isRule r) q.items hs.2
      refine ⟨?_, ?_⟩
      · apply bufFeat_items f q _ _ _ hs.1
        simp [FeatQ.newRule, hfil, flatMap_append, bufItem, bufRule, RuleQ.new]
      · simp [featOk, FeatQ.newRule, hfil, all_append, hqok.1, itemOk, ruleOk, RuleQ.new, hs.1]) hok
    exact ⟨by simpa [queued, Ev.isRunLevel] using this.1, this.2, by simp⟩
  | ruleFinished f r =>
    simp only [Norm.insert, Option.map_eq_some_iff] at h
    obtain ⟨fs, hfs, rfl⟩ := h
    simp only [Safe, featIn] at hs
    have := updFeat_perm n.feats fs f _ [Ev.ruleFinished f r] hfs (by
      intro q q' hq hg
      simp only [hq] at hs
      have hqok : featOk (f, q) = true := by
        obtain ⟨x, hx1, hx2⟩ := Option.map_eq_some_iff.mp hq
        have hmem := mem_of_find?_eq_some hx1
        have hk : x.1 = f := by simpa using find?_some hx1
        have := all_eq_true.mp hok x hmem
        cases x; simp only at hk hx2; subst hk; subst hx2; exact this
      simp only [featOk, Bool.and_eq_true, Bool.or_eq_true] at hqok
      simp only [FeatQ.ruleFinished] at hg
      by_cases hex : q.items.any (Item.isRule r) = true
      · simp only [hex, if_true, Option.some.injEq] at hg; subst hg
        obtain ⟨it, hit, hp⟩ := find_some_of_any _ _ hex
        obtain ⟨rq, rfl⟩ := isRule_cases r it hp
        simp only [hit, Bool.and_eq_true, beq_iff_eq] at hs
        have hrq : ruleOk rq = true := all_eq_true.mp hqok.1 _ (mem_of_find?_eq_some hit)
        simp only [ruleOk, Bool.and_eq_true] at hrq
        -- a feature that is itself finished would need this rule to be finished already
        have hqfin : q.fin = .no := by
          rcases hqok.2 with h2 | h2
          · simpa using h2
          · have := all_eq_true.mp h2 _ (mem_of_find?_eq_some hit)
            simp [itemComplete, hs.1] at this
        refine ⟨?_, ?_⟩
        · apply bufFeat_items f q _ _ _ hqfin
          apply updFirst_flatMap _ _ _ _ _ hex
          intro a ha
          rw [hit] at ha; injection ha with ha; subst ha
          simp [Item.finishRule, bufItem, bufRule, hs.1]
        · simp only [featOk, Bool.and_eq_true, Bool.or_eq_true]
          refine ⟨?_, Or.inl (by simp [hqfin])⟩
          apply updFirst_all _ _ _ _ hqok.1
          intro a ha
          rw [hit] at ha; injection ha with ha; subst ha
          simp [Item.finishRule, itemOk, ruleOk, hrq.1, hs.2]
      · have hex' : q.items.any (Item.isRule r) = false := by simpa using hex
        simp [hex'] at hg) hok
    exact ⟨by simpa [queued, Ev.isRunLevel] using this.1, this.2, by simp⟩
  | scen k ret ev =>
    simp only [Norm.insert, Option.map_eq_some_iff] at h
    obtain ⟨fs, hfs, rfl⟩ := h
    simp only [Safe, featIn] at hs
    have := updFeat_perm n.feats fs k.feat _ [Ev.scen k ret ev] hfs (by
      intro q q' hq hg
      simp only [hq] at hs
      have hqok : featOk (k.feat, q) = true := by
        obtain ⟨x, hx1, hx2⟩ := Option.map_eq_some_iff.mp hq
        have hmem := mem_of_find?_eq_some hx1
        have hk : x.1 = k.feat := by simpa using find?_some hx1
        have := all_eq_true.mp hok x hmem
        cases x; simp only at hk hx2; subst hk; subst hx2; exact this
      have := insertScen_perm k.feat q q' k.rule k.scen ret ev hg hs hqok
      cases k; exact this) hok
    exact ⟨by simpa [queued, Ev.isRunLevel] using this.1, this.2, by simp⟩

end Cuke.NormL
