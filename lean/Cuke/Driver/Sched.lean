import Cuke.Driver.EvCodec
import Cuke.Model.SchedMon
import Cuke.Model.SchedSeq
/-! `sched.run <cfg> <labels>`: replay a real run log through the scheduler LTS (lenient) and the monitors.
    Output: `Q ; K ; R ; B ; FF ; I ; A ; c03 ; c04 ; c05 ; c06 ; c07 ; c08` (a clean run prints `-` / `ok`). -/
namespace Cuke.Driver
open Cuke Cuke.Wire Cuke.SMon

def slotsP : P Slots := do
  let t ← tok
  match t with
  | "none" => pure (.cont none)
  | "brk" => pure .brk
  | "n" => do let k ← nat; pure (.cont (some k))
  | _ => fail

def qeP : P QE := do
  let id ← nat
  let scen ← nat
  let ret ← retP
  let after ← opt (do let d ← nat; let t0 ← opt nat; pure (d, t0))
  pure { id, scen, ret, after }

def labelP : P Label := do
  let t ← tok
  match t with
  | "hook1" => pure .hookTake
  | "hook0" => pure .hookRestore
  | "exit" => pure .exit
  | "tx" => do let e ← evP; pure (.tx e)
  | "rx" => do let e ← evP; pure (.rx e)
  | "pok" => do let f ← nat; pure (.pOk f)
  | "perr" => pure .pErr
  | "pend" => pure .pEnd
  | "ppend" => pure .pPend
  | "pwake" => pure .pWake
  | "pfin" => pure .pFinish
  | "ins" => do let t ← nat; let s ← list qeP; let c ← list qeP; pure (.ins t s c)
  | "get1" => do let t ← nat; let ask ← opt nat; let ns ← nat; let nc ← nat; pure (.get1 t ask ns nc)
  | "get2" => do
    let t ← nat; let sl ← slotsP; let got ← list nat; let sleep ← bool; let running ← nat
    pure (.get2 t sl got sleep running)
  | "idle" => do let f ← bool; let s ← bool; pure (.idle f s)
  | "idlec" => pure .idleContinue
  | "idley" => pure .idleYield
  | "idles" => pure .idleSlept
  | "disp" => do let n ← nat; let sl ← slotsP; pure (.disp n sl)
  | "cons" => do let b ← bool; pure (.cons b)
  | "notif" => do let id ← nat; let f ← bool; let r ← bool; pure (.notif id f r)
  | "brk" => pure .brk
  | "end" => do let id ← nat; let f ← bool; let r ← bool; let t ← nat; pure (.endA id f r t)
  | "cbin" => do let s ← nat; let a ← nat; let t ← nat; pure (.cbIn s a t)
  | "cbout" => do let s ← nat; let a ← nat; let t ← nat; pure (.cbOut s a t)
  | "env" => pure .envMove
  | "poll" => pure .poll
  | "verdict" => do let b ← bool; let a ← nat; let p ← nat; let h ← nat; pure (.verdict b a p h)
  | "other" => pure .other
  | _ => fail

def sscenP : P SScen := do
  let id ← nat; let tags ← list str; let n ← nat
  pure { id, tags, nsteps := n }

def sfeatP : P SFeat := do
  let id ← nat; let tags ← list str
  let scens ← list sscenP
  let rules ← list (do let rid ← nat; let rt ← list str; let sc ← list sscenP; pure ({ id := rid, tags := rt, scens := sc } : SRule))
  pure { id, tags, scens, rules }

def scfgP : P SCfg := do
  let bc ← tok
  let builderConc : Option (Option Nat) ← (match bc with
    | "u" => pure none
    | "none" => pure (some none)
    | "n" => do let k ← nat; pure (some (some k))
    | _ => fail)
  let cliConc ← opt nat
  let bff ← bool; let cff ← bool
  let bret ← opt nat; let cret ← opt nat
  let baft ← opt nat; let caft ← opt nat
  let cw ← bool
  let tbl ← list (do let k ← str; let v ← opt nat; pure (k, v))
  let feats ← list sfeatP
  let bgTable ← list (do let s ← nat; let n ← nat; pure (s, n))
  pure { bgTable, builderConc, cliConc, builderFF := bff, cliFF := cff, builderRetries := bret, cliRetries := cret,
         builderAfter := baft, cliAfter := caft, customWhich := cw, durTable := tbl, feats }

def showDis (s : SState) (cls : DClass) : String :=
  -- both layers: the base acceptor's disagreements and those of the lineage layer (Model/SchedSeq.lean)
  let ds := s.dis.filter (fun d => d.cls == cls)
  -- one response per line: `repr` of a long queue wraps, so line breaks inside a message become blanks
  if ds.isEmpty then "-" else " / ".intercalate (ds.map (fun d => s!"@{d.at_} {(d.msg.replace "\n" " ").replace " ; " " , "}"))

def handleSchedRun : Toks → Option String :=
  fun ts => runAll (do
    let c ← scfgP
    let ls ← list labelP
    let n := acceptN c ls
    -- `n.base = accept c ls` (theorem `SchedSeq.acceptN_base`); the second layer's notes join the base's
    let s := finalChecks { n.base with dis := n.base.dis ++ n.ndis }
    let none_ : Option String := none
    let iso := isolation c ls
    pure (" ; ".intercalate [
      showDis s .Q, showDis s .K, showDis s .R, showDis s .B, showDis s .FF, showDis s .I, showDis s .A,
      showMon "c03" none_ (framed c ls), showMon "c04" none_ (completeness c ls),
      showMon "c05" none_ (retries c ls), showMon "c06" none_ (limit c ls),
      showMon "c07" (knownC07 c ls iso) (iso.map (·.1)), showMon "c08" none_ (SMon.failFast c ls),
      showMon "c02" none_ (attemptShapes c ls),
      showMon "c01" (knownC01 ls (verdictMon ls)) (verdictMon ls),
      showMon "c10" none_ (hookWindow ls)])) ts

end Cuke.Driver
