import Cuke.Model.SchedLts
import Cuke.Model.AttemptShape
import Cuke.Model.Contract
/-
  Monitors of C03–C08: the properties' own wording evaluated on the log of a REAL run
  (events in send order, probes, callbacks). Independent of the acceptor's model state.
-/
namespace Cuke.SMon
open Cuke

def txEvents (ls : List Label) : List Ev := ls.filterMap (fun l => match l with | .tx e => some e | _ => none)
def rxEvents (ls : List Label) : List Ev := ls.filterMap (fun l => match l with | .rx e => some e | _ => none)

def idxOf? (p : α → Bool) (l : List α) : Option Nat := l.findIdx? p
def lastIdxOf? (p : α → Bool) (l : List α) : Option Nat :=
  (l.reverse.findIdx? p).map (fun i => l.length - 1 - i)

/-- `a > b` on present indices, `d` otherwise -/
def gtIdx (a b : Option Nat) (d : Bool) : Bool :=
  match a, b with
  | some x, some y => decide (x > y)
  | _, _ => d

def isScenOf (f : Nat) (r : Option Nat) : Ev → Bool
  | .scen k _ _ => k.feat == f && (r.isNone || k.rule == r)
  | _ => false

/-- C03 `Framed` -/
def framed (c : SCfg) (ls : List Label) : Option String :=
  let evs := txEvents ls
  let delivered := ls.filterMap (fun l => match l with | .pOk f => c.feat? f | _ => none)
  let nErr := (ls.filter (fun l => l == Label.pErr)).length
  let count (p : Ev → Bool) := (evs.filter p).length
  let firstFeatIdx := idxOf? (fun e => match e with | .featStarted _ | .featFinished _ | .ruleStarted _ _ | .ruleFinished _ _ | .scen .. => true | _ => false) evs
  let startedIdx := idxOf? (fun e => e == Ev.started) evs
  let pes := evs.filterMap (fun e => match e with | .parseErr i => some i | _ => none)
  let pfIdx := idxOf? (fun e => match e with | .parsingFinished .. => true | _ => false) evs
  let lastPE := lastIdxOf? Ev.isParseErr evs
  let expectedPF := Ev.parsingFinished delivered.length (delivered.map (·.rules.length)).sum
      (delivered.map SFeat.countScenarios).sum (delivered.map SFeat.countSteps).sum nErr
  if count (· == Ev.started) != 1 then some "not exactly one run-Started"
  else if (gtIdx (startedIdx) (firstFeatIdx) false) then some "feature event before run-Started"
  else if pes != List.range nErr then some s!"parser errors {pes} but {nErr} delivered"
  else if count (fun e => match e with | .parsingFinished .. => true | _ => false) != 1 then some "not exactly one ParsingFinished"
  else if (gtIdx (lastPE) (pfIdx) false) then some "ParsingFinished before a parser error"
  else if !evs.contains expectedPF then some s!"ParsingFinished counts differ from what was received: expected {repr expectedPF}"
  else if count (· == Ev.finished) != 1 then some "not exactly one run-Finished"
  else if evs.getLast? != some Ev.finished then some "run-Finished is not the last event"
  else
    -- brackets
    let featIds := (evs.filterMap (fun e => match e with | .scen k _ _ => some k.feat | .featStarted f => some f | .featFinished f => some f | .ruleStarted f _ => some f | .ruleFinished f _ => some f | _ => none)).eraseDups
    let badFeat := featIds.find? (fun f =>
      let hasScen := evs.any (isScenOf f none)
      let ns := count (· == Ev.featStarted f)
      let nf := count (· == Ev.featFinished f)
      if !hasScen then ns != 0 || nf != 0
      else
        ns != 1 || nf != 1 ||
        (gtIdx (idxOf? (· == Ev.featStarted f) evs) (idxOf? (isScenOf f none) evs) true) ||
        (gtIdx (lastIdxOf? (isScenOf f none) evs) (idxOf? (· == Ev.featFinished f) evs) true))
    match badFeat with
    | some f => some s!"feature {f}: brackets not exact"
    | none =>
      let rulePairs := (evs.filterMap (fun e => match e with | .scen k _ _ => k.rule.map (fun r => (k.feat, r)) | .ruleStarted f r => some (f, r) | .ruleFinished f r => some (f, r) | _ => none)).eraseDups
      let badRule := rulePairs.find? (fun fr =>
        let (f, r) := fr
        let hasScen := evs.any (isScenOf f (some r))
        let ns := count (· == Ev.ruleStarted f r)
        let nf := count (· == Ev.ruleFinished f r)
        if !hasScen then ns != 0 || nf != 0
        else
          ns != 1 || nf != 1 ||
          (gtIdx (idxOf? (· == Ev.ruleStarted f r) evs) (idxOf? (isScenOf f (some r)) evs) true) ||
          (gtIdx (lastIdxOf? (isScenOf f (some r)) evs) (idxOf? (· == Ev.ruleFinished f r) evs) true) ||
          -- inside the feature's bracket
          (gtIdx (idxOf? (· == Ev.featStarted f) evs) (idxOf? (· == Ev.ruleStarted f r) evs) true) ||
          (gtIdx (idxOf? (· == Ev.ruleFinished f r) evs) (idxOf? (· == Ev.featFinished f) evs) true))
      match badRule with
      | some fr => some s!"rule {fr.1}/{fr.2}: brackets not exact"
      | none =>
        if rxEvents ls != evs then some "events received from the stream differ from the events sent (lost / reordered)"
        -- the Runner's stream is inside the contract `Normalize` relies on (hypothesis of C11.norm_contract_whole_run)
        else if !Contract evs then some "the event stream is rejected by the Normalize contract ledger (Cuke.Contract)"
        else none

/-- attempt identity in events -/
def attOf : Ev → Option (Nat × Nat)
  | .scen k ret _ => some (k.scen, (ret.map (·.current)).getD 0)
  | _ => none

def isStartedEv : Ev → Bool
  | .scen _ _ .started => true
  | _ => false
def isFinishedEv : Ev → Bool
  | .scen _ _ .finished => true
  | _ => false

/-- C04: without fail-fast every supplied scenario is started, nothing else is, and the run ended -/
def completeness (c : SCfg) (ls : List Label) : Option String :=
  let evs := txEvents ls
  let delivered := ls.filterMap (fun l => match l with | .pOk f => c.feat? f | _ => none)
  let supplied := (delivered.flatMap (fun f => (featScenarios f).map (fun rs => rs.2.id)))
  let started := (evs.filterMap (fun e => if isStartedEv e then (attOf e).map (·.1) else none)).eraseDups
  let extra := started.filter (fun s => !supplied.contains s)
  let missing := supplied.filter (fun s => !started.contains s)
  if !ls.contains Label.exit then some "the run did not terminate"
  else if !extra.isEmpty then some s!"scenarios attempted that were not supplied: {extra}"
  else if !c.failFast && !missing.isEmpty then some s!"supplied scenarios never attempted: {missing}"
  else none

/-- resolved retry options of a scenario, by the C18 model -/
def retryOf (c : SCfg) (scen : Nat) : Option RetryOptions :=
  c.feats.findSome? (fun f => (featScenarios f).findSome? (fun rs =>
    if rs.2.id == scen then some (parseFromTags c.dur c.retryCli rs.2.tags (rs.1.map (·.tags)) f.tags) else none)) |>.join

/-- C05 -/
def retries (c : SCfg) (ls : List Label) : Option String :=
  let evs := txEvents ls
  let scens := (evs.filterMap (fun e => (attOf e).map (·.1))).eraseDups
  -- END verdicts by (scen, att): recover ids from GET2 batches is not needed: END order per scenario = attempt order
  let brkPos := idxOf? (· == Label.brk) ls
  let bad := scens.findSome? (fun sc =>
    let ro := retryOf c sc
    let n := (ro.map (·.retries.left)).getD 0
    let atts := (evs.filterMap (fun e => if isStartedEv e then (match e with | .scen k ret _ => if k.scen == sc then some ret else none | _ => none) else none))
    -- expected retries values
    let expectRet (k : Nat) : Option Retries := ro.map (fun _ => ⟨k, n - k⟩)
    let wrong := (List.range atts.length).find? (fun k => atts.getD k none != expectRet k)
    match wrong with
    | some k => some s!"scenario {sc}: attempt {k} carries {repr (atts.getD k none)}, expected {repr (expectRet k)}"
    | none =>
      if atts.length > n + 1 then some s!"scenario {sc}: {atts.length} attempts with budget {n}"
      else
        -- sequential: attempt k finished before attempt k+1 started
        let seqBad := (List.range (atts.length - 1)).find? (fun k =>
          gtIdx (idxOf? (fun e => isFinishedEv e && attOf e == some (sc, k)) evs)
                (idxOf? (fun e => isStartedEv e && attOf e == some (sc, k + 1)) evs) true)
        match seqBad with
        | some k => some s!"scenario {sc}: attempt {k + 1} started before attempt {k} finished"
        | none => none)
  match bad with
  | some m => some m
  | none =>
    -- retried exactly on failure within budget: per END label
    let _ := brkPos
    none

/-- C06: never more than k attempts between Started and Finished; k = 1 ⇒ no interleaving;
    callbacks only inside their attempt's bracket -/
def limit (c : SCfg) (ls : List Label) : Option String :=
  let k := c.limit
  let r := ls.foldl (fun (acc : List (Nat × Nat) × Option String) l =>
    match acc.2 with
    | some _ => acc
    | none =>
      match l with
      | .tx e =>
        if isStartedEv e then
          let inf := acc.1 ++ (attOf e).toList
          (inf, match k with | some k => if inf.length > k then some s!"{inf.length} attempts in flight, limit {k}" else none | none => none)
        else if isFinishedEv e then (acc.1.filter (fun a => some a != attOf e), none)
        else
          match attOf e with
          | some a =>
            if !acc.1.contains a then (acc.1, some s!"event of attempt {a} outside its Started..Finished bracket")
            else if k == some 1 && acc.1 != [a] then (acc.1, some "events of different attempts interleave at limit 1")
            else acc
          | none => acc
      | .cbIn sc att _ => if acc.1.contains (sc, att) then acc else (acc.1, some s!"user code of attempt ({sc},{att}) runs outside its Started..Finished bracket")
      | _ => acc) ([], none)
  r.2

def serialOf (c : SCfg) (scen : Nat) : Bool :=
  (c.feats.findSome? (fun f => (featScenarios f).findSome? (fun rs =>
    if rs.2.id == scen then some (isSerial c rs.2.tags ((rs.1.map (·.tags)).getD []) f.tags) else none))).getD false

/-- C07: while a serial attempt is between Started and Finished nothing else is in flight and no other
    attempt's event or user code occurs. Returns the message and the serial attempts involved. -/
def isolation (c : SCfg) (ls : List Label) : Option (String × List (Nat × Nat)) :=
  let r := ls.foldl (fun (acc : List (Nat × Nat) × Option (String × List (Nat × Nat))) l =>
    match acc.2 with
    | some _ => acc
    | none =>
      let serialIn := acc.1.filter (fun a => serialOf c a.1)
      match l with
      | .tx e =>
        match attOf e with
        | none => acc
        | some a =>
          let foreign := serialIn.filter (fun s => s != a)
          if isStartedEv e then
            if !foreign.isEmpty then (acc.1 ++ [a], some (s!"attempt {a} started while serial attempt {foreign} is in flight", foreign))
            else if serialOf c a.1 && !acc.1.isEmpty then (acc.1 ++ [a], some (s!"serial attempt {a} started while {acc.1} are in flight", [a]))
            else (acc.1 ++ [a], none)
          else if isFinishedEv e then (acc.1.filter (· != a), none)
          else if !foreign.isEmpty then (acc.1, some (s!"event of attempt {a} while serial attempt {foreign} is in flight", foreign)) else acc
      | .cbIn sc att _ =>
        let foreign := serialIn.filter (fun s => s != (sc, att))
        if !foreign.isEmpty then (acc.1, some (s!"user code of ({sc},{att}) runs while serial attempt {foreign} is in flight", foreign)) else acc
      | _ => acc) ([], none)
  r.2

/-- Cause pattern of finding F-C07: `get` handed out a Serial entry while other scenarios were in
    flight, and that entry only became available late — a retry whose delay expired, or a scenario
    the parser delivered after the first dispatch. Returns those serial attempts. -/
def lateSerialDispatches (ls : List Label) : List (Nat × Nat) :=
  let r := ls.foldl (fun (acc : (List (Nat × (Nat × Nat × Bool))) × Bool × List (Nat × Nat)) l =>
    -- acc = (id ↦ (scen, current, late), a dispatch has happened, result)
    match l with
    | .ins _ ps pc =>
      let add := (ps ++ pc).filter (fun p => !(acc.1.any (fun e => e.1 == p.id)))
      (acc.1 ++ add.map (fun p =>
        let cur := (p.ret.map (·.current)).getD 0
        (p.id, (p.scen, cur, (acc.2.1 || (cur > 0 && p.after.isSome))))), acc.2.1, acc.2.2)
    | .disp n _ => (acc.1, acc.2.1 || n > 0, acc.2.2)
    | .get2 _ _ got _ running =>
      if running > 0 then
        let late := got.filterMap (fun i => (acc.1.find? (fun e => e.1 == i)).bind (fun e => if e.2.2.2 then some (e.2.1, e.2.2.1) else none))
        (acc.1, acc.2.1, acc.2.2 ++ late)
      else acc
    | _ => acc) ([], false, [])
  r.2.2

def knownC07 (c : SCfg) (ls : List Label) (r : Option (String × List (Nat × Nat))) : Option String :=
  match r with
  | none => none
  | some (_, involved) =>
    let late := (lateSerialDispatches ls).filter (fun a => serialOf c a.1)
    if !involved.isEmpty && involved.all (fun a => late.contains a) then some "F-C07" else none

/-- hypothesis of `C08.lts_no_dispatch_after_final_failure`, evaluated on the log of every real run: an attempt ends
    (`END`) only while `execute` awaits its scenarios (phase `selecting` of the acceptor: scenario futures are polled
    nowhere else) -/
def ewsStep (c : SCfg) (a : SState × Bool) (l : Label) : SState × Bool :=
  (stepL c a.1 l, match l with
    | .endA .. => a.2 && a.1.phase == .selecting
    | _ => a.2)

def endsWhileSelecting (c : SCfg) (ls : List Label) : Bool := (ls.foldl (ewsStep c) (({} : SState), true)).2

/-- C08 -/
def failFast (c : SCfg) (ls : List Label) : Option String :=
  if !endsWhileSelecting c ls then some "an attempt ended while execute was not awaiting its scenarios" else
  if !c.failFast then none
  else
    let firstFinal := idxOf? (fun l => match l with | .endA _ failed retried _ => failed && !retried | _ => false) ls
    match firstFinal with
    | none => if ls.contains Label.brk && !ls.contains Label.pErr then some "fail-fast tripped although nothing failed finally" else none
    | some p =>
      let after := ls.drop p
      -- the property's own wording: once an attempt has failed finally, no further attempt is dispatched
      if after.any (fun l => match l with | .disp n _ => n > 0 | _ => false) then some "attempts dispatched after an attempt failed finally" else
      -- the trip happens when that notification is drained; after the BRK nothing is dispatched
      match idxOf? (· == Label.brk) after with
      | none => some "a final failure did not trip fail-fast"
      | some b =>
        let tail := after.drop b
        if tail.any (fun l => match l with | .disp n _ => n > 0 | _ => false) then some "attempts dispatched after fail-fast tripped"
        else
          -- every started attempt finished
          let evs := txEvents ls
          let startedA := evs.filterMap (fun e => if isStartedEv e then attOf e else none)
          let finishedA := evs.filterMap (fun e => if isFinishedEv e then attOf e else none)
          if startedA.any (fun a => !finishedA.contains a) then some "a started attempt did not reach Finished" else none

/-- C02 on a real concurrent run: the events of every attempt (projected out of the interleaved
    stream) form a canonical attempt sequence (`shapeOk`, proved to accept every model attempt in
    `Cuke.C02.runAttempt_shape`) and carry one retry counter. -/
def attemptShapes (c : SCfg) (ls : List Label) : Option String :=
  let evs := txEvents ls
  let atts := (evs.filterMap attOf).eraseDups
  let nstepsOf (scen : Nat) : Nat :=
    (c.feats.findSome? (fun f => (featScenarios f).findSome? (fun rs => if rs.2.id == scen then some rs.2.nsteps else none))).getD 0
  let bad := atts.find? (fun a =>
    let mine := evs.filterMap (fun e => match e with
      | .scen k ret se => if attOf e == some a then some (k, ret, se) else none
      | _ => none)
    let ses := (mine.map (·.2.2)).filter (fun se => match se with | .log _ => false | _ => true)
    let sameCounter := match mine with
      | [] => true
      | m :: rest => rest.all (fun x => x.1 == m.1 && x.2.1 == m.2.1)
    let nbg := ((c.bgTable.find? (fun p => p.1 == a.1)).map (·.2)).getD 0
    !(shapeOk nbg (nstepsOf a.1) ses) || !sameCounter)
  bad.map (fun a => s!"attempt {a.2} of scenario {a.1}: events are not the canonical sequence")

/-- C01 end to end: the REAL runner's events through the REAL `Summarize`: the run is reported failed iff
    a parser error was delivered or some attempt failed finally (END with failed ∧ ¬retried) -/
def verdictMon (ls : List Label) : Option String :=
  let finalFailure := ls.any (fun l => match l with | .endA _ failed retried _ => failed && !retried | _ => false)
  let parseErr := ls.contains Label.pErr
  match ls.findSome? (fun l => match l with | .verdict b _ _ _ => some b | _ => none) with
  | none => none      -- the run did not end (other monitors report that)
  | some b =>
    if b == (finalFailure || parseErr) then none
    else some s!"verdict {b} but final failure = {finalFailure}, parser error = {parseErr}"

/-- cause pattern of F-C01: reported failed with no final failure and no parser error, no failed step
    counted, and every Hook-Failed event lies in an attempt with a retry left -/
def knownC01 (ls : List Label) (r : Option String) : Option String :=
  match r with
  | none => none
  | some _ =>
    let evs := txEvents ls
    let hookFails := evs.filter (fun e => e.isHookFailed)
    let allRetried := hookFails.all (fun e => match e with | .scen _ (some r) _ => decide (r.left > 0) | _ => false)
    match ls.findSome? (fun l => match l with | .verdict b fs pe _ => some (b, fs, pe) | _ => none) with
    | some (true, 0, 0) => if !hookFails.isEmpty && allRetried then some "F-C01" else none
    | _ => none

/-- C10, run level, on the log of a real run: everything of a scenario (events sent, user code entered or left, attempt
    ends) happens while the silent panic hook is installed; the hook is taken once, put back once, before `execute`
    returns; the last event sent is run-Finished. States: 0 before `HOOK take`, 1 taken, 2 restored, 3 returned. -/
def hookWindow (ls : List Label) : Option String :=
  let step : (Nat × Option String) → Label → (Nat × Option String) := fun a l =>
    let st := a.1
    if a.2.isSome then a else
    match l with
    | .hookTake => if st == 0 then (1, none) else (st, some "panic hook taken twice, or after the run")
    | .hookRestore => if st == 1 then (2, none) else (st, some "panic hook restored without being taken")
    | .exit => if st == 2 then (3, none) else (st, some "execute returned without restoring the panic hook")
    | .tx (.scen _ _ _) => if st == 1 then a else (st, some "scenario event sent outside the silenced window")
    | .cbIn .. => if st == 1 then a else (st, some "user code entered outside the silenced window")
    | .cbOut .. => if st == 1 then a else (st, some "user code left outside the silenced window")
    | .endA .. => if st == 1 then a else (st, some "attempt ended outside the silenced window")
    | _ => a
  let r := ls.foldl step (0, none)
  match r.2 with
  | some e => some e
  | none =>
    if r.1 != 3 then some s!"the run did not return with the hook restored (state {r.1})"
    else if (txEvents ls).getLast? != some Ev.finished then some "the last event sent is not run-Finished"
    else none

def showMon (id : String) (known : Option String) (r : Option String) : String :=
  match r with
  | none => "ok"
  | some m => match known with
    | some k => s!"!monitor {k}"
    | none => s!"!monitor NEW {id}: {m}"

end Cuke.SMon
