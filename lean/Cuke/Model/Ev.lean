import Cuke.Model.RetryOpts
/-
  Model of `event::Cucumber<W>` (src/event.rs) — the items of the Runner's stream as the
  writers see them. `Source<T>` values (pointer identity) are `Nat` ids that the harness
  assigns one-to-one. `Metadata` (timestamps) is dropped.
-/
namespace Cuke

/-- `event::StepError`; the panic payload is an id into the harness' payload pool. -/
inductive StepErr where
  | notFound
  | ambiguous
  | panic (payload : Nat)
  deriving Repr, DecidableEq, Inhabited

/-- `event::Step<W>` -/
inductive StepRes where
  | started
  | passed
  | skipped
  | failed (e : StepErr)
  deriving Repr, DecidableEq, Inhabited

inductive HookTy where
  | before | after
  deriving Repr, DecidableEq, Inhabited

/-- `event::Hook<W>` -/
inductive HookRes where
  | started | passed
  | failed (payload : Nat)
  deriving Repr, DecidableEq, Inhabited

/-- `event::Scenario<W>`; step identity is its index (background steps: index in
    feature-background ++ rule-background; own steps: index in `scenario.steps`). -/
inductive ScenEv where
  | started
  | hook (t : HookTy) (r : HookRes)
  | bg (i : Nat) (r : StepRes)
  | step (i : Nat) (r : StepRes)
  | log (msg : Nat)
  | finished
  deriving Repr, DecidableEq, Inhabited

/-- `(Source<Feature>, Option<Source<Rule>>, Source<Scenario>)` -/
structure ScenKey where
  feat : Nat
  rule : Option Nat
  scen : Nat
  deriving Repr, DecidableEq, Inhabited

/-- `parser::Result<Event<event::Cucumber<W>>>` -/
inductive Ev where
  | started
  | parsingFinished (features rules scenarios steps parserErrors : Nat)
  | parseErr (id : Nat)
  | finished
  | featStarted (f : Nat)
  | featFinished (f : Nat)
  | ruleStarted (f r : Nat)
  | ruleFinished (f r : Nat)
  | scen (k : ScenKey) (ret : Option Retries) (e : ScenEv)
  deriving Repr, DecidableEq, Inhabited

/-! Named classifiers (every branch condition of a model is a named `Bool` function). -/

def StepRes.isSkipped : StepRes → Bool
  | .skipped => true
  | _ => false

def StepRes.isFailed : StepRes → Bool
  | .failed _ => true
  | _ => false

def StepRes.isPassed : StepRes → Bool
  | .passed => true
  | _ => false

def HookRes.isFailed : HookRes → Bool
  | .failed _ => true
  | _ => false

/-- the step result carried by a background/regular step event -/
def ScenEv.stepRes? : ScenEv → Option StepRes
  | .bg _ r => some r
  | .step _ r => some r
  | _ => none

def ScenEv.isStepSkipped (e : ScenEv) : Bool := (e.stepRes?.map StepRes.isSkipped).getD false
def ScenEv.isStepFailed (e : ScenEv) : Bool := (e.stepRes?.map StepRes.isFailed).getD false
def ScenEv.isStepPassed (e : ScenEv) : Bool := (e.stepRes?.map StepRes.isPassed).getD false
def ScenEv.isHookFailed : ScenEv → Bool
  | .hook _ r => r.isFailed
  | _ => false

def Ev.isFinished : Ev → Bool
  | .finished => true
  | _ => false

def Ev.isParseErr : Ev → Bool
  | .parseErr _ => true
  | _ => false

/-- run-Started, ParsingFinished, parser errors -/
def Ev.isRunLevel : Ev → Bool
  | .started => true
  | .parsingFinished .. => true
  | .parseErr _ => true
  | _ => false

def Ev.scenEv? : Ev → Option ScenEv
  | .scen _ _ e => some e
  | _ => none

def Ev.isStepSkipped (e : Ev) : Bool := (e.scenEv?.map ScenEv.isStepSkipped).getD false
def Ev.isStepFailed (e : Ev) : Bool := (e.scenEv?.map ScenEv.isStepFailed).getD false
def Ev.isStepPassed (e : Ev) : Bool := (e.scenEv?.map ScenEv.isStepPassed).getD false
def Ev.isHookFailed (e : Ev) : Bool := (e.scenEv?.map ScenEv.isHookFailed).getD false

/-- What the writers read from the gherkin values behind the `Source`s. -/
structure Catalog where
  featTags : Nat → List String
  ruleTags : Nat → Nat → List String
  scenTags : ScenKey → List String
  /-- `scenario.steps.len()` -/
  nsteps : ScenKey → Nat

end Cuke
