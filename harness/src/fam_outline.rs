//! C16: `outline.expand` — generated `.feature` texts go through the real `gherkin` parser; the parsed
//! AST is the request, the real `Feature::expand_examples` gives the implementation's answer.

use cucumber::feature::Ext as _;
use gherkin::GherkinEnv;

use crate::common::*;

fn show_table(t: Option<&gherkin::Table>) -> String {
    show_opt(t, |t| show_list(&t.rows, |r| show_list(r, |c| hex(c))))
}

fn show_step(s: &gherkin::Step) -> String {
    format!(
        "{} {} {} {} {}",
        hex(&s.value), show_opt(s.docstring.as_ref(), |d| hex(d)), show_table(s.table.as_ref()),
        s.position.line, s.position.col
    )
}

fn show_scen(s: &gherkin::Scenario) -> String {
    format!(
        "{} {} {} {} {} {}",
        hex(&s.name), show_list(&s.tags, |t| hex(t)), show_list(&s.steps, show_step),
        show_list(&s.examples, |e| format!(
            "{} {} {} {}", show_table(e.table.as_ref()), show_list(&e.tags, |t| hex(t)), e.position.line, e.position.col
        )),
        s.position.line, s.position.col
    )
}

fn show_feat(f: &gherkin::Feature) -> String {
    format!(
        "{} {}",
        show_list(&f.scenarios, show_scen),
        show_list(&f.rules, |r| show_list(&r.scenarios, show_scen))
    )
}

const PH: &[&str] = &[
    "<a>", "<b>", "<c>", "<a>", "<b>", "<zz>", "<a b>", "<a", "<>", "<a><b>", "<<a>", "<a<b>", "<b>>", "<ü>",
    "< a>", "<a\u{a0}b>", "<A>", "<a>x<b>", "<yy>",
];
const WORDS: &[&str] = &["cucumbers", "eat", "$1", "x.*y", "left", "ünï", "a>b", "q"];
const VALUES: &[&str] = &["1", "12", "<b>", "$1<a>", ">", "<", "p q", "", "ü", ".*", "<zz>", "a>", "\\d+"];
const COLS: &[&str] = &["a", "b", "c", "ü", "A", "a<b"];

fn gen_text(rng: &mut Rng, p_ph: usize) -> String {
    let n = rng.range(1, 4);
    (0..n)
        .map(|_| if rng.chance(p_ph, 10) { (*rng.pick(PH)).to_owned() } else { (*rng.pick(WORDS)).to_owned() })
        .collect::<Vec<_>>()
        .join(" ")
}

fn gen_scenario(rng: &mut Rng, ind: &str, out: &mut String, id: usize) {
    let outline = rng.chance(4, 5);
    if rng.chance(1, 3) { out.push_str(&format!("{ind}@t{id} @x\n")); }
    let p_ph = if outline { *rng.pick(&[3usize, 6]) } else { 2 };
    out.push_str(&format!("{ind}Scenario{}: s{id} {}\n", if outline { " Outline" } else { "" }, gen_text(rng, p_ph)));
    for k in 0..rng.range(0, 3) {
        let kw = ["Given", "When", "Then", "And"][k % 4];
        out.push_str(&format!("{ind}  {kw} {}\n", gen_text(rng, p_ph)));
        // a doc string, a data table, or — the grammar accepts it — BOTH on one step
        let doc = rng.chance(1, 4);
        if doc {
            out.push_str(&format!("{ind}    \"\"\"\n{ind}    doc {}\n{ind}    \"\"\"\n", gen_text(rng, p_ph)));
        }
        if (doc && rng.chance(1, 3)) || (!doc && rng.chance(1, 5)) {
            for _ in 0..rng.range(1, 2) {
                out.push_str(&format!("{ind}    | {} | {} |\n", gen_text(rng, p_ph).replace('|', ""), rng.pick(WORDS)));
            }
        }
    }
    if outline {
        for _ in 0..rng.range(0, 3) {
            if rng.chance(1, 3) { out.push_str(&format!("{ind}  @e{id} @ex\n")); }
            out.push_str(&format!("{ind}  Examples:\n"));
            if rng.chance(1, 8) { continue; } // no table at all
            let ncol = rng.range(1, 3);
            let mut cols: Vec<&str> = (0..ncol).map(|_| *rng.pick(COLS)).collect();
            if rng.chance(1, 2) { cols = vec!["a", "b", "c"][..ncol].to_vec(); }
            out.push_str(&format!("{ind}    | {} |\n", cols.join(" | ")));
            for _ in 0..rng.range(0, 3) {
                let vals: Vec<&str> = (0..ncol).map(|_| *rng.pick(VALUES)).collect();
                out.push_str(&format!("{ind}    | {} |\n", vals.join(" | ")));
            }
            if rng.chance(1, 4) { out.push('\n'); }
        }
    }
    out.push('\n');
}

pub fn gen_expand(rng: &mut Rng, idx: usize) -> Case {
    let _ = idx;
    let mut text = String::from("Feature: f\n\n");
    if rng.chance(1, 4) { text.push_str("  Background:\n    Given bg <a>\n\n"); }
    let mut id = 0;
    for _ in 0..rng.range(0, 3) { id += 1; gen_scenario(rng, "  ", &mut text, id); }
    for r in 0..rng.range(0, 2) {
        text.push_str(&format!("  Rule: r{r}\n\n"));
        for _ in 0..rng.range(0, 2) { id += 1; gen_scenario(rng, "    ", &mut text, id); }
    }
    let parsed = match gherkin::Feature::parse(&text, GherkinEnv::default()) {
        Ok(f) => f,
        Err(e) => {
            // the generator produced something gherkin rejects: not a case for the expansion
            return Case { req: "harness.ended".into(), imp: "ok".into(), class: format!("unparsable:{}", e.to_string().chars().take(20).collect::<String>()), nontrivial: false };
        }
    };
    let req = format!("outline.expand {}", show_feat(&parsed));
    let n_out = parsed.scenarios.iter().chain(parsed.rules.iter().flat_map(|r| &r.scenarios)).filter(|s| !s.examples.is_empty()).count();
    let imp = match parsed.clone().expand_examples() {
        Ok(f) => format!("ok {}", show_feat(&f)),
        Err(e) => format!("err {} {} {}", hex(&e.name), e.pos.line, e.pos.col),
    };
    let class = format!("{}{}", if imp.starts_with("ok") { "ok" } else { "err" }, match n_out { 0 => "/no-outline", 1 => "/1", _ => "/many" });
    Case { req, imp, class, nontrivial: n_out > 0 }
}
