#!/usr/bin/env python3
"""import_seed.py <prop> <n> <caught-by csv> [note] [srcdir]  — copies /tmp/wt/<prop>/SEED/<n> into /verif/seeded/<prop>-<n>/"""
import sys, os, json, shutil
prop, n, caught = sys.argv[1], sys.argv[2], sys.argv[3]
note = sys.argv[4] if len(sys.argv) > 4 else ""
src = sys.argv[5] if len(sys.argv) > 5 else f"/tmp/wt/{prop}/SEED/{n}"
dst = f"/verif/seeded/{prop}-{n}"
os.makedirs(dst, exist_ok=True)
for f in ("patch.diff", "demo.rs"):
    shutil.copy(os.path.join(src, f), os.path.join(dst, f))
meta = json.load(open(os.path.join(src, "meta.json")))
conf = open(os.path.join(src, "confirm_result.txt")).read().strip() if os.path.exists(os.path.join(src, "confirm_result.txt")) else "not confirmed"
meta["confirmed_by_me"] = {
    "how": "tools/confirm_seed.sh in a scratch worktree: demo on clean tree, demo with patch, full `cargo test --workspace --no-fail-fast --offline` with patch",
    "result": conf,
}
meta["checks_that_catch_it"] = [c for c in caught.split(",") if c]
meta["how_run_against_checks"] = "tools/run_seed.sh <patch> <props>: git -C /repo apply, ./check <prop> --tier quick, git -C /repo checkout -- ."
if note:
    meta["note"] = note
json.dump(meta, open(os.path.join(dst, "meta.json"), "w"), indent=1)
print("imported", dst, meta["checks_that_catch_it"])
