import Cuke.Model.Wire
import Cuke.Model.Tag
import Cuke.Props.C15
import Cuke.Model.RetryOpts
import Cuke.Props.C18
import Cuke.Model.StepMatch
import Cuke.Props.C17
