import Cuke.Driver.Pipe
import Cuke.Model.Exit
/-! `exit.run <wexpr> <catalog> <events>`: the whole of `Cucumber::run_and_exit` for a pipeline fed the run's
    events: everything that reached the leaves, then `exit 0` or `exit 1 <hex panic message>`. -/
namespace Cuke.Driver
open Cuke Cuke.Wire

def handleExitRun : Toks → Option String :=
  fun ts => runAll (do
    let w ← wP 32
    let cat ← catP
    let evs ← list evP
    let r := runW cat.toCatalog w evs
    let out := showList showOut r.2
    let ex := match exitOutcome (execFailed w r.1) (statsOf w r.1) with
      | none => "exit 0"
      | some m => s!"exit 1 {encodeStr m}"
    pure s!"{out} || {ex}") ts

end Cuke.Driver
