//! Abstract events (`AEv`, mirror of the Lean `Ev`), catalogs with real
//! `gherkin` values behind `Source`s, conversion abstract <-> real, wire encoding.

use std::{collections::HashMap, path::PathBuf, sync::Arc};

use cucumber::{
    event::{self, Cucumber, Retries, Source},
    feature::ExpandExamplesError,
    parser, step, Event,
};
use gherkin::{LineCol, StepType};
use regex::Regex;

use crate::common::*;

#[derive(Debug, Default)]
pub struct PW {
    pub n: usize,
}
impl cucumber::World for PW {
    type Error = std::convert::Infallible;
    async fn new() -> Result<Self, Self::Error> {
        Ok(Self::default())
    }
}

pub type REv = parser::Result<Event<Cucumber<PW>>>;

thread_local! {
    /// `realize` ends `Log` messages with a newline
    pub static LOG_NEWLINE: std::cell::Cell<bool> = const { std::cell::Cell::new(false) };
}

thread_local! {
    /// `realize` attaches a World to Failed step / hook events (what a reporter prints of it is display, not a fact)
    pub static WITH_WORLD: std::cell::Cell<bool> = const { std::cell::Cell::new(false) };
}

#[derive(Clone, Copy, Debug, PartialEq, Eq, Hash, PartialOrd, Ord)]
pub struct Key {
    pub feat: usize,
    pub rule: Option<usize>,
    pub scen: usize,
}

#[derive(Clone, Debug, PartialEq, Eq)]
pub enum AErr {
    NotFound,
    Ambiguous,
    Panic(usize),
}

#[derive(Clone, Debug, PartialEq, Eq)]
pub enum ARes {
    Started,
    Passed,
    Skipped,
    Failed(AErr),
}

#[derive(Clone, Debug, PartialEq, Eq)]
pub enum AHook {
    Started,
    Passed,
    Failed(usize),
}

#[derive(Clone, Debug, PartialEq, Eq)]
pub enum ASc {
    Started,
    Hook(bool /* before */, AHook),
    Bg(usize, ARes),
    Step(usize, ARes),
    Log(usize),
    Finished,
}

#[derive(Clone, Debug, PartialEq, Eq)]
pub enum AEv {
    Started,
    ParsingFinished(usize, usize, usize, usize, usize),
    ParseErr(usize),
    Finished,
    FeatStarted(usize),
    FeatFinished(usize),
    RuleStarted(usize, usize),
    RuleFinished(usize, usize),
    Scen(Key, Option<(usize, usize)>, ASc),
}

pub fn show_key(k: &Key) -> String {
    format!("{} {} {}", k.feat, show_opt(k.rule.as_ref(), |r| r.to_string()), k.scen)
}

pub fn show_res(r: &ARes) -> String {
    match r {
        ARes::Started => "st".into(),
        ARes::Passed => "ok".into(),
        ARes::Skipped => "skip".into(),
        ARes::Failed(AErr::NotFound) => "fail nf".into(),
        ARes::Failed(AErr::Ambiguous) => "fail amb".into(),
        ARes::Failed(AErr::Panic(p)) => format!("fail pan {p}"),
    }
}

pub fn show_asc(e: &ASc) -> String {
    match e {
        ASc::Started => "st".into(),
        ASc::Finished => "fin".into(),
        ASc::Log(m) => format!("log {m}"),
        ASc::Hook(b, r) => format!(
            "hk {} {}",
            if *b { "b" } else { "a" },
            match r {
                AHook::Started => "st".to_owned(),
                AHook::Passed => "ok".to_owned(),
                AHook::Failed(p) => format!("fail {p}"),
            }
        ),
        ASc::Bg(i, r) => format!("bg {i} {}", show_res(r)),
        ASc::Step(i, r) => format!("step {i} {}", show_res(r)),
    }
}

pub fn show_aev(e: &AEv) -> String {
    match e {
        AEv::Started => "S".into(),
        AEv::Finished => "X".into(),
        AEv::ParsingFinished(f, r, s, st, pe) => format!("PF {f} {r} {s} {st} {pe}"),
        AEv::ParseErr(i) => format!("PE {i}"),
        AEv::FeatStarted(f) => format!("F+ {f}"),
        AEv::FeatFinished(f) => format!("F- {f}"),
        AEv::RuleStarted(f, r) => format!("R+ {f} {r}"),
        AEv::RuleFinished(f, r) => format!("R- {f} {r}"),
        AEv::Scen(k, ret, e) => format!(
            "A {} {} {}",
            show_key(k),
            show_opt(ret.as_ref(), |(c, l)| format!("{c} {l}")),
            show_asc(e)
        ),
    }
}

// ---------------------------------------------------------------------------
// Catalog: real gherkin values behind `Source`s.

pub const BG_LINE: usize = 100_000;

pub struct CatScen {
    pub key: Key,
    pub spec: ScenSpec,
    pub src: Source<gherkin::Scenario>,
}

pub struct CatRule {
    pub id: usize,
    pub spec: RuleSpec,
    pub src: Source<gherkin::Rule>,
}

pub struct CatFeat {
    pub id: usize,
    pub spec: FeatSpec,
    pub src: Source<gherkin::Feature>,
    pub rules: Vec<CatRule>,
}

pub struct Cat {
    pub feats: Vec<CatFeat>,
    pub scens: Vec<CatScen>,
    /// pointer -> id
    feat_ptr: HashMap<usize, usize>,
    rule_ptr: HashMap<usize, usize>,
    scen_ptr: HashMap<usize, usize>,
    /// panic payload pool
    pub payloads: Vec<String>,
    /// every event realized so far, by serial number (= its timestamp)
    pub sent: std::cell::RefCell<Vec<AEv>>,
}

fn ptr<T>(s: &Source<T>) -> usize {
    let r: &T = s;
    std::ptr::from_ref(r) as usize
}

impl Cat {
    pub fn new(specs: &[FeatSpec]) -> Self {
        let mut c = Cat {
            feats: vec![],
            scens: vec![],
            feat_ptr: HashMap::new(),
            rule_ptr: HashMap::new(),
            scen_ptr: HashMap::new(),
            payloads: vec!["boom".into(), "<&>\"'".into(), "ünï".into(), String::new()],
            sent: std::cell::RefCell::default(),
        };
        for fs in specs {
            let f = mk_feat(fs);
            let fsrc = Source::new(f.clone());
            c.feat_ptr.insert(ptr(&fsrc), fs.id);
            for (s, gs) in fs.scens.iter().zip(&f.scenarios) {
                let src = Source::new(gs.clone());
                c.scen_ptr.insert(ptr(&src), s.id);
                c.scens.push(CatScen {
                    key: Key { feat: fs.id, rule: None, scen: s.id },
                    spec: s.clone(),
                    src,
                });
            }
            let mut rules = vec![];
            for (r, gr) in fs.rules.iter().zip(&f.rules) {
                let rsrc = Source::new(gr.clone());
                c.rule_ptr.insert(ptr(&rsrc), r.id);
                for (s, gs) in r.scens.iter().zip(&gr.scenarios) {
                    let src = Source::new(gs.clone());
                    c.scen_ptr.insert(ptr(&src), s.id);
                    c.scens.push(CatScen {
                        key: Key { feat: fs.id, rule: Some(r.id), scen: s.id },
                        spec: s.clone(),
                        src,
                    });
                }
                rules.push(CatRule { id: r.id, spec: r.clone(), src: rsrc });
            }
            c.feats.push(CatFeat { id: fs.id, spec: fs.clone(), src: fsrc, rules });
        }
        c
    }

    pub fn feat(&self, id: usize) -> &CatFeat {
        self.feats.iter().find(|f| f.id == id).expect("feat id")
    }
    pub fn rule(&self, f: usize, r: usize) -> &CatRule {
        self.feat(f).rules.iter().find(|x| x.id == r).expect("rule id")
    }
    pub fn scen(&self, k: &Key) -> &CatScen {
        self.scens.iter().find(|s| s.key == *k).expect("scen key")
    }

    /// wire form of the catalog
    pub fn show(&self) -> String {
        let tl = |v: &Vec<String>| show_list(v, |t| hex(t));
        let feats = show_list(&self.feats, |f| {
            format!(
                "{} {} {}",
                f.id,
                tl(&f.spec.tags),
                show_list(&f.rules, |r| format!("{} {}", r.id, tl(&r.spec.tags)))
            )
        });
        let scens = show_list(&self.scens, |s| {
            format!("{} {} {}", show_key(&s.key), tl(&s.spec.tags), s.spec.steps.len())
        });
        format!("{feats} {scens}")
    }

    fn step_src(&self, k: &Key, bg: bool, i: usize) -> Source<gherkin::Step> {
        let sc = self.scen(k);
        if !bg {
            if let Some(s) = sc.src.steps.get(i) {
                return Source::new(s.clone());
            }
        }
        // background step (or an index outside the scenario): a step whose line encodes (bg, i)
        let mut s = mk_step(&StepSpec { ty: StepType::Given, value: format!("bg {i}") }, 0);
        s.position = LineCol { line: if bg { BG_LINE + i } else { 200_000 + i }, col: 5 };
        Source::new(s)
    }

    pub fn mk_parse_err(&self, id: usize) -> parser::Error {
        parser::Error::ExampleExpansion(Arc::new(ExpandExamplesError {
            pos: LineCol { line: id, col: 1 },
            name: format!("e{id}"),
            path: Some(PathBuf::from(format!("/p/{id}.feature"))),
        }))
    }

    /// abstract -> real
    pub fn realize(&self, e: &AEv) -> REv {
        let ev = match e {
            AEv::ParseErr(i) => return Err(self.mk_parse_err(*i)),
            AEv::Started => Cucumber::Started,
            AEv::Finished => Cucumber::Finished,
            AEv::ParsingFinished(f, r, s, st, pe) => Cucumber::ParsingFinished {
                features: *f,
                rules: *r,
                scenarios: *s,
                steps: *st,
                parser_errors: *pe,
            },
            AEv::FeatStarted(f) => Cucumber::feature_started(self.feat(*f).src.clone()),
            AEv::FeatFinished(f) => Cucumber::feature_finished(self.feat(*f).src.clone()),
            AEv::RuleStarted(f, r) => {
                Cucumber::rule_started(self.feat(*f).src.clone(), self.rule(*f, *r).src.clone())
            }
            AEv::RuleFinished(f, r) => {
                Cucumber::rule_finished(self.feat(*f).src.clone(), self.rule(*f, *r).src.clone())
            }
            AEv::Scen(k, ret, se) => {
                // capture locations as `Collection::find` would hand them over: none, flat groups, or NESTED
                // groups (an inner group ending before the outer one), read against the step's own text
                let (bg_i, st_text) = match se {
                    ASc::Bg(i, _) => (*i, self.step_src(k, true, *i).value.clone()),
                    ASc::Step(i, _) => (*i, self.step_src(k, false, *i).value.clone()),
                    _ => (0, String::new()),
                };
                let caps = || {
                    let re = Regex::new([r"", r"^(\w+) (\d+)$", r"^((\w+) (\d+))$"][bg_i % 3]).unwrap();
                    let mut locs = re.capture_locations();
                    let _ = re.captures_read(&mut locs, &st_text);
                    locs
                };
                let step_ev = |r: &ARes| -> event::Step<PW> {
                    match r {
                        ARes::Started => event::Step::Started,
                        ARes::Passed => event::Step::Passed(caps(), None),
                        ARes::Skipped => event::Step::Skipped,
                        ARes::Failed(err) => event::Step::Failed(
                            Some(caps()),
                            None,
                            WITH_WORLD.with(std::cell::Cell::get).then(|| Arc::new(PW { n: 7 })),
                            match err {
                                AErr::NotFound => event::StepError::NotFound,
                                AErr::Ambiguous => event::StepError::AmbiguousMatch(
                                    step::AmbiguousMatchError { possible_matches: vec![] },
                                ),
                                AErr::Panic(p) => {
                                    event::StepError::Panic(Arc::new(self.payloads[*p % self.payloads.len()].clone()))
                                }
                            },
                        ),
                    }
                };
                let sev: event::Scenario<PW> = match se {
                    ASc::Started => event::Scenario::Started,
                    ASc::Finished => event::Scenario::Finished,
                    // (a terminal counts screen lines: there, like real tracing output, a log ends with a newline)
                    ASc::Log(m) => event::Scenario::Log(if LOG_NEWLINE.with(std::cell::Cell::get) { format!("log {m}\n") } else { format!("log {m}") }),
                    ASc::Hook(b, r) => {
                        let ty = if *b { event::HookType::Before } else { event::HookType::After };
                        event::Scenario::Hook(
                            ty,
                            match r {
                                AHook::Started => event::Hook::Started,
                                AHook::Passed => event::Hook::Passed,
                                AHook::Failed(p) => event::Hook::Failed(
                                    WITH_WORLD.with(std::cell::Cell::get).then(|| Arc::new(PW { n: 7 })),
                                    Arc::new(self.payloads[*p % self.payloads.len()].clone()),
                                ),
                            },
                        )
                    }
                    ASc::Bg(i, r) => event::Scenario::Background(self.step_src(k, true, *i), step_ev(r)),
                    ASc::Step(i, r) => event::Scenario::Step(self.step_src(k, false, *i), step_ev(r)),
                };
                let ret = ret.map(|(c, l)| Retries { current: c, left: l });
                Cucumber::scenario(
                    self.feat(k.feat).src.clone(),
                    k.rule.map(|r| self.rule(k.feat, r).src.clone()),
                    self.scen(k).src.clone(),
                    sev.with_retries(ret),
                )
            }
        };
        // metadata: a distinctive timestamp per realized event (serial number), remembered with the event,
        // so that a leaf can check that the event it receives still carries the metadata it was sent with
        let mut out = Event::new(ev);
        let serial = self.sent.borrow().len();
        out.at = std::time::UNIX_EPOCH + std::time::Duration::from_secs(1_000_000 + serial as u64);
        self.sent.borrow_mut().push(e.clone());
        Ok(out)
    }

    /// metadata check used by recording leaves: the event must carry the timestamp of an event that was
    /// realized, and be that event (a Skipped step may have become Failed(NotFound) through `fail_on_skipped`)
    pub fn meta_ok(&self, ev: &REv, a: &AEv) -> bool {
        let Ok(e) = ev else { return true };
        let Ok(d) = e.at.duration_since(std::time::UNIX_EPOCH) else { return false };
        let Some(serial) = d.as_secs().checked_sub(1_000_000) else { return false };
        if d.subsec_nanos() != 0 { return false; }
        let sent = self.sent.borrow();
        let Some(orig) = sent.get(serial as usize) else { return false };
        if orig == a { return true; }
        match (orig, a) {
            (AEv::Scen(k1, r1, ASc::Bg(i1, ARes::Skipped)), AEv::Scen(k2, r2, ASc::Bg(i2, ARes::Failed(AErr::NotFound)))) |
            (AEv::Scen(k1, r1, ASc::Step(i1, ARes::Skipped)), AEv::Scen(k2, r2, ASc::Step(i2, ARes::Failed(AErr::NotFound)))) =>
                k1 == k2 && r1 == r2 && i1 == i2,
            _ => false,
        }
    }

    fn payload_id(&self, info: &event::Info) -> usize {
        let s = info.downcast_ref::<String>().cloned().unwrap_or_default();
        self.payloads.iter().position(|p| *p == s).unwrap_or(usize::MAX)
    }

    /// real -> abstract (independent decoding path used by the recording leaves)
    pub fn abstract_ev(&self, e: &REv) -> AEv {
        let ev = match e {
            Err(parser::Error::ExampleExpansion(x)) => return AEv::ParseErr(x.pos.line),
            Err(parser::Error::Parsing(_)) => return AEv::ParseErr(usize::MAX),
            Ok(ev) => &**ev,
        };
        let fid = |f: &Source<gherkin::Feature>| self.feat_ptr[&ptr(f)];
        let rid = |r: &Source<gherkin::Rule>| self.rule_ptr[&ptr(r)];
        let sid = |s: &Source<gherkin::Scenario>| self.scen_ptr[&ptr(s)];
        let sc = |f: &Source<gherkin::Feature>,
                  r: Option<&Source<gherkin::Rule>>,
                  s: &Source<gherkin::Scenario>,
                  ev: &event::RetryableScenario<PW>| {
            let key = Key { feat: fid(f), rule: r.map(rid), scen: sid(s) };
            let res = |x: &event::Step<PW>| match x {
                event::Step::Started => ARes::Started,
                event::Step::Passed(..) => ARes::Passed,
                event::Step::Skipped => ARes::Skipped,
                event::Step::Failed(_, _, _, err) => ARes::Failed(match err {
                    event::StepError::NotFound => AErr::NotFound,
                    event::StepError::AmbiguousMatch(_) => AErr::Ambiguous,
                    event::StepError::Panic(i) => AErr::Panic(self.payload_id(i)),
                }),
            };
            let step_idx = |st: &Source<gherkin::Step>| -> (bool, usize) {
                let line = st.position.line;
                if line >= 200_000 {
                    (false, line - 200_000)
                } else if line >= BG_LINE {
                    (true, line - BG_LINE)
                } else {
                    // own step: its index is its position in the scenario
                    (false, s.steps.iter().position(|x| x == &**st).unwrap_or(usize::MAX))
                }
            };
            let se = match &ev.event {
                event::Scenario::Started => ASc::Started,
                event::Scenario::Finished => ASc::Finished,
                event::Scenario::Log(m) => ASc::Log(m.trim_start_matches("log ").parse().unwrap_or(usize::MAX)),
                event::Scenario::Hook(ty, h) => ASc::Hook(
                    matches!(ty, event::HookType::Before),
                    match h {
                        event::Hook::Started => AHook::Started,
                        event::Hook::Passed => AHook::Passed,
                        event::Hook::Failed(_, i) => AHook::Failed(self.payload_id(i)),
                    },
                ),
                event::Scenario::Background(st, x) => ASc::Bg(step_idx(st).1, res(x)),
                event::Scenario::Step(st, x) => ASc::Step(step_idx(st).1, res(x)),
            };
            AEv::Scen(key, ev.retries.map(|r| (r.current, r.left)), se)
        };
        match ev {
            Cucumber::Started => AEv::Started,
            Cucumber::Finished => AEv::Finished,
            Cucumber::ParsingFinished { features, rules, scenarios, steps, parser_errors } => {
                AEv::ParsingFinished(*features, *rules, *scenarios, *steps, *parser_errors)
            }
            Cucumber::Feature(f, fe) => match fe {
                event::Feature::Started => AEv::FeatStarted(fid(f)),
                event::Feature::Finished => AEv::FeatFinished(fid(f)),
                event::Feature::Scenario(s, ev) => sc(f, None, s, ev),
                event::Feature::Rule(r, re) => match re {
                    event::Rule::Started => AEv::RuleStarted(fid(f), rid(r)),
                    event::Rule::Finished => AEv::RuleFinished(fid(f), rid(r)),
                    event::Rule::Scenario(s, ev) => sc(f, Some(r), s, ev),
                },
            },
        }
    }
}

// ---------------------------------------------------------------------------
// random catalogs

pub const CTAGS: &[&str] = &["allow.skipped", "a", "b", "serial", "allow.skipped2", "skipped"];

/// like `gen_catalog_specs`, plus (1 in 5) a TWIN: a second feature with exactly the same contents
/// (name, tags, scenarios, positions) but its own identity — `Source` equality is identity, so the
/// writers must keep the two apart
pub fn gen_catalog_specs_twins(rng: &mut Rng, max_feats: usize) -> Vec<FeatSpec> {
    let mut v = gen_catalog_specs(rng, max_feats);
    // steps with IDENTICAL text (different positions): in some features every step of every scenario, and
    // the background steps, read the same — a step is identified by more than its text
    for f in v.iter_mut() {
        if rng.chance(1, 4) {
            for b in &mut f.bg { b.value = "same text".to_owned(); }
            for sc in &mut f.scens { for st in &mut sc.steps { st.value = "same text".to_owned(); } }
            for r in &mut f.rules {
                for b in &mut r.bg { b.value = "same text".to_owned(); }
                for sc in &mut r.scens { for st in &mut sc.steps { st.value = "same text".to_owned(); } }
            }
        }
    }
    if rng.chance(1, 5) {
        let i = rng.below(v.len());
        let mut twin = v[i].clone();
        twin.id = v.iter().map(|f| f.id).max().unwrap_or(0) + 1000;
        v.push(twin);
    }
    v
}

pub fn gen_catalog_specs(rng: &mut Rng, max_feats: usize) -> Vec<FeatSpec> {
    let mut next = 0usize;
    let mut fresh = || {
        next += 1;
        next
    };
    let st = |v: String| StepSpec { ty: StepType::Given, value: v };
    let nf = rng.range(1, max_feats);
    let mut out = vec![];
    for _ in 0..nf {
        let fid = fresh();
        let mut scens = |rng: &mut Rng, fresh: &mut dyn FnMut() -> usize, max: usize| {
            (0..rng.below(max + 1))
                .map(|_| {
                    let id = fresh();
                    let n = rng.below(4);
                    ScenSpec {
                        id,
                        name: format!("s-{id}"),
                        tags: gen_tags(rng, CTAGS, 2),
                        steps: (0..n).map(|i| st(format!("step {i}"))).collect(),
                        line: 20 * id,
                    }
                })
                .collect::<Vec<_>>()
        };
        let top = scens(rng, &mut fresh, 3);
        let rules = (0..rng.below(3))
            .map(|_| {
                let rid = fresh();
                RuleSpec {
                    id: rid,
                    name: format!("r-{rid}"),
                    tags: gen_tags(rng, CTAGS, 1),
                    bg: (0..rng.below(2)).map(|i| st(format!("rbg {i}"))).collect(),
                    scens: scens(rng, &mut fresh, 2),
                }
            })
            .collect();
        out.push(FeatSpec {
            id: fid,
            name: format!("f-{fid}"),
            path: rng.chance(2, 3).then(|| format!("/feat/f{fid}.feature")),
            tags: gen_tags(rng, CTAGS, 1),
            bg: (0..rng.below(3)).map(|i| st(format!("fbg {i}"))).collect(),
            scens: top,
            rules,
        });
    }
    out
}
